#!/usr/bin/env python3
"""Regenerates the seeded-changes table of DESIGN.md (between the markers) from seeded/*/meta.json."""
import json, os, re
V = os.path.dirname(os.path.dirname(os.path.abspath(__file__)))
rows = []
for d in sorted(os.listdir(os.path.join(V, 'seeded'))):
    mp = os.path.join(V, 'seeded', d, 'meta.json')
    if not os.path.exists(mp):
        continue
    m = json.load(open(mp))
    s = m.get('summary', '').replace('|', '/').replace('\n', ' ')
    s = s if len(s) <= 170 else s[:170] + '…'
    rows.append('| `%s` | %s | %s | %s | %s |' % (d, m['property'], m.get('round', 1), s, m.get('history', '').replace('|', '/')))
table = '| seeded change | property | round | what it does | caught by `./check <property>` (quick tier) |\n|---|---|---|---|---|\n' + '\n'.join(rows)
p = os.path.join(V, 'DESIGN.md')
s = open(p).read()
a, b = '<!-- seeded-table-begin -->', '<!-- seeded-table-end -->'
if a in s:
    s = s[:s.index(a) + len(a)] + '\n' + table + '\n' + s[s.index(b):]
open(p, 'w').write(s)
print(len(rows), 'rows')
