// consts: inventory of the constants of the non-test code of the lib module that the Coq model has to agree with:
// every package-level string constant (name -> value, as the type checker evaluates it) and every non-zero floating-point
// literal (package-level declarations and function bodies), with its exact decimal value as a fraction and the binary64
// the compiler rounds it to (hexadecimal notation). Output: JSON on stdout. Usage: consts <lib dir>
package main

import (
	"encoding/json"
	"fmt"
	"go/ast"
	"go/constant"
	"go/token"
	"go/types"
	"os"
	"sort"
	"strconv"
	"strings"

	"golang.org/x/tools/go/packages"
)

type strConst struct {
	File  string `json:"file"`
	Name  string `json:"name"`
	Value string `json:"value"`
}

type floatLit struct {
	File  string `json:"file"`
	Where string `json:"where"` // enclosing function, or <package>.<declared name>
	Text  string `json:"text"`  // the literal as written, with a leading '-' when it is the operand of a unary minus
	Num   string `json:"num"`
	Den   string `json:"den"`
	Hex   string `json:"hex"`
}

func main() {
	dir := os.Args[1]
	cfg := &packages.Config{Mode: packages.NeedName | packages.NeedFiles | packages.NeedSyntax | packages.NeedTypes | packages.NeedTypesInfo | packages.NeedImports | packages.NeedDeps, Dir: dir, Tests: false}
	pkgs, err := packages.Load(cfg, "./...")
	if err != nil {
		fmt.Fprintln(os.Stderr, err)
		os.Exit(1)
	}
	if packages.PrintErrors(pkgs) > 0 {
		os.Exit(1)
	}
	var strs []strConst
	var flts []floatLit
	for _, p := range pkgs {
		for _, f := range p.Syntax {
			fname := p.Fset.Position(f.Pos()).Filename
			if strings.HasSuffix(fname, "_test.go") {
				continue
			}
			rel := fname
			if i := strings.Index(fname, "/lib/"); i >= 0 {
				rel = fname[i+5:]
			}
			collect := func(root ast.Node, where string) {
				neg := map[*ast.BasicLit]bool{}
				ast.Inspect(root, func(n ast.Node) bool {
					if u, ok := n.(*ast.UnaryExpr); ok && u.Op == token.SUB {
						if bl, ok := u.X.(*ast.BasicLit); ok {
							neg[bl] = true
						}
					}
					bl, ok := n.(*ast.BasicLit)
					if !ok || bl.Kind != token.FLOAT {
						return true
					}
					v := constant.MakeFromLiteral(bl.Value, token.FLOAT, 0)
					if constant.Sign(v) == 0 {
						return true
					}
					text := bl.Value
					if neg[bl] {
						v = constant.UnaryOp(token.SUB, v, 0)
						text = "-" + text
					}
					fv, _ := constant.Float64Val(v)
					flts = append(flts, floatLit{rel, where, text, constant.Num(v).ExactString(), constant.Denom(v).ExactString(), strconv.FormatFloat(fv, 'x', -1, 64)})
					return true
				})
			}
			for _, d := range f.Decls {
				switch x := d.(type) {
				case *ast.FuncDecl:
					name := x.Name.Name
					if x.Recv != nil && len(x.Recv.List) > 0 {
						name = types.ExprString(x.Recv.List[0].Type) + "." + name
					}
					if x.Body != nil {
						collect(x.Body, name)
					}
				case *ast.GenDecl:
					for _, s := range x.Specs {
						vs, ok := s.(*ast.ValueSpec)
						if !ok {
							continue
						}
						for i, id := range vs.Names {
							if x.Tok == token.CONST {
								if c, ok := p.TypesInfo.Defs[id].(*types.Const); ok && c.Val().Kind() == constant.String {
									strs = append(strs, strConst{rel, id.Name, constant.StringVal(c.Val())})
								}
							}
							if i < len(vs.Values) {
								collect(vs.Values[i], "<package>."+id.Name)
							}
						}
					}
				}
			}
		}
	}
	sort.Slice(strs, func(i, j int) bool {
		if strs[i].File != strs[j].File {
			return strs[i].File < strs[j].File
		}
		return strs[i].Name < strs[j].Name
	})
	sort.SliceStable(flts, func(i, j int) bool {
		if flts[i].File != flts[j].File {
			return flts[i].File < flts[j].File
		}
		if flts[i].Where != flts[j].Where {
			return flts[i].Where < flts[j].Where
		}
		return flts[i].Text < flts[j].Text
	})
	json.NewEncoder(os.Stdout).Encode(map[string]interface{}{"strings": strs, "floats": flts})
}
