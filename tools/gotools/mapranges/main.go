// mapranges: inventory of `range` statements over map-typed expressions and of calls to
// time.* / package-level math/rand functions in the non-test code of the lib module.
// Output: JSON on stdout. Usage: mapranges <lib dir>
package main

import (
	"crypto/sha1"
	"encoding/hex"
	"encoding/json"
	"fmt"
	"go/ast"
	"go/types"
	"os"
	"sort"
	"strings"

	"golang.org/x/tools/go/packages"
)

type site struct {
	Pkg      string `json:"pkg"`
	Func     string `json:"func"`
	Ordinal  int    `json:"ordinal"`
	File     string `json:"file"`
	Line     int    `json:"line"`
	Expr     string `json:"expr"`
	KeyOnly  bool   `json:"keyOnly"`
	LoopFP   string `json:"loopFP"` // fingerprint of the range statement with the function's own identifiers renamed by first occurrence
	FuncFP   string `json:"funcFP"` // the same for the whole enclosing function body (its name, file and receiver name do not enter)
}

// fingerprint prints the shape of a syntax tree: node kinds, operators, literals, and identifiers - those declared inside the
// enclosing function (parameters, receiver, locals) as L0, L1, ... in order of first occurrence, all others (package-level
// functions, types, fields, methods, imported names) by name. Renaming a function, moving it to another file or renaming its
// locals leaves the fingerprint unchanged; any change of what the code does changes it.
func fingerprint(info *types.Info, fd *ast.FuncDecl, root ast.Node) string {
	var b strings.Builder
	local := map[types.Object]int{}
	ast.Inspect(root, func(n ast.Node) bool {
		if n == nil {
			b.WriteString(")")
			return true
		}
		fmt.Fprintf(&b, "(%T", n)
		switch x := n.(type) {
		case *ast.Ident:
			obj := info.ObjectOf(x)
			if obj != nil && obj.Pos() >= fd.Pos() && obj.Pos() <= fd.End() {
				if _, ok := local[obj]; !ok {
					local[obj] = len(local)
				}
				fmt.Fprintf(&b, " L%d", local[obj])
			} else {
				fmt.Fprintf(&b, " %s", x.Name)
			}
		case *ast.BasicLit:
			fmt.Fprintf(&b, " %s", x.Value)
		case *ast.BinaryExpr:
			fmt.Fprintf(&b, " %s", x.Op)
		case *ast.UnaryExpr:
			fmt.Fprintf(&b, " %s", x.Op)
		case *ast.AssignStmt:
			fmt.Fprintf(&b, " %s", x.Tok)
		case *ast.IncDecStmt:
			fmt.Fprintf(&b, " %s", x.Tok)
		case *ast.BranchStmt:
			fmt.Fprintf(&b, " %s", x.Tok)
		case *ast.RangeStmt:
			fmt.Fprintf(&b, " %s", x.Tok)
		}
		return true
	})
	sum := sha1.Sum([]byte(b.String()))
	return hex.EncodeToString(sum[:8])
}

type call struct {
	Pkg  string `json:"pkg"`
	Func string `json:"func"`
	Call string `json:"call"`
	File string `json:"file"`
	Line int    `json:"line"`
}

func main() {
	dir := os.Args[1]
	cfg := &packages.Config{Mode: packages.NeedName | packages.NeedFiles | packages.NeedSyntax | packages.NeedTypes | packages.NeedTypesInfo | packages.NeedImports,
		Dir: dir, Tests: false}
	pkgs, err := packages.Load(cfg, "./...")
	if err != nil {
		fmt.Fprintln(os.Stderr, err)
		os.Exit(1)
	}
	var sites []site
	var calls []call
	for _, p := range pkgs {
		if len(p.Errors) > 0 {
			fmt.Fprintln(os.Stderr, p.Errors)
			os.Exit(1)
		}
		for _, f := range p.Syntax {
			fname := p.Fset.Position(f.Pos()).Filename
			if strings.HasSuffix(fname, "_test.go") {
				continue
			}
			rel := fname
			if i := strings.Index(fname, "/lib/"); i >= 0 {
				rel = fname[i+1:]
			}
			for _, d := range f.Decls {
				fd, ok := d.(*ast.FuncDecl)
				if !ok || fd.Body == nil {
					continue
				}
				name := fd.Name.Name
				if fd.Recv != nil && len(fd.Recv.List) > 0 {
					name = types.ExprString(fd.Recv.List[0].Type) + "." + name
				}
				ord := 0
				ast.Inspect(fd.Body, func(n ast.Node) bool {
					switch x := n.(type) {
					case *ast.RangeStmt:
						t := p.TypesInfo.TypeOf(x.X)
						if t != nil {
							if _, ok := t.Underlying().(*types.Map); ok {
								sites = append(sites, site{Pkg: p.PkgPath, Func: name, Ordinal: ord, File: rel,
									Line: p.Fset.Position(x.Pos()).Line, Expr: types.ExprString(x.X), KeyOnly: x.Value == nil,
									LoopFP: fingerprint(p.TypesInfo, fd, x), FuncFP: fingerprint(p.TypesInfo, fd, fd.Body)})
								ord++
							} else if pt, ok := t.Underlying().(*types.Pointer); ok {
								if _, ok := pt.Elem().Underlying().(*types.Map); ok {
									sites = append(sites, site{Pkg: p.PkgPath, Func: name, Ordinal: ord, File: rel,
										Line: p.Fset.Position(x.Pos()).Line, Expr: types.ExprString(x.X), KeyOnly: x.Value == nil,
										LoopFP: fingerprint(p.TypesInfo, fd, x), FuncFP: fingerprint(p.TypesInfo, fd, fd.Body)})
									ord++
								}
							}
						}
					case *ast.CallExpr:
						if sel, ok := x.Fun.(*ast.SelectorExpr); ok {
							if id, ok := sel.X.(*ast.Ident); ok {
								if pn, ok := p.TypesInfo.Uses[id].(*types.PkgName); ok {
									path := pn.Imported().Path()
									if path == "time" || (path == "math/rand" && sel.Sel.Name != "New" && sel.Sel.Name != "NewSource") {
										calls = append(calls, call{Pkg: p.PkgPath, Func: name, Call: path + "." + sel.Sel.Name, File: rel,
											Line: p.Fset.Position(x.Pos()).Line})
									}
								}
							}
						}
					}
					return true
				})
			}
		}
	}
	sort.Slice(sites, func(i, j int) bool {
		if sites[i].File != sites[j].File {
			return sites[i].File < sites[j].File
		}
		return sites[i].Line < sites[j].Line
	})
	json.NewEncoder(os.Stdout).Encode(map[string]interface{}{"sites": sites, "clockOrGlobalRand": calls})
}
