// effects: a syntactic summary of writes to state that outlives a request, for lib and httpClient:
//   - assignments (also op-assign, inc/dec, map/slice element stores, append back) whose root is a
//     package-level variable, outside init functions and outside package-level initialisers;
//   - assignments through a method receiver (`r.f = ..`, `r.f[i] = ..`, `*r = ..`), listed with the
//     receiver's type, so that the types that are process-wide singletons can be told apart from
//     per-request objects;
//   - `go` statements and uses of sync/atomic (informational).
// Roots that cannot be resolved syntactically (writes through a local pointer alias) are NOT flagged:
// the dynamic race run covers them. Output: JSON. Usage: effects <dir> [<dir>...]
package main

import (
	"encoding/json"
	"fmt"
	"go/ast"
	"go/token"
	"go/types"
	"os"
	"sort"
	"strings"

	"golang.org/x/tools/go/packages"
)

type factory struct {
	Pkg     string `json:"pkg"`
	Func    string `json:"func"`
	Returns string `json:"returns"` // "fresh" | "receiver(fields=N)" | "other:<expr>"
	File    string `json:"file"`
	Line    int    `json:"line"`
}

type write struct {
	Kind string `json:"kind"` // "global" | "receiver"
	Pkg  string `json:"pkg"`
	Func string `json:"func"`
	Root string `json:"root"` // variable name or receiver type
	Path string `json:"path"` // the assigned expression
	File string `json:"file"`
	Line int    `json:"line"`
}

func rootIdent(e ast.Expr) *ast.Ident {
	for {
		switch x := e.(type) {
		case *ast.Ident:
			return x
		case *ast.SelectorExpr:
			e = x.X
		case *ast.IndexExpr:
			e = x.X
		case *ast.StarExpr:
			e = x.X
		case *ast.ParenExpr:
			e = x.X
		case *ast.SliceExpr:
			e = x.X
		default:
			return nil
		}
	}
}

func main() {
	var writes []write
	var gos []string
	var factories []factory
	for _, dir := range os.Args[1:] {
		cfg := &packages.Config{Mode: packages.NeedName | packages.NeedFiles | packages.NeedSyntax | packages.NeedTypes | packages.NeedTypesInfo,
			Dir: dir, Tests: false}
		pkgs, err := packages.Load(cfg, "./...")
		if err != nil {
			fmt.Fprintln(os.Stderr, err)
			os.Exit(1)
		}
		for _, p := range pkgs {
			if len(p.Errors) > 0 {
				fmt.Fprintln(os.Stderr, p.Errors)
				os.Exit(1)
			}
			for _, f := range p.Syntax {
				fname := p.Fset.Position(f.Pos()).Filename
				if strings.HasSuffix(fname, "_test.go") || strings.Contains(fname, "/testUtils/") || strings.Contains(fname, "zz_verif") {
					continue
				}
				rel := fname
				if i := strings.Index(fname, "/lib/"); i >= 0 {
					rel = fname[i+1:]
				} else if i := strings.Index(fname, "/httpClient/"); i >= 0 {
					rel = fname[i+1:]
				}
				for _, d := range f.Decls {
					fd, ok := d.(*ast.FuncDecl)
					if !ok || fd.Body == nil || (fd.Recv == nil && fd.Name.Name == "init") {
						continue
					}
					name := fd.Name.Name
					var recvObj types.Object
					recvType := ""
					if fd.Recv != nil && len(fd.Recv.List) > 0 {
						recvType = types.ExprString(fd.Recv.List[0].Type)
						name = recvType + "." + name
						if len(fd.Recv.List[0].Names) > 0 {
							recvObj = p.TypesInfo.Defs[fd.Recv.List[0].Names[0]]
						}
					}
					record := func(lhs ast.Expr, pos token.Pos) {
						id := rootIdent(lhs)
						if id == nil {
							return
						}
						obj := p.TypesInfo.Uses[id]
						if obj == nil {
							obj = p.TypesInfo.Defs[id]
						}
						v, ok := obj.(*types.Var)
						if !ok {
							return
						}
						if _, plain := lhs.(*ast.Ident); plain && (recvObj != nil && obj == recvObj) {
							return // rebinding the receiver variable itself
						}
						if v.Parent() != nil && v.Pkg() != nil && v.Parent() == v.Pkg().Scope() {
							writes = append(writes, write{"global", p.PkgPath, name, v.Name(), types.ExprString(lhs), rel, p.Fset.Position(pos).Line})
						} else if recvObj != nil && obj == recvObj {
							if _, isPtr := v.Type().(*types.Pointer); isPtr {
								writes = append(writes, write{"receiver", p.PkgPath, name, strings.TrimPrefix(recvType, "*"), types.ExprString(lhs), rel, p.Fset.Position(pos).Line})
							}
						}
					}
					if fd.Name.Name == "BlankParams" || fd.Name.Name == "NewProvider" {
						ast.Inspect(fd.Body, func(n ast.Node) bool {
							ret, ok := n.(*ast.ReturnStmt)
							if !ok || len(ret.Results) != 1 {
								return true
							}
							kind := "other:" + types.ExprString(ret.Results[0])
							switch r := ret.Results[0].(type) {
							case *ast.UnaryExpr:
								if _, ok := r.X.(*ast.CompositeLit); ok && r.Op == token.AND {
									kind = "fresh"
								}
							case *ast.CompositeLit:
								kind = "fresh"
							case *ast.Ident:
								if recvObj != nil && p.TypesInfo.Uses[r] == recvObj {
									n := -1
									t := recvObj.Type()
									if pt, ok := t.(*types.Pointer); ok {
										t = pt.Elem()
									}
									if st, ok := t.Underlying().(*types.Struct); ok {
										n = st.NumFields()
									}
									kind = fmt.Sprintf("receiver(fields=%d)", n)
								}
							}
							factories = append(factories, factory{p.PkgPath, name, kind, rel, p.Fset.Position(ret.Pos()).Line})
							return true
						})
					}
					ast.Inspect(fd.Body, func(n ast.Node) bool {
						switch x := n.(type) {
						case *ast.AssignStmt:
							if x.Tok != token.DEFINE {
								for _, l := range x.Lhs {
									record(l, x.Pos())
								}
							}
						case *ast.IncDecStmt:
							record(x.X, x.Pos())
						case *ast.GoStmt:
							gos = append(gos, fmt.Sprintf("%s:%s", rel, name))
						}
						return true
					})
				}
			}
		}
	}
	sort.Slice(writes, func(i, j int) bool {
		if writes[i].File != writes[j].File {
			return writes[i].File < writes[j].File
		}
		return writes[i].Line < writes[j].Line
	})
	json.NewEncoder(os.Stdout).Encode(map[string]interface{}{"writes": writes, "goStatements": gos, "factories": factories})
}
