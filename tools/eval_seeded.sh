#!/bin/bash
# Confirms a seeded change independently and runs the property's check against it.
# usage: eval_seeded.sh <Cnn> <name> <patch> <demo file> <demo destination relative to repo> <demo cmd (run in repo/lib)>
set -u
PID=$1; NAME=$2; PATCH=$3; DEMO=$4; DST=$5; CMD=$6
export GOFLAGS=-mod=mod GOPROXY=off GOSUMDB=off GOTOOLCHAIN=local
W=/tmp/ver_${PID}_$$
git -C /repo worktree add -q --detach $W HEAD || exit 2
res() { echo "$1" ; }
( cd $W && git apply "$PATCH" ) || { echo "PATCH DOES NOT APPLY"; git -C /repo worktree remove --force $W; exit 2; }
( cd $W/lib && go build ./... && go test -vet=off -count=1 ./... > $W/suite.log 2>&1 ); SUITE=$?
mkdir -p "$(dirname "$W/$DST")"; cp "$DEMO" "$W/$DST"
( cd $W/lib && eval "$CMD" > $W/demo_with.log 2>&1 ); WITH=$?
( cd $W && git apply -R "$PATCH" )
( cd $W/lib && eval "$CMD" > $W/demo_without.log 2>&1 ); WITHOUT=$?
rm -f "$W/$DST"; rmdir "$(dirname "$W/$DST")" 2>/dev/null
( cd $W && git apply "$PATCH" )
echo "suite_with_change=$SUITE demo_with_change=$WITH demo_without_change=$WITHOUT"
cd /verif
# C02 and C10 carry obligations over inventories regenerated from the source: keep the proof step for them
if [ "$PID" = C02 ] || [ "$PID" = C10 ] || [ "${SKIP:-1}" = no ]; then
  VERIF_REPO=$W ./check $PID 2>&1 | grep -v "^KNOWN" | tail -2 > $W/check.log
else
  VERIF_REPO=$W VERIF_SKIP_PROOFS=1 ./check $PID 2>&1 | grep -v "^KNOWN" | tail -2 > $W/check.log
fi
cat $W/check.log
OUT=/verif/seeded/${PID}_${NAME}
if [ $SUITE -eq 0 ] && [ $WITH -ne 0 ] && [ $WITHOUT -eq 0 ]; then
  mkdir -p $OUT && cp "$PATCH" $OUT/patch.diff && cp "$DEMO" $OUT/ && tail -5 $W/demo_with.log > $OUT/demo_with_change.log
  echo "confirmed -> $OUT"
fi
git -C /repo worktree remove --force $W
