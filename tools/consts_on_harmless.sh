#!/bin/bash
# regenerates the constants inventory from every behaviour-preserving rewrite under mutants/harmless and re-checks the two
# constants obligations against it (the harmless runs of the checks themselves skip proof obligations); restores coq/Gen afterwards
cd /verif
OUT=/verif/mutants/harmless/RESULTS_consts.txt; : > $OUT
W=/tmp/hm_consts
for d in mutants/harmless/*.diff; do
  n=$(basename $d .diff)
  git -C /repo worktree add -q --detach $W HEAD && (cd $W && git apply /verif/$d) || { echo "$n: patch failed" >> $OUT; git -C /repo worktree remove --force $W 2>/dev/null; continue; }
  VERIF_REPO=$W python3 tools/gen_consts.py > /dev/null
  (cd coq && make Proofs/ConstAgree.vo Proofs/ConstSitesF.vo > /tmp/hm_consts.log 2>&1) && echo "$n: consts obligations OK" >> $OUT || echo "$n: consts obligations BROKEN" >> $OUT
  git -C /repo worktree remove --force $W
done
git -C /verif checkout -- coq/Gen
python3 tools/gen_consts.py > /dev/null
(cd coq && make Proofs/ConstAgree.vo Proofs/ConstSitesF.vo > /dev/null 2>&1)
echo done >> $OUT
