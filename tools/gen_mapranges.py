#!/usr/bin/env python3
"""Regenerates coq/Gen/MapRanges.v from the current source of $VERIF_REPO/lib (translator: tools/gotools/mapranges)."""
import json, os, subprocess, sys
VERIF = os.path.dirname(os.path.dirname(os.path.abspath(__file__)))
REPO = os.environ.get('VERIF_REPO', '/repo')
binp = os.path.join(VERIF, '.work', 'bin', 'mapranges')
env = dict(os.environ, GOFLAGS='-mod=mod', GOPROXY='off', GOSUMDB='off', GOTOOLCHAIN='local')
src = os.path.join(VERIF, 'tools', 'gotools', 'mapranges', 'main.go')
if not os.path.exists(binp) or os.path.getmtime(binp) < os.path.getmtime(src):
    subprocess.run(['go', 'build', '-o', binp, './mapranges'], cwd=os.path.join(VERIF, 'tools', 'gotools'), env=env, check=True)
p = subprocess.run([binp, os.path.join(REPO, 'lib')], capture_output=True, text=True, env=env)
if p.returncode != 0:
    sys.stderr.write(p.stderr[-2000:]); sys.exit(1)
d = json.loads(p.stdout)
def q(s): return '"' + s.replace('"', '""') + '"'
lines = ['(** GENERATED on every run by tools/gen_mapranges.py from the Go source: every `range` over a map-typed',
         '    expression in the non-test code of lib, and every call to time.* or to package-level math/rand functions. *)',
         'From Coq Require Import List String.', 'Import ListNotations.', 'Local Open Scope string_scope.', '',
         '(* key = file:function#ordinal ; expr = the ranged expression ; fingerprints of the range statement and of the function body *)',
         'Definition map_range_sites : list (string * string * (string * string)) := [']
items = []
for s in d['sites']:
    key = '%s:%s#%d' % (s['file'].replace('lib/', '', 1), s['func'], s['ordinal'])
    items.append('  (%s, %s, (%s, %s))' % (q(key), q(s['expr']), q(s['loopFP']), q(s['funcFP'])))
lines.append(';\n'.join(items))
lines.append('].')
lines.append('')
lines.append('Definition clock_or_global_rand_calls : list string := [%s].' % '; '.join(q('%s:%s %s' % (c['file'], c['func'], c['call'])) for c in (d['clockOrGlobalRand'] or [])))
out = os.path.join(VERIF, 'coq', 'Gen', 'MapRanges.v')
txt = '\n'.join(lines) + '\n'
if not os.path.exists(out) or open(out).read() != txt:
    open(out, 'w').write(txt)
print(json.dumps({'sites': len(d['sites']), 'calls': len(d['clockOrGlobalRand'] or [])}))
