#!/usr/bin/env python3
import sys, os, random, json
sys.path.insert(0,'/verif')
from vlib import core, emit, gen, e2e
from collections import Counter
names=sys.argv[1].split(','); n=int(sys.argv[2]); seed=int(sys.argv[3]) if len(sys.argv)>3 else 5
method=os.environ.get('METHOD')
binary,_=core.build_go(); ok,out=core.coq_make()
if not ok: print(out[-2000:]); sys.exit(1)
pipe=core.Pipe(binary); rnd=random.Random(seed)
reqs=[gen.biased_request(rnd, method=method, names=(None if names==['any'] else names), prob_mix=False) for _ in range(n)]
ress,verd,logs=e2e.run_all(pipe,reqs,'devb')
def tied(r,res): 
    from vlib import props
    return r['preferenceFunction']=='aspectEliminationHeuristic' and props.tied_aspect_weights(r,res)
print('accepted',sum(1 for r in ress if r.get('ok')), 'of', n)
print(Counter((r['preferenceFunction'], v[0]) for r,res,v in zip(reqs,ress,verd) if v[0] and not (v[0]==3 and tied(r,res))))
print('rejected kinds', Counter((r['preferenceFunction'], (res.get('err') or '')[:60]) for r,res in zip(reqs,ress) if not res.get('ok')).most_common(12))
if logs: print(logs[0])
show=int(os.environ.get('SHOW','1')); want=os.environ.get('WANT')
for r,res,v in zip(reqs,ress,verd):
    if v[0] and not (v[0]==3 and tied(r,res)) and (not want or r['preferenceFunction']==want) and show>0:
        show-=1
        print(v, json.dumps(r)[:2500]); print(json.dumps(res.get('resp') or res.get('err'))[:int(os.environ.get('RESP','800'))])
        if os.environ.get('MODEL'):
            print(core.eval_term('devx', 'biased_state %s %s' % (e2e.env_for(pipe, r, 48, e2e.exp_table(pipe, e2e.exp_args(r,res))), emit.crequest(r)))[:int(os.environ.get('MODEL'))])
pipe.close()
