#!/usr/bin/env python3
"""development helper: N random requests of a method through code and model with judge_all"""
import sys, os, random, json
sys.path.insert(0, os.path.dirname(os.path.dirname(os.path.abspath(__file__))))
from vlib import core, emit, gen, e2e
from collections import Counter
method = sys.argv[1]; n = int(sys.argv[2]); seed = int(sys.argv[3]) if len(sys.argv) > 3 else 1
binary, _ = core.build_go(); ok, out = core.coq_make()
if not ok: print(out[-3000:]); sys.exit(1)
pipe = core.Pipe(binary); rnd = random.Random(seed)
G = getattr(gen, os.environ.get('GEN', 'any_request'))
reqs = [G(rnd, None if method == 'any' else method) for _ in range(n)]
ress, verd, logs = e2e.run_all(pipe, reqs, 'dev')
print('cases', n, 'accepted', sum(1 for r in ress if r.get('ok')))
for ci, col in enumerate(e2e.COLS):
    print(' ', col, dict(Counter(v[ci] if len(v) > ci else v[0] for v in verd)))
if logs: print(logs[0])
want = int(os.environ.get('COL', '-1'))
shown = 0
for i, v in enumerate(verd):
    if shown >= int(os.environ.get('SHOW', '1')): break
    if (want < 0 and any(v)) or (want >= 0 and len(v) > want and v[want]):
        shown += 1
        print('---', i, v); print(json.dumps(reqs[i])); print(json.dumps(ress[i].get('resp'))[:1500])
        if os.environ.get('MODEL'):
            print(core.eval_term('devx', 'decide %s %s' % (e2e.env_for(pipe, reqs[i]), emit.crequest(reqs[i])))[:3000])
pipe.close()
