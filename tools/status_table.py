#!/usr/bin/env python3
"""Regenerates the as-built status table of DESIGN.md (between the markers) from evidence/*.json and MANIFEST.json."""
import json, os, glob
V = os.path.dirname(os.path.dirname(os.path.abspath(__file__)))
man = {c['property_id']: c for c in json.load(open(os.path.join(V, 'MANIFEST.json')))['checks']} if os.path.exists(os.path.join(V, 'MANIFEST.json')) else {}
rows = []
for f in sorted(glob.glob(os.path.join(V, 'evidence', 'C*.json'))):
    e = json.load(open(f))
    c = e['coverage']
    pid = e['property_id']
    hist = c.get('input_histogram') or {}
    streams = sorted({k.split('/')[0] for k in hist})
    rows.append('| %s | %d / %d | %d (%d distinct) | %.0f s | %s | %s |' % (
        pid, c.get('discharged', 0), c.get('obligations', 0), c.get('evaluations', 0), c.get('distinct_nontrivial', 0), float(e.get('wall_s', 0)),
        ', '.join(streams)[:160], (man.get(pid, {}).get('technique') or '')[:110]))
table = ('| id | obligations discharged | evaluations in the last quick run | wall | input streams (histogram keys of the evidence) | deciding method |\n'
         '|---|---|---|---|---|---|\n' + '\n'.join(rows))
p = os.path.join(V, 'DESIGN.md')
s = open(p).read()
a, b = '<!-- status-table-begin -->', '<!-- status-table-end -->'
if a in s:
    s = s[:s.index(a) + len(a)] + '\n' + table + '\n' + s[s.index(b):]
    open(p, 'w').write(s)
print(len(rows), 'rows')
