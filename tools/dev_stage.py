#!/usr/bin/env python3
import sys, os, random, json
sys.path.insert(0,'/verif')
from vlib import core, emit, gen, e2e
from collections import Counter
names=sys.argv[1].split(','); n=int(sys.argv[2]); seed=int(sys.argv[3]) if len(sys.argv)>3 else 5
method=os.environ.get('METHOD')
binary,_=core.build_go(); ok,out=core.coq_make()
if not ok: print(out[-2000:]); sys.exit(1)
pipe=core.Pipe(binary); rnd=random.Random(seed)
reqs=[gen.biased_request(rnd, method=method, names=(None if names==['any'] else names), prob_mix=False) for _ in range(n)]
terms=[]; infos=[]
for r in reqs:
    res=pipe.call({'op':'trace','req':r})
    for t,i in e2e.stage_terms(pipe,r,res):
        if t is None: print('EMIT ERROR', i['error']); continue
        terms.append(t); infos.append((r,res,i))
verd,logs=core.run_cases('devs','judge_stage',terms,shard=60)
print('stages',len(terms))
for ci,col in enumerate(e2e.SCOLS):
    print(' ',col, dict(Counter((i[0]['preferenceFunction'][:5], i[2]['bias']['name'][:9], v[ci]) for i,v in zip(infos,verd) if len(v)>ci and v[ci])))
if logs: print(logs[0])
want=int(os.environ.get('COL','0')); show=int(os.environ.get('SHOW','1'))
for (r,res,i),v in zip(infos,verd):
    if len(v)>want and v[want] and show>0 and (not os.environ.get('WANT') or r['preferenceFunction']==os.environ.get('WANT')):
        show-=1; print(v); print(json.dumps(r)[:2500]); print(json.dumps(i['stage'])[:int(os.environ.get('RESP','1500'))])
pipe.close()
