#!/bin/bash
# applies the named harmless rewrites (mutants/harmless/<prefix>*.diff) each to its own scratch worktree, verifies the suite,
# runs every check (C02 and C10 with their proof obligations: the inventories are regenerated from the rewritten source), N at a time.
# usage: run_harmless_par.sh <jobs> <prefix> [...]
cd /verif
J=$1; shift
export GOFLAGS=-mod=mod GOPROXY=off GOSUMDB=off GOTOOLCHAIN=local
one() {
  d=$1; n=$(basename $d .diff); W=/tmp/hm_$n; R=/verif/mutants/harmless/results/$n.txt
  mkdir -p /verif/mutants/harmless/results; : > $R
  git -C /repo worktree add -q --detach $W HEAD && (cd $W && git apply /verif/$d) || { echo "$n: patch failed" >> $R; git -C /repo worktree remove --force $W 2>/dev/null; return; }
  (cd $W/lib && go build ./... && go test -vet=off -count=1 ./... >/dev/null 2>&1 && cd ../httpClient && go build -o /dev/null .) && echo "$n: suite passes" >> $R || echo "$n: SUITE FAILS" >> $R
  for p in $(seq -w 1 20); do
    if [ $p = 02 ] || [ $p = 10 ]; then r=$(VERIF_REPO=$W VERIF_WORKERS=3 ./check C$p 2>&1 | grep -E "^(OK|VIOLATION)" | tail -1 | cut -c1-150)
    else r=$(VERIF_REPO=$W VERIF_SKIP_PROOFS=1 VERIF_WORKERS=3 ./check C$p 2>&1 | grep -E "^(OK|VIOLATION)" | tail -1 | cut -c1-150); fi
    echo "  $n C$p: $r" >> $R
    case "$r" in VIOLATION*) cp /verif/replays/C${p}_seed1.json /verif/mutants/harmless/results/${n}_C$p.replay.json 2>/dev/null;; esac
  done
  git -C /repo worktree remove --force $W
}
export -f one
ls mutants/harmless/*.diff | while read d; do n=$(basename $d .diff); for x in "$@"; do case $n in $x*) echo $d;; esac; done; done | xargs -P $J -I{} bash -c 'one {}'
cat mutants/harmless/results/*.txt | grep -c "OK property" | sed 's/^/OK lines: /'
