#!/bin/bash
# applies every harmless rewrite to a scratch worktree, verifies the suite passes, runs every check against it
cd /verif
# usage: run_harmless.sh [name-prefix ...]  (results of the named rewrites are appended; without arguments everything is re-run)
OUT=/verif/mutants/harmless/RESULTS.txt; [ $# -eq 0 ] && : > $OUT
SEL="$*"
export GOFLAGS=-mod=mod GOPROXY=off GOSUMDB=off GOTOOLCHAIN=local
for d in mutants/harmless/*.diff; do
  n=$(basename $d .diff); W=/tmp/hm_$n
  if [ -n "$SEL" ]; then keep=0; for x in $SEL; do case $n in $x*) keep=1;; esac; done; [ $keep -eq 1 ] || continue; fi
  git -C /repo worktree add -q --detach $W HEAD && (cd $W && git apply /verif/$d) || { echo "$n: patch failed" >> $OUT; continue; }
  (cd $W/lib && go build ./... && go test -vet=off -count=1 ./... >/dev/null 2>&1) && echo "$n: suite passes" >> $OUT || echo "$n: SUITE FAILS" >> $OUT
  for p in $(seq -w 1 20); do
    r=$(VERIF_REPO=$W VERIF_SKIP_PROOFS=1 ./check C$p 2>&1 | grep -v "^KNOWN" | grep -E "^(OK|VIOLATION)" | tail -1 | cut -c1-150)
    echo "  $n C$p: $r" >> $OUT
  done
  git -C /repo worktree remove --force $W
done
echo done >> $OUT
