#!/usr/bin/env python3
"""Regenerates coq/Gen/Effects.v from the current source (translator: tools/gotools/effects)."""
import json, os, subprocess, sys
VERIF = os.path.dirname(os.path.dirname(os.path.abspath(__file__)))
REPO = os.environ.get('VERIF_REPO', '/repo')
binp = os.path.join(VERIF, '.work', 'bin', 'effects')
env = dict(os.environ, GOFLAGS='-mod=mod', GOPROXY='off', GOSUMDB='off', GOTOOLCHAIN='local')
if not os.path.exists(binp):
    subprocess.run(['go', 'build', '-o', binp, './effects'], cwd=os.path.join(VERIF, 'tools', 'gotools'), env=env, check=True)
# httpClient is analysed with the alternate go.mod so that it sees the working tree of lib
p = subprocess.run([binp, os.path.join(REPO, 'lib')], capture_output=True, text=True, env=env)
if p.returncode != 0:
    sys.stderr.write(p.stderr[-2000:]); sys.exit(1)
d = json.loads(p.stdout)
gen = os.path.join(VERIF, '.work', 'bin', 'gen', 'httpClient.mod')
if os.path.exists(gen):
    env2 = dict(env, GOFLAGS='-mod=mod -modfile=' + gen)
    p2 = subprocess.run([binp, os.path.join(REPO, 'httpClient')], capture_output=True, text=True, env=env2)
    if p2.returncode == 0:
        d2 = json.loads(p2.stdout)
        for k in ('writes', 'goStatements', 'factories'):
            d[k] = (d.get(k) or []) + (d2.get(k) or [])
    else:
        sys.stderr.write('httpClient not analysed: ' + p2.stderr[-500:])
def q(s): return '"' + s.replace('"', '""') + '"'
L = ['(** GENERATED on every run by tools/gen_effects.py from the Go source (lib and httpClient): syntactic summary of',
     '    writes to state that can outlive a request, of factory methods, and of goroutine starts. *)',
     'From Coq Require Import List String.', 'Import ListNotations.', 'Local Open Scope string_scope.', '',
     '(* (kind, root, function): kind "global" = assignment rooted at a package-level variable outside init;',
     '   kind "receiver" = assignment through a pointer receiver, root = the receiver type *)',
     'Definition shared_writes : list (string * string * string) := [']
seen = []
for w in d.get('writes') or []:
    t = (w['kind'], w['root'], w['func'])
    if t not in seen:
        seen.append(t)
L.append(';\n'.join('  (%s, %s, %s)' % (q(a), q(b), q(c)) for a, b, c in seen))
L.append('].')
L.append('')
L.append('(* factory methods handing out per-request objects: (function, what it returns) *)')
L.append('Definition factories : list (string * string) := [')
L.append(';\n'.join('  (%s, %s)' % (q(f['func']), q(f['returns'])) for f in (d.get('factories') or [])))
L.append('].')
L.append('')
L.append('Definition go_statements : list string := [%s].' % '; '.join(q(g) for g in (d.get('goStatements') or [])))
out = os.path.join(VERIF, 'coq', 'Gen', 'Effects.v')
txt = '\n'.join(L) + '\n'
if not os.path.exists(out) or open(out).read() != txt:
    open(out, 'w').write(txt)
print(json.dumps({'writes': len(seen), 'factories': len(d.get('factories') or []), 'go': len(d.get('goStatements') or [])}))
