#!/bin/bash
# Regression of the checks themselves: every seeded change under /verif/seeded is applied to a scratch worktree of /repo's HEAD
# and the check of its property must report it. usage: recheck_seeded.sh [name-prefix ...]; results in seeded/RECHECK.txt
cd /verif
OUT=/verif/seeded/RECHECK.txt; [ $# -eq 0 ] && : > $OUT
for d in seeded/*/; do
  n=$(basename $d); p=${n%%_*}
  if [ $# -gt 0 ]; then keep=0; for x in "$@"; do case $n in $x*) keep=1;; esac; done; [ $keep -eq 1 ] || continue; fi
  W=/tmp/rs_$n
  git -C /repo worktree add -q --detach $W HEAD 2>/dev/null || { echo "$n: worktree failed" >> $OUT; continue; }
  if (cd $W && git apply /verif/$d/patch.diff 2>/dev/null); then
    if [ "$p" = C02 ] || [ "$p" = C10 ]; then r=$(VERIF_REPO=$W ./check $p 2>&1 | grep -E "^(OK|VIOLATION)" | tail -1)
    else r=$(VERIF_REPO=$W VERIF_SKIP_PROOFS=1 ./check $p 2>&1 | grep -E "^(OK|VIOLATION)" | tail -1); fi
    echo "$n: ${r:0:140}" >> $OUT
  else
    echo "$n: patch no longer applies to HEAD (the code it changes was repaired since)" >> $OUT
  fi
  git -C /repo worktree remove --force $W
done
echo "missed: $(grep -c ': OK' $OUT)  reported: $(grep -c ': VIOLATION' $OUT)" >> $OUT
