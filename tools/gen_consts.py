#!/usr/bin/env python3
"""Regenerates coq/Gen/Consts.v from the current source of $VERIF_REPO/lib (translator: tools/gotools/consts)."""
import json, os, subprocess, sys
VERIF = os.path.dirname(os.path.dirname(os.path.abspath(__file__)))
REPO = os.environ.get('VERIF_REPO', '/repo')
binp = os.path.join(VERIF, '.work', 'bin', 'consts')
env = dict(os.environ, GOFLAGS='-mod=mod', GOPROXY='off', GOSUMDB='off', GOTOOLCHAIN='local')
src = os.path.join(VERIF, 'tools', 'gotools', 'consts', 'main.go')
if not os.path.exists(binp) or os.path.getmtime(binp) < os.path.getmtime(src):
    os.makedirs(os.path.dirname(binp), exist_ok=True)
    subprocess.run(['go', 'build', '-o', binp, './consts'], cwd=os.path.join(VERIF, 'tools', 'gotools'), env=env, check=True)
p = subprocess.run([binp, os.path.join(REPO, 'lib')], capture_output=True, text=True, env=env)
if p.returncode != 0:
    sys.stderr.write(p.stderr[-2000:]); sys.exit(1)
d = json.loads(p.stdout)
def q(s): return '"' + s.replace('"', '""') + '"'
def z(s): return '(%s)%%Z' % s
lines = ['(** GENERATED on every run by tools/gen_consts.py from the Go source (non-test code of lib): every package-level string',
         '    constant with the value the type checker gives it, and every non-zero floating-point literal with its exact decimal',
         '    value (numerator, denominator). The binary64 the compiler rounds each literal to is in Gen/ConstsF.v. *)',
         'From Coq Require Import List String ZArith.', 'Import ListNotations.', 'Local Open Scope string_scope.', '',
         '(* package directory, file:name, value *)',
         'Definition go_string_consts : list (string * string * string) := [']
lines.append(';\n'.join('  (%s, %s, %s)' % (q(os.path.dirname(s['file'])), q('%s:%s' % (s['file'], s['name'])), q(s['value'])) for s in d['strings'] or []))
lines.append('].')
lines.append('')
lines.append('(* package directory, file:function (or <package>.name), literal as written, (numerator, denominator) *)')
lines.append('Definition go_float_literals : list (string * string * string * (Z * Z)) := [')
lines.append(';\n'.join('  (%s, %s, %s, (%s, %s))' % (q(os.path.dirname(f['file'])), q('%s:%s' % (f['file'], f['where'])), q(f['text']), z(f['num']), z(f['den']))
                        for f in d['floats'] or []))
lines.append('].')
linesF = ['(** GENERATED on every run by tools/gen_consts.py from the Go source: the binary64 (hexadecimal notation, as strconv prints',
          '    the value go/constant rounds the literal to) of every non-zero floating-point literal of Gen/Consts.v, in the same order.',
          '    Kept apart so that Properties/*.v do not load the floating-point library. *)',
          'From Coq Require Import List String ZArith Floats.', 'Import ListNotations.', 'Local Open Scope string_scope.', '',
          '(* package directory, file:function (or <package>.name), (numerator, denominator), binary64 *)',
          'Definition go_float_binary64 : list (string * string * (Z * Z) * float) := [']
linesF.append(';\n'.join('  (%s, %s, (%s, %s), (%s)%%float)' % (q(os.path.dirname(f['file'])), q('%s:%s' % (f['file'], f['where'])), z(f['num']), z(f['den']), f['hex'])
                         for f in d['floats'] or []))
linesF.append('].')
for name, ls in (('Consts.v', lines), ('ConstsF.v', linesF)):
    out = os.path.join(VERIF, 'coq', 'Gen', name)
    txt = '\n'.join(ls) + '\n'
    if not os.path.exists(out) or open(out).read() != txt:
        open(out, 'w').write(txt)
print(json.dumps({'string_consts': len(d['strings'] or []), 'float_literals': len(d['floats'] or [])}))
