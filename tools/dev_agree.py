#!/usr/bin/env python3
"""development helper: run N random requests of a method through code and model, print disagreements"""
import sys, os, random, json
sys.path.insert(0, os.path.dirname(os.path.dirname(os.path.abspath(__file__))))
from vlib import core, emit, gen, e2e
method = sys.argv[1]; n = int(sys.argv[2]); seed = int(sys.argv[3]) if len(sys.argv) > 3 else 1
binary, _ = core.build_go(); ok, out = core.coq_make()
if not ok: print(out[-3000:]); sys.exit(1)
pipe = core.Pipe(binary); rnd = random.Random(seed)
reqs = [gen.any_request(rnd, None if method == 'any' else method) for _ in range(n)]
terms = []; ress = []
for r in reqs:
    res = pipe.call({'op': 'decide', 'req': r}); ress.append(res)
    terms.append(e2e.case_term(pipe, r, res))
verd, logs = core.run_cases('dev', 'j_agree', terms)
bad = [(i, v) for i, v in enumerate(verd) if v != [0]]
from collections import Counter
print('cases', n, 'accepted', sum(1 for r in ress if r.get('ok')), 'verdicts', Counter(v[0] for v in verd))
if logs: print(logs[0])
for i, v in bad[:int(os.environ.get('SHOW', '2'))]:
    print('---', i, e2e.AGREE_TEXT.get(v[0]))
    print(json.dumps(reqs[i])); print(json.dumps(ress[i])[:1500])
    print(core.eval_term('devx', 'decide %s %s' % (e2e.env_for(pipe, reqs[i]), emit.crequest(reqs[i])))[:3000])
pipe.close()
