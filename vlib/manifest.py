"""Single source of MANIFEST.json: `python3 -m vlib.manifest` rewrites it."""
import json, os

VERIF = os.path.dirname(os.path.dirname(os.path.abspath(__file__)))

CLAIMED = {
    'C04': dict(
        category='proof',
        text='Theorems (Properties/C04.v, generic over any carrier with OrdLaws): the model of AlternativeResults.Ranking returns the '
             'permutation sorted by (rounded value desc, id asc), its links are exactly same-value others plus the next lower distinct value, '
             'and it is invariant under permutation of its input; checker C04_ok is sound for that specification. Tie to the code: the '
             'model is run (vm_compute, binary64) on the same (id,value) lists as the real Ranking(), and C04_ok is evaluated on what the '
             'real service returned for utility-method requests and their listing-order permutations.',
        design_ref='DESIGN.md §6 C04',
        note='Trusted: Coq kernel + vm_compute; hand-written model Model/Rank.v tied by correspondence on sampled inputs; harness and '
             'generators; float order laws (OrdLaws for binary64) not proved in this development; listing-order invariance of the '
             'per-alternative values is checked metamorphically on the code, proved for the ranking function.',
        technique='Coq proof of ranking model + vm_compute correspondence and checker on Go outputs'),
}

PENDING_REASON = 'not claimed yet: model, theorems and correspondence for this property are still being built (see DESIGN.md §9 order of work); no check is registered until it is sound'

ALL = ['C%02d' % i for i in range(1, 21)]


def build():
    checks = []
    for pid in ALL:
        if pid not in CLAIMED:
            continue
        c = CLAIMED[pid]
        checks.append({
            'property_id': pid,
            'quick_cmd': './check %s --tier quick' % pid,
            'thorough_cmd': './check %s --tier thorough' % pid,
            'evidence_file': 'evidence/%s.json' % pid,
            'replay_cmd_template': './check %s --replay {path}' % pid,
            'engine': 'rdm-coq',
            'level_claimed': {'category': c['category'], 'text': c['text'], 'design_ref': c['design_ref']},
            'level_note': c['note'],
            'technique': c['technique'],
        })
    m = {
        'version': 1,
        'setup_cmd': './setup.sh',
        'hooks': {
            'guard': 'verif',
            'enable': 'go build -tags verif -modfile=<generated alt go.mod with replace lib => /repo/lib> -overlay=<adds /verif/harness/zz_verif*.go to package main of httpClient>; nothing is committed to /repo',
            'baseline_off_cmd': 'for m in . httpClient lib; do (cd /repo/$m && GOFLAGS=-mod=mod go test -vet=off -count=1 ./...) || exit 1; done',
            'source_commits': [],
            'add_only': True,
        },
        'engines': [{
            'name': 'rdm-coq', 'path': 'coq/',
            'serves_properties': sorted(CLAIMED),
            'kind_free_text': 'Rocq/Coq 8.16.1 development (model generic in the numeric carrier, theorems, boolean checkers) + '
                              'correspondence harness running the real Go code and the model (vm_compute) on the same inputs',
        }],
        'checks': checks,
        'not_applicable': [{'property_id': p, 'reason': PENDING_REASON} for p in ALL if p not in CLAIMED],
        'notes': 'Every check rebuilds the Go binary from /repo working tree (overlay build, no /repo change), re-checks Properties/<id>.v with coqc, '
                 'runs corpus + generated cases through code and model, and writes evidence/<id>.json. VERIF_SEED and VERIF_TIER are honoured.',
    }
    return m


if __name__ == '__main__':
    with open(os.path.join(VERIF, 'MANIFEST.json'), 'w') as f:
        json.dump(build(), f, indent=1)
    print('MANIFEST.json written: %d checks' % len(build()['checks']))
