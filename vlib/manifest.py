"""Single source of MANIFEST.json: `python3 -m vlib.manifest` rewrites it."""
import json, os

VERIF = os.path.dirname(os.path.dirname(os.path.abspath(__file__)))

TB = ('Trusted: Coq 8.16.1 kernel + vm_compute; hand-written model under coq/Model tied to /repo by the correspondence run of the check '
      '(same inputs through the real code and the model on binary64; the requests of every check also go, in sequence, through one running HTTP service whose answers must equal the library\'s on a fresh decode); harness/generators/emitters in /verif; Go toolchain; random '
      'streams and math.Exp taken from the Go binary as oracles. ')


def claim(text, note, technique, ref, category='proof'):
    return dict(category=category, text=text, design_ref='DESIGN.md §6 ' + ref, note=TB + note, technique=technique)


CLAIMED = {
    'C01': claim('Theorems (Properties/C01.v): every ranking builder of the model (utility, sequential, majority tie groups, ELECTRE) is well-formed for any '
                 'evaluations; the search order loses nothing; no bias changes the considered set, parameter kind or current choice; hence '
                 'decide_wf: every accepted request with ANY bias sequence lists exactly choseToMake (+ currentChoice) with links inside the '
                 'result, never the own alternative, never twice. Tie: checker C01_ok on every real response over all seven methods; '
                 'structure correspondence of the ranking builders on the implementation\'s own evaluations. Streams include requests evaluated with no criterion left and instances of 65-92 alternatives.',
                 'okv (order laws) assumed for utility values in the generic theorem; unconditional on exact rationals.',
                 'Coq proof (all methods x all bias sequences) + checker and builder correspondence on Go outputs', 'C01'),
    'C03': claim('Theorems (Properties/C03.v, exact rationals): OWA value = ascending weights x ascending values (independent of listing order); '
                 'Choquet grouped computation = textbook integral when sorted neighbours are equal or > 1e-5 apart, within n x 1e-5 otherwise; parsed '
                 'capacities total on the power set and in [0,1]; weighted sum: ws_value_refuted (the pinned code ignores the weights; recorded finding D2) '
                 'with the characterisation of what it computes. Tie: checker C03 recomputes the aggregate from each returned entry and the final '
                 '(post-bias) parameters dumped from the running code; values correspondence model/code. The state the method is evaluated on must be coherent (Check/Stage.v inv: every criterion of the state has a value and a parameter), judged on every response. Checker soundness (StageSoundFacts.C03_ok_sound): a passed check on observed entries implies the declarative aggregate statement.',
                 'arithmetic theorems over Q, not binary64; comparison up to 1.5e-8 + 1e-9 relative.',
                 'Coq proof over Qc + vm_compute checker on Go outputs; known finding for weightedSum', 'C03'),
    'C04': claim('Theorems (Properties/C04.v, any carrier with OrdLaws): the model of Ranking() is the permutation sorted by (rounded value desc, id asc); links = same '
                 'value others + next lower distinct value; following links reaches exactly the not-higher alternatives; invariant under listing order; checker sound. '
                 'Tie: model run on the same (id,value) lists as the real Ranking(); checker on real utility responses; listing-order permutations of requests. The permuted requests include biased ones and anchoring on several alternatives with coefficients 0 / left out.',
                 'order laws for binary64 not proved here; listing-order invariance of per-alternative values checked metamorphically.',
                 'Coq proof of the ranking model + vm_compute correspondence and checker on Go outputs', 'C04'),
    'C05': claim('Theorems (Properties/C05.v): every distillation partitions the alternatives into non-empty classes numbered consecutively from 1; links = index '
                 'comparison; not-worse => fully concordant; credibility in [0,1]; termination with explicit fuel bound for non-negative distillation functions; ElectreSpecFacts: the distillation stated declaratively (cut levels, '
                 'outranking at a cut level, qualification, best qualified, inner distillations) - the model computes exactly it, the definition determines the indices, credibility in closed form, and '
                 'C05_ok_sound_Qc turns a passed check on real output into the statement of the property '
                 '(negative_distillation_diverges shows why validation is needed). Model = set-level distillation on original indices. Tie: full response '
                 'correspondence on electreIII requests + checker recomputing indices and links from the returned entries and the final parameters; raw matrices through the exported '
                 'RankAscending/RankDescending; the credibility matrix the code derives (evaluateCredibilityMatrix, exported by the overlay) entry by entry against the model; a search phase '
                 'for differing indices whenever one of these correspondences breaks. Instances of 13-23 and 65-92 alternatives; a Go runtime error on a request the model answers is a violation with that request.',
                 'matrix bookkeeping of the Go code (Slice/Without) is covered by the correspondence only.',
                 'Coq proof of the distillation model + vm_compute correspondence on Go outputs', 'C05'),
    'C06': claim('Theorems (Properties/C06.v, exact rationals): outranking monotone for non-positive slope; covering => qualification order at every cut level => class order in both '
                 'distillations; identical rows => identical classes; credibility monotone for validated constant thresholds; electre_dominance: the model satisfies the '
                 'dominance checker; weights scaling leaves credibility unchanged; listing order: the credibility matrix of a permuted listing is the renamed matrix, every distillation '
                 'commutes with renaming and does not depend on how a set is listed, hence all indices and links (as sets) are unchanged (electre_evaluate_rename). Tie: dominance/equality checker on every pair of every real response; metamorphic '
                 'groups (listing order, k x 2^m) on the real code. Checker soundness and completeness (ElectreDomSoundFacts.C06_ok_sound / C06_spec_complete).',
                 'constant thresholds (the documented domain); a counterexample for slope < -1 thresholds is recorded in Proofs/ElectreOrderFacts.v.',
                 'Coq proof over Qc + vm_compute checker and metamorphic runs on Go outputs', 'C06'),
    'C11': claim('Theorems (Properties/C11.v, exact rationals): tournament invariant of the fold; majority_passes_checker: winner first; every other entry names the opponent it last met, '
                 'reports exactly the two scores, did not score higher, ranked below it; policy case analysis (take_better_policy_spec); majority_is_tournament: a declarative inductive relation '
                 '(running leader with its tie group, next alternative of the search order, verdict by scores and draw policy) of which every returned ranking is a run, listed in reverse order of dropping '
                 'out; C11_ok_sound: the checker evaluated on real responses implies the per-entry clauses in declarative form. Tie: full response correspondence on majority '
                 'requests (four policies, seeded order, three currentChoice positions) + checker recomputing scores from returned entries. Batches of 48 draw-heavy majority requests with mixed draw policies are also served concurrently by one process, every answer judged by the checker and compared with the answer given alone.',
                 'ids must be non-empty strings (witness in Proofs/MajorityFacts.v).',
                 'Coq proof of the tournament invariant + vm_compute correspondence and checker on Go outputs', 'C11'),
    'C12': claim('Theorems (Properties/C12.v, any carrier with OrdLaws): aspect_passes_checker: survivors first; eliminated in reverse order; each reports the level/criterion/threshold it '
                 'really failed after passing every earlier check; stop as soon as one is left; aspect_is_elimination: a declarative inductive relation (agenda of checks level by level, criterion by '
                 'criterion in descending weight order, the last alternative spared when all would go) of which every returned ranking is a run - deterministic, loses nobody, always leaves a survivor; '
                 'C12_ok_sound: the checker on real responses implies the per-entry clauses in declarative form. Tie: full correspondence for pairwise distinct weights + checker on all.',
                 'tied weights: only the order-free clauses (Go breaks ties with draws inside an unstable sort).',
                 'Coq proof of the elimination walk + vm_compute correspondence and checker on Go outputs', 'C12'),
    'C13': claim('Theorems (Properties/C13.v, any carrier with OrdLaws): satisfaction_passes_checker: accepted entries report and satisfy their level and fail every earlier one; '
                 'leftovers report the index after the last level and the worst value of each range; satisfaction_order_passes: the ranking is the order of acceptance (level by level, '
                 'search order within a level, then the rest in search order); satisfaction_meets_spec / _complete: the ranking is exactly the considered alternatives sorted by (first level met, search '
                 'position) with the stated reports, and that specification determines it uniquely; C13_checkers_iff: the two checkers hold on an output exactly when it meets that specification. Tie: full correspondence + checkers C13_ok and C13_order_ok on every real response, instances of 13-22 alternatives included.',
                 'levels enumerable within the fuel and every alternative holding every criterion value (both guaranteed by validation).',
                 'Coq proof of the acceptance walk + vm_compute correspondence and checker on Go outputs', 'C13'),
    'C14': claim('Theorems (Properties/C14.v, exact rationals): validation = documented ranges; four update rules; strict monotonicity; threshold formula; declared range first; '
                 'finiteness with explicit bounds; consecutive levels strictly monotone. Tie: the real level sources (as wired in main.go) called directly and compared level by level with the '
                 'model, plus a series checker on the returned levels; every series is generated twice from the same data (must be equal, data deep-compared before/after); parameters include decimal steps whose float accumulation ends a last bit below the cap. Checker soundness (LevelSoundFacts.C14_ok_sound_property_Qc): a passed check on observed levels implies the documented series, its length included.',
                 'binary64 may differ from Q in the count where a decimal series crosses its bound by less than an ulp; the model on binary64 follows Go.',
                 'Coq proof over Qc + vm_compute correspondence of the level sources', 'C14'),
}


CLAIMED.update({
    'C02': claim('Theorems (Properties/C02.v): order-independence of every pattern of map iteration the code uses (per-key assignment, per-key accumulation without associativity, '
                 'collect-then-sort, merge with collision check, Choquet ties) with the instances for the model (cumulated weights, averages, key normalisation, criteria ranking); '
                 'obligations against files regenerated from the source on every run: every `range` over a map is classified under one of these patterns, and nothing calls time.* '
                 'or package-level math/rand; decide_depends_on_seeds: two environments (random stream per seed, exp table) that agree on the seeds carried in the request give the same '
                 'response, streams of other seeds are never consulted, no bias changes the method seed. Tie: every request is sent to the real service again in the same process, '
                 'after other requests and to fresh processes and must be answered byte-identically; systematic histories (each request before and after every other of its pool, '
                 'same-method parameter variants) against processes that served nothing else; full correspondence model/service. Histories also hold rejected requests (unknown / near-miss names, mistyped parameters) between requests that rely on the documented defaults of every optional parameter.',
                 'partial for the runtime part: scheduler, clock and process state are checked by repetition and by the regenerated symbol scan, not proved.',
                 'Coq proof of map-order independence + regenerated inventory obligation + repetition across processes', 'C02'),
    'C07': claim('Theorems (Properties/C07.v): every bias maps coherent working data to coherent working data (every alternative has every current criterion, parameters cover them), lifted '
                 'to every bias sequence and to the state the method is evaluated on; frame: only what is reported changes; alternatives and their split never change; evaluate_total: on coherent data of the right parameter kind no method fails with a '
                 'combination error (missing value / weight / criterion, collision, wrong kind, index), side conditions explicit and witnessed; the same for fatigue, omission, reversal, inline '
                 'anchoring. Tie: every traced bias application of the real code is compared with the model step (state and report), and inv / frame / crits_as_reported (criteria after = before '
                 '- reported omissions + reported additions) are evaluated on the real states; a combination that fails in the code while the model succeeds is reported with its request (per stage, and for the whole request: every failing request is judged against the model of the whole request on the same seeded draws). Checker soundness (StageSoundFacts: inv_iff, frame_ok_iff) next to crits_as_reported_sound.',
                 'inv after a criterion-adding bias needs the parameter object to know the same criteria as the state (sync), established by prepare and preserved; totality of concealment, '
                 'mixing and new-criterion anchoring is decided by correspondence, not proved (witnesses of what they need beyond coherence in Proofs/TotalityFacts.v).',
                 'Coq invariant proof over bias sequences + per-stage correspondence on traced Go runs', 'C07'),
    'C08': claim('Theorems (Properties/C08.v): one echo per enabled bias in order with name and probability; disabled = absent (even unknown names); position i fires iff its '
                 'probability exceeds the i-th draw, independently of all other entries, monotonically; 1 always, 0 never; unfired = state unchanged, props null; exact frequency '
                 'ceil(p 2^53) on the Float64 grid. Tie: echo checker against the seed stream of the Go generator; metamorphic: insert disabled bias, replace all other biases, set p to 0/1. Checker soundness and completeness (EchoSoundFacts.C08_ok_iff_spec) with the firing consequences as corollaries.',
                 'uniformity of math/rand on its 2^53 grid is an assumption; the only exception (criteria mixing with fewer than two criteria fires and reports nothing) is part of the statement.',
                 'Coq proof of the firing rule + echo checker and metamorphic runs on Go outputs', 'C08'),
    'C09': claim('Theorems (Properties/C09.v): a bias sequence is a prefix followed by the rest from the state handed on; the report of a bias is fixed by the biases up to it; fatigue, '
                 'reversal, omission report exactly what they hand on; apply_bias_faithful / process_biases_faithful: EVERY bias reports what the state handed on holds, along every sequence '
                 '(checker report_faithful, also evaluated on every traced stage of the implementation). Tie (the part about Go\'s heap): traced runs dump every state and report at return and again after the whole '
                 'decision; request values deep-compared before/after; histories of calls re-using the same decoded Go values with every earlier result deep-compared after every later call. Histories also hold rejected requests between requests that rely on the documented defaults of every optional parameter.',
                 'partial: absence of hidden state / aliasing in the Go program is established by the history correspondence on the sampled histories, not proved.',
                 'Coq proof of report stability + history correspondence with deep comparisons', 'C09'),
    'C10': claim('Theorems (Properties/C10.v): in the effect model, threads that never write shared locations nor touch another thread\'s private ones end, under every interleaving, in '
                 'the state they reach alone, return the same result, and no two accesses conflict (race freedom); obligation against the write summary regenerated from the source: '
                 'only receivers of per-request objects are written, factories return fresh objects, no goroutines. Tie: batches of 2-32 concurrent requests against the real '
                 'registries, compared with the sequential answers, also on a race-detector build; the batches mix valid requests with requests rejected while decoding, validating or inside a bias (mistyped bias parameters) that use the same biases.',
                 'partial: soundness of the syntactic write summary (unresolved pointer aliases are not flagged), the Go memory model, gin and the runtime are not verified.',
                 'Coq noninterference theorem + regenerated write-summary obligation + concurrent runs with race detector', 'C10'),
    'C15': claim('Theorems (Properties/C15.v, exact rationals): k = clamp(floor(n ratio)); omitted = first k of the ordering; all five orderings are permutations; weakest/strongest soundness w.r.t. '
                 'the listener\'s importance; strongest = rev weakest; first-pick interval of weakestByProbability decreasing in importance; omission_passes_checker. Tie: per-stage '
                 'correspondence + checker on traced omissions, and the decision is compared with the decision for the request with the omitted criteria deleted. '
                 'omission_state_reduced_exact / omit_equals_reduced*: the state after omission IS the state prepared from the reduced request, so the decisions are equal (also with further biases). Checker soundness and completeness (OmissionSoundFacts.C15_ok_iff).',
                 'Choquet needs comma-free criterion ids (choquet_comma_refuted is the witness); OWA equal up to the order of the weight list; OWA / generated levels with FURTHER biases not claimed.',
                 'Coq proof over Qc + per-stage correspondence and reduced-request comparison', 'C15'),
    'C16': claim('Theorems (Properties/C16.v, exact rationals): v -> max + min - v for every known alternative on every selected criterion with the declared / currently observed range; frame; '
                 'range preserved; involution; reversal_passes_checker. Tie: per-stage correspondence + checker on traced reversals (all orderings, with and without declared ranges, '
                 'considered = / subset of known, after other biases, a single criterion with any weight under every ordering).', 'pairwise distinct alternative and criterion ids. Checker soundness (ReversalSoundFacts.C16_ok_sound).',
                 'Coq proof over Qc + per-stage correspondence on traced Go runs', 'C16'),
    'C17': claim('Theorems (Properties/C17.v, exact rationals): |v\' - v| <= |f v| for every stream; f = 0 identity; both signs; bounding = raise to 0 then clip into the centred scaled range, '
                 'monotone; frame and faithful report; fatigue_passes_checker. Tie: per-stage correspondence (value and sign streams of the Go generator, math.Exp as oracle) + checker; the report read again after the whole decision (what the response carries) must still be what fatigue handed on. Checker soundness (FatigueSoundFacts.C17_ok_sound).',
                 'draws in [0,1); exp taken from Go.', 'Coq proof over Qc + per-stage correspondence on traced Go runs', 'C17'),
    'C19': claim('Theorems (Properties/C19.v, exact rationals): reference point = coefficient-weighted best/worst per criterion; mapped differences; inline value and reported difference; '
                 'not-considered only if asked; zero functions identity; new-criterion value with normalised weights; anchoring_passes_checker for both appliers. Tie: per-stage '
                 'correspondence (exp oracle) + checker on traced anchoring applications.', 'positive coefficients in the theorem; with a coefficient of 0 (no weighted comparison exists: a cost value is divided by it) the checker only asks the reference value to be one of the anchoring alternatives\' values (zero_coefficient_not_judged in Proofs/AnchoringFacts.v); stages on which binary64 itself leaves the finite range are counted, not judged. Checker soundness (AnchoringSoundFacts.C19_ok_sound).',
                 'Coq proof over Qc + per-stage correspondence on traced Go runs', 'C19'),
    'C20': claim('Theorems (Properties/C20.v): decide is total (ranking with echoes, or rejection); one rejection lemma per documented constraint (31), incl. fired biases with bad '
                 'properties; termination of ELECTRE distillation under the validated domain is in C05. Tie: the unmodified service under a memory limit: valid stream, every documented '
                 'constraint violated one at a time (must be 400 with error + echoed request, names listed), malformed / mistyped / extreme bodies, 16-40-alternative requests per method '
                 'with every constraint violated and with rejections raised only while the method runs, liveness after every request, 15 s deadline; '
                 'accept/reject correspondence with the model.',
                 'partial: JSON binding, recover(), stack and memory limits are runtime behaviour exercised by the server runs, not modelled; resource exhaustion by sheer size is outside.',
                 'Coq rejection lemmas + fault/fuzz runs against the real HTTP service', 'C20'),
})

CLAIMED.update({
    'C18': claim('Theorems (Properties/C18.v, exact rationals): concealment appends one fresh gain criterion, values for every known alternative, old values untouched, values inside the '
                 'scaled reference range; reference criterion among the existing ones (three strategies); new weight = u x reference weight, u in [0,1); mixing: no-op below two '
                 'criteria, formula, betweenness, distinct components, components in [0,T]; both pass the checker. Tie: per-stage correspondence + checker on traced concealment / mixing '
                 'applications inside random bias sequences (repeated application included). Checker soundness (AdditionSoundFacts.C18_ok_sound).',
                 'distinct alternative ids. not_used_name_fresh: the generated id is never an existing id (defect D9 of the pinned tree, repaired by a fix: commit).',
                 'Coq proof over Qc + per-stage correspondence on traced Go runs', 'C18'),
})

PENDING_REASON = 'not claimed yet: model, theorems and correspondence for this property are still being built (see DESIGN.md §9 order of work); no check is registered until it is sound'

ALL = ['C%02d' % i for i in range(1, 21)]

# properties whose Properties/<pid>.v carries the obligation over the inventory of constants regenerated from the source (tools/mkprops.py, vlib/ctx.py)
CONST_PROPS = ('C03', 'C04', 'C05', 'C11', 'C12', 'C17', 'C19', 'C20')
CONST_TEXT = (' Translator tie: tools/gotools/consts regenerates Gen/Consts.v and Gen/ConstsF.v from the source on every run (every package-level string constant, '
              'every non-zero floating-point literal with its exact decimal value and its binary64); the obligations consts_agree_now (Properties, exact rationals: '
              'each literal is a classified constant of the model with the same value, each constant the model uses is still in its package, the names the model dispatches on are the declared ones) '
              'and consts_agree_F_now (Proofs/ConstSitesF.v: the binary64 equals the constant of the executed instance bit by bit) are re-checked; a changed or new constant breaks them and the replay names it.')


def build():
    checks = []
    for pid in ALL:
        if pid not in CLAIMED:
            continue
        c = CLAIMED[pid]
        if pid in CONST_PROPS:
            c = dict(c, text=c['text'] + CONST_TEXT, technique=c['technique'] + ' + regenerated constants inventory obligation')
        checks.append({
            'property_id': pid,
            'quick_cmd': './check %s --tier quick' % pid,
            'thorough_cmd': './check %s --tier thorough' % pid,
            'evidence_file': 'evidence/%s.json' % pid,
            'replay_cmd_template': './check %s --replay {path}' % pid,
            'engine': 'rdm-coq',
            'level_claimed': {'category': c['category'], 'text': c['text'], 'design_ref': c['design_ref']},
            'level_note': c['note'],
            'technique': c['technique'],
        })
    m = {
        'version': 1,
        'setup_cmd': './setup.sh',
        'hooks': {
            'guard': 'verif',
            'enable': 'go build -tags verif -modfile=<generated alt go.mod with replace lib => /repo/lib> -overlay=<adds /verif/harness/zz_verif*.go to package main of httpClient and /verif/harness/lib/**/zz_verif*.go (exports of unexported helpers, all `//go:build verif`) to the matching packages of lib>; nothing is committed to /repo',
            'baseline_off_cmd': 'for m in . httpClient lib; do (cd /repo/$m && GOFLAGS=-mod=mod go test -vet=off -count=1 ./...) || exit 1; done',
            'source_commits': [],
            'add_only': True,
        },
        'engines': [{
            'name': 'rdm-coq', 'path': 'coq/',
            'serves_properties': sorted(CLAIMED),
            'kind_free_text': 'Rocq/Coq 8.16.1 development (model generic in the numeric carrier, theorems, boolean checkers) + '
                              'correspondence harness running the real Go code and the model (vm_compute) on the same inputs',
        }],
        'checks': checks,
        'not_applicable': [{'property_id': p, 'reason': PENDING_REASON} for p in ALL if p not in CLAIMED],
        'notes': 'Every check rebuilds the Go binary from /repo working tree (overlay build, no /repo change), re-checks Properties/<id>.v with coqc, '
                 'runs corpus + generated cases through code and model, and writes evidence/<id>.json. VERIF_SEED and VERIF_TIER are honoured.',
    }
    return m


if __name__ == '__main__':
    with open(os.path.join(VERIF, 'MANIFEST.json'), 'w') as f:
        json.dump(build(), f, indent=1)
    print('MANIFEST.json written: %d checks' % len(build()['checks']))
