"""Structured request generators. Every choice comes from one random.Random(seed)."""
import random, itertools, math

ALT_IDS = ['a', 'b', 'c', 'd', 'e', 'f', 'a1', 'ab', 'B', 'Z', 'aa', 'b2']
CRIT_IDS = ['c1', 'c2', 'c3', 'c10', 'c', 'cc', 'x', 'y', 'price', 'c1x']
UTILITY = ['weightedSum', 'owa', 'choquetIntegral']
HEURISTICS = ['majorityHeuristic', 'aspectEliminationHeuristic', 'satisfactionHeuristic']
METHODS = UTILITY + ['electreIII'] + HEURISTICS


def grid_value(rnd, lo=-2.0, hi=6.0):
    """tie-heavy dyadic grid (multiples of 1/4)"""
    return rnd.randint(int(lo * 4), int(hi * 4)) / 4.0


def value(rnd, style):
    if style == 'grid':
        return grid_value(rnd)
    if style == 'posgrid':
        return rnd.randint(0, 24) / 4.0
    if style == 'near':  # values that tie within 1e-6 / 1e-5 / only after rounding to 1e-8
        base = rnd.randint(0, 8) / 2.0
        return base + rnd.choice([0, 0, 4e-9, -4e-9, 1.5e-8, 0.9e-6, 1.1e-6, 0.9e-5, 1.1e-5, -0.9e-5])
    if style == 'unit':
        return rnd.randint(0, 8) / 8.0
    if style == 'negative':
        return -rnd.randint(1, 40) / 4.0
    if style == 'huge':   # utilities beyond 2^63 / 1e8 (integer grids overflow), still far from the float range
        return rnd.choice([1, 1, -1]) * rnd.choice([1.3e11, 2.5e12, 9.9e10, 4.0e13, 7.7e15]) + rnd.choice([0.0, 1.0, 1024.0])
    if style == 'large':  # big magnitudes that differ by far more than any absolute tolerance, yet by a tiny fraction of themselves
        base = rnd.choice([1.0e6, 5.0e6, 412000.0, 3.0e7]) * rnd.choice([1, 1, 1, -1])
        return base + rnd.choice([0, 0, 0.75, 1.0, 2.0, -1.0, 0.001, 37.0, 2.0e-6])
    return rnd.uniform(-10, 10)


def pick_style(rnd):
    return rnd.choices(['grid', 'posgrid', 'near', 'real', 'unit', 'negative', 'large', 'huge'], [30, 17, 17, 13, 8, 9, 6, 3])[0]


def gen_alternatives(rnd, crit_ids, n=None, style=None, extra_value_prob=0.0):
    n = n or rnd.choice([1, 2, 2, 3, 3, 4, 4, 5, 6])
    style = style or pick_style(rnd)
    ids = rnd.sample(ALT_IDS, n) if n <= len(ALT_IDS) else rnd.sample(['a%02d' % i for i in range(max(40, n + 8))], n)
    alts = []
    for i in ids:
        crit = {c: value(rnd, style) for c in crit_ids}
        if alts and rnd.random() < 0.15:  # identical to an earlier alternative
            crit = dict(alts[rnd.randrange(len(alts))]['criteria'])
        elif alts and rnd.random() < 0.25:  # share some values with an earlier one (ties on criteria)
            other = alts[rnd.randrange(len(alts))]['criteria']
            for c in crit_ids:
                if rnd.random() < 0.5:
                    crit[c] = other[c]
        if rnd.random() < extra_value_prob:
            crit['zz_extra'] = value(rnd, style)
        alts.append({'id': i, 'criteria': crit})
    return alts


def observed_range(alts, c):
    vs = [a['criteria'][c] for a in alts]
    return min(vs), max(vs)


# ids that are prefixes / suffixes of one another and sort next to each other (keys joined from ids, substring tests, sorted key lists)
TRICKY_CRIT_IDS = ['1', '21', '3', '13', 'c', 'cc', 'ccc', 'x', 'xx', '1x', 'x1', 'c+', 'a b']


def gen_criteria(rnd, n=None, cost_ok=True, range_prob=0.3):
    n = n or rnd.choice([1, 2, 2, 3, 3, 4, 5])
    ids = rnd.sample(TRICKY_CRIT_IDS if rnd.random() < 0.08 else CRIT_IDS, n)
    crits = []
    for c in ids:
        t = 'gain'
        if cost_ok and rnd.random() < 0.35:
            t = 'cost'
        if t == 'gain' and rnd.random() < 0.15:
            crits.append({'id': c})          # the type left out: gain is the documented default
        else:
            crits.append({'id': c, 'type': t})
    return crits


def add_ranges(rnd, crits, alts, prob=0.3, containing=True):
    for c in crits:
        if rnd.random() < prob:
            lo, hi = observed_range(alts, c['id'])
            # now and then a declared range that does not hold every listed value (declared ranges are taken as given)
            if containing and rnd.random() >= 0.12:
                lo2 = lo - rnd.choice([0, 0.5, 1, 2.25])
                hi2 = hi + rnd.choice([0, 0.5, 1, 2.25])
                if hi2 <= lo2:
                    hi2 = lo2 + 1
            else:
                lo2 = lo + rnd.choice([-1, 0.5])
                hi2 = lo2 + rnd.choice([0.5, 1, 3])
            c['valuesRange'] = {'min': lo2, 'max': hi2}
    return crits


def gen_chose(rnd, alts, all_prob=0.5):
    ids = [a['id'] for a in alts]
    if rnd.random() < all_prob or len(ids) == 1:
        chose = list(ids)
    else:
        k = rnd.randint(1, len(ids))
        chose = rnd.sample(ids, k)
    rnd.shuffle(chose)
    return chose


def weights_for(rnd, crit_ids, style=None):
    style = style or rnd.choice(['mixed', 'mixed', 'mixed', 'equal', 'ties', 'ones', 'close', 'large', 'tiny'])
    w = {}
    if style == 'close':   # pairwise distinct, yet within 1e-6 / 1e-7 of each other (and one float-noise pair: 0.1+0.2 vs 0.3)
        base = rnd.choice([0.3, 0.4444444, 1.0, 2.5])
        offs = rnd.sample([0.0, 3e-7, -3e-7, 8e-7, 4e-8, 0.1 + 0.2 - 0.3, 1.5e-6], min(7, len(crit_ids)))
        for i, c in enumerate(crit_ids):
            w[c] = base + (offs[i] if i < len(offs) else 0.01 * i)
        return w
    if style == 'large':
        for i, c in enumerate(crit_ids):
            w[c] = 4.0e6 + rnd.choice([0.0, 3.0, 1.0, -2.0, 1000.0])
        return w
    if style == 'tiny':   # importances are scale-free: a tiny unit must order the criteria like any other
        for i, c in enumerate(crit_ids):
            w[c] = rnd.choice([4.0, 1.0, 3.0, 2.0, 7.0]) * 1e-9
        return w
    for c in crit_ids:
        if style == 'equal':
            w[c] = 2.0
        elif style == 'ones':
            w[c] = 1.0
        elif style == 'ties':
            w[c] = rnd.choice([1.0, 2.0, 0.5])
        else:
            w[c] = rnd.choice([0.25, 0.5, 1.5, 2.0, 3.0, 10.0, 0.125, rnd.uniform(0.01, 5), 0.25, 0.5, 1.5, 2.0, 3.0, 10.0, 0.125, 0.0])
    return w


def choquet_weights(rnd, crit_ids, scramble=True):
    w = {}
    n = len(crit_ids)
    for mask in range(1, 1 << n):
        sub = [crit_ids[j] for j in range(n) if mask >> j & 1]
        key = sorted(sub)
        if scramble and rnd.random() < 0.3:
            rnd.shuffle(key)
        v = rnd.randint(0, 8) / 8.0 if rnd.random() < 0.7 else rnd.random()
        w[','.join(key)] = v
    return w


def utility_request(rnd, method=None, n_alts=None, n_crits=None, style=None):
    method = method or rnd.choice(UTILITY)
    crits = gen_criteria(rnd, n=n_crits, cost_ok=(method != 'choquetIntegral'))
    if method == 'choquetIntegral' and len(crits) > 4:
        crits = crits[:4]
    if method == 'choquetIntegral' and rnd.random() < 0.9:
        for c in crits:   # Choquet accepts only criteria typed "gain" literally (a criterion without a type is rejected: kept for a tenth of the requests)
            c['type'] = 'gain'
    cids = [c['id'] for c in crits]
    # now and then a large instance (thresholds inside the code: sort algorithms, batching, pre-sized buffers)
    big = n_alts is None and rnd.random() < 0.06
    alts = gen_alternatives(rnd, cids, n=(rnd.randint(13, 40) if big else n_alts), style=style)
    add_ranges(rnd, crits, alts, prob=0.2)
    if method == 'choquetIntegral':
        mp = {'weights': choquet_weights(rnd, cids)}
    else:
        mp = {'weights': weights_for(rnd, cids)}
        if method == 'weightedSum' and rnd.random() < 0.2:
            mp['weights']['undeclared'] = 7.0  # superfluous entries are tolerated by weighted sum
    return {'preferenceFunction': method, 'knownAlternatives': alts, 'choseToMake': gen_chose(rnd, alts, all_prob=0.8 if big else 0.5),
            'criteria': crits, 'methodParameters': mp, 'biases': [], 'biasApplyRandomSeed': rnd.randint(0, 1000)}


def ranking_items(rnd):
    """(id, value) lists for the Ranking component: runs of equal values followed by runs of equal
    lower values, all-equal, values that coincide only after rounding to 1e-8"""
    n = rnd.choice([1, 2, 3, 4, 5, 6, 7, 8])
    ids = rnd.sample(ALT_IDS, n)
    kind = rnd.choice(['runs', 'runs', 'allequal', 'round', 'distinct', 'mixed', 'scales'])
    vals = []
    if kind == 'scales':
        # every order of magnitude a utility can take (money in cents, populations, 1e-8 steps no longer representable ...), both signs, with ties
        vals = [rnd.choice([1, 1, -1]) * rnd.choice([1.0, 2.5, 9.3]) * 10.0 ** rnd.choice([-9, -3, 0, 4, 7, 9, 10, 11, 12, 13, 15, 17, 20])
                for _ in range(n)]
        if n > 2 and rnd.random() < 0.5:
            vals[1] = vals[0]
    elif kind == 'allequal':
        v = grid_value(rnd)
        vals = [v] * n
    elif kind == 'distinct':
        vals = rnd.sample([i / 4.0 for i in range(-8, 24)], n)
    elif kind == 'round':
        base = grid_value(rnd)
        vals = [base + rnd.choice([0, 2e-9, -3e-9, 4.9e-9, 5.1e-9, 1.5e-8, -1.5e-8, 1e-8]) for _ in range(n)]
    else:
        levels = sorted(rnd.sample([i / 2.0 for i in range(-4, 12)], rnd.randint(1, min(4, n))), reverse=True)
        vals = [rnd.choice(levels) for _ in range(n)]
        if kind == 'mixed':
            vals = [v + rnd.choice([0, 0, 3e-9]) for v in vals]
    rnd.shuffle(vals)
    return [{'id': i, 'value': v} for i, v in zip(ids, vals)]


def permuted(rnd, req):
    """same request with knownAlternatives and choseToMake listed in another order"""
    r = dict(req)
    ka = list(req['knownAlternatives'])
    rnd.shuffle(ka)
    ch = list(req['choseToMake'])
    rnd.shuffle(ch)
    r['knownAlternatives'] = ka
    r['choseToMake'] = ch
    return r


# ---- ELECTRE III --------------------------------------------------------------------------------
def electre_params(rnd, crits, custom_dist_prob=0.3):
    ec = {}
    for c in crits:
        k = rnd.choice([0.5, 1.0, 2.0, 3.0, rnd.uniform(0.1, 4)])
        pattern = rnd.choice(['none', 'q', 'p', 'qp', 'pv', 'qpv', 'qpv', 'qpv'])
        q = rnd.choice([0.25, 0.5, 1.0])
        p = q + rnd.choice([0.25, 0.5, 1.0, 2.0])
        v = p + rnd.choice([0.5, 1.0, 3.0])
        e = {'k': k}
        if 'q' in pattern:
            e['q'] = {'a': 0, 'b': q}
        if 'p' in pattern:
            e['p'] = {'a': 0, 'b': p}
        if 'v' in pattern:
            e['v'] = {'a': 0, 'b': v}
        ec[c['id']] = e
    if rnd.random() < 0.12:
        ec['undeclared'] = {'k': 1.0, 'q': {'a': 0, 'b': 0.5}}
    if rnd.random() < 0.1:   # the weights k are scale-free (used as k / sum k, and by their order)
        for e in ec.values():
            e['k'] = e['k'] * 1e-9
    mp = {'electreCriteria': ec}
    if rnd.random() < custom_dist_prob:
        mp['electreDistillation'] = rnd.choice([{'a': -0.15, 'b': 0.3}, {'a': -0.25, 'b': 0.5}, {'a': 0, 'b': 0.125},
                                                {'a': -0.1, 'b': 0.1}, {'a': 0, 'b': 0}, {'a': -0.5, 'b': 0.5}])
    return mp


def electre_request(rnd, n_alts=None, n_crits=None, style=None):
    crits = gen_criteria(rnd, n=n_crits or rnd.choice([1, 2, 2, 3, 4]))
    cids = [c['id'] for c in crits]
    big = n_alts is None and rnd.random() < 0.04
    alts = gen_alternatives(rnd, cids, n=(rnd.randint(13, 20) if big else n_alts), style=style or rnd.choice(['posgrid', 'grid', 'posgrid', 'real']))
    return {'preferenceFunction': 'electreIII', 'knownAlternatives': alts, 'choseToMake': gen_chose(rnd, alts, all_prob=0.8 if big else 0.5),
            'criteria': crits, 'methodParameters': electre_params(rnd, crits), 'biases': [],
            'biasApplyRandomSeed': rnd.randint(0, 1000)}


# ---- heuristics ---------------------------------------------------------------------------------
def current_choice(rnd, alts, chose):
    """absent / considered / known-but-not-considered"""
    r = rnd.random()
    others = [a['id'] for a in alts if a['id'] not in chose]
    if r < 0.35:
        return None
    if r < 0.7 or not others:
        return rnd.choice(chose)
    return rnd.choice(others)


NEAR_CAP = [(0.0, 0.1), (0.1, 0.1), (0.2, 0.1), (0.3, 0.1), (0.1, 0.09), (0.1, 0.075), (0.2, 0.08), (0.25, 0.075), (0.3, 0.35), (0.12, 0.22)]


def level_params(rnd, crits, alts, increasing, explicit_prob=0.35):
    """(function, params) for a level source of the given family"""
    if rnd.random() < explicit_prob:
        n = rnd.randint(0, 4)
        ths = []
        for i in range(n):
            t = {}
            for c in crits:
                lo, hi = observed_range(alts, c['id'])
                t[c['id']] = rnd.choice([lo, hi, (lo + hi) / 2, lo + (hi - lo) * rnd.randint(0, 4) / 4.0, lo - 1, hi + 1])
            if rnd.random() < 0.1:
                t['undeclared'] = 1.0
            ths.append(t)
            if rnd.random() < 0.2:   # the same level once more (level indices count every listed level)
                ths.append(dict(t))
        return 'thresholds', {'thresholds': ths}
    dyadic = rnd.random() < 0.5
    if rnd.random() < 0.15:
        # decimal steps whose repeated float addition misses round numbers by a last bit (0 + 10 x 0.1 = 0.9999999999999999):
        # a level just below the cap 1 / just above the floor is a level of the series like any other
        coef = rnd.choice([0.1, 0.1, 0.05, 0.2, 0.3, 0.075, 0.15])
        mn = rnd.choice([0.0, 0.1, 0.2, 0.3, 0.35, 0.5, 0.7]) if increasing else rnd.choice([0.1, 0.2, 0.05, 0.3])
        mx = rnd.choice([1.0, 1.0, 1.0, 0.9, 0.8])
    elif dyadic:
        coef = rnd.choice([0.25, 0.5, 0.125, 0.75])
        mn = rnd.choice([0.0, 0.25, 0.5, 0.125, 1.0]) if increasing else rnd.choice([0.25, 0.5, 0.125, 0.0625, 1.0])
        mx = rnd.choice([0.5, 0.75, 1.0, 0.25, 0.0, 1.0])
    else:
        coef = rnd.choice([0.1, 0.2, 0.3, 0.45, 0.9, 0.05, round(rnd.uniform(0.05, 0.95), 3)])
        mn = round(rnd.uniform(0.0 if increasing else 0.05, 0.6), 2)
        mx = round(rnd.uniform(0.3, 1.0), 2)
    if not increasing and mn <= 0:
        mn = 0.125
    mul = rnd.random() < 0.5
    if increasing and rnd.random() < 0.06:
        # additive series that pass within a last bit of the cap 1 without reaching it (0 + 10 x 0.1 = 0.9999999999999999 < 1):
        # that level is a level of the series, and the cap follows it
        mn, coef = rnd.choice(NEAR_CAP)
        mx, mul = 1.0, False
    fn = 'idealMultipliedCoefficient' if mul else ('idealAdditiveCoefficient' if increasing else 'idealSubtractiveCoefficient')
    return fn, {'coefficient': coef, 'minValue': mn, 'maxValue': mx}


def heuristic_request(rnd, method=None, n_alts=None, n_crits=None, distinct_weights=False, style=None):
    method = method or rnd.choice(HEURISTICS)
    crits = gen_criteria(rnd, n=n_crits or rnd.choice([1, 2, 2, 3, 3, 4]))
    cids = [c['id'] for c in crits]
    # now and then a large instance (library sorts switch algorithm above 12 elements)
    big = rnd.random() < 0.08
    alts = gen_alternatives(rnd, cids, n=n_alts or (rnd.randint(13, 22) if big else rnd.choice([1, 2, 3, 3, 4, 4, 5, 6])),
                            style=style or rnd.choice(['posgrid', 'grid', 'near', 'posgrid', 'real']))
    add_ranges(rnd, crits, alts, prob=0.3)
    chose = gen_chose(rnd, alts, all_prob=0.8 if big else 0.4)
    mp = {'randomSeed': rnd.choice([0, 1, 7, 42, 12345, rnd.randint(-5, 10 ** 6)]),
          'randomAlternativesOrdering': rnd.random() < 0.4}
    if method == 'majorityHeuristic':
        mp['weights'] = weights_for(rnd, cids)
        if rnd.random() < 0.12:
            mp['weights']['undeclared'] = rnd.choice([0.0625, 7.0])
        cc = current_choice(rnd, alts, chose)
        if cc is not None:
            mp['currentChoice'] = cc
        dr = rnd.choice([None, 'allow', 'current', 'newer', 'random', 'random'])
        if dr:
            mp['drawResolution'] = dr
    elif method == 'aspectEliminationHeuristic':
        r = rnd.random()
        if r < 0.15:
            # pairwise distinct weights that lie within 1e-6 / 1e-7 of each other: "from the heaviest weight down" is still decided
            mp['weights'] = weights_for(rnd, cids, 'close')
        elif distinct_weights or r < 0.82:
            ws = rnd.sample([0.25, 0.5, 1.0, 1.5, 2.0, 3.0, 0.125, 5.0, 0.0], len(cids))   # 0 is a weight like any other: the lightest
            mp['weights'] = dict(zip(cids, ws))
        else:
            mp['weights'] = weights_for(rnd, cids, 'ties')
        if rnd.random() < 0.12:
            mp['weights']['undeclared'] = rnd.choice([0.0625, 7.0])
        fn, p = level_params(rnd, crits, alts, increasing=True)
        mp['function'], mp['params'] = fn, p
    else:
        cc = current_choice(rnd, alts, chose)
        if cc is not None:
            mp['currentChoice'] = cc
        fn, p = level_params(rnd, crits, alts, increasing=False)
        mp['function'], mp['params'] = fn, p
    return {'preferenceFunction': method, 'knownAlternatives': alts, 'choseToMake': chose, 'criteria': crits,
            'methodParameters': mp, 'biases': [], 'biasApplyRandomSeed': rnd.randint(0, 1000)}


def large_request(rnd, method=None, lo=16, hi=40):
    """a valid request with many alternatives, (almost) all of them considered"""
    method = method or rnd.choice(METHODS)
    n = rnd.randint(lo, hi if method != 'electreIII' else min(hi, 24))
    if method in UTILITY:
        req = utility_request(rnd, method, n_alts=n)
    elif method == 'electreIII':
        req = electre_request(rnd, n_alts=n)
    else:
        req = heuristic_request(rnd, method, n_alts=n)
    ids = [a['id'] for a in req['knownAlternatives']]
    keep = set(req['choseToMake'])
    cc = (req.get('methodParameters') or {}).get('currentChoice')
    for i in ids:
        if i not in keep and i != cc and rnd.random() < 0.9:
            req['choseToMake'].append(i)
    return req


def many_alternatives_request(rnd, method=None, lo=65, hi=70):
    """more alternatives than a machine word has bits (index sets kept as bit masks, fixed-size buffers) or than any small-list
    threshold (33-64): all of them considered, one or two criteria, many ties"""
    method = method or rnd.choice(METHODS)
    n = rnd.randint(lo, hi) if rnd.random() < 0.6 else rnd.randint(33, 64)
    if method in UTILITY:
        req = utility_request(rnd, method, n_alts=n, n_crits=rnd.choice([1, 2]))
    elif method == 'electreIII':
        req = electre_request(rnd, n_alts=n, n_crits=rnd.choice([1, 1, 2]), style=rnd.choice(['posgrid', 'real', 'real']))
    else:
        req = heuristic_request(rnd, method, n_alts=n, n_crits=rnd.choice([1, 2]))
    req['choseToMake'] = [a['id'] for a in req['knownAlternatives']]
    if rnd.random() < 0.5:
        rnd.shuffle(req['choseToMake'])
    return req


def any_request(rnd, method=None):
    method = method or rnd.choice(METHODS)
    if method in UTILITY:
        return utility_request(rnd, method)
    if method == 'electreIII':
        return electre_request(rnd)
    return heuristic_request(rnd, method)


def seeds_of(req):
    """every seed a request can make the code draw from"""
    s = {int(req.get('biasApplyRandomSeed', 0) or 0)}
    mp = req.get('methodParameters') or {}
    s.add(int(mp.get('randomSeed', 0) or 0))
    for b in req.get('biases') or []:
        p = b.get('props') if isinstance(b.get('props'), dict) else {}
        base = int(p.get('randomSeed', 0) or 0)
        s.add(base)
        nb = int(p.get('newCriterionRandomSeed', 0) or 0)
        s.add(nb)
        for i in range(0, 6):
            s.add(base + i)
            s.add(nb + i)
        ap = p.get('applier') if isinstance(p.get('applier'), dict) else {}
        app = ap.get('params') if isinstance(ap.get('params'), dict) else {}
        ab = int(app.get('randomSeed', 0) or 0)
        s.add(int(app.get('newCriterionRandomSeed', 0) or 0))
        for i in range(0, 4):
            s.add(ab + i)
    return s


# ---- biases -------------------------------------------------------------------------------------
BIASES = ['criteriaOmission', 'preferenceReversal', 'fatigue', 'criteriaConcealment', 'criteriaMixing', 'anchoring']
ORDERINGS = [None, 'weakest', 'strongest', 'random', 'weakestByProbability', 'strongestByProbability']
REF_TYPES = [None, 'importanceRatio', 'randomUniform', 'randomWeighted']


def some_seed(rnd):
    return rnd.choice([0, 1, 2, 7, 42, 99, 12345, rnd.randint(0, 10 ** 6)])


def bounding_opts(rnd):
    o = {}
    r = rnd.random()
    if r < 0.5:
        pass
    elif r < 0.65:
        o['allowedValuesRangeScaling'] = 1.0
    elif r < 0.8:
        o['allowedValuesRangeScaling'] = rnd.choice([0.5, 3.0, 1.5])
    else:
        o['allowedValuesRangeScaling'] = rnd.choice([-1.0, 2.0])
    if rnd.random() < 0.3:
        o['disallowNegativeValues'] = True
    return o


def reference_opts(rnd):
    o = {}
    t = rnd.choice(REF_TYPES)
    if t:
        o['referenceCriterionType'] = t
    if t in (None, 'importanceRatio') and rnd.random() < 0.7:
        o['newCriterionImportance'] = rnd.choice([0.0, 0.25, 0.5, 0.75, 1.0, rnd.random()])
    if t in ('randomUniform', 'randomWeighted'):
        o['newCriterionRandomSeed'] = some_seed(rnd)
    return o


def split_opts(rnd, n_crits, keep_one=True):
    o = {'ratio': rnd.choice([0.0, 0.25, 0.5, 0.34, 0.75, 1.0, round(rnd.random(), 2)])}
    if rnd.random() < 0.3:
        o['min'] = rnd.randint(0, max(0, n_crits - 1))
    if rnd.random() < 0.4:
        o['max'] = rnd.randint(o.get('min', 0), max(o.get('min', 0), n_crits - 1))
    if keep_one and 'max' not in o and rnd.random() < 0.88:
        o['max'] = max(o.get('min', 0), n_crits - 1)   # at least one criterion is kept (not always: a split may take every criterion)
    elif keep_one and 'max' not in o and rnd.random() < 0.5:
        o['ratio'] = 1.0
    od = rnd.choice(ORDERINGS)
    if od:
        o['ordering'] = od
    if od in ('random', 'weakestByProbability', 'strongestByProbability'):
        o['randomSeed'] = some_seed(rnd)
    return o


def fun_def(rnd, zero_prob=0.15):
    if rnd.random() < zero_prob:
        return {'function': 'linear', 'params': {'a': 0, 'b': 0}}
    if rnd.random() < 0.6:
        return {'function': 'linear', 'params': {'a': rnd.choice([0.5, 1.0, 2.0, 0.25]), 'b': rnd.choice([0, 0, 0.125])}}
    return {'function': 'expFromZero', 'params': {'alpha': rnd.choice([0.5, 1.0, 2.0, -1.0]), 'multiplier': rnd.choice([0.5, 1.0, 0.25])}}


def gen_bias(rnd, name, req, n_crits):
    alts = [a['id'] for a in req['knownAlternatives']]
    if name in ('criteriaOmission', 'preferenceReversal'):
        p = split_opts(rnd, n_crits, keep_one=(name == 'criteriaOmission'))
    elif name == 'fatigue':
        p = dict(bounding_opts(rnd), randomSeed=some_seed(rnd))
        if rnd.random() < 0.55:
            p['function'] = 'const'
            p['params'] = {'value': rnd.choice([0, 0.1, 0.25, 0.5, 1.0, -0.5, 2.0])}
        else:
            p['function'] = 'expFromZero'
            p['params'] = {'alpha': rnd.choice([0.01, 0.1, 0.5, -0.2]), 'multiplier': rnd.choice([0.1, 1.0, 0.5]),
                           'queryNumber': rnd.choice([0, 1, 3, 10, 25])}
        # a parameter left out is 0 (never what an earlier request carried)
        for k in list(p['params']):
            if rnd.random() < 0.15:
                del p['params'][k]
    elif name == 'criteriaConcealment':
        p = dict(bounding_opts(rnd), **reference_opts(rnd))
        p['randomSeed'] = some_seed(rnd)
        if rnd.random() < 0.6:
            p['newCriterionScaling'] = rnd.choice([-1.0, 0.5, 1.0, 3.0])
    elif name == 'criteriaMixing':
        p = dict(reference_opts(rnd), randomSeed=some_seed(rnd))
        if rnd.random() < 0.7:
            p['mixingRatio'] = rnd.choice([0.0, 0.5, 1.0, 0.25, round(rnd.random(), 2)])
    else:
        k = rnd.choice([1, 1, 2, 3])
        anch = [{'alternative': rnd.choice(alts), 'coefficient': rnd.choice([1.0, 0.5, 2.0, 1.5, 0.25, 1.0, 0.0])} for _ in range(k)]
        for x in anch:
            if rnd.random() < 0.08:
                del x['coefficient']   # a coefficient left out is 0
        applier = rnd.choice(['inline', 'inline', 'newCriterion'])
        ap = bounding_opts(rnd)
        if applier == 'inline':
            if rnd.random() < 0.5:
                ap['applyOnNotConsidered'] = True
        else:
            ap.update(reference_opts(rnd))
            ap['randomSeed'] = some_seed(rnd)
        p = {'anchoringAlternatives': anch, 'loss': fun_def(rnd), 'gain': fun_def(rnd),
             'referencePoints': {'function': rnd.choice(['ideal', 'nadir'])},
             'applier': {'function': applier, 'params': ap}}
    b = {'name': name, 'props': p}
    return b


def add_biases(rnd, req, names=None, length=None, prob_mix=True, disabled_prob=0.1):
    n_crits = len(req['criteria'])
    if names is None:
        length = length if length is not None else rnd.choice([1, 1, 2, 2, 3, 4])
        names = [rnd.choice(BIASES) for _ in range(length)]
    bs = []
    for nm in names:
        b = gen_bias(rnd, nm, req, n_crits)
        if prob_mix:
            r = rnd.random()
            if r < 0.15:
                b['applyProbability'] = 0.0
            elif r < 0.3:
                b['applyProbability'] = round(rnd.random(), 3)
            elif r < 0.4:
                b['applyProbability'] = 1.0
        if rnd.random() < disabled_prob:
            b['disabled'] = True
            if rnd.random() < 0.5:
                b['name'] = 'noSuchBias'
        bs.append(b)
    req = dict(req, biases=bs)
    return req


def biased_request(rnd, method=None, names=None, length=None, prob_mix=True):
    # now and then more alternatives than any small-list threshold inside the code (33-92): the biases work on every known alternative
    req = many_alternatives_request(rnd, method) if rnd.random() < 0.03 else any_request(rnd, method)
    if rnd.random() < 0.1 and req['criteria']:
        # a criterion on which all known alternatives agree and that declares no range: its observed range has width zero
        c = rnd.choice(req['criteria'])
        c.pop('valuesRange', None)
        v = rnd.choice([2.0, 0.0, -1.5, 7.25])
        for a in req['knownAlternatives']:
            if c['id'] in a['criteria']:
                a['criteria'][c['id']] = v
    return add_biases(rnd, req, names=names, length=length, prob_mix=prob_mix)


def choquet_chain_request(rnd):
    """Choquet request in which some alternatives hold chains of near-ties: neighbouring sorted values within the 1e-5 tie
    tolerance of the implementation, extremes further apart, criterion ids not in value order"""
    req = utility_request(rnd, 'choquetIntegral', n_crits=rnd.choice([3, 4, 4]))
    cids = [c['id'] for c in req['criteria']]
    for a in req['knownAlternatives']:
        if rnd.random() < 0.7:
            base = rnd.randint(0, 8) / 8.0
            step = rnd.choice([0.8e-5, 0.9e-5, 0.5e-5, 0.99e-5])
            order = list(range(len(cids)))
            rnd.shuffle(order)
            for k, ci in enumerate(order):
                a['criteria'][cids[ci]] = base + k * step
    return req
