"""The per-property checks."""
import json, os, sys, time
from . import core, emit, gen
from .ctx import Ctx
from .core import log

CHECKS = {}


def check(pid):
    def deco(f):
        CHECKS[pid] = f
        return f
    return deco


def run(pid, tier, seed, replay=None):
    if pid not in CHECKS:
        print('unknown property', pid)
        return 2
    ctx = Ctx(pid, tier, seed)
    try:
        binary, comp_ok = core.build_go()
    except core.BuildError as e:
        ctx.violation('the working tree no longer builds with the verif overlay', {'broken': 'go build', 'log': str(e)},
                      found_input=False)
        return ctx.finish('build failed', 'check %s' % pid)
    ctx.binary, ctx.comp_ok = binary, comp_ok
    ok, out = core.coq_make()
    if not ok:
        ctx.violation('the Coq development no longer builds', {'broken': 'make', 'log': out[-3000:]}, found_input=False)
        return ctx.finish('coq build failed', 'check %s' % pid)
    ctx.pipe = core.Pipe(binary)
    try:
        if replay:
            ctx.replay = json.load(open(replay))
        else:
            ctx.replay = None
        return CHECKS[pid](ctx)
    finally:
        ctx.pipe.close()


def n_cases(ctx, quick, thorough):
    return quick if ctx.quick else thorough


def tie_class(values):
    """coarse description of the tie pattern of a list of floats"""
    vs = sorted(values, reverse=True)
    runs, cur = [], 1
    for a, b in zip(vs, vs[1:]):
        if a == b:
            cur += 1
        else:
            runs.append(cur)
            cur = 1
    runs.append(cur)
    return tuple(runs)


# -------------------------------------------------------------------------------------------------
@check('C04')
def c04(ctx):
    ctx.check_proofs()
    rnd = ctx.rnd
    # (1) component level: AlternativeResults.Ranking against the model's [ranking]
    n1 = n_cases(ctx, 400, 6000)
    items_list = [ctx.replay['items']] if ctx.replay and 'items' in ctx.replay else [gen.ranking_items(rnd) for _ in range(n1)]
    terms, keep = [], []
    for items in items_list:
        res = ctx.pipe.call({'op': 'ranking', 'items': items})
        if not res.get('ok'):
            ctx.violation('Ranking() failed on a list of distinct alternatives: %s' % res.get('err'),
                          {'items': items, 'answer': res}, {'component': 'ranking'})
            continue
        obs = res['result']
        terms.append('(%s, %s)' % (emit.clist('(%s, %s)' % (emit.cstr(i['id']), core.fhex(i['value'])) for i in items),
                                   emit.clist(emit.centry(e) for e in obs)))
        keep.append((items, obs))
        vals = [i['value'] for i in items]
        tc = tie_class([round(v, 8) for v in vals])
        ctx.seen(('ranking', len(items), tc), trivial=len(items) < 2)
        ctx.count('ranking/n=%d' % len(items))
        ctx.count('ranking/ties=%s' % ('none' if max(tc) == 1 else 'all' if len(tc) == 1 else 'some'))
        ctx.sample({'op': 'ranking', 'items': items, 'observed': obs})
    verdicts, logs = core.run_cases('C04r', 'jr', terms)
    for (items, obs), v in zip(keep, verdicts):
        if v == [99]:
            ctx.violation('case file for the Ranking correspondence did not evaluate', {'broken': 'Run/cases_C04r', 'log': logs[:1]},
                          found_input=False)
            break
        if v[1] != 0:
            ctx.violation('ranking returned by the code is not the order of the values / links are not exact',
                          {'items': items, 'observed': obs, 'checker': 'C04_ok'}, {'component': 'ranking'})
        elif v[0] != 0:
            ctx.violation('correspondence Model.Rank.ranking vs AlternativeResults.Ranking broken (checker C04_ok still satisfied on this input)',
                          {'broken': 'correspondence ranking', 'items': items, 'observed': obs,
                           'model': core.eval_term('C04r', 'ranking (map (fun x => (mkA (fst x) [], snd x)) %s)' %
                                                   emit.clist('(%s, %s)' % (emit.cstr(i['id']), core.fhex(i['value'])) for i in items),
                                                   'From RDM Require Import Model.Rank.\n')},
                          found_input=False)
    # (2) end to end, utility methods: checker on the observed result + listing-order invariance
    n2 = n_cases(ctx, 150, 3000)
    reqs = [ctx.replay['request']] if ctx.replay and 'request' in ctx.replay else [gen.utility_request(rnd) for _ in range(n2)]
    terms, keep = [], []
    for req in reqs:
        res = ctx.pipe.call({'op': 'decide', 'req': req})
        if not res.get('ok'):
            ctx.count('e2e/rejected')
            ctx.seen(('e2e-rejected', req['preferenceFunction']), trivial=True)
            continue
        result = res['resp']['result']
        terms.append(emit.cobserved(res))
        keep.append((req, res))
        vals = [e['evaluation']['value'] for e in result]
        ctx.seen(('e2e', req['preferenceFunction'], len(result), tie_class(vals)), trivial=len(result) < 2)
        ctx.count('e2e/' + req['preferenceFunction'])
        ctx.sample({'op': 'decide', 'request': req, 'result': result}, limit=5)
        # metamorphic: listing order of knownAlternatives / choseToMake
        for _ in range(2):
            pr = gen.permuted(rnd, req)
            r2 = ctx.pipe.call({'op': 'decide', 'req': pr})
            ctx.count('e2e/permuted')
            if not r2.get('ok') or r2['resp']['result'] != result:
                ctx.violation('listing the alternatives in another order changes the result',
                              {'request': req, 'permuted': pr, 'result': result, 'permuted_result': r2},
                              {'method': req['preferenceFunction']})
    verdicts, logs = core.run_cases('C04e', 'j_C04_obs', terms)
    for (req, res), v in zip(keep, verdicts):
        if v == [99]:
            ctx.violation('case file for the C04 checker did not evaluate', {'broken': 'Run/cases_C04e', 'log': logs[:1]}, found_input=False)
            break
        if v[0] != 0:
            ctx.violation('utility ranking is not ordered by value with exact links',
                          {'request': req, 'observed': res['resp'], 'checker': 'C04_ok'}, {'method': req['preferenceFunction']})
    return ctx.finish(
        'component: random (id,value) lists with runs of equal values / all equal / values coinciding only after 1e-8 rounding; '
        'end to end: random utility-method requests plus two listing-order permutations each. distinct = (n, tie pattern) signatures, '
        'non-trivial = at least two alternatives',
        './check C04')
