"""The per-property checks."""
import json, os, sys, time
from . import core, emit, gen
from .ctx import Ctx
from .core import log

CHECKS = {}


def check(pid):
    def deco(f):
        CHECKS[pid] = f
        return f
    return deco


def run(pid, tier, seed, replay=None):
    if pid not in CHECKS:
        print('unknown property', pid)
        return 2
    ctx = Ctx(pid, tier, seed)
    try:
        binary, comp_ok = core.build_go()
    except core.BuildError as e:
        ctx.violation('the working tree no longer builds with the verif overlay', {'broken': 'go build', 'log': str(e)},
                      found_input=False)
        return ctx.finish('build failed', 'check %s' % pid)
    ctx.binary, ctx.comp_ok = binary, comp_ok
    # only what the case files of this check import; Properties/<pid>.v and its own dependencies are built by check_proofs
    # (a Gen/ file left behind by a run of C02/C10 on another tree must not break the checks of other properties)
    ok, out = core.coq_make(['Check/Judge.vo'])
    if not ok:
        ctx.violation('the Coq development no longer builds', {'broken': 'make', 'log': out[-3000:]}, found_input=False)
        return ctx.finish('coq build failed', 'check %s' % pid)
    ctx.pipe = core.Pipe(binary)
    try:
        if replay:
            ctx.replay = json.load(open(replay))
        else:
            ctx.replay = None
        return CHECKS[pid](ctx)
    except Exception:
        # the driver met behaviour of the code it cannot interpret (never happens on the tree the model was built for):
        # the correspondence is broken, the property is no longer shown to hold
        import traceback
        tb = traceback.format_exc()
        log(tb[-1500:])
        ctx.violation('the harness could not interpret what the code returned (unexpected shape of an answer)',
                      {'broken': 'correspondence harness of %s' % pid, 'traceback': tb[-3000:]}, found_input=False)
        return ctx.finish('driver exception', './check %s' % pid)
    finally:
        ctx.pipe.close()
        core.cleanup_scratch()


def n_cases(ctx, quick, thorough):
    return quick if ctx.quick else thorough


def tie_class(values):
    """coarse description of the tie pattern of a list of floats"""
    vs = sorted(values, reverse=True)
    runs, cur = [], 1
    for a, b in zip(vs, vs[1:]):
        if a == b:
            cur += 1
        else:
            runs.append(cur)
            cur = 1
    runs.append(cur)
    return tuple(runs)


# -------------------------------------------------------------------------------------------------
def same_up_to_drift(r1, r2, rel=1e-9):
    """two utility rankings of the same alternatives whose values differ by float drift only (a bias that sums over the alternatives
    adds in listing order): every value within `rel`, and - unless two values of one ranking are that close to each other, in which case
    the drift may legitimately move a tie - the same order and links"""
    try:
        d1 = {e['alternative']['id']: e for e in r1}
        d2 = {e['alternative']['id']: e for e in r2}
        if set(d1) != set(d2) or len(d1) != len(r1) or len(d2) != len(r2):
            return False
        close = lambda a, b: a == b or abs(a - b) <= rel * (abs(a) + abs(b)) + 1e-12
        for i in d1:
            if not close(d1[i]['evaluation']['value'], d2[i]['evaluation']['value']):
                return False
        vals = sorted(e['evaluation']['value'] for e in r1)
        near_tie = any(a != b and close(a, b) for a, b in zip(vals, vals[1:])) or \
            any(d1[i]['evaluation']['value'] != d2[i]['evaluation']['value'] and
                any(j != i and close(d1[i]['evaluation']['value'], d1[j]['evaluation']['value']) for j in d1) for i in d1)
        if near_tie:
            return True
        return [e['alternative']['id'] for e in r1] == [e['alternative']['id'] for e in r2] and \
            all(sorted(d1[i]['betterThanOrSameAs']) == sorted(d2[i]['betterThanOrSameAs']) for i in d1)
    except (KeyError, TypeError):
        return False


@check('C04')
def c04(ctx):
    ctx.check_proofs()
    rnd = ctx.rnd
    # (1) component level: AlternativeResults.Ranking against the model's [ranking]
    n1 = n_cases(ctx, 400, 6000)
    items_list = [ctx.replay['items']] if ctx.replay and 'items' in ctx.replay else [gen.ranking_items(rnd) for _ in range(n1)]
    terms, keep = [], []
    for items in items_list:
        res = ctx.pipe.call({'op': 'ranking', 'items': items})
        if not res.get('ok'):
            ctx.violation('Ranking() failed on a list of distinct alternatives: %s' % res.get('err'),
                          {'items': items, 'answer': res}, {'component': 'ranking'})
            continue
        obs = res['result']
        terms.append('(%s, %s)' % (emit.clist('(%s, %s)' % (emit.cstr(i['id']), core.fhex(i['value'])) for i in items),
                                   emit.clist(emit.centry(e) for e in obs)))
        keep.append((items, obs))
        vals = [i['value'] for i in items]
        tc = tie_class([round(v, 8) for v in vals])
        ctx.seen(('ranking', len(items), tc), trivial=len(items) < 2)
        ctx.count('ranking/n=%d' % len(items))
        ctx.count('ranking/ties=%s' % ('none' if max(tc) == 1 else 'all' if len(tc) == 1 else 'some'))
        ctx.sample({'op': 'ranking', 'items': items, 'observed': obs})
    verdicts, logs = core.run_cases('C04r', 'jr', terms)
    for (items, obs), v in zip(keep, verdicts):
        if v == [99]:
            ctx.violation('case file for the Ranking correspondence did not evaluate', {'broken': 'Run/cases_C04r', 'log': logs[:1]},
                          found_input=False)
            break
        if v[1] != 0:
            ctx.violation('ranking returned by the code is not the order of the values / links are not exact',
                          {'items': items, 'observed': obs, 'checker': 'C04_ok'}, {'component': 'ranking'})
        elif v[0] != 0:
            ctx.violation('correspondence Model.Rank.ranking vs AlternativeResults.Ranking broken (checker C04_ok still satisfied on this input)',
                          {'broken': 'correspondence ranking', 'items': items, 'observed': obs,
                           'model': core.eval_term('C04r', 'ranking (map (fun x => (mkA (fst x) [], snd x)) %s)' %
                                                   emit.clist('(%s, %s)' % (emit.cstr(i['id']), core.fhex(i['value'])) for i in items),
                                                   'From RDM Require Import Model.Rank.\n')},
                          found_input=False)
    # (2) end to end, utility methods: checker on the observed result + listing-order invariance
    n2 = n_cases(ctx, 150, 3000)
    # a third of the requests carry biases; fatigue is left out of this stream: it consumes its seeded draws in listing order by
    # design (C17), every other bias is a function of the decision problem, not of its listing
    order_free = [b for b in gen.BIASES if b != 'fatigue']

    def g2(rnd):
        req = gen.utility_request(rnd)
        if rnd.random() < 0.35:
            req = gen.add_biases(rnd, req, names=[rnd.choice(order_free) for _ in range(rnd.choice([1, 1, 2]))], prob_mix=False)
        return req
    def anchored(rnd):
        """several distinct anchoring alternatives named in an order of their own (not the listing order), coefficients of mixed
        size including 0 / left out: the reference point is a function of the bias parameters, not of the listing"""
        req = gen.utility_request(rnd, n_alts=rnd.choice([3, 4, 5]))
        b = gen.gen_bias(rnd, 'anchoring', req, len(req['criteria']))
        ids = [a['id'] for a in req['knownAlternatives']]
        rnd.shuffle(ids)
        b['props']['anchoringAlternatives'] = [dict({'alternative': i}, **({} if rnd.random() < 0.15 else
                                                {'coefficient': rnd.choice([0.0, 0.0, 1.0, 0.5, 2.0, 0.25])}))
                                               for i in ids[:rnd.choice([2, 2, 3])]]
        req['biases'] = [b]
        return req
    reqs = [ctx.replay['request']] if ctx.replay and 'request' in ctx.replay else \
        [g2(rnd) for _ in range(n2)] + [anchored(rnd) for _ in range(n_cases(ctx, 40, 600))]
    terms, keep = [], []
    for req in reqs:
        res = ctx.pipe.call({'op': 'decide', 'req': req})
        if not res.get('ok'):
            ctx.count('e2e/rejected')
            ctx.seen(('e2e-rejected', req['preferenceFunction']), trivial=True)
            continue
        result = res['resp']['result']
        terms.append(emit.cobserved(res))
        keep.append((req, res))
        vals = [e['evaluation']['value'] for e in result]
        ctx.seen(('e2e', req['preferenceFunction'], len(result), tie_class(vals)), trivial=len(result) < 2)
        ctx.count('e2e/' + req['preferenceFunction'])
        ctx.sample({'op': 'decide', 'request': req, 'result': result}, limit=5)
        # metamorphic: listing order of knownAlternatives / choseToMake
        for _ in range(2):
            pr = gen.permuted(rnd, req)
            r2 = ctx.pipe.call({'op': 'decide', 'req': pr})
            ctx.count('e2e/permuted')
            if not r2.get('ok') or (r2['resp']['result'] != result and not (req.get('biases') and same_up_to_drift(result, r2['resp']['result']))):
                ctx.violation('listing the alternatives in another order changes the result',
                              {'request': req, 'permuted': pr, 'result': result, 'permuted_result': r2},
                              {'method': req['preferenceFunction']})
    verdicts, logs = core.run_cases('C04e', 'j_C04_obs', terms)
    for (req, res), v in zip(keep, verdicts):
        if v == [99]:
            ctx.violation('case file for the C04 checker did not evaluate', {'broken': 'Run/cases_C04e', 'log': logs[:1]}, found_input=False)
            break
        if v[0] != 0:
            ctx.violation('utility ranking is not ordered by value with exact links',
                          {'request': req, 'observed': res['resp'], 'checker': 'C04_ok'}, {'method': req['preferenceFunction']})
    return ctx.finish(
        'component: random (id,value) lists with runs of equal values / all equal / values coinciding only after 1e-8 rounding; '
        'end to end: random utility-method requests (a third with biases, plus anchoring on several alternatives with coefficients '
        'including 0) and two listing-order permutations each. distinct = (n, tie pattern) signatures, '
        'non-trivial = at least two alternatives',
        './check C04')


# -------------------------------------------------------------------------------------------------
# method-level properties decided from whole requests (columns of Check/Judge.judge_all)
from . import e2e
import glob

COL = {name: i for i, name in enumerate(e2e.COLS)}


def load_corpus(pid):
    reqs = []
    for f in sorted(glob.glob(os.path.join(core.VERIF, 'corpus', pid, '*.json'))):
        try:
            d = json.load(open(f))
            reqs.append(d['request'] if 'request' in d else d)
        except Exception as e:
            log('corpus file unreadable', f, e)
    return reqs


def req_signature(req, res):
    mp = req.get('methodParameters') or {}
    alts = req.get('knownAlternatives') or []
    n_cons = len(req.get('choseToMake') or [])
    cur = mp.get('currentChoice')
    curpos = 'none' if not cur else ('considered' if cur in (req.get('choseToMake') or []) else 'known-only')
    out = 'rejected'
    if res.get('ok'):
        r = res['resp']['result']
        evs = [json.dumps(e['evaluation'], sort_keys=True) for e in r]
        out = 'n%d/distinct-evals%d' % (len(r), len(set(evs)))
    return (req.get('preferenceFunction'), len(alts), n_cons, len(req.get('criteria') or []), curpos,
            tuple(b.get('name') for b in (req.get('biases') or []) if not b.get('disabled')),
            mp.get('function'), mp.get('drawResolution'), bool(mp.get('randomAlternativesOrdering')), out)


def tied_aspect_weights(req, res):
    fin = res.get('evalInput') or {}
    w = ((fin.get('MethodParameters') or {}).get('Weights')) or (req.get('methodParameters') or {}).get('weights') or {}
    vals = list(w.values())
    return len(set(vals)) != len(vals)


def shrink(ctx, req, still_fails, budget=40):
    """greedy reduction of a failing request: drop alternatives / criteria / biases while it still fails"""
    cur = req
    tried = 0
    changed = True
    while changed and tried < budget:
        changed = False
        cands = []
        for i in range(len(cur.get('knownAlternatives') or [])):
            a = cur['knownAlternatives'][i]['id']
            c = dict(cur, knownAlternatives=cur['knownAlternatives'][:i] + cur['knownAlternatives'][i + 1:],
                     choseToMake=[x for x in cur['choseToMake'] if x != a])
            if (c.get('methodParameters') or {}).get('currentChoice') == a:
                continue
            cands.append(c)
        for i in range(len(cur.get('biases') or [])):
            cands.append(dict(cur, biases=cur['biases'][:i] + cur['biases'][i + 1:]))
        for c in cands:
            tried += 1
            if tried > budget:
                break
            if still_fails(c):
                cur = c
                changed = True
                break
    return cur


def series_stalls(mp, increasing):
    """the generated level series cannot advance from its start value in binary64 (r + c == r): it ends there by design of the code
    (in exact arithmetic it would have ~1/c levels, far beyond any resource). The series checkers state the documented rule and are not
    applied to such a request; the correspondence with the binary64 model still is."""
    if not isinstance(mp, dict) or not isinstance(mp.get('params'), dict) or mp.get('function') in (None, 'thresholds'):
        return False
    p = mp['params']
    try:
        c, mn, mx = float(p.get('coefficient', 0)), float(p.get('minValue', 0)), float(p.get('maxValue', 0))
    except (TypeError, ValueError):
        return False
    mul = mp.get('function') == 'idealMultipliedCoefficient'
    if increasing:
        r = mn
        nxt = min((1 + r) * (1 + c) - 1, 1) if mul else min(r + c, 1)
        return nxt == r and r < mx
    r = mx
    nxt = r * c if mul else max(r - c, 0)
    return nxt == r and r > mn


COL_TEXT = {'coherent': 'the method is evaluated on incoherent data: a criterion the alternatives carry has no entry in the method parameters '
                        '(or an alternative lacks a value), so what is reported is not the aggregate over the criteria the alternative is evaluated on'}


def service_crosscheck(ctx, reqs, limit):
    """the property is stated for the service: the requests of this check are also sent, one after the other, to ONE running HTTP service
    and every answer is compared with the library's answer to a freshly decoded copy of the same request - what the handler keeps between
    requests (pooled request objects, shared maps, reordered registries, cached generators) shows as a difference"""
    if ctx.replay and 'service_history' not in ctx.replay:
        return
    seq = list(ctx.replay['service_history']) * 5 if ctx.replay else list(reqs[:limit])
    if not seq:
        return
    srv = Server(ctx.binary)
    hist = []
    try:
        for req in seq:
            hist.append(req)
            st, out = srv.post(json.dumps(req).encode())
            lib = ctx.pipe.call({'op': 'decide', 'req': req})
            ctx.count('service-vs-library')
            try:
                sj = json.loads(out) if st == 200 else None
            except Exception:
                sj = 'not JSON'
            same = (st == 200 and lib.get('ok') and sj == lib.get('resp')) or (st == 400 and not lib.get('ok'))
            if not same:
                ctx.violation('the service answers a request differently from the library on the same request (after the requests served before it)',
                              {'request': req, 'service_history': hist[-8:], 'service': [st, (out or b'').decode('utf8', 'replace')[:3000]],
                               'library': lib.get('resp') or lib.get('err')}, {'method': req.get('preferenceFunction')})
                break
            if not srv.alive():
                break
    finally:
        srv.close()


def method_check(ctx, col, gens, n_quick, n_thorough, rule, agree_col='agree', agree_scope=None,
                 finding_facts=None, code2_finding=None, excuse=None, search_gens=None, also_cols=(), extra_corr=None, spec_determines=None,
                 skip_checker=None):
    """gens: list of (weight, generator(rnd) -> request). col: checker column name.
    agree_col: which correspondence column ties the model to the code for this property."""
    pid = ctx.pid
    ctx.check_proofs()
    rnd = ctx.rnd
    if ctx.replay and 'request' in ctx.replay:
        reqs = [ctx.replay['request']]
    else:
        reqs = load_corpus(pid)
        n = n_cases(ctx, n_quick, n_thorough)
        ws = [g[0] for g in gens]
        for _ in range(n):
            g = rnd.choices(gens, ws)[0][1]
            reqs.append(g(rnd))
    ress, verd, logs = e2e.run_all(ctx.pipe, reqs, pid)
    broken = []
    ci, ai = COL[col], COL[agree_col]
    for req, res, v in zip(reqs, ress, verd):
        sig = req_signature(req, res)
        ctx.seen(sig, trivial=(not res.get('ok')) or len(res['resp']['result']) < 2)
        ctx.count('method/' + str(req.get('preferenceFunction')))
        ctx.count('outcome/' + ('accepted' if res.get('ok') else 'rejected:' + str(res.get('kind'))))
        ctx.count('biases/%d' % len([b for b in (req.get('biases') or []) if not b.get('disabled')]))
        ctx.sample({'request': req, 'response': res.get('resp') if res.get('ok') else res.get('err')}, limit=3)
        if v == [99] or len(v) <= max(ci, ai):
            ctx.violation('case file did not evaluate', {'broken': 'Run/cases_%s' % pid, 'log': logs[:1], 'request': req},
                          found_input=False)
            continue
        facts = {'method': req.get('preferenceFunction')}
        if finding_facts:
            facts.update(finding_facts(req, res))
        if skip_checker and skip_checker(req):
            ctx.count('checker not applied (level series cannot advance in binary64)')
        elif v[ci] == 2 and code2_finding:
            ctx.violation(code2_finding, {'request': req, 'response': res.get('resp')}, dict(facts, code=2))
        elif v[ci] != 0:
            def still(c, ci=ci):
                r2, v2, _ = e2e.run_all(ctx.pipe, [c], pid + 's')
                return len(v2[0]) > ci and v2[0][ci] == 1
            # shrink only the first failing cases: every shrink step is a round trip through the code and coqc
            ctx.shrunk = getattr(ctx, 'shrunk', 0) + 1
            small = shrink(ctx, req, still) if (not ctx.replay and ctx.shrunk <= 2) else req
            r3 = ctx.pipe.call({'op': 'trace', 'req': small})
            ctx.violation('checker %s_ok rejects what the implementation returned' % col,
                          {'request': small, 'original_request': req, 'response': r3.get('resp') or r3.get('err'),
                           'final_state': r3.get('evalInput'), 'checker': 'Check/%s.v' % col[:3]}, facts)
        for ec in also_cols:
            if skip_checker and skip_checker(req) and ec != 'coherent':
                continue
            if len(v) > COL[ec] and v[COL[ec]] != 0:
                ctx.violation(COL_TEXT.get(ec) or 'checker %s rejects what the implementation returned' % ec,
                              {'request': req, 'response': res.get('resp'), 'final_state': res.get('evalInput'), 'checker': ec}, facts)
        if v[0] == 2 and res.get('kind') == 'panic' and 'runtime error' in str(res.get('err')):
            # not a rejection: the implementation crashes on a request its specification (the model) answers
            ctx.violation('the implementation fails with a Go runtime error on a request its specification answers: %s' % str(res.get('err'))[:160],
                          {'request': req, 'error': res.get('err')}, facts)
        if v[ai] != 0 and (agree_scope is None or agree_scope(req)):
            if excuse and excuse(req, res, v):
                ctx.count('correspondence/excused')
                continue
            broken.append((req, res, v))
    if extra_corr and not ctx.replay:
        broken.extend(extra_corr(ctx, reqs, ress))
    if broken and not any(vv[2] for vv in ctx.violations) and not ctx.replay:
        # the correspondence broke but every observed output satisfies the checker: search for a failing input
        sg = search_gens or gens
        sws = [g[0] for g in sg]
        extra = [rnd.choices(sg, sws)[0][1](rnd) for _ in range(n_cases(ctx, 1500, 12000))]
        r2, v2, _ = e2e.run_all(ctx.pipe, extra, pid + 'q')
        ctx.notes.append('search phase: %d further cases' % len(extra))
        for req, res, v in zip(extra, r2, v2):
            ctx.evaluations += 1
            if len(v) > ci and v[ci] == 1:
                ctx.violation('checker %s_ok rejects what the implementation returned (found by the search phase)' % col,
                              {'request': req, 'response': res.get('resp') or res.get('err'), 'final_state': res.get('evalInput'),
                               'checker': 'Check/%s.v' % col[:3]}, {'method': req.get('preferenceFunction')})
                break
    if broken and spec_determines and not any(vv[2] for vv in ctx.violations):
        # the specification determines the response (uniqueness theorem named in spec_determines): a response that differs from
        # the one computed by the specification on the same request and the same seeded draws is not the specified one
        cand = [b for b in broken if b[2][0] == 3 and not e2e.enabled_biases(b[0])] or [b for b in broken if b[2][0] == 3]
        if cand:
            req, res, v = cand[0]
            model = core.eval_term(pid + 'm', 'decide %s %s' % (e2e.env_for(ctx.pipe, req), emit.crequest(req)))
            ctx.violation('the response is not the one the specification determines (%s)' % spec_determines,
                          {'request': req, 'response': res.get('resp'), 'specified': model[:6000]}, {'method': req.get('preferenceFunction')})
    if broken and not any(vv[2] for vv in ctx.violations):
        req, res, v = broken[0]
        model = core.eval_term(pid + 'm', 'decide %s %s' % (e2e.env_for(ctx.pipe, req), emit.crequest(req)))
        ctx.violation('correspondence model/code broken on %d of %d cases (%s); every observed output still satisfies the checker'
                      % (len(broken), len(reqs), e2e.AGREE_TEXT.get(v[0], v[0])),
                      {'broken': 'correspondence %s (column %s)' % (pid, agree_col), 'request': req,
                       'response': res.get('resp') or res.get('err'), 'model': model[:6000]}, found_input=False)
    elif broken:
        ctx.notes.append('correspondence also broken on %d cases' % len(broken))
    service_crosscheck(ctx, reqs, n_cases(ctx, 80, 1200))
    if getattr(ctx, 'before_finish', None) and not ctx.replay:
        ctx.before_finish(ctx)
    return ctx.finish(rule, './check %s' % pid)


def not_tied_aspect(req, res, v):
    return req.get('preferenceFunction') == 'aspectEliminationHeuristic' and tied_aspect_weights(req, res) and v[0] == 3


def gen_method(m):
    return lambda rnd: gen.any_request(rnd, m)


ALL_GENS = [(1, gen_method(m)) for m in gen.METHODS]


def allow_groups(rnd):
    """majority with draws allowed over few distinct values: tie groups of every small size stacked on each other (2 over 3, 3 over 5, ...)"""
    n = rnd.choice([4, 5, 5, 6, 7, 8, 9, 11])
    cids = rnd.sample(gen.CRIT_IDS, 2)
    alts = [{'id': i, 'criteria': {c: float(rnd.randint(0, 2)) for c in cids}} for i in rnd.sample(gen.ALT_IDS, n)]
    mp = {'weights': {c: 1.0 for c in cids}, 'drawResolution': 'allow', 'randomSeed': rnd.randint(0, 10 ** 6),
          'randomAlternativesOrdering': rnd.random() < 0.3}
    if rnd.random() < 0.25:
        mp['currentChoice'] = rnd.choice(alts)['id']
    return {'preferenceFunction': 'majorityHeuristic', 'knownAlternatives': alts, 'choseToMake': [a['id'] for a in alts],
            'criteria': [{'id': c, 'type': 'gain'} for c in cids], 'methodParameters': mp, 'biases': [], 'biasApplyRandomSeed': 0}


def stacked_groups(rnd):
    """majority with draws allowed on data built as strictly ordered groups of identical alternatives, listed from the worst group
    up: the result is a stack of tie groups of chosen sizes (3 under 2, 5 under 3, 7 under 2, ...; slices grown by append have
    spare capacity at exactly such lengths)"""
    sizes = [rnd.choice([1, 2, 3, 3, 5, 6, 7]) for _ in range(rnd.choice([2, 3, 3, 4]))]
    cids = rnd.sample(gen.CRIT_IDS, 2)
    ids = ['g%02d' % i for i in range(sum(sizes))]
    rnd.shuffle(ids)
    alts, k = [], 0
    for level, sz in enumerate(sizes):
        for _ in range(sz):
            alts.append({'id': ids[k], 'criteria': {c: float(level) for c in cids}})
            k += 1
    if rnd.random() < 0.3:
        alts.reverse()
    mp = {'weights': {c: 1.0 for c in cids}, 'drawResolution': 'allow', 'randomSeed': rnd.randint(0, 10 ** 6), 'randomAlternativesOrdering': rnd.random() < 0.2}
    return {'preferenceFunction': 'majorityHeuristic', 'knownAlternatives': alts, 'choseToMake': [a['id'] for a in alts],
            'criteria': [{'id': c, 'type': 'gain'} for c in cids], 'methodParameters': mp, 'biases': [], 'biasApplyRandomSeed': 0}


def no_criteria_left(rnd):
    """requests the method finally evaluates without any criterion: declared that way, or every criterion omitted by a bias"""
    req = gen.any_request(rnd, rnd.choice(gen.METHODS + ['weightedSum', 'weightedSum', 'owa']))
    if rnd.random() < 0.4:
        req['criteria'] = []
        for a in req['knownAlternatives']:
            a['criteria'] = {}
        mp = req.get('methodParameters') or {}
        if isinstance(mp.get('weights'), dict) and rnd.random() < 0.7:
            mp['weights'] = {}
        if 'electreCriteria' in mp:
            mp['electreCriteria'] = {}
    else:
        n = len(req['criteria'])
        p = rnd.choice([{'ratio': 1.0}, {'ratio': 1.0, 'ordering': 'strongest'}, {'ratio': 0.0, 'min': n}, {'ratio': 0.5, 'min': n, 'max': n + 1}])
        pre = [gen.gen_bias(rnd, rnd.choice(gen.BIASES), req, n)] if rnd.random() < 0.3 and n else []
        req['biases'] = pre + [{'name': 'criteriaOmission', 'props': dict(p)}]
    if len(req['choseToMake']) < 2:
        req['choseToMake'] = [a['id'] for a in req['knownAlternatives']]
    return req


@check('C01')
def c01(ctx):
    return method_check(
        ctx, 'C01', ALL_GENS + [(2, gen_method('majorityHeuristic')), (2, gen_method('aspectEliminationHeuristic')), (2, gen_method('satisfactionHeuristic')),
                                (4, gen_biased()), (1, no_criteria_left), (1, allow_groups), (1, stacked_groups), (0.15, lambda rnd: gen.many_alternatives_request(rnd)),
                                (0.15, lambda rnd: gen.add_biases(rnd, gen.many_alternatives_request(rnd), prob_mix=False)),
                                (2, lambda rnd: gen.biased_request(rnd, method=rnd.choice(gen.HEURISTICS), prob_mix=False))], 450, 8000,
        'random valid requests over the seven methods (the three heuristics over-weighted: tie groups under every draw policy), currentChoice '
        'absent / considered / known-only, shuffled orders; half of the requests carry bias sequences of length 1-4 over the six biases; '
        'requests evaluated without any criterion (none declared / all omitted); distinct = (method, sizes, currentChoice position, bias sequence, draw policy, outcome shape); '
        'non-trivial = accepted with at least two entries',
        agree_col='C01struct', excuse=not_tied_aspect)


@check('C03')
def c03(ctx):
    return method_check(
        ctx, 'C03', [(1, gen_method(m)) for m in gen.UTILITY]
        + [(1, (lambda mm: (lambda rnd: gen.biased_request(rnd, method=mm, prob_mix=False)))(m)) for m in gen.UTILITY], 300, 6000,
        'random weightedSum / owa / choquetIntegral requests: weights of mixed magnitude, cost criteria, equal weights, non-additive '
        'capacities with scrambled keys, values with near-ties at 0.9e-5 / 1.1e-5; half of the requests carry bias sequences of length 1-4 '
        '(the value must be the aggregate of the post-bias values under the post-bias parameters, both dumped from the running code); '
        'distinct = request shape x outcome shape',
        agree_col='C03values', also_cols=('coherent',),
        code2_finding='weightedSum reports the plain sum of the (signed) values, the weights are not applied')


def c05_matrices(ctx):
    """raw credibility matrices over {0, 1/4, 1/2, 3/4, 1} (and some real ones) through the exported RankAscending / RankDescending"""
    rnd = ctx.rnd
    if 'electre' in core.COMP_SKIPPED:
        ctx.notes.append('component overlay for ELECTRE no longer compiles; matrix-level correspondence skipped')
        return
    terms, keep = [], []
    for _ in range(n_cases(ctx, 1200, 30000)):
        n = rnd.choice([2, 3, 3, 4, 4, 5, 6])
        grid = rnd.random() < 0.7
        m = [[(rnd.randint(0, 4) / 4.0 if grid else round(rnd.random(), 3)) if i != j else 1.0 for j in range(n)] for i in range(n)]
        a, b = rnd.choice([(-0.15, 0.3), (-0.15, 0.3), (0.0, 0.125), (-0.25, 0.5), (0.0, 0.0), (-0.1, 0.1), (-0.5, 0.5)])
        res = ctx.pipe.call({'op': 'electre_rank', 'args': {'matrix': m, 'a': a, 'b': b}})
        if not res.get('ok'):
            ctx.violation('harness: electre_rank op unavailable', {'broken': 'component overlay', 'answer': res}, found_input=False)
            return
        r = res['result']
        obs = 'None' if not r.get('ok') else '(Some (%s, %s))' % (emit.clist(emit.cZ(x) for x in r['asc']), emit.clist(emit.cZ(x) for x in r['desc']))
        terms.append('(mkRC %s %s %s %s)' % (emit.clist(emit.clist(core.fhex(x) for x in row) for row in m), core.fhex(a), core.fhex(b), obs))
        keep.append((m, a, b, r))
        ctx.seen(('matrix', n, (a, b), tuple(r.get('asc') or []), tuple(r.get('desc') or [])), trivial=(n < 3))
        ctx.count('matrix/n=%d' % n)
    verd, logs = core.run_cases('C05m', 'judge_rank', terms, shard=300)
    bad = [(k, v) for k, v in zip(keep, verd) if v and v[0] != 0]
    for (m, a, b, r), v in zip(keep, verd):
        if v and len(v) > 1 and v[1] != 0:
            ctx.violation('class numbers of a distillation are not consecutive integers from 1', {'matrix': m, 'distillation': [a, b], 'result': r}, {'component': 'rank'})
    if bad:
        (m, a, b, r), v = bad[0]
        model = core.eval_term('C05mm', '(@rank_ascending NumF %s (mkLF %s %s), @rank_descending NumF %s (mkLF %s %s))' % (
            (emit.clist(emit.clist(core.fhex(0.0 if i == j else x) for j, x in enumerate(row)) for i, row in enumerate(m)), core.fhex(a), core.fhex(b)) * 2),
            'From RDM Require Import Model.Electre.\n')
        ctx.violation('the distillations of a credibility matrix differ from the method definition (executable specification) on %d of %d matrices'
                      % (len(bad), len(keep)), {'matrix': m, 'distillation_function': {'a': a, 'b': b}, 'code': r, 'specification': model[:1500],
                                                 'checker': 'Model/Electre.v rank_ascending / rank_descending (theorems in Properties/C05.v)'},
                      {'component': 'rank'})


def veto_grid(rnd):
    """integer values 0..10 on 3-4 criteria with q < p < v present everywhere: most ordered pairs have several criteria in the
    veto zone, of different strength (partial and full vetoes, above and below the concordance)"""
    req = gen.electre_request(rnd, n_alts=rnd.choice([3, 4, 4, 5]), n_crits=rnd.choice([3, 3, 4]))
    q, p = rnd.choice([(1.0, 3.0), (1.0, 2.0), (0.5, 2.5)])
    for c in req['criteria']:
        c['type'] = 'gain' if rnd.random() < 0.75 else 'cost'
        c.pop('valuesRange', None)
        req['methodParameters']['electreCriteria'][c['id']] = {'k': rnd.choice([1.0, 2.0, 3.0, 3.0]), 'q': {'a': 0, 'b': q}, 'p': {'a': 0, 'b': p},
                                                               'v': {'a': 0, 'b': rnd.choice([7.0, 7.0, 5.0, 9.0])}}
    for a in req['knownAlternatives']:
        for c in req['criteria']:
            a['criteria'][c['id']] = float(rnd.randint(0, 10))
    if rnd.random() < 0.7:
        req['methodParameters'].pop('electreDistillation', None)
    return req


def c05_cred(ctx, reqs, ress):
    """the credibility matrix the code derives (its own evaluateCredibilityMatrix, reported by the trace) against the model's"""
    if 'cred' in core.COMP_SKIPPED:
        ctx.notes.append('component overlay for the credibility matrix no longer compiles; matrix correspondence skipped')
        return []
    rnd = ctx.rnd
    # the distillation function a request is evaluated with is its own one, or the documented default 0.3 - 0.15 x
    for req, res in zip(reqs, ress):
        df = ((res.get('evalInput') or {}).get('MethodParameters') or {}).get('DistillationFun') if req.get('preferenceFunction') == 'electreIII' else None
        if isinstance(df, dict):
            want = (req.get('methodParameters') or {}).get('electreDistillation') or {'a': -0.15, 'b': 0.3}
            if (df.get('A'), df.get('B')) != (want.get('a', 0), want.get('b', 0)):
                ctx.violation('an electreIII request was evaluated with a distillation function that is neither its own nor the default',
                              {'request': req, 'evaluated_with': df, 'expected': want, 'response': res.get('resp')}, {'method': 'electreIII'})
                break
    more = [veto_grid(rnd) for _ in range(n_cases(ctx, 250, 5000))]
    mres = [ctx.pipe.call({'op': 'trace', 'req': r}) for r in more]
    terms, keep = [], []
    for req, res in list(zip(reqs, ress)) + list(zip(more, mres)):
        if req.get('preferenceFunction') != 'electreIII' or not isinstance(res.get('cred'), list) or res.get('evalInput') is None:
            continue
        m = res['cred']
        terms.append('(mkCC %s %s)' % (emit.cstate_d('electreIII', res['evalInput']), emit.clist(emit.clist(core.fhex(x) for x in row) for row in m)))
        keep.append((req, res))
        ctx.count('credibility/n=%d' % len(m))
        ctx.evaluations += 1
    if not terms:
        return []
    verd, logs = core.run_cases('C05c', 'judge_cred', terms, shard=150)
    out = []
    for (req, res), v in zip(keep, verd):
        if v and v[0] == 20:
            core.DRIFT += 1
        elif not v or v[0] != 0:
            out.append((req, res, [3 if (v and v[0] == 3) else (v[0] if v else 99)]))
    if out:
        ctx.notes.append('credibility matrix of the code differs from the model on %d of %d states' % (len(out), len(keep)))
    return out


@check('C05')
def c05(ctx):
    ctx.before_finish = c05_matrices
    return method_check(
        ctx, 'C05', [(3, gen_method('electreIII')), (1, (lambda rnd: gen.biased_request(rnd, method='electreIII', prob_mix=False))), (2, veto_grid),
                     (0.25, lambda rnd: gen.large_request(rnd, 'electreIII', lo=13, hi=23)),
                     (0.07, lambda rnd: gen.many_alternatives_request(rnd, 'electreIII', hi=92))], 300, 6000,
        'random electreIII requests: gain and cost criteria, every presence pattern of q<p<v, ties on criteria and identical '
        'alternatives, default and custom distillation functions, instances of 13-23 and of 65-92 alternatives; plus raw credibility matrices over {0, 1/4, .., 1} of size 2-6 through the '
        'exported RankAscending / RankDescending (ex-aequo best sets needing inner distillations, classes removed from the middle); '
        'distinct = request shape x outcome shape, matrix size x function x result; plus the credibility matrix of every evaluated state '
        '(and of 250+ integer-grid requests with several partial vetoes per pair) against the model entry by entry; when a correspondence '
        'breaks a search phase of 1500+ such requests looks for indices that differ',
        agree_col='agree', extra_corr=c05_cred, search_gens=[(1, veto_grid)])


def c11_concurrent(ctx):
    """majority requests with different draw policies served at the same time by the one registered heuristic: the policy each
    request configures decides its own draws (every answer is judged by the checker, and compared with the answer given alone)"""
    if ctx.replay and 'batch' not in ctx.replay:
        return
    rnd = ctx.rnd
    def drawy(rnd):
        # many alternatives over few distinct values on equally weighted criteria: most comparisons end in a draw
        n = rnd.choice([24, 32, 40])
        cids = rnd.sample(gen.CRIT_IDS, 2)
        alts = [{'id': 'a%02d' % i, 'criteria': {c: float(rnd.randint(0, 1)) for c in cids}} for i in range(n)]
        mp = {'weights': {c: 1.0 for c in cids}, 'randomSeed': rnd.randint(0, 10 ** 6), 'randomAlternativesOrdering': rnd.random() < 0.5}
        dr = rnd.choice(['allow', 'current', 'newer', 'random', None])
        if dr:
            mp['drawResolution'] = dr
        if rnd.random() < 0.4:
            mp['currentChoice'] = rnd.choice(alts)['id']
        return {'preferenceFunction': 'majorityHeuristic', 'knownAlternatives': alts, 'choseToMake': [a['id'] for a in alts],
                'criteria': [{'id': c, 'type': 'gain'} for c in cids], 'methodParameters': mp, 'biases': [], 'biasApplyRandomSeed': 0}
    for bi in range(1 if ctx.replay else n_cases(ctx, 5, 80)):
        base = [drawy(rnd) for _ in range(10)]
        batch = ctx.replay['batch'] if ctx.replay else [rnd.choice(base) for _ in range(48)]
        alone = {}
        for r in batch:
            k = json.dumps(r, sort_keys=True)
            if k not in alone:
                alone[k] = ctx.pipe.call({'op': 'trace', 'req': r})
        pp = core.Pipe(ctx.binary)
        out = pp.call({'op': 'conc', 'reqs': batch}, timeout=120)
        pp.close()
        ctx.count('concurrent batches of 48 majority requests with mixed draw policies')
        if not out.get('ok'):
            ctx.violation('the process died or hung while serving concurrent majority requests', {'batch': batch, 'answer': out}, {})
            return
        terms, keep = [], []
        for r, got in zip(batch, out['results']):
            want = alone[json.dumps(r, sort_keys=True)]
            ctx.evaluations += 1
            if got.get('ok') and want.get('ok'):
                g2 = dict(got, evalInput=want.get('evalInput'))
                terms.append(e2e.xcase_term(ctx.pipe, r, g2, 2048, ()))
                keep.append((r, got, want))
            elif got.get('ok') != want.get('ok'):
                ctx.violation('a majority request answered concurrently differs from the same request answered alone',
                              {'batch': batch, 'request': r, 'alone': want.get('resp') or want.get('err'),
                               'concurrent': got.get('resp') or got.get('err')}, {'method': 'majorityHeuristic'})
                return
        verd, logs = core.run_cases('C11c', 'judge_all', terms, shard=12)
        for (r, got, want), v in zip(keep, verd):
            if len(v) > COL['C11'] and v[COL['C11']] != 0:
                ctx.violation('checker C11_ok rejects the answer to a majority request served while requests with other draw policies were served',
                              {'batch': batch, 'request': r, 'concurrent': got.get('resp'), 'alone': want.get('resp'), 'checker': 'Check/C11.v'},
                              {'method': 'majorityHeuristic'})
                return
            if got.get('resp') != want.get('resp'):
                ctx.violation('a majority request answered concurrently differs from the same request answered alone (its draws were not '
                              'decided by the policy it configures)',
                              {'batch': batch, 'request': r, 'alone': want.get('resp'), 'concurrent': got.get('resp')}, {'method': 'majorityHeuristic'})
                return


@check('C11')
def c11(ctx):
    ctx.before_finish = c11_concurrent
    return method_check(
        ctx, 'C11', [(2, gen_method('majorityHeuristic')), (1, (lambda rnd: gen.biased_request(rnd, method='majorityHeuristic', prob_mix=False))), (1, allow_groups), (1, stacked_groups),
                     (0.04, lambda rnd: gen.many_alternatives_request(rnd, 'majorityHeuristic'))], 300, 6000,
        'random majority requests: all four draw policies, seeded order, three positions of currentChoice, value ties within 1e-6, '
        'equal and mixed weights; plus batches of 48 draw-heavy majority requests with mixed draw policies served concurrently, every answer '
        'judged by the checker and compared with the answer given alone', agree_col='agree',
        spec_determines='Properties/C11.v: majority_is_tournament - the tournament over the search order, current choice first, is a function of the request and its seeded draws')


@check('C12')
def c12(ctx):
    return method_check(
        ctx, 'C12', [(2, gen_method('aspectEliminationHeuristic')), (1, (lambda rnd: gen.biased_request(rnd, method='aspectEliminationHeuristic', prob_mix=False))),
                     (0.04, lambda rnd: gen.many_alternatives_request(rnd, 'aspectEliminationHeuristic'))], 300, 6000,
        'random aspect-elimination requests: explicit thresholds and both generated series (dyadic parameters landing on bounds), '
        'gain and cost criteria, shuffled order, single alternatives; correspondence claimed for pairwise distinct weights',
        agree_col='agree', excuse=not_tied_aspect,
        spec_determines='Properties/C12.v: elimination_deterministic, aspect_is_elimination_distinct - for pairwise distinct weights the elimination walk determines survivors and eliminations')


@check('C13')
def c13(ctx):
    def many_at_one_level(rnd):
        """14-24 alternatives most of which meet the same level (library sorts are unstable above 12 elements: the order of acceptance within a
        level must still be the search order)"""
        req = gen.large_request(rnd, 'satisfactionHeuristic', lo=14, hi=24)
        req['criteria'] = req['criteria'][:2]
        cids = [c['id'] for c in req['criteria']]
        for a in req['knownAlternatives']:
            a['criteria'] = {k: float(rnd.randint(3, 9)) for k in cids}
        for c in req['criteria']:
            c['type'] = 'gain'
            c.pop('valuesRange', None)
        req['methodParameters']['function'] = 'thresholds'
        req['methodParameters']['params'] = {'thresholds': [{k: rnd.choice([2.0, 5.0, 8.0]) for k in cids}, {k: 1.0 for k in cids}]}
        return req
    def beyond_declared_range(rnd):
        """explicit thresholds and values that lie beyond a criterion's declared range (declared ranges are taken as given, never checked
        against the values): a level is met or failed by the values, whatever the declared range says"""
        req = gen.heuristic_request(rnd, 'satisfactionHeuristic', n_alts=rnd.choice([3, 4, 5]), n_crits=rnd.choice([1, 2, 2]))
        for c in req['criteria']:
            vals = sorted(a['criteria'][c['id']] for a in req['knownAlternatives'])
            lo, hi = vals[0], vals[-1]
            mid = vals[len(vals) // 2]
            c['valuesRange'] = rnd.choice([{'min': lo - 1.0, 'max': mid if mid > lo - 1.0 else lo}, {'min': mid if mid < hi + 1.0 else hi, 'max': hi + 1.0},
                                           {'min': lo - 1.0, 'max': hi + 1.0}])
            if c['valuesRange']['min'] >= c['valuesRange']['max']:
                c['valuesRange'] = {'min': lo - 1.0, 'max': hi + 1.0}
        ths = []
        for k in range(rnd.choice([2, 3])):
            ths.append({c['id']: rnd.choice(sorted(a['criteria'][c['id']] for a in req['knownAlternatives'])) for c in req['criteria']})
        req['methodParameters']['function'] = 'thresholds'
        req['methodParameters']['params'] = {'thresholds': ths}
        if rnd.random() < 0.4:
            req = gen.add_biases(rnd, req, names=[rnd.choice(['fatigue', 'criteriaConcealment'])], prob_mix=False)
        return req
    return method_check(
        ctx, 'C13', [(2, gen_method('satisfactionHeuristic')), (1, (lambda rnd: gen.biased_request(rnd, method='satisfactionHeuristic', prob_mix=False))),
                     (0.3, many_at_one_level), (0.5, beyond_declared_range)], 300, 6000,
        'random satisfaction requests: currentChoice absent / considered / known-only, explicit thresholds and both generated series, '
        'levels nobody meets, cost criteria, shuffled order, now and then 13-22 alternatives', agree_col='agree', also_cols=('C13order',),
        spec_determines='Properties/C13.v: satisfaction_spec_complete - the specification determines the ranking uniquely')


# -------------------------------------------------------------------------------------------------
# bias-level properties decided per traced stage (columns of Check/Judge.judge_stage)
SCOL = {name: i for i, name in enumerate(e2e.SCOLS)}


def stage_signature(req, info, v):
    b = info['bias']
    p = b.get('props') if isinstance(b.get('props'), dict) else {}
    st = info['stage']
    cur = st.get('curBefore') or {}
    return (req.get('preferenceFunction'), b.get('name'), p.get('ordering'), p.get('referenceCriterionType'),
            p.get('function') if isinstance(p.get('function'), str) else None,
            (p.get('applier') or {}).get('function') if isinstance(p.get('applier'), dict) else None,
            len(cur.get('Criteria') or []), len(cur.get('ConsideredAlternatives') or []),
            len(cur.get('NotConsideredAlternatives') or []) > 0, st.get('curAfter') is not None,
            tuple(x.get('name') for x in e2e.enabled_biases(req)))


def collect_stages(ctx, reqs, names=None):
    """runs the requests with tracing; returns (stage infos, verdicts, per-request results).
    The properties speak about numbers: a stage that starts from data holding NaN / Inf is counted and not judged, and so is a
    stage on which the binary64 model itself leaves the finite range (exp overflow: the code does what its model does). A stage
    that produces NaN / Inf where the model computes numbers is a violation of the property of that bias (`names`)."""
    terms, infos, ress = [], [], []
    for r in reqs:
        res = ctx.pipe.call({'op': 'trace', 'req': r})
        ress.append(res)
        for t, i in e2e.stage_terms(ctx.pipe, r, res):
            if t is None:
                pr = i['stage'].get('props')
                prf = i['stage'].get('propsFinal')
                bad = [x for x in (pr, prf) if isinstance(x, dict) and '__marshalError' in x]
                if bad and (names is None or i['bias'].get('name') in names) and not e2e.has_nonfinite(i['stage'].get('curBefore')):
                    # the report cannot be encoded and not even be read back by the harness
                    ctx.violation('the report of %s holds a value that is not a number (%s)' % (i['bias'].get('name'), bad[0]['__marshalError']),
                                  {'request': r, 'bias': i['bias'], 'after': i['stage'].get('curAfter')},
                                  {'method': r.get('preferenceFunction'), 'bias': i['bias'].get('name')})
                    continue
                if bad:
                    ctx.count('nonfinite/stage not judged (report unreadable)')
                    continue
                ctx.violation('a traced stage could not be turned into a model term (unexpected shape): %s' % i['error'],
                              {'broken': 'emitter', 'request': r, 'stage': i['stage']}, found_input=False)
                continue
            terms.append(t)
            infos.append((r, res, i))
    verd, logs = core.run_cases(ctx.pid + 's', 'judge_stage', terms, shard=50)
    # longer random prefixes where the model ran out
    again = [k for k, v in enumerate(verd) if v and v[0] == 10]
    if again:
        t2 = []
        for k in again:
            r, res, i = infos[k]
            tt = [t for t, ii in e2e.stage_terms(ctx.pipe, r, res, 2048) if ii['stage'] is i['stage']]
            t2.append(tt[0] if tt else terms[k])
        v2, l2 = core.run_cases(ctx.pid + 'sx', 'judge_stage', t2, shard=10)
        for k, v in zip(again, v2):
            verd[k] = v
    ki, kv = [], []
    mcol = SCOL['model_nonfinite']
    for (r, res, i), v in zip(infos, verd):
        st = i['stage']
        name = i['bias'].get('name')
        if e2e.has_nonfinite(st.get('curBefore')):
            ctx.count('nonfinite/stage starts from data holding NaN or Inf: not judged')
            core.NONFINITE += 1
            continue
        if e2e.has_nonfinite(st.get('curAfter')) or e2e.has_nonfinite(st.get('props')):
            if len(v) > mcol and v[mcol] == 1:
                ctx.count('nonfinite/the binary64 model leaves the finite range too (overflow): not judged')
                core.NONFINITE += 1
                continue
            if len(v) > mcol and v[0] not in (10, 11, 12, 99) and (names is None or name in names):
                ctx.violation('%s produces a value that is not a number (NaN / Inf) where its specification computes numbers' % name,
                              {'request': r, 'bias': i['bias'], 'before': st.get('curBefore'), 'after': st.get('curAfter'),
                               'report': e2e.tolerant_report(st.get('props'))[0]},
                              {'method': r.get('preferenceFunction'), 'bias': name})
                continue
            if names is not None and name not in names:
                ctx.count('nonfinite/stage of another bias produces NaN or Inf: not judged here')
                continue
        ki.append((r, res, i))
        kv.append(v)
    return ki, kv, ress, logs


STAGE_TEXT = {1: 'model rejects what the code accepts', 2: 'the code fails where the model (the specified behaviour) succeeds',
              3: 'states after the bias differ', 4: 'reports differ', 10: 'model out of random numbers', 11: 'exp oracle miss',
              12: 'model out of fuel', 99: 'case file did not evaluate'}


def stage_check(ctx, col, names, gens, n_quick, n_thorough, rule, extra=None, agree_names=None, search_gens=None, failure_is_violation=False):
    extra_fn = extra
    """col: checker column of judge_stage deciding the property for stages whose bias is in `names`
    (None = all stages); the stage correspondence of those stages ties the model to the code."""
    pid = ctx.pid
    ctx.check_proofs()
    rnd = ctx.rnd
    if ctx.replay and 'request' in ctx.replay:
        reqs = [ctx.replay['request']]
    else:
        reqs = load_corpus(pid)
        ws = [g[0] for g in gens]
        for _ in range(n_cases(ctx, n_quick, n_thorough)):
            reqs.append(rnd.choices(gens, ws)[0][1](rnd))
    infos, verd, ress, logs = collect_stages(ctx, reqs, names)
    for r, res in zip(reqs, ress):
        ctx.count('request/' + ('accepted' if res.get('ok') else 'rejected'))
    broken = []
    ci = SCOL[col] if col else None
    for (req, res, info), v in zip(infos, verd):
        name = info['bias'].get('name')
        mine = names is None or name in names
        if not mine:
            continue
        sig = stage_signature(req, info, v)
        ctx.seen(sig, trivial=False)
        ctx.count('stage/%s/%s' % (req.get('preferenceFunction'), name))
        ctx.sample({'request': req, 'bias': info['bias'], 'report': info['stage'].get('props')}, limit=3)
        if v == [99] or len(v) < len(e2e.SCOLS):
            ctx.violation('case file did not evaluate', {'broken': 'Run/cases_%ss' % pid, 'log': logs[:1], 'request': req}, found_input=False)
            continue
        facts = {'method': req.get('preferenceFunction'), 'bias': name}
        if ci is not None and v[ci] != 0:
            ctx.violation('checker %s_ok rejects what the bias %s produced' % (col, name),
                          {'request': req, 'bias': info['bias'], 'before': info['stage'].get('curBefore'),
                           'after': info['stage'].get('curAfter'), 'report': info['stage'].get('props'),
                           'checker': 'Check/BiasCheckers.v %s_ok' % col}, facts)
        if extra:
            extra(ctx, req, res, info, v, facts)
        if v[0] == 2 and (ci is not None or failure_is_violation):
            # the bias fails on data on which its specification (the model) produces a result: what the property says the bias does
            # does not happen for this request
            ctx.violation('%s fails where its specification succeeds: %s' % (name, str(res.get('err'))[:200]),
                          {'request': req, 'bias': info['bias'], 'before': info['stage'].get('curBefore'), 'error': res.get('err')}, facts)
        if v[0] != 0 and (agree_names is None or name in agree_names):
            broken.append((req, info, v))
    if broken and not any(vv[2] for vv in ctx.violations) and not ctx.replay and search_gens:
        # correspondence broken, every checker satisfied so far: search for a failing input with aimed sequences
        ws2 = [g[0] for g in search_gens]
        extra = [rnd.choices(search_gens, ws2)[0][1](rnd) for _ in range(n_cases(ctx, 500, 5000))]
        i2, v2, r2, _ = collect_stages(ctx, extra, names)
        ctx.notes.append('search phase: %d further requests, %d stages' % (len(extra), len(i2)))
        for (req, res, info), v in zip(i2, v2):
            name = info['bias'].get('name')
            if (names is not None and name not in names) or len(v) < len(e2e.SCOLS):
                continue
            ctx.evaluations += 1
            facts = {'method': req.get('preferenceFunction'), 'bias': name}
            if ci is not None and v[ci] != 0:
                ctx.violation('checker %s_ok rejects what the bias %s produced (found by the search phase)' % (col, name),
                              {'request': req, 'bias': info['bias'], 'before': info['stage'].get('curBefore'),
                               'after': info['stage'].get('curAfter'), 'report': info['stage'].get('props')}, facts)
            if extra_fn:
                extra_fn(ctx, req, res, info, v, facts)
            if v[0] == 2 and (ci is not None or failure_is_violation):
                ctx.violation('%s fails where its specification succeeds (found by the search phase): %s' % (name, str(res.get('err'))[:200]),
                              {'request': req, 'bias': info['bias'], 'before': info['stage'].get('curBefore'), 'error': res.get('err')}, facts)
            if any(vv[2] for vv in ctx.violations):
                break
    if broken and not any(vv[2] for vv in ctx.violations):
        req, info, v = broken[0]
        ctx.violation('stage correspondence model/code broken on %d stages (%s: %s); every produced state still satisfies the checker'
                      % (len(broken), info['bias'].get('name'), STAGE_TEXT.get(v[0], v[0])),
                      {'broken': 'correspondence apply_bias (%s)' % pid, 'request': req, 'bias': info['bias'],
                       'before': info['stage'].get('curBefore'), 'after': info['stage'].get('curAfter'),
                       'report': info['stage'].get('props')}, found_input=False)
    elif broken:
        ctx.notes.append('stage correspondence also broken on %d stages' % len(broken))
    service_crosscheck(ctx, reqs, n_cases(ctx, 80, 1200))
    return infos, verd, reqs, ress


def gen_biased(names=None, method=None, length=None, prob_mix=False):
    return lambda rnd: gen.biased_request(rnd, method=method, names=names, length=length, prob_mix=prob_mix)


def seq_with(name):
    """sequences that contain the bias of interest, alone, after and before other biases"""
    def g(rnd):
        k = rnd.choice([0, 0, 1, 1, 2])
        pre = [rnd.choice(gen.BIASES) for _ in range(k)]
        post = [rnd.choice(gen.BIASES) for _ in range(rnd.choice([0, 0, 1]))]
        return gen.biased_request(rnd, names=pre + [name] + post, prob_mix=False)
    return g


def c16_extra(ctx, req, res, info, v, facts):
    """the range a criterion of the request is mirrored in is the range the request declares for it"""
    if info['bias'].get('name') != 'preferenceReversal':
        return
    declared = {c['id']: c.get('valuesRange') for c in req.get('criteria') or []}
    for c in (info['stage'].get('curBefore') or {}).get('Criteria') or []:
        if c.get('Id') in declared:
            want = declared[c['Id']]
            got = c.get('ValuesRange')
            gotp = None if not got else {'min': got.get('Min'), 'max': got.get('Max')}
            if (want or None) != gotp and not (want and gotp and float(want['min']) == gotp['min'] and float(want['max']) == gotp['max']):
                ctx.violation('preference reversal works on criterion %s with a declared range %s that is not the one the request declares (%s)'
                              % (c['Id'], gotp, want), {'request': req, 'bias': info['bias'], 'before': info['stage'].get('curBefore')}, facts)
                return


@check('C16')
def c16(ctx):
    def mix_then_reverse(rnd):
        """a criterion-adding bias first (they read value ranges of existing criteria), then the reversal; declared ranges not starting at 0"""
        req = gen.biased_request(rnd, names=[rnd.choice(['criteriaMixing', 'criteriaMixing', 'criteriaConcealment', 'anchoring', 'fatigue']),
                                             'preferenceReversal'], prob_mix=False)
        for c in req['criteria']:
            vals = [a['criteria'][c['id']] for a in req['knownAlternatives'] if c['id'] in a['criteria']]
            if vals and rnd.random() < 0.8:
                c['valuesRange'] = {'min': min(vals) - rnd.choice([0.0, 1.0, 2.5]), 'max': max(vals) + rnd.choice([1.0, 0.5, 3.0])}
        p = req['biases'][1]['props']
        p['ratio'] = rnd.choice([1.0, 1.0, 0.75])
        p.pop('max', None)
        p.pop('min', None)
        return req
    def single_criterion(rnd):
        """one criterion only (alone from the start, or left over by an omission), a weight other than 1, every ordering: nothing to order,
        and still nothing but the mirrored values may change"""
        m = rnd.choice(['weightedSum', 'weightedSum', 'owa', 'electreIII', 'majorityHeuristic', 'aspectEliminationHeuristic', 'satisfactionHeuristic'])
        start = rnd.random() < 0.6
        if m in gen.UTILITY:
            req = gen.utility_request(rnd, m, n_crits=1 if start else 2)
        elif m == 'electreIII':
            req = gen.electre_request(rnd, n_crits=1 if start else 2)
        else:
            req = gen.heuristic_request(rnd, m, n_crits=1 if start else 2)
        w = (req.get('methodParameters') or {}).get('weights')
        if isinstance(w, dict) and m != 'owa':
            for k in w:
                w[k] = rnd.choice([4.0, 0.25, 2.5, 3.0])
        rev = gen.gen_bias(rnd, 'preferenceReversal', req, 1)
        rev['props'].update(ratio=1.0, ordering=rnd.choice(['weakestByProbability', 'strongestByProbability', 'weakest', 'random']), randomSeed=gen.some_seed(rnd))
        rev['props'].pop('max', None)
        rev['props'].pop('min', None)
        pre = [] if start else [{'name': 'criteriaOmission', 'props': {'ratio': 0.5}}]
        post = [gen.gen_bias(rnd, 'criteriaConcealment', req, 1)] if rnd.random() < 0.4 else []
        req['biases'] = pre + [rev] + post
        return req
    stage_check(ctx, 'C16', ['preferenceReversal'], [(3, seq_with('preferenceReversal')), (1, mix_then_reverse), (0.6, single_criterion)], 200, 4000,
                'requests over all methods with preference reversal alone, after and before other biases; all orderings and ratios, '
                'with and without declared ranges, considered set equal to / smaller than the known set; one evaluation = one traced '
                'application of the bias; distinct = (method, ordering, sizes, neighbouring biases)',
                agree_names=['preferenceReversal'], search_gens=[(1, seq_with('preferenceReversal'))], extra=c16_extra)
    return ctx.finish(
        'traced applications of preferenceReversal inside random bias sequences over all methods (all orderings, ratios, declared and '
        'observed ranges, considered = / subset of known); distinct = (method, ordering, sizes, bias sequence)', './check C16')


@check('C17')
def c17(ctx):
    def fatigue_then(rnd):
        """fatigue followed by biases that rebuild or restrict the data it handed on"""
        nxt = [rnd.choice(['criteriaOmission', 'criteriaOmission', 'preferenceReversal', 'anchoring', 'criteriaMixing', 'criteriaConcealment'])
               for _ in range(rnd.choice([1, 1, 2]))]
        req = gen.biased_request(rnd, names=['fatigue'] + nxt, prob_mix=False)
        for b in req['biases'][1:]:
            if b['name'] in ('criteriaOmission', 'preferenceReversal'):
                b['props']['ratio'] = rnd.choice([0.5, 0.75, 1.0])
                b['props'].pop('max', None)
                if b['name'] == 'criteriaOmission':
                    b['props']['max'] = max(1, len(req['criteria']) - 1)
        return req

    def c17_extra(ctx, req, res, info, v, facts):
        # the report the response carries (read again after the whole decision was made) is still the data fatigue handed on
        if info['bias'].get('name') == 'fatigue' and v[SCOL['C09later']] != 0:
            ctx.violation('the fatigue report as returned with the decision no longer carries the values fatigue handed on (altered by a later stage)',
                          {'request': req, 'bias': info['bias'], 'report_at_return': info['stage'].get('props'),
                           'report_at_end': info['stage'].get('propsFinal'), 'after_at_return': info['stage'].get('curAfter'),
                           'after_at_end': info['stage'].get('curAfterFinal')}, facts)
    stage_check(ctx, 'C17', ['fatigue'], [(2, seq_with('fatigue')), (1, fatigue_then)], 200, 4000, '', agree_names=['fatigue'],
                search_gens=[(1, seq_with('fatigue'))], extra=c17_extra)
    return ctx.finish(
        'traced applications of fatigue inside random bias sequences over all methods: const and expFromZero ratio (incl. 0 and negative), '
        'values of any sign, bounding off / 0.5 / 1 / 3 / non-negative, heuristics with a current choice; distinct = (method, function, '
        'sizes, bias sequence)', './check C17')


def c18_names(ctx):
    """an id not used before: the name generator itself on sets of ids with numbered variants of the base name, gaps and runs"""
    if 'names' in core.COMP_SKIPPED or ctx.replay and 'name_case' not in ctx.replay:
        if 'names' in core.COMP_SKIPPED:
            ctx.notes.append('component overlay for the name generator no longer compiles; covered by the traced stages only')
        return
    rnd = ctx.rnd
    cases = []
    if ctx.replay:
        cases = [ctx.replay['name_case']]
    for _ in range(0 if ctx.replay else n_cases(ctx, 150, 3000)):
        base = rnd.choice(['__concealedCriterion__', '__a+b__', '__anchoring_criterion_x', 'k'])
        pool = [base] + [base + str(i) for i in range(1, 14)]
        taken = [x for x in pool if rnd.random() < rnd.choice([0.2, 0.5, 0.8])]
        if rnd.random() < 0.3:   # a run of consecutive numbers right at the first guess
            k = len(taken)
            taken = list(dict.fromkeys(taken + [base + str(i) for i in range(max(1, k - 1), k + rnd.randint(1, 4))]))
        others = rnd.sample(['c1', 'c2', 'price', base[:-1], base + 'x', '__' + base, 'k1x'], rnd.randint(0, 3))
        ids = taken + others
        rnd.shuffle(ids)
        cases.append({'ids': ids, 'name': base})
    terms, keep = [], []
    for c in cases:
        res = ctx.pipe.call({'op': 'not_used_name', 'args': c})
        if not res.get('ok') or not (res.get('result') or {}).get('ok'):
            ctx.violation('harness: not_used_name op failed', {'broken': 'component overlay', 'answer': res}, found_input=False)
            return
        got = res['result']['name']
        terms.append('(mkNC %s %s %s)' % (emit.clist(emit.cstr(i) for i in c['ids']), emit.cstr(c['name']), emit.cstr(got)))
        keep.append((c, got))
        ctx.evaluations += 1
        ctx.count('names/taken=%d' % len([i for i in c['ids'] if i.startswith(c['name'])]))
    verd, logs = core.run_cases('C18n', 'judge_name', terms, shard=400)
    bad = []
    for (c, got), v in zip(keep, verd):
        if v == [99]:
            ctx.violation('case file did not evaluate', {'broken': 'Run/cases_C18n', 'log': logs[:1]}, found_input=False)
            return
        if v[1] != 0:
            ctx.violation('the id generated for a new criterion is already in use', {'name_case': c, 'generated': got}, {'component': 'names'})
        elif v[0] != 0:
            bad.append((c, got))
    if bad and not any(x[2] for x in ctx.violations):
        ctx.violation('correspondence of the name generator broken on %d of %d cases; every generated id is unused' % (len(bad), len(keep)),
                      {'broken': 'correspondence not_used_name', 'name_case': bad[0][0], 'generated': bad[0][1]}, found_input=False)


@check('C18')
def c18(ctx):
    stage_check(ctx, 'C18', ['criteriaConcealment', 'criteriaMixing'],
                [(1, seq_with('criteriaConcealment')), (1, seq_with('criteriaMixing'))], 240, 4000, '',
                agree_names=['criteriaConcealment', 'criteriaMixing'],
                search_gens=[(1, seq_with('criteriaConcealment')), (1, seq_with('criteriaMixing'))])
    c18_names(ctx)
    return ctx.finish(
        'traced applications of criteriaConcealment / criteriaMixing inside random bias sequences over all methods: three reference '
        'strategies, scaling in {-1, 0.5, 1, 3}, mixing ratios 0, 0.5, 1, bounding options, 1..5 criteria, repeated application; '
        'distinct = (method, bias, reference type, sizes, bias sequence)', './check C18')


@check('C19')
def c19(ctx):
    stage_check(ctx, 'C19', ['anchoring'], [(1, seq_with('anchoring'))], 200, 4000, '', agree_names=['anchoring'], search_gens=[(1, seq_with('anchoring'))])
    return ctx.finish(
        'traced applications of anchoring inside random bias sequences over all methods: 1-3 anchoring alternatives with mixed '
        'coefficients, ideal and nadir, linear / exponential / zero gain and loss, inline and newCriterion appliers with all options; '
        'distinct = (method, applier, sizes, bias sequence)', './check C19')


def c07_extra(ctx, req, res, info, v, facts):
    name = info['bias'].get('name')
    if v[0] == 2:
        ctx.violation('the combination %s + %s is answered with an error: %s' % (req.get('preferenceFunction'), name, str(res.get('err'))[:200]),
                      {'request': req, 'bias': info['bias'], 'before': info['stage'].get('curBefore'), 'error': res.get('err')}, facts)
    if v[SCOL['inv']] != 0:
        ctx.violation('after %s the working data are incoherent (a value or a parameter is missing for a current criterion)' % name,
                      {'request': req, 'bias': info['bias'], 'after': info['stage'].get('curAfter')}, facts)
    if v[SCOL['frame']] != 0:
        ctx.violation('%s changed data it does not report (alternatives split, other values, criteria or parameters)' % name,
                      {'request': req, 'bias': info['bias'], 'before': info['stage'].get('curBefore'),
                       'after': info['stage'].get('curAfter')}, facts)
    if len(v) > SCOL['reported'] and v[SCOL['reported']] != 0:
        ctx.violation('after %s the criteria are not the earlier ones minus the reported omissions plus the reported additions' % name,
                      {'request': req, 'bias': info['bias'], 'before': info['stage'].get('curBefore'),
                       'after': info['stage'].get('curAfter'), 'report': info['stage'].get('props')}, facts)


@check('C07')
def c07(ctx):
    gens = [(3, gen_biased()), (1, gen_biased(length=1)), (1, gen_biased(length=2))]
    def adders_then(rnd):
        """a criterion-adding or -removing bias followed by biases that must cope with the changed criteria"""
        first = rnd.choice(['anchoring', 'criteriaConcealment', 'criteriaMixing', 'criteriaOmission'])
        req = gen.biased_request(rnd, names=[first] + [rnd.choice(gen.BIASES) for _ in range(rnd.choice([1, 1, 2]))], prob_mix=False)
        if first == 'anchoring':
            ap = req['biases'][0]['props']['applier']
            ap['function'] = 'newCriterion'
            ap['params'].setdefault('randomSeed', 7)
            ap['params'].pop('applyOnNotConsidered', None)
        for b in req['biases'][1:]:
            if b['name'] in ('preferenceReversal', 'criteriaOmission') and rnd.random() < 0.6:
                b['props']['ratio'] = rnd.choice([1.0, 0.75])
                b['props'].pop('max', None)
                if b['name'] == 'criteriaOmission':
                    b['props']['max'] = max(1, len(req['criteria']) - 1)
        if rnd.random() < 0.7:
            for c in req['criteria']:
                c.pop('valuesRange', None)
        return req
    def add_omit_add(rnd):
        """a criterion is added, omitted again (it is the weakest: importance 0, one criterion omitted), and the same bias adds one once more:
        the criteria list after the omission equals the original one"""
        first = rnd.choice(['criteriaConcealment', 'criteriaConcealment', 'criteriaMixing'])
        req = gen.biased_request(rnd, method=rnd.choice(gen.METHODS + ['choquetIntegral', 'choquetIntegral', 'electreIII']),
                                 names=[first, 'criteriaOmission', first], prob_mix=False)
        for b in (req['biases'][0], req['biases'][2]):
            b['props']['referenceCriterionType'] = 'importanceRatio'
            b['props']['newCriterionImportance'] = 0.0
        req['biases'][1]['props'] = {'ratio': 0.0, 'min': 1, 'max': 1, 'ordering': 'weakest'}
        return req
    def related_ids(rnd):
        """criterion ids that are prefixes / suffixes of one another and sort next to each other ('1', '21', '3'; 'c', 'cc'): parameters keyed
        by joined ids (Choquet over-weighted) under omission and the criterion-adding biases"""
        m = rnd.choice(['choquetIntegral', 'choquetIntegral', 'choquetIntegral', 'weightedSum', 'electreIII', 'majorityHeuristic'])
        req = gen.any_request(rnd, m)
        k = len(req['criteria'])
        pool = rnd.choice([['1', '21', '3', '13'], ['1', '11', '111', '2'], ['c', 'cc', 'ccc', 'd'], ['x', 'xx', 'xxx', 'y'], ['x', '1x', 'x1', 'y']])
        ids = rnd.sample(pool, min(k, len(pool)))
        if len(ids) >= 3 and pool[-1] not in ids:
            ids[-1] = pool[-1]   # an id that sorts after the related ones
        ren = {c['id']: ids[i] for i, c in enumerate(req['criteria'][:len(ids)])}
        req = json.loads(json.dumps(req))
        def rn(key):
            return ','.join(ren.get(x, x) for x in key.split(','))
        for c in req['criteria']:
            c['id'] = ren.get(c['id'], c['id'])
        for a in req['knownAlternatives']:
            a['criteria'] = {ren.get(x, x): v for x, v in a['criteria'].items()}
        mp = req['methodParameters']
        for fld in ('weights', 'electreCriteria'):
            if isinstance(mp.get(fld), dict):
                mp[fld] = {rn(x): v for x, v in mp[fld].items()}
        names = [rnd.choice(['criteriaOmission', 'criteriaOmission', 'criteriaConcealment', 'criteriaMixing']) for _ in range(rnd.choice([1, 2, 3]))]
        req = gen.add_biases(rnd, req, names=names, prob_mix=False, disabled_prob=0.0)
        for b in req['biases']:
            if b['name'] == 'criteriaOmission':
                b['props'].update(ratio=rnd.choice([0.34, 0.5]), ordering=rnd.choice(['weakest', 'strongest', 'random']), randomSeed=gen.some_seed(rnd))
                b['props'].pop('min', None)
                b['props']['max'] = max(1, k - 1)
        return req
    gens = gens + [(1.5, related_ids)]
    infos, verd, reqs, ress = stage_check(ctx, None, None, gens + [(1, adders_then), (0.5, add_omit_add)], 400, 8000, '', extra=c07_extra,
                                          search_gens=[(1, adders_then), (1, add_omit_add)], failure_is_violation=True)
    # the same combination once more in the same process: still a ranking (Choquet with a criterion-adding bias over-weighted)
    again = [(q, r) for q, r in zip(reqs, ress) if r.get('ok') and e2e.enabled_biases(q)]
    again.sort(key=lambda qr: 0 if (qr[0].get('preferenceFunction') == 'choquetIntegral'
                                    and any(b.get('name') in ('criteriaConcealment', 'criteriaMixing', 'anchoring') for b in e2e.enabled_biases(qr[0]))) else 1)
    for q, r in (again[:n_cases(ctx, 60, 800)] if not ctx.replay else again):
        r2 = ctx.pipe.call({'op': 'decide', 'req': q})
        ctx.count('repeated-in-process')
        if not r2.get('ok'):
            ctx.violation('a combination answered with a ranking is answered with an error when the same request is served again: %s'
                          % str(r2.get('err'))[:200], {'request': q, 'first': r.get('resp'), 'again': r2.get('err')},
                          {'method': q.get('preferenceFunction')})
            break
    # a valid request with valid biases must end in a ranking: a request on which a bias or the method fails although the specification
    # (the model of the whole request, same seeded draws) yields a ranking
    failing = [(q, r) for q, r in zip(reqs, ress) if not r.get('ok') and r.get('kind') == 'panic']
    ctx.count('requests/failing: %d' % len(failing))
    if failing:
        r9, v9, _ = e2e.run_all(ctx.pipe, [q for q, _ in failing], 'C07m')
        for (q, r), v in zip(failing, v9):
            if v and v[0] == 2:
                st = r.get('stages') or []
                where = next((x.get('name') for x in st if x.get('curAfter') is None), 'the method')
                ctx.violation('the combination fails (in %s) where its specification yields a ranking: %s' % (where, str(r.get('err'))[:200]),
                              {'request': q, 'error': r.get('err'), 'failing_stage': where}, {'method': q.get('preferenceFunction')})
                break
    return ctx.finish(
        'random requests: 7 methods x bias sequences of length 1-4 with repetition over the 6 biases and their options, considered = / '
        'subset of known; every traced bias application is one evaluation; distinct = (method, bias, options, sizes, sequence)', './check C07')


@check('C06')
def c06(ctx):
    def dominated(rnd):
        """electre requests in which some alternative dominates another (ties on some criteria)"""
        req = gen.electre_request(rnd, n_alts=rnd.choice([3, 4, 5, 6]))
        alts = req['knownAlternatives']
        a, b = rnd.sample(range(len(alts)), 2)
        for c in req['criteria']:
            sg = -1 if c.get('type') == 'cost' else 1
            delta = rnd.choice([0, 0, 0.25, 0.5, 1.0, 2.0])
            alts[b]['criteria'][c['id']] = alts[a]['criteria'][c['id']] - sg * delta
        return req

    def veto_heavy(rnd):
        """dominated pairs among widely spread values with all three thresholds present on every criterion (several discordant criteria per pair)"""
        req = gen.electre_request(rnd, n_alts=rnd.choice([3, 3, 4]), n_crits=rnd.choice([2, 3, 3, 4]))
        for c in req['criteria']:
            c['type'] = 'gain' if rnd.random() < 0.7 else 'cost'
            c.pop('valuesRange', None)
            req['methodParameters']['electreCriteria'][c['id']] = {'k': rnd.choice([1.0, 2.0, 3.0]), 'q': {'a': 0, 'b': 1.0}, 'p': {'a': 0, 'b': 2.0},
                                                                   'v': {'a': 0, 'b': rnd.choice([4.0, 6.0, 3.0])}}
        alts = req['knownAlternatives']
        for a in alts:
            for c in req['criteria']:
                a['criteria'][c['id']] = float(rnd.randint(0, 9))
        i, j = rnd.sample(range(len(alts)), 2)
        for c in req['criteria']:
            sg = -1 if c.get('type') == 'cost' else 1
            alts[j]['criteria'][c['id']] = alts[i]['criteria'][c['id']] - sg * rnd.choice([0, 1, 1, 2])
        req['methodParameters'].pop('electreDistillation', None)
        return req

    def meta(ctx2):
        rnd = ctx2.rnd
        for _ in range(n_cases(ctx2, 60, 1500)):
            req = dominated(rnd) if rnd.random() < 0.5 else gen.electre_request(rnd)
            base = ctx2.pipe.call({'op': 'decide', 'req': req})
            if not base.get('ok'):
                continue
            idx = {e['alternative']['id']: (e['evaluation'], sorted(e['betterThanOrSameAs'])) for e in base['resp']['result']}
            for _ in range(2):
                pr = gen.permuted(rnd, req)
                r2 = ctx2.pipe.call({'op': 'decide', 'req': pr})
                ctx2.count('metamorphic/permutation')
                got = {e['alternative']['id']: (e['evaluation'], sorted(e['betterThanOrSameAs'])) for e in r2['resp']['result']} if r2.get('ok') else None
                if got != idx:
                    ctx2.violation('listing the alternatives in another order changes ELECTRE indices or links',
                                   {'request': req, 'permuted': pr, 'result': base.get('resp'), 'permuted_result': r2.get('resp') or r2.get('err')},
                                   {'method': 'electreIII'})
            for m in (-3, 1, 10, -30, 30):
                sr = json.loads(json.dumps(req))
                for v in sr['methodParameters']['electreCriteria'].values():
                    v['k'] = v['k'] * (2.0 ** m)
                r3 = ctx2.pipe.call({'op': 'decide', 'req': sr})
                ctx2.count('metamorphic/scaling')
                if not r3.get('ok') or r3['resp']['result'] != base['resp']['result']:
                    ctx2.violation('multiplying every weight k by 2^%d changes the ELECTRE result' % m,
                                   {'request': req, 'scaled': sr, 'result': base.get('resp'), 'scaled_result': r3.get('resp') or r3.get('err')},
                                   {'method': 'electreIII'})
    ctx.before_finish = meta
    def large_dominated(rnd):
        """13-23 alternatives (sizes on both sides of every small threshold, not only multiples of 4) with one alternative dominating all others,
        listed at a random position"""
        req = gen.large_request(rnd, 'electreIII', lo=13, hi=23)
        alts = req['knownAlternatives']
        top = rnd.randrange(len(alts))
        for c in req['criteria']:
            vals = [a['criteria'][c['id']] for a in alts]
            alts[top]['criteria'][c['id']] = (min(vals) - 1.0) if c.get('type') == 'cost' else (max(vals) + 1.0)
        if alts[top]['id'] not in req['choseToMake']:
            req['choseToMake'].append(alts[top]['id'])
        return req
    return method_check(ctx, 'C06', [(2, dominated), (2, veto_heavy), (1, gen_method('electreIII')), (0.3, large_dominated)], 300, 6000,
                        'electreIII requests with a planted dominated/dominating pair (ties on some criteria) inside 1-4 further '
                        'alternatives, plus random requests; every dominating and identical pair of each response is checked; '
                        'metamorphic groups: two listing-order permutations and weights x 2^m (m = -3, 1, 10, -30, 30) per request; when the correspondence '
                        'breaks, a search phase of 1500+ veto-heavy cases looks for a pair violating dominance',
                        agree_col='agree', search_gens=[(1, veto_heavy)], extra_corr=c05_cred)


@check('C08')
def c08(ctx):
    def g(rnd):
        req = gen.any_request(rnd)
        req = gen.add_biases(rnd, req, length=rnd.choice([1, 2, 3, 4, 5]), prob_mix=True, disabled_prob=0.25)
        if rnd.random() < 0.08:
            for b in req['biases']:
                b['disabled'] = True
        return req

    def meta(ctx2):
        rnd = ctx2.rnd
        for _ in range(n_cases(ctx2, 80, 2000)):
            req = g(rnd)
            base = ctx2.pipe.call({'op': 'decide', 'req': req})
            if not base.get('ok'):
                continue
            en = e2e.enabled_biases(req)
            if not en:
                # every requested bias is disabled: `biases` is the list of the entries of the enabled ones - an empty list, as for the
                # request that leaves them out (compared as JSON: null is not [])
                ctx2.count('metamorphic/all-disabled')
                if base['resp'].get('biases') != []:
                    ctx2.violation('no bias is enabled, yet `biases` in the response is not the empty list',
                                   {'request': req, 'biases_in_response': base['resp'].get('biases', '<absent>')}, {})
                o0 = ctx2.pipe.call({'op': 'decide', 'req': dict(req, biases=[])})
                if o0.get('resp') != base.get('resp'):
                    ctx2.violation('a request whose biases are all disabled is answered differently from the request without them',
                                   {'request': req, 'response': base.get('resp'), 'without_them': o0.get('resp') or o0.get('err')}, {})
                continue
            if not isinstance(base['resp'].get('biases'), list) or len(base['resp']['biases']) != len(en):
                ctx2.violation('the response does not echo one entry per non-disabled bias', {'request': req, 'echo': base['resp']['biases']}, {})
                continue
            fired = [b.get('props') is not None for b in base['resp']['biases']]
            # (a) a disabled entry (even with an unknown name) is equivalent to leaving it out
            r2 = dict(req, biases=list(req['biases']))
            r2['biases'].insert(rnd.randint(0, len(r2['biases'])), {'name': rnd.choice(['noSuchBias', 'fatigue']), 'disabled': True,
                                                                    'props': {'anything': 1}})
            o2 = ctx2.pipe.call({'op': 'decide', 'req': r2})
            ctx2.count('metamorphic/disabled-inserted')
            if o2.get('resp') != base.get('resp'):
                ctx2.violation('inserting a disabled bias changes the response', {'request': req, 'with_disabled': r2,
                               'response': base.get('resp'), 'other': o2.get('resp') or o2.get('err')}, {})
            # (b) whether position i fires does not depend on the other entries
            i = rnd.randrange(len(en))
            r3 = json.loads(json.dumps(req))
            en3 = e2e.enabled_biases(r3)
            for j, b in enumerate(en3):
                if j != i:
                    nb = gen.gen_bias(rnd, rnd.choice(gen.BIASES), r3, len(r3['criteria']))
                    b.clear()
                    b.update(nb)
                    b['applyProbability'] = rnd.choice([0.0, 1.0, round(rnd.random(), 3)])
            o3 = ctx2.pipe.call({'op': 'decide', 'req': r3})
            ctx2.count('metamorphic/others-changed')
            if o3.get('ok') and len(o3['resp']['biases']) != len(en3):
                ctx2.violation('the response does not echo one entry per non-disabled bias', {'request': r3, 'echo': o3['resp']['biases']}, {})
            elif o3.get('ok'):
                f3 = o3['resp']['biases'][i].get('props') is not None
                mix = en[i].get('name') == 'criteriaMixing'
                if f3 != fired[i] and not mix:
                    ctx2.violation('whether the bias at enabled position %d fires depends on the other biases' % i,
                                   {'request': req, 'changed': r3, 'fired': fired, 'other': o3['resp']['biases']}, {})
            # (d) a bias that cannot fire, appended after the others, changes nothing: same result, same echoes before it
            r5 = json.loads(json.dumps(req))
            nb5 = gen.gen_bias(rnd, rnd.choice(gen.BIASES), r5, len(r5['criteria']))
            nb5['applyProbability'] = 0.0
            r5['biases'] = list(r5['biases']) + [nb5]
            o5 = ctx2.pipe.call({'op': 'decide', 'req': r5})
            ctx2.count('metamorphic/never-firing-appended')
            if not o5.get('ok') or o5['resp']['result'] != base['resp']['result'] or o5['resp']['biases'][:len(en)] != base['resp']['biases']:
                ctx2.violation('a bias that does not fire (applyProbability 0, appended last) changes the response',
                               {'request': req, 'with_unfired': r5, 'response': base.get('resp'), 'other': o5.get('resp') or o5.get('err')}, {})
            # (c) monotone in its own probability; 0 never, 1 always
            for p, must in ((0.0, False), (1.0, True)):
                r4 = json.loads(json.dumps(req))
                e2e.enabled_biases(r4)[i]['applyProbability'] = p
                o4 = ctx2.pipe.call({'op': 'decide', 'req': r4})
                ctx2.count('metamorphic/prob-%s' % p)
                if o4.get('ok') and len(o4['resp']['biases']) != len(en):
                    ctx2.violation('the response does not echo one entry per non-disabled bias', {'request': r4, 'echo': o4['resp']['biases']}, {})
                elif o4.get('ok') and en[i].get('name') != 'criteriaMixing':
                    f4 = o4['resp']['biases'][i].get('props') is not None
                    if f4 != must:
                        ctx2.violation('applyProbability %s %s' % (p, 'did not fire' if must else 'fired'),
                                       {'request': r4, 'echo': o4['resp']['biases']}, {})
    def service_vs_library(ctx2):
        """the HTTP service (one process serving the whole sequence) must answer every request exactly as the library does on a freshly
        decoded value: optional switches left out (biasApplyRandomSeed -> 0, applyProbability -> 1, disabled -> false) are defaults, never
        leftovers of an earlier request"""
        rnd = ctx2.rnd
        srv = Server(ctx2.binary)
        hist = []
        # a leftover may sit in a per-processor cache of the runtime: the recorded sequence is replayed many times over
        replayed = list((ctx2.replay or {}).get('service_history') or []) * 40
        try:
            for _ in range(len(replayed) or n_cases(ctx2, 70, 1500)):
                req = replayed.pop(0) if replayed else g(rnd)
                for b in ((req.get('biases') or []) if not (ctx2.replay or {}).get('service_history') else []):
                    r = rnd.random()
                    if r < 0.35:
                        b.pop('applyProbability', None)
                    elif r < 0.8:
                        b['applyProbability'] = rnd.choice([0.5, 0.25, 0.75, round(rnd.random(), 3)])
                    if rnd.random() < 0.3:
                        b.pop('disabled', None)
                if (ctx2.replay or {}).get('service_history'):
                    pass
                elif rnd.random() < 0.5:
                    req.pop('biasApplyRandomSeed', None)
                else:
                    req['biasApplyRandomSeed'] = rnd.choice([1, 2, 3, 7, 42, 908, rnd.randint(0, 10 ** 6)])
                hist.append(req)
                st, out = srv.post(json.dumps(req).encode())
                lib = ctx2.pipe.call({'op': 'decide', 'req': req})
                ctx2.count('service-vs-library/%s' % ('seed omitted' if 'biasApplyRandomSeed' not in req else 'seed given'))
                ctx2.evaluations += 1
                try:
                    sj = json.loads(out) if st == 200 else None
                except Exception:
                    sj = 'not JSON'
                same = (st == 200 and lib.get('ok') and sj == lib.get('resp')) or (st == 400 and not lib.get('ok'))
                if not same:
                    ctx2.violation('the service answers a request differently from the library on the same request (after other requests)',
                                   {'request': req, 'service_history': hist[-4:], 'service': [st, (out or b'').decode('utf8', 'replace')[:3000]],
                                    'library': lib.get('resp') or lib.get('err')}, {})
                    break
        finally:
            srv.close()

    def both(ctx2):
        meta(ctx2)
        service_vs_library(ctx2)
    ctx.before_finish = both
    if ctx.replay and ctx.replay.get('service_history'):
        ctx.check_proofs()
        service_vs_library(ctx)
        return ctx.finish('replay of a sequence of requests against the service', './check C08 --replay <file>')
    return method_check(ctx, 'C08', [(1, g)], 300, 6000,
                        'random requests over all methods with 1-5 biases, probabilities in {0, 1, random}, disabled entries with known and '
                        'unknown names at every position; echoes checked against the bias-apply stream of the seed; metamorphic: insert a '
                        'disabled bias, replace all other biases, set own probability to 0 / 1; the real service, one process for a sequence of requests '
                        'that leave optional switches out, compared with the library on freshly decoded values', agree_col='C08')


def reduced_request(req, stage):
    """the request with the omitted criteria deleted (criteria in the order the bias left them)"""
    after = stage['curAfter']
    kept = [c['Id'] for c in after['Criteria']]
    decl = {c['id']: c for c in req['criteria']}
    r = json.loads(json.dumps(req))
    r['criteria'] = [decl[k] for k in kept]
    for a in r['knownAlternatives']:
        a['criteria'] = {k: v for k, v in a['criteria'].items() if k in kept}
    mp = r['methodParameters']
    m = req['preferenceFunction']
    if m == 'choquetIntegral':
        mp['weights'] = {k: v for k, v in mp['weights'].items() if all(p in kept for p in k.split(','))}
    elif 'weights' in mp:
        mp['weights'] = {k: v for k, v in mp['weights'].items() if k in kept}
    if 'electreCriteria' in mp:
        mp['electreCriteria'] = {k: v for k, v in mp['electreCriteria'].items() if k in kept}
    if isinstance(mp.get('params'), dict) and mp['params'].get('thresholds') is not None:
        mp['params']['thresholds'] = [{k: v for k, v in t.items() if k in kept} for t in mp['params']['thresholds']]
    return r


@check('C15')
def c15(ctx):
    def first_omission(rnd):
        rest = [rnd.choice(gen.BIASES) for _ in range(rnd.choice([0, 0, 1]))]
        return gen.biased_request(rnd, names=['criteriaOmission'] + rest, prob_mix=False)
    def values_changed_then_omit(rnd):
        """biases that change values but neither criteria nor parameters (reversal - it ranks the criteria itself -, fatigue, inline
        anchoring) before an omission ordered by importance: the importance is the one of the state the omission receives"""
        pre = [rnd.choice(['preferenceReversal', 'preferenceReversal', 'fatigue', 'anchoring']) for _ in range(rnd.choice([1, 1, 2]))]
        m = rnd.choice(gen.METHODS + ['choquetIntegral'] * 5 + ['weightedSum', 'owa'])
        req = gen.biased_request(rnd, method=m, names=pre + ['criteriaOmission'], prob_mix=False)
        for b in req['biases'][:-1]:
            if b['name'] == 'anchoring':
                b['props']['applier'] = {'function': 'inline', 'params': {}}
            if b['name'] == 'preferenceReversal':
                b['props']['ratio'] = rnd.choice([0.0, 0.5, 1.0])
                b['props'].pop('max', None)
                b['props'].pop('min', None)
            if b['name'] == 'fatigue':
                b['props'].update(function='const', params={'value': rnd.choice([0.5, 0.9, 1.0])})
        b = req['biases'][-1]['props']
        b['ordering'] = rnd.choice(['weakest', 'strongest', 'weakest'])
        b['ratio'] = rnd.choice([0.34, 0.5])
        b.pop('min', None)
        b['max'] = max(1, len(req['criteria']) - 1)
        return req
    infos, verd, reqs, ress = stage_check(ctx, 'C15', ['criteriaOmission'],
                                          [(2, seq_with('criteriaOmission')), (2, first_omission), (2.5, values_changed_then_omit)], 260, 5000, '',
                                          agree_names=['criteriaOmission'], search_gens=[(1, seq_with('criteriaOmission'))])
    # the decision equals the one for the request with the omitted criteria deleted
    done = 0
    for req, res in zip(reqs, ress):
        en = e2e.enabled_biases(req)
        if not res.get('ok') or not en or en[0].get('name') != 'criteriaOmission' or any(b.get('disabled') for b in req['biases']):
            continue
        st = [s for s in res.get('stages') or [] if s['name'] == 'criteriaOmission']
        if not st or st[0].get('curAfter') is None or not st[0]['curAfter']['Criteria']:
            continue
        if req['preferenceFunction'] == 'aspectEliminationHeuristic' and tied_aspect_weights(req, res):
            continue
        red = reduced_request(req, st[0])
        red['biases'] = [b for b in req['biases'][1:]]
        # the bias-apply draws shift by one position: all remaining biases have probability 1
        r2 = ctx.pipe.call({'op': 'decide', 'req': red})
        ctx.count('metamorphic/reduced-request')
        done += 1
        if not r2.get('ok') or r2['resp']['result'] != res['resp']['result']:
            ctx.violation('the decision after criteria omission differs from the decision for the request with those criteria deleted',
                          {'request': req, 'reduced': red, 'response': res.get('resp'), 'reduced_response': r2.get('resp') or r2.get('err')},
                          {'method': req['preferenceFunction'], 'bias': 'criteriaOmission'})
    ctx.notes.append('reduced-request comparisons: %d' % done)
    # `strongest` is the exact reverse of `weakest` (and strongestByProbability of weakestByProbability under one seed): the full orderings
    # as the code itself reports them when every criterion is omitted (ratio 1), on problems with tied importances
    rnd = ctx.rnd
    rev_replay = bool(ctx.replay and 'orderings' in ctx.replay)
    for _ in range(1 if rev_replay else (n_cases(ctx, 60, 1200) if not ctx.replay else 0)):
        base = ctx.replay['request'] if rev_replay else gen.any_request(rnd)
        if not rev_replay and rnd.random() < 0.6:   # tied importances: equal weights / k, identical columns
            mp = base.get('methodParameters') or {}
            if isinstance(mp.get('weights'), dict) and base['preferenceFunction'] != 'choquetIntegral':
                for k in mp['weights']:
                    mp['weights'][k] = rnd.choice([2.0, 2.0, 1.0])
            for v in (mp.get('electreCriteria') or {}).values():
                v['k'] = rnd.choice([2.0, 2.0, 1.0])
        n = len(base['criteria'])
        seed = ctx.replay['seed'] if rev_replay else gen.some_seed(rnd)
        full = {}
        for od in ('weakest', 'strongest', 'weakestByProbability', 'strongestByProbability'):
            r = json.loads(json.dumps(base))
            r['biases'] = [{'name': 'criteriaOmission', 'props': {'ratio': 1.0, 'min': 0, 'max': n, 'ordering': od, 'randomSeed': seed}}]
            t = ctx.pipe.call({'op': 'trace', 'req': r})
            st = [x for x in (t.get('stages') or []) if x.get('name') == 'criteriaOmission']
            pr = st[0].get('props') if st else None
            full[od] = [c.get('id') for c in (pr or {}).get('omittedCriteria') or []] if isinstance(pr, dict) else None
        ctx.count('metamorphic/strongest-is-reverse')
        ctx.evaluations += 1
        for a, b in (('weakest', 'strongest'), ('weakestByProbability', 'strongestByProbability')):
            if full[a] is not None and full[b] is not None and len(full[a]) == n and full[b] != full[a][::-1]:
                ctx.violation('%s is not the exact reverse of %s' % (b, a), {'request': base, 'orderings': full, 'seed': seed},
                              {'method': base['preferenceFunction'], 'bias': 'criteriaOmission'})
    # weakestByProbability puts a less important criterion first more often than a more important one (strongestByProbability the opposite):
    # first positions counted over 240 seeds on problems whose importances are far apart (0 / 1 / 10 - a zero importance included)
    for _ in range(n_cases(ctx, 6, 60) if not ctx.replay else 0):
        m = rnd.choice(['majorityHeuristic', 'weightedSum', 'aspectEliminationHeuristic'])
        base = gen.any_request(rnd, m)
        cids = [c['id'] for c in base['criteria']]
        if len(cids) < 3:
            continue
        cids = cids[:3]
        base['criteria'] = [c for c in base['criteria'] if c['id'] in cids]
        for c in base['criteria']:
            c['type'] = 'gain'
            c.pop('valuesRange', None)
        for a in base['knownAlternatives']:
            a['criteria'] = {k: 1.0 for k in cids}          # weightedSum importance = weight x summed values
        imp = dict(zip(cids, rnd.sample([0.0, 1.0, 10.0], 3)))
        base['methodParameters']['weights'] = dict(imp)
        if m == 'aspectEliminationHeuristic':
            base['methodParameters']['function'] = 'thresholds'
            base['methodParameters']['params'] = {'thresholds': []}
        lo = min(cids, key=lambda k: imp[k])
        hi = max(cids, key=lambda k: imp[k])
        for od, more, less in (('weakestByProbability', lo, hi), ('strongestByProbability', hi, lo)):
            first = {k: 0 for k in cids}
            ok = True
            for seed in range(240):
                r = json.loads(json.dumps(base))
                r['biases'] = [{'name': 'criteriaOmission', 'props': {'ratio': 0.34, 'ordering': od, 'randomSeed': seed}}]
                t = ctx.pipe.call({'op': 'trace', 'req': r})
                st = [x for x in (t.get('stages') or []) if x.get('name') == 'criteriaOmission']
                pr = st[0].get('props') if st else None
                om = [c.get('id') for c in (pr or {}).get('omittedCriteria') or []] if isinstance(pr, dict) else []
                if len(om) != 1:
                    ok = False
                    break
                first[om[0]] += 1
            ctx.count('metamorphic/by-probability-frequency')
            ctx.evaluations += 1
            if ok and not first[more] > first[less]:
                ctx.violation('%s: over 240 seeds the criterion of importance %s came first %d times, the one of importance %s %d times'
                              % (od, imp[more], first[more], imp[less], first[less]),
                              {'request': base, 'ordering': od, 'first_position_counts': first, 'importances': imp},
                              {'method': m, 'bias': 'criteriaOmission'})
    return ctx.finish(
        'traced applications of criteriaOmission inside random bias sequences over all methods: five orderings and seeds, ratios on '
        'floor boundaries, min/max clamps, superfluous parameter entries; plus, where omission is the first bias, the decision is compared '
        'with the decision for the request with the omitted criteria deleted; the full weakest / strongest (and by-probability) orderings '
        'reported by the code on problems with tied importances must be reverses of each other; distinct = (method, ordering, sizes, bias sequence)',
        './check C15')


@check('C14')
def c14(ctx):
    ctx.check_proofs()
    rnd = ctx.rnd
    cases = []
    if 'levels' in core.COMP_SKIPPED:
        # the level sources can no longer be called directly (renamed / restructured): the component correspondence that ties the model of
        # the series to the code is gone; the heuristics are still checked end to end below
        ctx.notes.append('component overlay for level sources no longer compiles; falling back to the heuristics checkers only')
        ctx.violation('the level sources can no longer be reached by the component harness (overlay group `levels` does not compile): '
                      'correspondence Model.Levels vs satisfaction-levels not established', {'broken': 'component overlay levels'}, found_input=False)
    elif ctx.replay and 'levels_case' in ctx.replay:
        cases = [ctx.replay['levels_case']]
    elif ctx.replay and 'request' in ctx.replay:
        cases = []
    else:
        for _ in range(n_cases(ctx, 300, 8000)):
            inc = rnd.random() < 0.5
            crits = gen.gen_criteria(rnd, n=rnd.choice([1, 2, 3]))
            cids = [c['id'] for c in crits]
            alts = gen.gen_alternatives(rnd, cids, n=rnd.choice([1, 2, 3, 4]), style=rnd.choice(['grid', 'posgrid', 'real', 'near']))
            if rnd.random() < 0.15:   # degenerate range
                for a in alts:
                    a['criteria'][cids[0]] = alts[0]['criteria'][cids[0]]
            gen.add_ranges(rnd, crits, alts, prob=0.3)
            k = rnd.randint(0, len(alts))
            fn, p = gen.level_params(rnd, crits, alts, increasing=inc, explicit_prob=0.1)
            r = rnd.random()
            if r < 0.12 and fn != 'thresholds':   # one documented constraint violated
                which = rnd.choice(['coefficient', 'minValue', 'maxValue'])
                p[which] = rnd.choice([0.0, 1.0, -0.25, 1.5]) if which == 'coefficient' else rnd.choice([-0.25, 1.5, 0.0 if not inc else -1.0])
            elif r < 0.2 and fn != 'thresholds':  # bounds given exactly, series landing on them
                p['coefficient'], p['minValue'], p['maxValue'] = 0.25, 0.25, rnd.choice([0.75, 1.0, 0.5])
            cases.append({'family': 'increasing' if inc else 'decreasing', 'function': fn, 'params': p, 'criteria': crits,
                          'considered': alts[:k], 'notConsidered': alts[k:], 'max': 5000})
    # history elements: series whose coefficient lies below the float resolution of the start value (accepted; they cannot advance and
    # end at once by design of the code - in exact arithmetic they would have ~1e17 levels, so neither the model nor the checker is
    # applied to them); what they leave behind in the process-wide level sources must not change any later series
    if not ctx.replay and cases:
        for k in range(max(2, len(cases) // 60)):
            pos = rnd.randrange(0, max(1, len(cases) // 2))
            base = cases[rnd.randrange(len(cases))]
            if base['function'] == 'thresholds':
                continue
            st = json.loads(json.dumps(base))
            st['params'] = {'coefficient': 1e-18, 'minValue': rnd.choice([0.125, 0.25, 0.5]), 'maxValue': rnd.choice([0.5, 0.75, 1.0])}
            st['stall'] = True
            cases.insert(pos, st)
    terms, keep = [], []
    served_before = []
    for h in (ctx.replay or {}).get('history_before') or []:
        ctx.pipe.call({'op': 'levels', 'args': {k: v for k, v in h.items() if k != 'stall'}})
        served_before.append(h)
    for c in cases:
        if c.get('stall'):
            served_before.append(c)
            sres = ctx.pipe.call({'op': 'levels', 'args': {k: v for k, v in c.items() if k != 'stall'}})
            ctx.count('levels/history element: series that cannot advance')
            if not sres.get('ok') or (sres.get('result') or {}).get('truncated'):
                ctx.violation('a level series whose coefficient is below the float resolution does not end', {'levels_case': c, 'answer': sres},
                              {'function': c['function']})
            continue
        res = ctx.pipe.call({'op': 'levels', 'args': c})
        if not res.get('ok'):
            ctx.violation('harness: levels op unavailable', {'broken': 'component overlay', 'answer': res}, found_input=False)
            break
        r = res['result']
        st = emit.cstate_d('satisfactionHeuristic' if c['family'] == 'decreasing' else 'aspectEliminationHeuristic',
                           {'ConsideredAlternatives': [{'Id': a['id'], 'Criteria': a['criteria']} for a in c['considered']],
                            'NotConsideredAlternatives': [{'Id': a['id'], 'Criteria': a['criteria']} for a in c['notConsidered']],
                            'Criteria': [{'Id': x['id'], 'Type': x.get('type', ''),
                                          'ValuesRange': None if not x.get('valuesRange') else {'Min': x['valuesRange']['min'], 'Max': x['valuesRange']['max']}}
                                         for x in c['criteria']],
                            'MethodParameters': {'Function': c['function'], 'Params': c['params']}})
        if r.get('ok') and r.get('truncated'):
            ctx.violation('a level series does not end (more than %d levels)' % c['max'], {'levels_case': c}, {'function': c['function']})
            continue
        if r.get('ok') and 'again' in r and (r['again'] != r['levels'] or r.get('dataUnchanged') is False):
            ctx.violation('generating the series a second time from the same data gives other levels (or the data were modified)',
                          {'levels_case': c, 'result': r}, {'function': c['function']})
            continue
        obs = 'None' if not r.get('ok') else '(Some %s)' % emit.clist(emit.cmap(t) for t in r['levels'])
        terms.append('(mkLC %s %s %s %s %s)' % ('true' if c['family'] == 'increasing' else 'false', emit.cstr(c['function']),
                                               emit.clparams(c['params']), st, obs))
        keep.append((c, r))
        n = len(r['levels']) if r.get('ok') else -1
        ctx.seen((c['family'], c['function'], n, len(c['criteria']), r.get('ok')), trivial=(n <= 0))
        ctx.count('levels/%s/%s' % (c['family'], c['function']))
        ctx.count('levels/' + ('accepted' if r.get('ok') else 'rejected'))
        ctx.sample({'levels_case': c, 'result': r}, limit=3)
    verd, logs = core.run_cases('C14', 'judge_levels', terms)
    broken = []
    for (c, r), v in zip(keep, verd):
        if v == [99]:
            ctx.violation('case file did not evaluate', {'broken': 'Run/cases_C14', 'log': logs[:1]}, found_input=False)
            break
        if v[1] != 0 and series_stalls({'function': c['function'], 'params': c['params']}, c['family'] == 'increasing'):
            ctx.count('levels/series cannot advance in binary64: checker not applied')
        elif v[1] != 0:
            ctx.violation('generated aspiration levels do not follow the documented series', {'levels_case': c, 'result': r,
                          'checker': 'Check/C14.v C14_ok', 'history_before': served_before}, {'function': c['function']})
        if v[0] == 1:
            ctx.violation('out-of-range level parameters are accepted', {'levels_case': c, 'result': r}, {'function': c['function']})
        elif v[0] != 0:
            broken.append((c, r, v))
    if broken and not any(x[2] for x in ctx.violations):
        c, r, v = broken[0]
        ctx.violation('correspondence Model.Levels vs satisfaction-levels broken on %d of %d cases (code %s); checker still satisfied'
                      % (len(broken), len(keep), v[0]), {'broken': 'correspondence levels', 'levels_case': c, 'result': r}, found_input=False)
    # the two heuristics end to end with GENERATED levels: the thresholds they report must be the levels of the documented series for the
    # criterion they name (criteria listed in an order that differs from their weight order, different ranges and types per criterion)
    if not ctx.replay or 'request' in ctx.replay:
        def gen_levels(rnd):
            m = rnd.choice(['aspectEliminationHeuristic', 'satisfactionHeuristic'])
            req = gen.heuristic_request(rnd, m, n_crits=rnd.choice([2, 3, 3, 4]), distinct_weights=True)
            fn, p = gen.level_params(rnd, req['criteria'], req['knownAlternatives'], increasing=(m == 'aspectEliminationHeuristic'), explicit_prob=0.0)
            req['methodParameters']['function'], req['methodParameters']['params'] = fn, p
            return req
        hreqs = [ctx.replay['request']] if ctx.replay else [gen_levels(rnd) for _ in range(n_cases(ctx, 120, 2500))]
        if not ctx.replay:
            # the same history element end to end: a heuristic request whose series cannot advance, served (not judged) before the others
            for m, fn in (('aspectEliminationHeuristic', 'idealAdditiveCoefficient'), ('satisfactionHeuristic', 'idealSubtractiveCoefficient'),
                          ('aspectEliminationHeuristic', 'idealMultipliedCoefficient')):
                sq = gen.heuristic_request(rnd, m, n_crits=2)
                sq['methodParameters']['function'] = fn
                sq['methodParameters']['params'] = {'coefficient': 1e-18, 'minValue': 0.25, 'maxValue': 0.75}
                sr = ctx.pipe.call({'op': 'decide', 'req': sq}, timeout=60)
                ctx.count('heuristic/history element: series that cannot advance')
                if sr.get('kind') not in (None, 'panic', 'marshal') and not sr.get('ok'):
                    ctx.violation('a heuristic request whose level series cannot advance is not answered', {'request': sq, 'answer': sr}, {'method': m})
        hres, hverd, hlogs = e2e.run_all(ctx.pipe, hreqs, 'C14h')
        # declared ranges next to undeclared ones at the same criterion position, through the one running service
        service_crosscheck(ctx, [gen.heuristic_request(rnd, rnd.choice(['aspectEliminationHeuristic', 'satisfactionHeuristic'])) if i % 2 else q
                                 for i, q in enumerate(hreqs)], n_cases(ctx, 80, 1200))
        for req, res, v in zip(hreqs, hres, hverd):
            ctx.evaluations += 1
            ctx.count('heuristic/' + req['preferenceFunction'])
            col = COL['C12'] if req['preferenceFunction'] == 'aspectEliminationHeuristic' else COL['C13']
            if v and len(v) > col and v[col] != 0 and not series_stalls(req.get('methodParameters'), req['preferenceFunction'] == 'aspectEliminationHeuristic'):
                ctx.violation('the thresholds a heuristic reports are not the levels of the documented series for the criteria it names',
                              {'request': req, 'response': res.get('resp') or res.get('err'), 'checker': 'Check/C12.v / Check/C13.v on generated levels'},
                              {'method': req['preferenceFunction']})
                break
    return ctx.finish(
        'level sources called directly (Find + Initialize + Next as wired in main.go): both families, both update rules and explicit '
        'thresholds, dyadic parameters landing exactly on bounds, min >= max, degenerate and negative ranges, cost criteria, one '
        'documented constraint violated in 12% of cases; every series generated twice from the same data; plus aspect elimination and '
        'satisfaction end to end with generated levels (reported thresholds = levels of the series); distinct = (family, function, number of levels, criteria, verdict)',
        './check C14')


# -------------------------------------------------------------------------------------------------
import subprocess, urllib.request, socket


class ServiceStoppedAnswering(Exception):
    pass


class Server:
    """the unmodified service (main() of httpClient) on a free port"""

    def __init__(self, binary, mem_kb=4 * 1024 * 1024, race=False):
        s = socket.socket()
        s.bind(('127.0.0.1', 0))
        self.port = s.getsockname()[1]
        s.close()
        env = dict(os.environ, PORT=str(self.port), GIN_MODE='release')
        env.pop('VERIF_MODE', None)
        self.p = subprocess.Popen(['bash', '-c', 'ulimit -v %d; exec "%s"' % (mem_kb, binary)] if not race else [binary],
                                  env=env, stdout=subprocess.DEVNULL, stderr=subprocess.DEVNULL, cwd=core.WORK)
        for _ in range(100):
            try:
                socket.create_connection(('127.0.0.1', self.port), timeout=0.2).close()
                break
            except OSError:
                time.sleep(0.1)

    def post(self, body, timeout=20):
        """body: bytes; returns (status, bytes) or (None, error text)"""
        req = urllib.request.Request('http://127.0.0.1:%d/api/decide' % self.port, data=body,
                                     headers={'Content-Type': 'application/json'}, method='POST')
        try:
            with urllib.request.urlopen(req, timeout=timeout) as r:
                return r.status, r.read()
        except urllib.error.HTTPError as e:
            return e.code, e.read()
        except Exception as e:
            return None, repr(e).encode()

    def get(self, path, timeout=10):
        try:
            with urllib.request.urlopen('http://127.0.0.1:%d%s' % (self.port, path), timeout=timeout) as r:
                return r.status, r.read()
        except urllib.error.HTTPError as e:
            return e.code, e.read()
        except Exception as e:
            return None, repr(e).encode()

    def alive(self):
        return self.p.poll() is None

    def close(self):
        try:
            self.p.kill()
            self.p.wait(timeout=5)
        except Exception:
            pass


def verdict_of(status):
    return 'accepted' if status == 200 else 'rejected' if status == 400 else str(status)


@check('C02')
def c02(ctx):
    # the inventory of map iterations is regenerated from the source before the obligations are checked
    with core._Lock():   # regeneration and re-check are one step: another check must not regenerate the inventory from another tree in between
        g = subprocess.run([sys.executable, os.path.join(core.VERIF, 'tools', 'gen_mapranges.py')], capture_output=True, text=True,
                           env=dict(os.environ, VERIF_REPO=core.REPO))
        if g.returncode != 0:
            ctx.violation('the map-iteration inventory could not be regenerated from the source', {'broken': 'tools/gen_mapranges.py', 'log': g.stderr[-2000:]},
                          found_input=False)
        else:
            ctx.notes.append('inventory: ' + g.stdout.strip())
        ctx.check_proofs()
    rnd = ctx.rnd
    n = n_cases(ctx, 120, 2500)
    map_heavy = lambda r: gen.biased_request(r, method=r.choice(['choquetIntegral', 'owa', 'weightedSum', 'electreIII']),
                                             names=[r.choice(['anchoring', 'criteriaOmission', 'criteriaConcealment', 'criteriaMixing'])], prob_mix=False)
    def near_duplicate_keys(r):
        """JSON objects keyed by criterion ids (weights, ELECTRE parameters, criterion values) that also hold keys differing from a real id only by
        blanks or case, with other values: whatever the service makes of them (superfluous entry, rejection), it makes the same every time"""
        req = gen.biased_request(r, method=r.choice(['weightedSum', 'weightedSum', 'weightedSum', 'owa', 'owa', 'choquetIntegral', 'majorityHeuristic', 'electreIII',
                                                       'aspectEliminationHeuristic']),
                                 names=[r.choice(['criteriaOmission', 'preferenceReversal', 'criteriaConcealment', 'criteriaMixing', 'anchoring'])], prob_mix=False)
        mp = req['methodParameters']
        for fld in ('weights', 'electreCriteria'):
            if isinstance(mp.get(fld), dict) and mp[fld]:
                for k in r.sample(sorted(mp[fld]), min(len(mp[fld]), r.choice([1, 2]))):
                    v = mp[fld][k]
                    k2 = r.choice([' ' + k, k + ' ', k.upper() if k.upper() != k else k.lower(), ' ' + k + ' '])
                    if k2 not in mp[fld]:
                        mp[fld][k2] = (v * r.choice([2.0, 0.5, 3.0]) if isinstance(v, (int, float)) else json.loads(json.dumps(v)))
                        if isinstance(mp[fld][k2], dict) and 'k' in mp[fld][k2]:
                            mp[fld][k2]['k'] = mp[fld][k2]['k'] * 3.0
        if r.random() < 0.3:
            a = r.choice(req['knownAlternatives'])
            k = r.choice(sorted(a['criteria']))
            a['criteria'][' ' + k] = a['criteria'][k] + 1.0
        return req
    reqs = [ctx.replay['request']] if ctx.replay and 'request' in ctx.replay else \
        [rnd.choice([gen.any_request, gen.biased_request, map_heavy, gen.choquet_chain_request, near_duplicate_keys, near_duplicate_keys,
                     lambda r: gen.add_biases(r, gen.choquet_chain_request(r), names=[r.choice(['criteriaOmission', 'criteriaConcealment'])],
                                              prob_mix=False)])(rnd) for _ in range(n)]
    # some invalid ones: the verdict must repeat as well
    for r in reqs[::9]:
        if not ctx.replay:
            r['criteria'] = r['criteria'] + [dict(r['criteria'][0])]
    servers = [Server(ctx.binary) for _ in range(2 if ctx.quick else 4)]
    try:
        bodies = [json.dumps(r).encode() for r in reqs]
        first = []
        for i, (r, b) in enumerate(zip(reqs, bodies)):
            st, out = servers[0].post(b)
            first.append((st, out))
            ctx.seen(req_signature(r, {'ok': st == 200, 'resp': json.loads(out) if st == 200 else None}), trivial=(st != 200))
            ctx.count('first/' + verdict_of(st))
            ctx.sample({'request': r, 'status': st}, limit=2)
        # again in the same process after the whole history, interleaved with other requests; and in fresh processes
        order = list(range(len(reqs)))
        for k, srv in enumerate(servers):
            rnd.shuffle(order)
            for i in order + [j for j in order if reqs[j].get('preferenceFunction') == 'choquetIntegral'] * 3:
                st, out = srv.post(bodies[i])
                ctx.count('repeat/%s' % ('same-process' if k == 0 else 'fresh-process'))
                st0, out0 = first[i]
                if verdict_of(st) != verdict_of(st0) or (st0 == 200 and out != out0):
                    ctx.violation('the same request got a different answer (%s)' % ('same process, later' if k == 0 else 'another process'),
                                  {'request': reqs[i], 'first': [st0, out0.decode('utf8', 'replace')[:3000]],
                                   'again': [st, out.decode('utf8', 'replace')[:3000]]}, {'method': reqs[i].get('preferenceFunction')})
    finally:
        for s in servers:
            s.close()
    # after any other requests: short histories (same-method parameter variants over-weighted) against a process that served nothing else
    if not ctx.replay:
        history_runs(ctx, n_cases(ctx, 30, 600), modes=('fresh',))
    # goroutine scheduling: requests of one method with different seeds / options served at the same time by one process must get the
    # answers they get alone (the heuristics with seeded draws over-weighted)
    if not ctx.replay:
        for _ in range(n_cases(ctx, 24, 300)):
            m = rnd.choice(['majorityHeuristic', 'majorityHeuristic', 'majorityHeuristic', 'aspectEliminationHeuristic', 'satisfactionHeuristic', 'owa', 'electreIII'])
            base = [gen.heuristic_request(rnd, m, n_alts=rnd.choice([6, 8, 10, 12])) if m in gen.HEURISTICS else gen.any_request(rnd, m) for _ in range(3)]
            for r in base:
                if m == 'majorityHeuristic':
                    r['methodParameters']['drawResolution'] = rnd.choice(['random', 'random', 'newer', 'current', 'allow'])
                    r['methodParameters']['randomSeed'] = rnd.randint(0, 10 ** 6)
                    r['methodParameters']['weights'] = {c['id']: 1.0 for c in r['criteria']}     # many draws
            alone = {}
            for r in base:
                fp = core.Pipe(ctx.binary)
                alone[json.dumps(r, sort_keys=True)] = fp.call({'op': 'decide', 'req': r})
                fp.close()
            batch = [rnd.choice(base) for _ in range(32)]
            pp = core.Pipe(ctx.binary, mem_kb=64 * 1024 * 1024)
            out = pp.call({'op': 'conc', 'reqs': batch}, timeout=120)
            pp.close()
            ctx.count('concurrent-batches')
            ctx.evaluations += 1
            if not out.get('ok'):
                ctx.violation('the process died or hung while serving concurrent requests', {'batch': batch, 'answer': out}, {})
                continue
            for r, got in zip(batch, out['results']):
                want = alone[json.dumps(r, sort_keys=True)]
                if got.get('ok') != want.get('ok') or (got.get('ok') and got.get('resp') != want.get('resp')):
                    ctx.violation('the answer to a request depends on which other requests are served at the same time',
                                  {'batch': batch, 'request': r, 'alone': want.get('resp') or want.get('err'),
                                   'concurrent': got.get('resp') or got.get('err')}, {'method': r.get('preferenceFunction')})
                    break
    # the model (a function of the request and of the streams of its seeds) agrees with the service
    sub = [r for r in reqs if True][:n_cases(ctx, 60, 600)]
    ress, verd, logs = e2e.run_all(ctx.pipe, sub, 'C02')
    bad = [(r, res, v) for r, res, v in zip(sub, ress, verd) if v and v[0] != 0 and not not_tied_aspect(r, res, v)]
    if bad and not any(x[2] for x in ctx.violations):
        r, res, v = bad[0]
        ctx.violation('correspondence model/code broken on %d of %d requests (%s); repetition found no differing answer'
                      % (len(bad), len(sub), e2e.AGREE_TEXT.get(v[0], v[0])),
                      {'broken': 'correspondence decide (C02)', 'request': r, 'response': res.get('resp') or res.get('err')}, found_input=False)
    return ctx.finish(
        'each request is sent to the real service once, then again in the same process after all the others in another order, and to fresh '
        'processes (Go randomises map iteration per range statement and per process); accepted answers must be byte-identical, verdicts equal; '
        'requests: all methods and bias combinations, map-heavy ones over-weighted (Choquet alternatives holding chains of near-ties are '
        'repeated four times per process), every ninth made invalid; plus histories of 2-6 calls whose answers are compared with those of '
        'processes that served nothing else; distinct = request shape x outcome',
        './check C02')


def defaults_request(rnd, first=None):
    """a valid request that names none of its optional parameters: orderings, reference-criterion strategies, draw policy, distillation
    function, bounding and seeds are the documented defaults; at least three criteria, biases that select by ordering over-weighted"""
    names = [rnd.choice(['criteriaOmission', 'preferenceReversal', 'criteriaOmission', 'criteriaConcealment', 'criteriaMixing', 'fatigue'])
             for _ in range(rnd.choice([1, 1, 2]))]
    if first:
        names[0] = first
    m = rnd.choice(gen.METHODS)
    if m in gen.UTILITY:
        req = gen.utility_request(rnd, m, n_crits=rnd.choice([3, 4]))
    elif m == 'electreIII':
        req = gen.electre_request(rnd, n_crits=rnd.choice([3, 4]))
    else:
        req = gen.heuristic_request(rnd, m, n_crits=rnd.choice([3, 4]))
    req = gen.add_biases(rnd, req, names=names, prob_mix=False, disabled_prob=0.0)
    for b in req['biases']:
        p = b['props']
        for k in ('ordering', 'referenceCriterionType', 'randomSeed', 'newCriterionRandomSeed', 'newCriterionImportance',
                  'allowedValuesRangeScaling', 'disallowNegativeValues', 'min', 'max'):
            p.pop(k, None)
        if b['name'] in ('criteriaOmission', 'preferenceReversal'):
            p['ratio'] = rnd.choice([0.5, 0.34, 0.67])
    mp = req['methodParameters']
    for k in ('drawResolution', 'electreDistillation', 'randomSeed', 'randomAlternativesOrdering'):
        mp.pop(k, None)
    return req


def history_runs(ctx, nh, modes=('shared', 'fresh'), allc=None, cur_in=None):
    """histories of 2-6 calls drawn from a pool of 1-3 requests (same-method parameter variants over-weighted): every answer must equal the
    answer of a process that has served nothing else; with mode 'shared' the same decoded Go values are reused across calls"""
    rnd = ctx.rnd
    others = [g for g in (allc, cur_in) if g] + [gen.any_request]
    nfix = max(3, nh // 10)
    for hi in range(nh):
        if hi < nfix or rnd.random() < 0.6:
            # requests of one method with different (optional) parameters: what one call sets must not leak into the next
            m = 'electreIII' if hi < nfix else rnd.choice(gen.METHODS + ['electreIII', 'electreIII'])
            pool = [gen.any_request(rnd, m) for _ in range(rnd.randint(2, 3))]
            if hi < nfix:
                # always present: one problem with 4-6 alternatives under the default distillation function and under one that ties everything
                pool = [gen.electre_request(rnd, n_alts=rnd.choice([4, 5, 6]), n_crits=rnd.choice([2, 3])) for _ in range(2)]
            if m == 'electreIII':
                if hi < nfix or rnd.random() < 0.5:   # the same problem with and without its own distillation function
                    pool[1] = json.loads(json.dumps(pool[0]))
                pool[0]['methodParameters'].pop('electreDistillation', None)
                pool[1]['methodParameters']['electreDistillation'] = {'a': 0, 'b': 1.0} if hi < nfix else rnd.choice(
                    [{'a': 0, 'b': 0.05}, {'a': -0.25, 'b': 0.5}, {'a': 0, 'b': 0.125}, {'a': 0, 'b': 1.0}, {'a': 0, 'b': 1.0}, {'a': 0, 'b': 0.0}])
            pool = [gen.add_biases(rnd, r, prob_mix=False) if rnd.random() < 0.3 else r for r in pool]
        elif rnd.random() < 0.45:
            # a method whose listener extends its parameters for an added criterion (Choquet capacities over-weighted), served repeatedly:
            # anything remembered from the first time must not change the second
            m = rnd.choice(['choquetIntegral', 'choquetIntegral', 'owa', 'electreIII', 'majorityHeuristic', 'weightedSum'])
            adder = rnd.choice(['criteriaConcealment', 'criteriaMixing', 'anchoring'])
            r0 = gen.biased_request(rnd, method=m, names=[adder], prob_mix=False)
            if adder == 'anchoring':
                ap = r0['biases'][0]['props']['applier']
                ap['function'] = 'newCriterion'
                ap['params'].setdefault('randomSeed', 7)
                ap['params'].pop('applyOnNotConsidered', None)
            r1 = json.loads(json.dumps(r0))
            for a in r1['knownAlternatives']:      # the same criteria, other values and another seed
                for k in a['criteria']:
                    a['criteria'][k] = a['criteria'][k] + rnd.choice([0.0, 0.25, -0.5])
            r1['biases'][0]['props']['randomSeed'] = gen.some_seed(rnd)
            pool = [r0, r1]
        else:
            pool = [rnd.choice(others)(rnd) for _ in range(rnd.randint(1, 3))]
        seq = [rnd.choice(pool) for _ in range(rnd.randint(2, 6))]
        if len(pool) > 1 and (hi < nfix or rnd.random() < 0.7):
            # every request both before and after every other one
            order = list(pool)
            rnd.shuffle(order)
            seq = order + order[::-1]
        if hi == nfix or hi == nfix + 1 or rnd.random() < 0.2:
            # rejected requests in between (unknown names make the service consult - and print - its registries): requests that rely on
            # the documented defaults of every optional parameter are answered the same before and after them
            pool = [defaults_request(rnd, first=rnd.choice(['criteriaOmission', 'preferenceReversal'])), defaults_request(rnd)]
            bad = []
            for r in pool:
                bad += [x for n_, x in invalid_variants(rnd, r) if 'unknown' in n_ or 'mistyped' in n_]
            rnd.shuffle(bad)
            bad = bad[:rnd.randint(3, 6)] + [x for x in bad if any((b.get('props') or {}).get('ordering') for b in x.get('biases') or [] if isinstance(b, dict))][:3]
            seq = pool + bad + pool[::-1]
            pool = pool + bad
        alone = {}
        for r in pool:
            # the answer to the request alone: a process that has served nothing else
            k = json.dumps(r, sort_keys=True)
            fp = core.Pipe(ctx.binary)
            alone[k] = fp.call({'op': 'decide', 'req': r})
            fp.close()
        for mode in modes:
            hp = core.Pipe(ctx.binary)
            out = hp.call({'op': 'hist', 'reqs': seq, 'mode': mode})
            hp.close()
            ctx.evaluations += 1
            ctx.signatures.add(('hist', mode, len(seq), len(pool), tuple(x.get('preferenceFunction') for x in seq)))
            ctx.count('history/' + mode)
            if not out.get('ok'):
                ctx.violation('history run failed in the harness', {'broken': 'hist op', 'answer': out}, found_input=False)
                continue
            for i, (r, c) in enumerate(zip(seq, out['calls'])):
                want = alone[json.dumps(r, sort_keys=True)]
                got = c['res']
                same = (got.get('ok') == want.get('ok')) and (not got.get('ok') or got.get('resp') == want.get('resp'))
                if not c['requestUnchanged']:
                    ctx.violation('call %d of a history modified its request value (%s Go values)' % (i, mode),
                                  {'history': seq, 'mode': mode, 'call': i}, {'method': r.get('preferenceFunction')})
                if not c['earlierIntact']:
                    ctx.violation('call %d of a history modified a result returned by an earlier call' % i,
                                  {'history': seq, 'mode': mode, 'call': i}, {'method': r.get('preferenceFunction')})
                if not same:
                    ctx.violation('the answer to a request depends on the requests processed before it',
                                  {'history': seq, 'mode': mode, 'call': i, 'alone': want.get('resp') or want.get('err'),
                                   'in_history': got.get('resp') or got.get('err')}, {'method': r.get('preferenceFunction')})


def c09_extra(ctx, req, res, info, v, facts):
    if len(v) > SCOL['faithful'] and v[SCOL['faithful']] != 0:
        ctx.violation('what the bias %s reports about the data it produced is not what the next stage received' % info['bias'].get('name'),
                      {'request': req, 'bias': info['bias'], 'handed_on': info['stage'].get('curAfter'), 'report': info['stage'].get('props')}, facts)
    if v[SCOL['C09later']] != 0:
        ctx.violation('what the bias %s handed on / reported was altered by a later stage' % info['bias'].get('name'),
                      {'request': req, 'bias': info['bias'], 'after_at_return': info['stage'].get('curAfter'),
                       'after_at_end': info['stage'].get('curAfterFinal'), 'report_at_return': info['stage'].get('props'),
                       'report_at_end': info['stage'].get('propsFinal')}, facts)


@check('C09')
def c09(ctx):
    def allc(rnd):
        """requests in which every known alternative is considered (internal slices are shared, not copied)"""
        req = gen.biased_request(rnd, prob_mix=False)
        req['choseToMake'] = [a['id'] for a in req['knownAlternatives']]
        rnd.shuffle(req['choseToMake'])
        return req

    def cur_in(rnd):
        req = gen.heuristic_request(rnd, rnd.choice(['majorityHeuristic', 'satisfactionHeuristic']))
        req['methodParameters']['currentChoice'] = rnd.choice(req['choseToMake'])
        return gen.add_biases(rnd, req, prob_mix=False)
    def extra_values(rnd):
        """alternatives holding values for criteria the request does not declare (a data set with more columns than the problem uses);
        methods that tolerate them"""
        req = gen.biased_request(rnd, method=rnd.choice(['weightedSum', 'electreIII', 'majorityHeuristic', 'aspectEliminationHeuristic',
                                                         'satisfactionHeuristic']),
                                 names=[rnd.choice(['fatigue', 'fatigue', 'anchoring', 'preferenceReversal'])] if rnd.random() < 0.6 else [], prob_mix=False)
        for a in req['knownAlternatives']:
            if rnd.random() < 0.7:
                a['criteria']['zz_unused_column'] = rnd.choice([1.0, 2.5, -3.0])
        return req
    def declared_ranges_bounded(rnd):
        """every criterion declares its value range (most of them reaching below 0) and the biases that bound values run with the
        identity scaling and / or the cut at zero: the ranges they work with are the request's own objects"""
        names = [rnd.choice(['fatigue', 'fatigue', 'criteriaConcealment', 'anchoring'])] + [rnd.choice(gen.BIASES) for _ in range(rnd.choice([0, 1, 1, 2]))]
        rnd.shuffle(names)
        req = gen.biased_request(rnd, names=names, prob_mix=False)
        for c in req['criteria']:
            vals = [a['criteria'][c['id']] for a in req['knownAlternatives'] if c['id'] in a['criteria']]
            if vals:
                c['valuesRange'] = {'min': min(vals) - rnd.choice([0.5, 2.0, 7.0, 0.0]), 'max': max(vals) + rnd.choice([1.0, 0.5, 3.0])}
        for b in req['biases']:
            p = b['props']
            tgt = p['applier']['params'] if b['name'] == 'anchoring' else p
            if b['name'] in ('fatigue', 'criteriaConcealment', 'anchoring'):
                if rnd.random() < 0.7:
                    tgt['allowedValuesRangeScaling'] = 1.0
                if rnd.random() < 0.7:
                    tgt['disallowNegativeValues'] = True
        return req
    gens = [(2, allc), (2, cur_in), (1, gen_biased()), (1, extra_values), (1.2, declared_ranges_bounded)]
    infos, verd, reqs, ress = stage_check(ctx, None, None, gens, 160, 3000, '', extra=c09_extra)
    for req, res in zip(reqs, ress):
        if res.get('requestUnchanged') is False:
            ctx.violation('MakeDecision modified the request value it was handed', {'request': req}, {'method': req.get('preferenceFunction')})
    # histories: the same Go values are reused across calls; every earlier result must stay intact; the answer must not depend on history
    history_runs(ctx, n_cases(ctx, 60, 1200), allc=allc, cur_in=cur_in)
    ctx.sample({'history_of': 'sequences of 2-6 requests drawn from a pool of 1-3, replayed with shared Go request values and with fresh ones'}, limit=4)
    return ctx.finish(
        'traced bias sequences (all known alternatives considered; heuristics with currentChoice taken from choseToMake) with every state and '
        'report dumped at return and again after the whole decision; request values deep-compared before/after; histories of 2-6 calls that '
        'reuse the same decoded Go request values (spare slice capacity from the JSON decoder) with every earlier result deep-compared after '
        'every later call and every answer compared with the answer to that request alone', './check C09')


@check('C10')
def c10(ctx):
    with core._Lock():
        g = subprocess.run([sys.executable, os.path.join(core.VERIF, 'tools', 'gen_effects.py')], capture_output=True, text=True,
                           env=dict(os.environ, VERIF_REPO=core.REPO))
        if g.returncode != 0:
            ctx.violation('the shared-write summary could not be regenerated from the source', {'broken': 'tools/gen_effects.py', 'log': g.stderr[-2000:]},
                          found_input=False)
        else:
            ctx.notes.append('write summary: ' + g.stdout.strip())
        ctx.check_proofs()
    rnd = ctx.rnd
    bins = [ctx.binary]
    race_pipe = None
    try:
        rb, _ = core.build_go(race=True)
        bins.append(rb)
    except core.BuildError as e:
        ctx.notes.append('race build unavailable: ' + str(e)[-300:])
    try:
        nb = n_cases(ctx, 40, 500)
        hung = 0
        for bi in range(nb):
            if hung >= 2:
                ctx.notes.append('stopped after two batches on which the process died or hung (each costs the full timeout)')
                break
            k = rnd.choice([2, 8, 8, 32])
            kind = rnd.choice(['identical', 'different', 'mixed-invalid'])
            forced = None
            if bi < len(gen.METHODS) and not ctx.replay:
                # always present: every method once with 32 requests of two kinds started together (scratch memory handed from one request
                # to the next - pools, reused buffers - is reused soonest between requests of the same method)
                k, kind, forced = 32, 'different', gen.METHODS[bi]
            if forced:
                base = [gen.large_request(rnd, forced, lo=4, hi=9), gen.large_request(rnd, forced, lo=3, hi=6)]
            elif kind != 'identical' and rnd.random() < 0.6:
                # requests of one method that differ in (optional) parameters: what one request sets must not reach another
                m = rnd.choice(gen.METHODS)
                base = [gen.any_request(rnd, m) for _ in range(rnd.randint(2, 4))]
                if m == 'electreIII':
                    base[0]['methodParameters'].pop('electreDistillation', None)
                    base[1]['methodParameters']['electreDistillation'] = rnd.choice([{'a': 0, 'b': 0.05}, {'a': -0.25, 'b': 0.5}, {'a': 0, 'b': 0.125}])
                base = [gen.add_biases(rnd, r, prob_mix=False) if rnd.random() < 0.3 else r for r in base]
            else:
                base = [rnd.choice([gen.any_request, gen.biased_request])(rnd) for _ in range(1 if kind == 'identical' else rnd.randint(2, 5))]
            for r in base:
                # whether a bias fires is drawn per request: fractional probabilities make a draw taken from another request's stream visible
                for b in r.get('biases') or []:
                    if isinstance(b, dict) and rnd.random() < 0.6:
                        b['applyProbability'] = rnd.choice([0.5, 0.25, 0.75, round(rnd.random(), 3)])
            if kind == 'mixed-invalid':
                bad = json.loads(json.dumps(base[0]))
                bad['choseToMake'] = bad['choseToMake'] + ['no-such-alternative']
                base.append(bad)
                # and requests that are rejected only while the biases or the method run (one of them: nothing chosen)
                late = late_rejections(rnd, base[0])
                base += [r for _, r in rnd.sample(late, min(2, len(late)))] + [r for n_, r in late if n_.startswith('nothing chosen')]
                # documented constraints violated (rejected while decoding, validating, or inside a bias), next to valid requests
                # that use the same bias: what a rejected request leaves behind (a held lock, a half-built table) must not reach them
                inv = invalid_variants(rnd, base[0])
                base += [r for _, r in rnd.sample(inv, min(2, len(inv)))]
                if rnd.random() < 0.7:
                    # unknown names make the service consult (and print) its registries: next to them, requests relying on the defaults
                    dq = [defaults_request(rnd, first=rnd.choice(['criteriaOmission', 'preferenceReversal'])), defaults_request(rnd)]
                    unk = [r for q in dq for n_, r in invalid_variants(rnd, q) if 'unknown' in n_]
                    rnd.shuffle(unk)
                    base += dq + unk[:4] + [x for x in unk if any((b.get('props') or {}).get('ordering') for b in x.get('biases') or []
                                                                  if isinstance(b, dict))][:3]
                if rnd.random() < 0.6:
                    bn = rnd.choice(['anchoring', 'anchoring', 'fatigue', 'criteriaOmission', 'criteriaConcealment'])
                    ok_b = gen.biased_request(rnd, names=[bn], prob_mix=False)
                    key = {'anchoring': 'anchoring', 'fatigue': 'fatigue', 'criteriaOmission': 'omission', 'criteriaConcealment': 'concealment'}[bn]
                    base += [ok_b, gen.biased_request(rnd, names=[bn], prob_mix=False)]
                    base += [r for n_, r in invalid_variants(rnd, ok_b) if key in n_]
            batch = [rnd.choice(base) for _ in range(k)]
            seq = {}
            for r in base:
                # one at a time, each in a process that has served nothing else
                fp = core.Pipe(ctx.binary)
                seq[json.dumps(r, sort_keys=True)] = fp.call({'op': 'decide', 'req': r})
                fp.close()
            for pi, binp in enumerate(bins):
                pp = core.Pipe(binp, mem_kb=64 * 1024 * 1024)
                out = pp.call({'op': 'conc', 'reqs': batch}, timeout=120)
                pp.close()
                ctx.evaluations += 1
                ctx.signatures.add(('conc', k, kind, tuple(sorted(set(x.get('preferenceFunction') for x in batch))), pi))
                ctx.count('batch/%s/k=%d%s' % (kind, k, '/race' if pi else ''))
                if not out.get('ok'):
                    what = 'the process died or hung while serving concurrent requests' + (' (race detector build: a data race aborts the process)' if pi else '')
                    ctx.violation(what, {'batch': batch, 'answer': out, 'race_build': bool(pi)}, {})
                    hung += 1
                    continue
                for r, got in zip(batch, out['results']):
                    want = seq[json.dumps(r, sort_keys=True)]
                    if got.get('ok') != want.get('ok') or (got.get('ok') and got.get('resp') != want.get('resp')):
                        ctx.violation('a request answered concurrently differs from the same request answered alone',
                                      {'batch': batch, 'request': r, 'alone': want.get('resp') or want.get('err'),
                                       'concurrent': got.get('resp') or got.get('err')}, {'method': r.get('preferenceFunction')})
            # the same batch through the HTTP service: the handlers run on their own goroutines against the one set of registries and
            # whatever main.go shares between requests (generators, pools, templates)
            if hung < 2 and (bi % 3 == 0 or not ctx.quick):
                from concurrent.futures import ThreadPoolExecutor
                hs = Server(ctx.binary)
                try:
                    bodies = [json.dumps(r).encode() for r in batch]
                    for rep in range(3):
                        with ThreadPoolExecutor(max_workers=len(bodies)) as ex:
                            answers = list(ex.map(lambda b: hs.post(b, timeout=60), bodies))
                        ctx.evaluations += 1
                        ctx.count('batch/http/%s/k=%d' % (kind, k))
                        bad = None
                        for r, (st, out) in zip(batch, answers):
                            want = seq[json.dumps(r, sort_keys=True)]
                            try:
                                sj = json.loads(out) if st == 200 else None
                            except Exception:
                                sj = 'not JSON'
                            same = (st == 200 and want.get('ok') and sj == want.get('resp')) or (st == 400 and not want.get('ok'))
                            if not same:
                                bad = (r, st, out, want)
                                break
                        if not hs.alive() or any(st is None for st, _ in answers):
                            ctx.violation('the service died or stopped answering while serving concurrent requests', {'batch': batch}, {})
                            hung += 1
                            break
                        if bad:
                            r, st, out, want = bad
                            ctx.violation('a request answered by the service next to concurrent requests differs from the same request answered alone',
                                          {'batch': batch, 'request': r, 'alone': want.get('resp') or want.get('err'),
                                           'concurrent': [st, (out or b'').decode('utf8', 'replace')[:3000]]}, {'method': r.get('preferenceFunction')})
                            break
                finally:
                    hs.close()
            if bi < 2:
                ctx.sample({'batch_kind': kind, 'k': k, 'requests': batch[:2]})
    finally:
        if race_pipe:
            race_pipe.close()
    return ctx.finish(
        'batches of k in {2, 8, 32} requests started together on their own goroutines against the one set of registries of the process '
        '(identical requests, different requests, valid next to panicking ones), each answer compared with the answer to the same request alone; '
        'thorough tier: the same batches on a binary built with the Go race detector (a detected race aborts the process); distinct = (k, kind, '
        'methods, build)', './check C10')


# -------------------------------------------------------------------------------------------------
def late_rejections(rnd, req):
    """(what, request) pairs that pass the up-front validation but may be rejected only while the biases or the method run;
    whatever the answer is, there must be one"""
    out = []
    def mod(name, f):
        r = json.loads(json.dumps(req))
        try:
            if f(r) is not False:
                out.append((name, r))
        except (KeyError, IndexError, TypeError):
            pass
    n = len(req['knownAlternatives'])
    for pos in sorted({0, n // 2, n - 1, rnd.randrange(n)}):
        mod('undeclared extra criterion value on alternative %d' % pos, lambda r, pos=pos: r['knownAlternatives'][pos]['criteria'].update(zz_undeclared=7.0))
    mp = req.get('methodParameters') or {}
    if isinstance(mp.get('weights'), dict):
        mod('superfluous weight entry', lambda r: r['methodParameters']['weights'].update(zz_undeclared=0.5))
    if req['preferenceFunction'] == 'electreIII':
        mod('superfluous electre criterion', lambda r: r['methodParameters']['electreCriteria'].update(
            zz_undeclared={'k': 1.0, 'q': {'a': 0, 'b': 1.0}, 'p': {'a': 0, 'b': 2.0}}))
    mod('nothing chosen (choseToMake empty)', lambda r: r.update(choseToMake=[]))
    mod('huge value on one alternative', lambda r: r['knownAlternatives'][rnd.randrange(n)]['criteria'].update({r['criteria'][0]['id']: 1e300}))
    # values whose aggregate leaves the finite range: the decision may hold +Inf / NaN, which JSON cannot carry
    mod('values near the largest finite number on one alternative',
        lambda r: r['knownAlternatives'][rnd.randrange(n)]['criteria'].update({c['id']: 1e308 for c in r['criteria']}))
    mod('values near the largest finite number on every alternative',
        lambda r: [a['criteria'].update({c['id']: (-1.5e308 if i % 2 else 1.5e308) for c in r['criteria']}) for i, a in enumerate(r['knownAlternatives'])])
    return out


def invalid_variants(rnd, req, mistyped=True):
    """(constraint, request) pairs: one documented constraint violated on an otherwise valid request"""
    out = []
    def mod(name, f):
        r = json.loads(json.dumps(req))
        try:
            if f(r) is not False:
                out.append((name, r))
        except (KeyError, IndexError, TypeError):
            pass
    m = req['preferenceFunction']
    mp = req.get('methodParameters') or {}
    mod('unknown method', lambda r: r.update(preferenceFunction='noSuchMethod'))
    mod('blank method', lambda r: r.update(preferenceFunction='   '))
    mod('duplicate criterion id', lambda r: r['criteria'].append(dict(r['criteria'][0])))
    mod('empty value range', lambda r: r['criteria'][0].update(valuesRange={'min': 1.0, 'max': 1.0}))
    mod('inverted value range', lambda r: r['criteria'][0].update(valuesRange={'min': 2.0, 'max': -1.0}))
    mod('missing criterion value', lambda r: r['knownAlternatives'][-1]['criteria'].pop(r['criteria'][0]['id']))
    mod('unknown alternative', lambda r: r['choseToMake'].append('no-such-alternative'))
    mod('unknown bias name', lambda r: r['biases'].append({'name': 'noSuchBias', 'props': {}}))
    if m in ('weightedSum', 'owa', 'choquetIntegral'):
        mod('missing weights', lambda r: r['methodParameters'].pop('weights'))
    if m == 'weightedSum':
        mod('missing weight', lambda r: r['methodParameters']['weights'].pop(r['criteria'][0]['id']))
    if m == 'owa':
        mod('owa weights count', lambda r: r['methodParameters']['weights'].update(extra=1.0))
    if m == 'choquetIntegral':
        mod('choquet weight above 1', lambda r: r['methodParameters']['weights'].update({r['criteria'][0]['id']: 1.5}))
        mod('choquet weight below 0', lambda r: r['methodParameters']['weights'].update({r['criteria'][0]['id']: -0.25}))
        mod('choquet cost criterion', lambda r: r['criteria'][0].update(type='cost'))
        mod('choquet missing subset', lambda r: r['methodParameters']['weights'].pop(r['criteria'][0]['id']))
    if m == 'electreIII':
        c0 = req['criteria'][0]['id']
        mod('electre k = 0', lambda r: r['methodParameters']['electreCriteria'][c0].update(k=0))
        mod('electre k < 0', lambda r: r['methodParameters']['electreCriteria'][c0].update(k=-1.0))
        mod('electre thresholds not increasing', lambda r: r['methodParameters']['electreCriteria'][c0].update(q={'a': 0, 'b': 2.0}, p={'a': 0, 'b': 1.0}))
        mod('electre veto below preference', lambda r: r['methodParameters']['electreCriteria'][c0].update(p={'a': 0, 'b': 2.0}, v={'a': 0, 'b': 1.5}))
        mod('electre criterion without parameters', lambda r: r['methodParameters']['electreCriteria'].pop(c0))
        mod('electre veto below indifference, no preference threshold',
            lambda r: r['methodParameters']['electreCriteria'].__setitem__(c0, {'k': 1.0, 'q': {'a': 0, 'b': 5.0}, 'v': {'a': 0, 'b': 3.0}}))
        mod('electre veto equal to indifference, no preference threshold',
            lambda r: r['methodParameters']['electreCriteria'].__setitem__(c0, {'k': 1.0, 'q': {'a': 0, 'b': 5.0}, 'v': {'a': 0, 'b': 5.0}}))
        mod('electre veto below indifference, linear preference threshold',
            lambda r: r['methodParameters']['electreCriteria'].__setitem__(c0, {'k': 1.0, 'q': {'a': 0, 'b': 5.0}, 'p': {'a': 0.1, 'b': 0}, 'v': {'a': 0, 'b': 3.0}}))
        mod('electre distillation function negative on [0,1]', lambda r: r['methodParameters'].update(electreDistillation={'a': -0.2, 'b': 0.1}))
    if m == 'majorityHeuristic':
        mod('unknown draw policy', lambda r: r['methodParameters'].update(drawResolution='noSuchPolicy'))
        mod('unknown current choice', lambda r: r['methodParameters'].update(currentChoice='no-such-alternative'))
    if m in ('aspectEliminationHeuristic', 'satisfactionHeuristic'):
        mod('unknown level function', lambda r: r['methodParameters'].update(function='noSuchFunction'))
        if mp.get('function') != 'thresholds':
            mod('coefficient = 0', lambda r: r['methodParameters']['params'].update(coefficient=0))
            mod('coefficient = 1', lambda r: r['methodParameters']['params'].update(coefficient=1))
            mod('coefficient > 1', lambda r: r['methodParameters']['params'].update(coefficient=1.5))
            mod('minValue out of range', lambda r: r['methodParameters']['params'].update(minValue=-0.5))
            mod('maxValue out of range', lambda r: r['methodParameters']['params'].update(maxValue=1.5))
        else:
            mod('threshold level without a criterion', lambda r: (r['methodParameters']['params']['thresholds'][0].pop(r['criteria'][0]['id'])
                                                                    if r['methodParameters']['params']['thresholds'] else False))
    # biases (probability 1, so they fire)
    def with_bias(name, b):
        mod(name, lambda r: r.update(biases=[b]))
    with_bias('omission ratio above 1', {'name': 'criteriaOmission', 'props': {'ratio': 1.5}})
    with_bias('omission ratio below 0', {'name': 'criteriaOmission', 'props': {'ratio': -0.1}})
    with_bias('omission max below min', {'name': 'criteriaOmission', 'props': {'ratio': 0.5, 'min': 2, 'max': 1}})
    with_bias('unknown ordering', {'name': 'preferenceReversal', 'props': {'ratio': 0.5, 'ordering': 'noSuchOrdering'}})
    # near misses of real names (wrong case, truncated, misspelt): as unknown as any other name
    with_bias('unknown ordering (near miss)', {'name': rnd.choice(['preferenceReversal', 'criteriaOmission']),
                                               'props': {'ratio': 0.5, 'ordering': rnd.choice(['Strongest', 'strongestByProb', 'Random', 'RANDOM',
                                                                                               'weakestByProbabilty', 'strongest ', 'Weakest'])}})
    with_bias('unknown fatigue function (near miss)', {'name': 'fatigue', 'props': {'function': rnd.choice(['Const', 'expFromZer', 'exp']), 'params': {'value': 0.1}}})
    with_bias('unknown reference criterion type (near miss)', {'name': 'criteriaConcealment', 'props': {'referenceCriterionType': rnd.choice(['ImportanceRatio', 'randomuniform', 'random'])}})
    mod('unknown method (near miss)', lambda r: r.update(preferenceFunction=rnd.choice(['WeightedSum', 'OWA', 'electreIII ', 'choquet', 'majority'])))
    mod('unknown bias name (near miss)', lambda r: r['biases'].append({'name': rnd.choice(['Fatigue', 'anchor', 'criteriaomission']), 'props': {}}))
    with_bias('unknown fatigue function', {'name': 'fatigue', 'props': {'function': 'noSuchFunction', 'params': {}}})
    with_bias('fatigue bounding scaling 0', {'name': 'fatigue', 'props': {'function': 'const', 'params': {'value': 0.1}, 'allowedValuesRangeScaling': 0}})
    with_bias('concealment scaling 0', {'name': 'criteriaConcealment', 'props': {'newCriterionScaling': 0}})
    with_bias('unknown reference criterion type', {'name': 'criteriaConcealment', 'props': {'referenceCriterionType': 'noSuchType'}})
    if len(req['criteria']) >= 2:
        with_bias('mixing ratio out of range', {'name': 'criteriaMixing', 'props': {'mixingRatio': 1.5}})
    with_bias('anchoring without alternatives', {'name': 'anchoring', 'props': {'anchoringAlternatives': [], 'loss': {'function': 'linear', 'params': {'a': 1, 'b': 0}},
              'gain': {'function': 'linear', 'params': {'a': 1, 'b': 0}}, 'referencePoints': {'function': 'ideal'}, 'applier': {'function': 'inline', 'params': {}}}})
    a0 = req['knownAlternatives'][0]['id']
    def anch(**kw):
        b = {'anchoringAlternatives': [{'alternative': a0, 'coefficient': 1}], 'loss': {'function': 'linear', 'params': {'a': 1, 'b': 0}},
             'gain': {'function': 'linear', 'params': {'a': 1, 'b': 0}}, 'referencePoints': {'function': 'ideal'},
             'applier': {'function': 'inline', 'params': {}}}
        b.update(kw)
        return {'name': 'anchoring', 'props': b}
    if mistyped:
        # parameters of the wrong JSON type for a function that exists (the typed model cannot even state them: service level only)
        with_bias('anchoring gain parameter mistyped', anch(gain={'function': 'linear', 'params': {'a': 'steep', 'b': 0}}))
        with_bias('anchoring loss parameters not an object', anch(loss={'function': 'expFromZero', 'params': [1, 2]}))
        with_bias('anchoring applier parameter mistyped', anch(applier={'function': 'newCriterion', 'params': {'randomSeed': 'seven'}}))
        with_bias('fatigue parameter mistyped', {'name': 'fatigue', 'props': {'function': 'const', 'params': {'value': 'tired'}}})
        with_bias('omission ratio mistyped', {'name': 'criteriaOmission', 'props': {'ratio': 'half'}})
    with_bias('unknown reference criterion type in the anchoring applier', anch(applier={'function': 'newCriterion', 'params': {'referenceCriterionType': 'noSuchType', 'randomSeed': 3}}))
    with_bias('anchoring unknown function', {'name': 'anchoring', 'props': {'anchoringAlternatives': [{'alternative': req['knownAlternatives'][0]['id'], 'coefficient': 1}],
              'loss': {'function': 'noSuchFunction', 'params': {}}, 'gain': {'function': 'linear', 'params': {'a': 1, 'b': 0}},
              'referencePoints': {'function': 'ideal'}, 'applier': {'function': 'inline', 'params': {}}}})
    return out


def hostile_bodies(rnd, req):
    """malformed JSON, mistyped / missing / extreme fields"""
    good = json.dumps(req)
    out = [b'', b'{', b'[]', b'null', b'"string"', b'{"preferenceFunction": 5}', good[:len(good) // 2].encode(),
           (good + 'x').encode(), good.replace(':', '=', 1).encode(), b'{"knownAlternatives": null, "preferenceFunction": "owa"}',
           b'\xff\xfe\x00', ('[' * 2000).encode(), ('{"a":' * 500 + '1' + '}' * 500).encode()]
    def mod(f):
        r = json.loads(good)
        try:
            f(r)
            out.append(json.dumps(r).encode())
        except Exception:
            pass
    mod(lambda r: r.update(knownAlternatives='nope'))
    mod(lambda r: r.update(choseToMake=[1, 2]))
    mod(lambda r: r.update(criteria={'id': 'x'}))
    mod(lambda r: r.update(biases='fatigue'))
    mod(lambda r: r.update(biases=[5, None, 'x']))
    mod(lambda r: r.update(biasApplyRandomSeed='seed'))
    mod(lambda r: r.update(biasApplyRandomSeed=1e300))
    mod(lambda r: r.update(methodParameters=None))
    mod(lambda r: r.update(methodParameters=[1]))
    mod(lambda r: r.pop('criteria'))
    mod(lambda r: r.pop('knownAlternatives'))
    mod(lambda r: r.pop('choseToMake'))
    mod(lambda r: r.update(choseToMake=[]))
    mod(lambda r: r['knownAlternatives'][0]['criteria'].update({r['criteria'][0]['id']: 1e308}))
    mod(lambda r: r['knownAlternatives'][0].update(criteria=None))
    mod(lambda r: r['methodParameters'].update(weights='heavy'))
    mod(lambda r: r['methodParameters'].update(weights={r['criteria'][0]['id']: 'heavy'}))
    mod(lambda r: r['methodParameters'].update(params='x', function='thresholds'))
    mod(lambda r: r['methodParameters'].update(randomSeed=-(2 ** 63)))
    mod(lambda r: r.update(biases=[{'name': 'criteriaOmission', 'props': {'ratio': 'half'}}]))
    mod(lambda r: r.update(biases=[{'name': 'criteriaOmission', 'applyProbability': 'often', 'props': {}}]))
    mod(lambda r: r.update(biases=[{'name': 'fatigue', 'props': None}]))
    mod(lambda r: r.update(biases=[{'name': 'anchoring', 'props': {'anchoringAlternatives': 'all'}}]))
    mod(lambda r: r.update(biases=[{'name': 'criteriaOmission', 'props': {'ratio': 1.0, 'min': 50}}]))
    mod(lambda r: r.update(biases=[{'name': 'criteriaOmission', 'props': {'ratio': 0.0, 'max': -3, 'min': -5}}]))
    # parameters inside the validated ranges that stress termination
    mod(lambda r: r.update(preferenceFunction='electreIII', methodParameters={'electreCriteria': {c['id']: {'k': 1.0} for c in r['criteria']},
                                                                            'electreDistillation': {'a': -0.2, 'b': 0.1}}))
    mod(lambda r: r.update(preferenceFunction='electreIII', methodParameters={'electreCriteria': {c['id']: {'k': 1.0} for c in r['criteria']},
                                                                            'electreDistillation': {'a': 0.0, 'b': -0.5}}))
    mod(lambda r: r.update(preferenceFunction='aspectEliminationHeuristic',
                           methodParameters={'function': 'idealAdditiveCoefficient', 'params': {'coefficient': 1e-18, 'minValue': 0.5, 'maxValue': 1.0},
                                             'weights': {c['id']: 1.0 + i for i, c in enumerate(r['criteria'])}}))
    mod(lambda r: r.update(preferenceFunction='satisfactionHeuristic',
                           methodParameters={'function': 'idealSubtractiveCoefficient', 'params': {'coefficient': 1e-18, 'minValue': 0.25, 'maxValue': 0.5}}))
    return out


def stress_valid(rnd, req):
    """valid requests that stress termination: ELECTRE distillation functions that pass validation but vanish at a credibility
    the distillation reaches (identical / dominating alternatives give credibility exactly 1)"""
    out = []
    alts = json.loads(json.dumps(req['knownAlternatives']))[:4]
    if len(alts) < 2:
        return out
    alts[1]['criteria'] = dict(alts[0]['criteria'])
    crits = [{'id': c['id'], 'type': c.get('type', 'gain')} for c in req['criteria']]
    for dist in ({'a': 0, 'b': 0}, {'a': -1, 'b': 1}, {'a': -0.5, 'b': 0.5}, {'a': 0, 'b': 1.0}, {'a': -0.25, 'b': 0.25}):
        out.append({'preferenceFunction': 'electreIII', 'knownAlternatives': alts, 'choseToMake': [a['id'] for a in alts], 'criteria': crits,
                    'methodParameters': {'electreCriteria': {c['id']: {'k': 1.0, 'q': {'a': 0, 'b': 0.5}, 'p': {'a': 0, 'b': 1.0}} for c in crits},
                                         'electreDistillation': dist}, 'biases': [], 'biasApplyRandomSeed': 1})
    return out


@check('C20')
def c20(ctx):
    ctx.check_proofs()
    rnd = ctx.rnd
    srv = Server(ctx.binary, mem_kb=3 * 1024 * 1024)
    TIMEOUT = 15

    hung = [0]
    recent = []
    # a replay carries the requests that were served before the failing one (what they left behind may be what fails it)
    for hb in (ctx.replay or {}).get('history_before') or []:
        srv.post(hb.encode('utf8', 'replace'), timeout=TIMEOUT)
        recent.append(hb)

    def shot(body, what, expect=None, req=None):
        """one POST; the process must answer within the timeout and stay alive"""
        t0 = time.time()
        st, out = srv.post(body, timeout=TIMEOUT)
        ctx.evaluations += 1
        ctx.count('status/%s' % st)
        payload = {'body': body.decode('utf8', 'replace')[:6000], 'status': st, 'answer': out.decode('utf8', 'replace')[:1500], 'what': what,
                   'history_before': list(recent)}
        if len(body) <= 6000:
            recent.append(body.decode('utf8', 'replace'))
            del recent[:-40]
        if req is not None:
            payload['request'] = req
        if not srv.alive():
            ctx.violation('the service process exited while handling a request (%s)' % what, payload, {'what': what})
            return None, None
        if st is None:
            ctx.violation('a request received no response within %ds (%s)' % (TIMEOUT, what), payload, {'what': what})
            hung[0] += 1
            if hung[0] >= 3:
                raise ServiceStoppedAnswering()
            return None, None
        if st not in (200, 400):
            ctx.violation('unexpected status %s (%s)' % (st, what), payload, {'what': what})
            return st, out
        try:
            j = json.loads(out)
        except Exception:
            ctx.violation('the answer is not JSON (%s)' % what, payload, {'what': what})
            return st, out
        if st == 200 and not (isinstance(j, dict) and 'result' in j and 'biases' in j):
            ctx.violation('a 200 answer without result/biases (%s)' % what, payload, {'what': what})
        if st == 400 and not (isinstance(j, dict) and 'error' in j and 'request' in j and isinstance(j.get('error'), str) and j['error']):
            ctx.violation('a 400 answer without an error message and the echoed request (%s)' % what, payload, {'what': what})
        if expect is not None and st != expect:
            if expect == 400:
                ctx.violation('a request violating a documented constraint (%s) was answered with a ranking' % what, payload, {'what': what})
            else:
                ctx.violation('a valid request was rejected (%s): %s' % (what, out.decode('utf8', 'replace')[:200]), payload, {'what': what})
        return st, j
    try:
        st, body = srv.get('/api/preferenceFunctions')
        ok = False
        if st == 200:
            try:
                fj = json.loads(body)
                ok = all(k in fj and fj[k] for k in gen.METHODS)
            except Exception:
                ok = False
        ctx.evaluations += 1
        if not ok:
            ctx.violation('GET /api/preferenceFunctions does not list a parameter schema for each of the seven methods',
                          {'status': st, 'answer': (body or b'').decode('utf8', 'replace')[:2000]}, {'what': 'functions'})
        n = n_cases(ctx, 12, 300)
        for i in range(n):
            req = rnd.choice([gen.any_request, gen.biased_request])(rnd)
            if i % 3 == 2:
                # a method whose listener extends its parameters for an added criterion (Choquet over-weighted): answered again below
                req = gen.biased_request(rnd, method=rnd.choice(['choquetIntegral', 'choquetIntegral', 'choquetIntegral', 'electreIII', 'owa']),
                                         names=[rnd.choice(['criteriaConcealment', 'criteriaMixing', 'criteriaConcealment', 'anchoring'])], prob_mix=False)
                for b in req['biases']:
                    if b['name'] == 'anchoring':   # the new-criterion applier relying on the defaults of all its optional parameters
                        b['props']['applier'] = {'function': 'newCriterion', 'params': {}}
            if ctx.replay and 'request' in ctx.replay:
                req = ctx.replay['request']
            m = req['preferenceFunction']
            if all(b.get('applyProbability', 1) == 1 for b in req.get('biases') or []):
                pass
            fp = core.Pipe(ctx.binary)
            alone = fp.call({'op': 'decide', 'req': req})
            fp.close()
            st, j = shot(json.dumps(req).encode(), 'valid request', (200 if alone.get('ok') else 400) if alone.get('kind') not in ('crash', 'timeout') else None, req)
            if st == 200 and alone.get('ok') and j != alone.get('resp'):
                ctx.violation('a request is answered differently by the service that served other requests before and by a process that served nothing else',
                              {'request': req, 'service': j, 'alone': alone.get('resp')}, {'what': 'valid after history'})
            ctx.signatures.add(('valid', m, st))
            ctx.sample({'valid_request': req, 'status': st}, limit=1)
            inv = invalid_variants(rnd, req)
            chosen = inv if not ctx.quick else rnd.sample(inv, min(len(inv), 14))
            chosen = chosen + [x for x in inv if x[0].startswith('electre ') and x not in chosen]
            # always: the rejected variants that use a bias the valid request uses (what a rejected bias configuration leaves behind would
            # show when the valid request is served again below)
            used = {b.get('name') for b in (req.get('biases') or []) if isinstance(b, dict)}
            chosen = chosen + [x for x in inv if x not in chosen and any(isinstance(b, dict) and b.get('name') in used for b in (x[1].get('biases') or []))]
            for name, r in chosen:
                st2, j2 = shot(json.dumps(r).encode(), name, 400, r)
                ctx.signatures.add(('invalid', name, m, st2))
                ctx.count('constraint/' + name)
                # (only when the request itself is accepted: otherwise it may be rejected for its own reason first)
                if st == 200 and st2 == 400 and isinstance(j2, dict) and name.startswith(('unknown method', 'unknown bias name')):
                    known = gen.METHODS if name.startswith('unknown method') else gen.BIASES
                    if not all(k in j2.get('error', '') for k in known):
                        ctx.violation('the error for an %s does not list the available names' % name, {'request': r, 'answer': j2}, {'what': name})
            # the valid request once more, after its rejected variants: answered, and with the same verdict and body as before
            if st in (200, 400):
                st6, j6 = shot(json.dumps(req).encode(), 'valid request again after its rejected variants', st, req)
                if st6 == st and j6 != j and st == 200:
                    ctx.violation('a valid request is answered differently after rejected requests were served',
                                  {'request': req, 'first': j, 'again': j6}, {'what': 'valid again'})
            for name, r in late_rejections(rnd, req):
                st5, _ = shot(json.dumps(r).encode(), name, None, r)
                ctx.signatures.add(('late', name, m, st5))
            for r in stress_valid(rnd, req):
                st4, _ = shot(json.dumps(r).encode(), 'valid request stressing termination', 200, r)
                ctx.signatures.add(('stress', json.dumps(r['methodParameters']['electreDistillation']), st4))
            hb = hostile_bodies(rnd, req)
            for b in (hb if not ctx.quick else rnd.sample(hb, min(len(hb), 16))):
                st3, _ = shot(b, 'hostile body')
                ctx.signatures.add(('hostile', hash(b[:40]) % 1000, st3))
            if not srv.alive():
                srv.close()
                srv = Server(ctx.binary, mem_kb=3 * 1024 * 1024)
        # a rejected bias configuration must leave nothing behind: a request relying on the defaults of a bias, the rejected variants that
        # use the same bias (unknown names, mistyped and out-of-range parameters), and the first request again after each of them
        for bn in (['anchoring', 'criteriaConcealment', 'criteriaMixing', 'fatigue', 'criteriaOmission', 'preferenceReversal'] if not ctx.replay else []):
            req = defaults_request(rnd, first=bn if bn != 'anchoring' else 'fatigue')
            if bn == 'anchoring':
                ab = gen.gen_bias(rnd, 'anchoring', req, len(req['criteria']))
                ab['props']['applier'] = {'function': 'newCriterion', 'params': {}}
                req['biases'] = [ab]
            else:
                req['biases'] = [b for b in req['biases'] if b['name'] == bn][:1]
            # the verdict a process that has served nothing else gives: what earlier requests of this run left behind must not change it
            fp = core.Pipe(ctx.binary)
            alone = fp.call({'op': 'decide', 'req': req})
            fp.close()
            st, j = shot(json.dumps(req).encode(), 'valid request relying on the defaults of %s' % bn, 200 if alone.get('ok') else 400, req)
            if st == 200 and alone.get('ok') and j != alone.get('resp'):
                ctx.violation('a request is answered differently by the service that served other requests before and by a process that served nothing else',
                              {'request': req, 'service': j, 'alone': alone.get('resp')}, {'what': 'valid after history'})
            ctx.count('sequence/defaults-after-rejected/' + bn)
            for name, r in invalid_variants(rnd, req):
                if not any(isinstance(b, dict) and b.get('name') == bn for b in (r.get('biases') or [])):
                    continue
                shot(json.dumps(r).encode(), name, 400, r)
                st8, j8 = shot(json.dumps(req).encode(), 'the defaults-only request again after a rejected %s configuration (%s)' % (bn, name), st, req)
                if st == 200 and st8 == 200 and j8 != j:
                    ctx.violation('a valid request is answered differently after a rejected request with the same bias was served',
                                  {'request': req, 'first': j, 'again': j8, 'served_in_between': r}, {'what': 'valid again'})
            if not srv.alive():
                srv.close()
                srv = Server(ctx.binary, mem_kb=3 * 1024 * 1024)
        # boundary sizes: exactly one considered alternative (methods return early there): every documented constraint is still checked
        for m in (gen.METHODS if not ctx.replay else []):
            req = gen.any_request(rnd, m)
            req['choseToMake'] = [rnd.choice(req['knownAlternatives'])['id']]
            (req.get('methodParameters') or {}).pop('currentChoice', None)
            st, j = shot(json.dumps(req).encode(), 'valid request with a single considered alternative', None, req)
            ctx.count('single/' + m)
            for name, r in invalid_variants(rnd, req):
                if name.startswith('unknown current choice'):
                    continue
                st2, _ = shot(json.dumps(r).encode(), name + ' (single considered alternative)', 400, r)
                ctx.signatures.add(('single-invalid', name, m, st2))
            if not srv.alive():
                srv.close()
                srv = Server(ctx.binary, mem_kb=3 * 1024 * 1024)
        # a rejected optional parameter must leave nothing behind: electreIII relying on the default distillation function, the same problem with
        # a function that is rejected (negative on [0,1]) and with accepted ones, then the first request again
        for _ in range(n_cases(ctx, 4, 60) if not ctx.replay else 0):
            req = gen.electre_request(rnd, n_alts=rnd.choice([2, 3, 4, 5]))
            req['methodParameters'].pop('electreDistillation', None)
            st, j = shot(json.dumps(req).encode(), 'valid electreIII request with the default distillation function', 200, req)
            for dist, exp in (({'a': -0.2, 'b': 0.1}, 400), ({'a': 0, 'b': 0.0}, 200), ({'a': -2.0, 'b': 1.0}, 400), ({'a': -0.25, 'b': 0.5}, 200)):
                r = json.loads(json.dumps(req))
                r['methodParameters']['electreDistillation'] = dist
                shot(json.dumps(r).encode(), 'distillation function %s' % json.dumps(dist), exp, r)
                st7, j7 = shot(json.dumps(req).encode(), 'the default-function request again after another distillation function was served', 200, req)
                if st == 200 and st7 == 200 and j7 != j:
                    ctx.violation('a valid request is answered differently after requests with other parameters were served',
                                  {'request': req, 'first': j, 'again': j7, 'served_in_between': r}, {'what': 'valid again'})
            ctx.count('sequence/electre-default-after-custom')
            if not srv.alive():
                srv.close()
                srv = Server(ctx.binary, mem_kb=3 * 1024 * 1024)
        # many alternatives (thresholds inside the code: batching, sort algorithms, pre-sized buffers): valid, every constraint violated,
        # and requests that pass the up-front validation but may be rejected while the method runs
        for m in (gen.METHODS if not ctx.replay else []):
            for li in range(n_cases(ctx, 2, 12)):
                req = gen.large_request(rnd, m)
                if li % 2 == 1:
                    req = gen.add_biases(rnd, req, prob_mix=False)
                st, j = shot(json.dumps(req).encode(), 'valid request with many alternatives', None, req)
                ctx.signatures.add(('large', m, st))
                ctx.count('large/' + m)
                inv = invalid_variants(rnd, req)
                for name, r in (inv if not ctx.quick else rnd.sample(inv, min(len(inv), 8))):
                    st2, _ = shot(json.dumps(r).encode(), name + ' (many alternatives)', 400, r)
                    ctx.signatures.add(('large-invalid', name, m, st2))
                for name, r in late_rejections(rnd, req):
                    st2, _ = shot(json.dumps(r).encode(), name + ' (many alternatives)', None, r)
                    ctx.signatures.add(('large-late', name, m, st2))
                if not srv.alive():
                    srv.close()
                    srv = Server(ctx.binary, mem_kb=3 * 1024 * 1024)
        # liveness after the whole history
        st, j = shot(json.dumps(gen.utility_request(rnd, 'weightedSum')).encode(), 'liveness probe after the history', 200)
    except ServiceStoppedAnswering:
        ctx.notes.append('the service stopped answering (three requests without a response): the remaining requests were not sent')
    finally:
        srv.close()
    # the model decides accept / reject like the service on the valid and the invalid stream
    reqs = []
    for _ in range(n_cases(ctx, 10, 120)):
        r = rnd.choice([gen.any_request, gen.biased_request])(rnd)
        reqs.append(r)
        reqs += [x for _, x in rnd.sample(invalid_variants(rnd, r, mistyped=False), 6)]
    ress, verd, logs = e2e.run_all(ctx.pipe, reqs, 'C20')
    bad = [(r, res, v) for r, res, v in zip(reqs, ress, verd) if v and v[0] in (1, 2, 99)]
    for r, res, v in bad[:3]:
        if v[0] == 1:
            ctx.violation('the service accepts a request the model (documented constraints) rejects', {'request': r, 'response': res.get('resp')},
                          {'method': r.get('preferenceFunction')})
    if [b for b in bad if b[2][0] != 1] and not any(x[2] for x in ctx.violations):
        r, res, v = [b for b in bad if b[2][0] != 1][0]
        ctx.violation('accept/reject correspondence model/code broken (%s)' % e2e.AGREE_TEXT.get(v[0]),
                      {'broken': 'correspondence verdicts (C20)', 'request': r, 'answer': res.get('resp') or res.get('err')}, found_input=False)
    return ctx.finish(
        'the real service (unmodified main(), memory-limited process): GET /api/preferenceFunctions; valid requests over all methods and biases; '
        'for each, every documented constraint violated one at a time (must be 400 with error and echoed request; unknown method / bias must '
        'list the available names); malformed JSON, mistyped / missing / extreme fields and termination stress (must be answered within 15 s); '
        'process liveness after every request and a final probe; distinct = (stream, constraint or body class, method, status)', './check C20')
