"""Core of the /verif driver: building the real code, talking to it, running Coq, evidence."""
import json, os, subprocess, sys, time, hashlib, re, shutil, math
from concurrent.futures import ThreadPoolExecutor

VERIF = os.path.dirname(os.path.dirname(os.path.abspath(__file__)))
REPO = os.environ.get('VERIF_REPO', '/repo')
WORK = os.path.join(VERIF, '.work')
COQ = os.path.join(VERIF, 'coq')
_TAG = '' if REPO == '/repo' else '_' + hashlib.md5(REPO.encode()).hexdigest()[:8]
RUN = os.path.join(COQ, 'Run' + _TAG)
BIN = os.path.join(WORK, 'bin' + _TAG)
EVID = os.path.join(VERIF, 'evidence')
REPLAYS = os.path.join(VERIF, 'replays')
GOENV = dict(os.environ, GOFLAGS='-mod=mod', GOPROXY='off', GOSUMDB='off', GOTOOLCHAIN='local',
             GOARCH='amd64', GOAMD64='v1')
DRIFT = 0
NONFINITE = 0   # cases / stages on which the binary64 model itself leaves the finite range: counted, not judged
WORKERS = int(os.environ.get('VERIF_WORKERS', '6'))
COQ_WARN = ['-w', '-notation-overridden,-deprecated-hint-without-locality,-deprecated-syntactic-definition,-inexact-float']


def log(*a):
    print(*a, file=sys.stderr, flush=True)


# ------------------------------------------------------------------------------------------------
# building and running the real code

class BuildError(Exception):
    pass


COMP_SKIPPED = set()


class _Lock:
    """serialises the shared build steps (go build, make, re-check of a property file) between checks running at the same time"""
    depth = 0
    fh = None

    def __enter__(self):
        import fcntl
        if _Lock.depth == 0:
            os.makedirs(WORK, exist_ok=True)
            _Lock.fh = open(os.path.join(WORK, 'build.lock'), 'w')
            fcntl.flock(_Lock.fh, fcntl.LOCK_EX)
        _Lock.depth += 1

    def __exit__(self, *a):
        import fcntl
        _Lock.depth -= 1
        if _Lock.depth == 0:
            fcntl.flock(_Lock.fh, fcntl.LOCK_UN)
            _Lock.fh.close()
            _Lock.fh = None


def build_go(race=False):
    """go build of httpClient from the current working tree with the verif overlay."""
    with _Lock():
        return _build_go(race)


def _build_go(race=False):
    out = BIN + ('-race' if race else '')
    os.makedirs(out, exist_ok=True)
    env = dict(GOENV, VERIF_REPO=REPO)
    args = [os.path.join(VERIF, 'harness', 'build.sh'), out]
    if race:
        env['CGO_ENABLED'] = '1'
        args.append('-race')
    p = subprocess.run(args, env=env, capture_output=True, text=True, timeout=600)
    if p.returncode != 0:
        # a renamed helper used by an optional component overlay is not an alarm: retry without the overlays
        # the compiler complains about, then without any of them
        hdir = os.path.join(VERIF, 'harness')
        comp = sorted(f for _, _, fs in os.walk(hdir) for f in fs if f.startswith('zz_verif_comp'))
        groups = sorted({f[len('zz_verif_comp_'):].split('.')[0].split('_')[0] for f in comp})
        blamed = [g for g in groups if ('zz_verif_comp_' + g) in p.stderr]
        for drop in ([blamed] if blamed and len(blamed) < len(groups) else []) + [groups]:
            env['VERIF_SKIP_OVERLAY'] = ','.join(f for f in comp if f[len('zz_verif_comp_'):].split('.')[0].split('_')[0] in drop)
            p2 = subprocess.run(args, env=env, capture_output=True, text=True, timeout=600)
            if p2.returncode == 0:
                log('note: component overlays dropped (they no longer compile):', ' '.join(drop), p.stderr[-500:])
                COMP_SKIPPED.update(drop)
                return os.path.join(out, 'rdm'), False
        raise BuildError(p.stderr[-4000:])
    return os.path.join(out, 'rdm'), True


def _parse_int(s):
    return -0.0 if s == '-0' else int(s)


def jloads(s):
    return json.loads(s, parse_int=_parse_int)


class Pipe:
    """JSON-lines session with the harness binary (VERIF_MODE=pipe)."""

    def __init__(self, binary, mem_kb=8 * 1024 * 1024):
        self.binary = binary
        self.mem_kb = mem_kb
        self.start()

    def start(self):
        env = dict(os.environ, VERIF_MODE='pipe', GIN_MODE='release', GORACE='halt_on_error=1')
        self.p = subprocess.Popen(['bash', '-c', 'ulimit -v %d; exec "%s"' % (self.mem_kb, self.binary)],
                                  stdin=subprocess.PIPE, stdout=subprocess.PIPE, stderr=subprocess.DEVNULL,
                                  env=env, text=True, bufsize=1)

    def call(self, msg, timeout=30):
        """returns the decoded answer; {'ok':False,'kind':'crash'|'timeout'} if the process died or hung"""
        import select
        try:
            self.p.stdin.write(json.dumps(msg) + '\n')
            self.p.stdin.flush()
        except (BrokenPipeError, OSError):
            self.restart()
            return {'ok': False, 'kind': 'crash', 'err': 'process not running'}
        r, _, _ = select.select([self.p.stdout], [], [], timeout)
        if not r:
            self.restart()
            return {'ok': False, 'kind': 'timeout', 'err': 'no answer within %ss' % timeout}
        line = self.p.stdout.readline()
        if not line:
            rc = self.p.poll()
            self.restart()
            return {'ok': False, 'kind': 'crash', 'err': 'process exited (%s)' % rc}
        return jloads(line)

    def restart(self):
        try:
            self.p.kill()
            self.p.wait(timeout=5)
        except Exception:
            pass
        self.start()

    def close(self):
        try:
            self.p.stdin.close()
            self.p.wait(timeout=5)
        except Exception:
            try:
                self.p.kill()
            except Exception:
                pass


# ------------------------------------------------------------------------------------------------
# Coq

def coq_make(targets=None, timeout=1800):
    """full .vo build (never -vos) of the development or of the given targets"""
    with _Lock():
        return _coq_make(targets, timeout)


def _coq_make(targets=None, timeout=1800):
    mk = os.path.join(COQ, 'Makefile')
    vfiles = sorted(os.path.relpath(os.path.join(d, f), COQ)
                    for sub in ('Base', 'Gen', 'Model', 'Spec', 'Proofs', 'Properties', 'Check')
                    for d, _, fs in os.walk(os.path.join(COQ, sub)) for f in fs if f.endswith('.v'))
    stamp = os.path.join(COQ, '.files')
    old = open(stamp).read() if os.path.exists(stamp) else ''
    if not os.path.exists(mk) or old != '\n'.join(vfiles):
        subprocess.run(['coq_makefile', '-f', '_CoqProject'] + vfiles + ['-o', 'Makefile'], cwd=COQ, check=True,
                       capture_output=True)
        open(stamp, 'w').write('\n'.join(vfiles))
        try:
            os.remove(os.path.join(COQ, '.Makefile.d'))
        except OSError:
            pass
    cmd = ['timeout', str(timeout), 'make', '-j16'] + (targets or [])
    p = subprocess.run(cmd, cwd=COQ, capture_output=True, text=True)
    return p.returncode == 0, (p.stdout + p.stderr)


def coqc(path, timeout=900, mem_kb=12 * 1024 * 1024):
    p = subprocess.run(['bash', '-c', 'ulimit -v %d; exec timeout %d coqc -Q . RDM %s "%s"' %
                        (mem_kb, timeout, ' '.join(COQ_WARN), path)],
                       cwd=COQ, capture_output=True, text=True)
    return p.returncode, p.stdout, p.stderr


def check_property_file(pid):
    """re-check Properties/<pid>.v with the kernel; returns (ok, n_theorems, assumptions text, log)"""
    with _Lock():
        return _check_property_file(pid)


def _check_property_file(pid):
    path = os.path.join('Properties', pid + '.v')
    full = os.path.join(COQ, path)
    if not os.path.exists(full):
        return False, [], '', 'missing ' + path
    src = open(full).read()
    names = re.findall(r'^\s*(?:Theorem|Lemma|Example|Corollary)\s+(\w+)', src, re.M)
    # dependencies first (no-op when up to date), then the file itself, always recompiled
    ok, out = coq_make([path + 'o'])
    try:
        os.remove(full + 'o')
    except OSError:
        pass
    rc, so, se = coqc(path)
    okc, _ = coq_make([path + 'o']) if rc == 0 else (False, '')
    return (ok and rc == 0), names, so, (out[-3000:] if not ok else '') + se[-3000:]


def parse_assumptions(text):
    """Print Assumptions output -> {theorem-block-index: [axioms]}; 'Closed under the global context' = []"""
    blocks = []
    cur = None
    for line in text.splitlines():
        if line.startswith('Closed under the global context'):
            blocks.append([])
            cur = None
        elif line.startswith('Axioms:'):
            cur = []
            blocks.append(cur)
        elif cur is not None:
            m = re.match(r'^(\S+)\s*:', line)
            if m and not line.startswith(' '):
                cur.append(m.group(1))
    return blocks


HEADER = '''From Coq Require Import ZArith Bool List String Floats.
From RDM Require Import Base.Num Base.NumF Base.Util Model.Data Model.Pipeline Check.Mk Check.Judge.
Import ListNotations.
Local Open Scope string_scope.
Local Open Scope float_scope.
'''


def run_cases(tag, judge, case_terms, shard=120, extra_imports='', timeout=900):
    """Evaluates `judge` on every case term with vm_compute; returns list of verdict lists (ints).
    A shard that fails to compile yields verdict [99] for each of its cases (with the log)."""
    os.makedirs(RUN, exist_ok=True)
    shards = [case_terms[i:i + shard] for i in range(0, len(case_terms), shard)]
    files = []
    for si, sh in enumerate(shards):
        path = os.path.join(RUN, 'cases_%s_%d.v' % (tag, si))
        with open(path, 'w') as f:
            f.write(HEADER + extra_imports + '\n')
            for ci, t in enumerate(sh):
                f.write('Definition c%d := %s.\n' % (ci, t))
            f.write('Definition verdicts := Eval vm_compute in [%s].\n' %
                    '; '.join('%s c%d' % (judge, ci) for ci in range(len(sh))))
            f.write('Print verdicts.\n')
        files.append(path)

    def one(path):
        rc, so, se = coqc(os.path.relpath(path, COQ), timeout=timeout)
        return rc, so, se

    with ThreadPoolExecutor(max_workers=min(WORKERS, max(1, len(files)))) as ex:
        results = list(ex.map(one, files))
    for path in files:   # compiled case files are never needed again (the sources stay for inspection)
        base = path[:-2]
        for ext in ('.vo', '.vos', '.vok', '.glob'):
            try:
                os.remove(base + ext)
            except OSError:
                pass
        try:
            os.remove(os.path.join(os.path.dirname(path), '.' + os.path.basename(base) + '.aux'))
        except OSError:
            pass
    verdicts = []
    logs = []
    for sh, (rc, so, se) in zip(shards, results):
        vs = parse_verdicts(so) if rc == 0 else None
        if vs is None or len(vs) != len(sh):
            logs.append((rc, se[-2000:] or so[-2000:]))
            verdicts.extend([[99]] * len(sh))
        else:
            verdicts.extend(vs)
    # code 20 = agreement up to last-bit drift of floats (all discrete observables equal): counted, not an alarm
    global DRIFT
    for v in verdicts:
        if v and v[0] == 20:
            v[0] = 0
            DRIFT += 1
    return verdicts, logs


def cleanup_scratch():
    """a run against another tree than /repo (VERIF_REPO) leaves nothing behind"""
    if _TAG:
        import shutil
        shutil.rmtree(RUN, ignore_errors=True)
        shutil.rmtree(BIN, ignore_errors=True)
        shutil.rmtree(BIN + '-race', ignore_errors=True)
        # inventories regenerated from the other tree: put back the committed ones (they are regenerated from /repo on every C02/C10 run anyway)
        with _Lock():
            subprocess.run(['git', '-C', VERIF, 'checkout', '--', 'coq/Gen'], capture_output=True)


def parse_verdicts(out):
    m = re.search(r'verdicts\s*=\s*(\[.*?\])\s*:\s*list', out, re.S)
    if not m:
        return None
    txt = re.sub(r'\s+', '', m.group(1))
    txt = txt.replace('%nat', '').replace('%Z', '').replace(';', ',')
    try:
        return json.loads(txt)
    except Exception:
        return None


def eval_term(tag, term, extra_imports='', timeout=300):
    """vm_compute a single term and return Coq's printed value (for replay files)"""
    os.makedirs(RUN, exist_ok=True)
    path = os.path.join(RUN, 'eval_%s.v' % tag)
    with open(path, 'w') as f:
        f.write(HEADER + extra_imports + '\nDefinition out := Eval vm_compute in (%s).\nPrint out.\n' % term)
    rc, so, se = coqc(os.path.relpath(path, COQ), timeout=timeout)
    return so if rc == 0 else 'coqc failed: ' + se[-1500:]


# ------------------------------------------------------------------------------------------------
# evidence, findings, verdict lines

def load_findings():
    p = os.path.join(VERIF, 'known-findings.json')
    if not os.path.exists(p):
        return []
    return json.load(open(p)).get('findings', [])


def write_replay(pid, name, payload):
    os.makedirs(REPLAYS, exist_ok=True)
    path = os.path.join(REPLAYS, '%s_%s.json' % (pid, name))
    with open(path, 'w') as f:
        json.dump(payload, f, indent=1, default=str)
    return path


def write_evidence(pid, tier, seed, level, coverage, wall):
    os.makedirs(EVID, exist_ok=True)
    ev = {'property_id': pid, 'tier': tier, 'seed': seed, 'level': level, 'coverage': coverage,
          'wall_s': round(wall, 2)}
    with open(os.path.join(EVID, pid + '.json'), 'w') as f:
        json.dump(ev, f, indent=1, default=str)


def fhex(x):
    """exact Coq primitive-float literal of a Python float"""
    x = float(x)
    if x != x:
        return 'nan'
    if x == math.inf:
        return 'infinity'
    if x == -math.inf:
        return 'neg_infinity'
    return '(' + x.hex() + ')'
