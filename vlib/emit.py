"""Python values (requests as sent to the service, responses as returned) -> Coq terms over NumF."""
from .core import fhex

MAXINT64 = (1 << 63) - 1


def cstr(s):
    assert all(32 <= ord(c) < 127 for c in s), 'non-ascii id in generated case: %r' % s
    return '"' + s.replace('"', '""') + '"'


def cZ(n):
    return '(%d)%%Z' % int(n)


def cbool(b):
    return 'true' if b else 'false'


def clist(items):
    return '[' + '; '.join(items) + ']'


def copt(x, f):
    return 'None' if x is None else '(Some %s)' % f(x)


def cmap(m):
    """canonical map: sorted by key bytes"""
    return clist('(%s, %s)' % (cstr(k), fhex(v)) for k, v in sorted(m.items(), key=lambda kv: kv[0].encode()))


def calt(a):
    return '(mkA %s %s)' % (cstr(a.get('id') or ''), cmap(a.get('criteria') or {}))


def ctype(t):
    return {'gain': '0', 'cost': '1'}.get(t, '2')


def ccrit(c):
    r = c.get('valuesRange')
    rng = 'None' if r is None else '(Some (%s, %s))' % (fhex(r.get('min', 0)), fhex(r.get('max', 0)))
    return '(mkC %s %s %s)' % (cstr(c['id']), ctype(c.get('type', '')), rng)


def clf(f):
    f = f or {}
    return '(mkLF %s %s)' % (fhex(f.get('a', 0)), fhex(f.get('b', 0)))


def cecrit(e):
    return '(mkEC %s %s %s %s)' % (fhex(e.get('k', 0)), clf(e.get('q')), clf(e.get('p')), clf(e.get('v')))


def clparams(p):
    p = p if isinstance(p, dict) else {}
    ths = p.get('thresholds') or []
    return '(mkLP %s %s %s %s)' % (fhex(p.get('coefficient', 0)), fhex(p.get('maxValue', 0)),
                                   fhex(p.get('minValue', 0)), clist(cmap(t) for t in ths))


def crawparams(mp):
    mp = mp or {}
    w = mp.get('weights')
    el = mp.get('electreCriteria')
    dist = mp.get('electreDistillation')
    return '(mkRP %s %s %s %s %s %s %s %s %s)' % (
        copt(w, cmap),
        copt(el, lambda e: clist('(%s, %s)' % (cstr(k), cecrit(v)) for k, v in sorted(e.items(), key=lambda kv: kv[0].encode()))),
        copt(dist, clf),
        cstr(mp.get('currentChoice', '')),
        cZ(mp.get('randomSeed', 0)),
        cbool(mp.get('randomAlternativesOrdering', False)),
        cstr(mp.get('drawResolution', '')),
        cstr(mp.get('function', '')),
        clparams(mp.get('params')))


def cfparams(f):
    f = f if isinstance(f, dict) else {}
    p = f.get('params') if isinstance(f.get('params'), dict) else {}
    return '(mkFP %s %s %s %s %s)' % (cstr(f.get('function', '')), fhex(p.get('a', 0)), fhex(p.get('b', 0)),
                                      fhex(p.get('alpha', 0)), fhex(p.get('multiplier', 0)))


def cbprops(p, name=''):
    p = p if isinstance(p, dict) else {}
    fat = p.get('params') if isinstance(p.get('params'), dict) else {}
    anch = p.get('anchoringAlternatives') or []
    rp = p.get('referencePoints') if isinstance(p.get('referencePoints'), dict) else {}
    ap = p.get('applier') if isinstance(p.get('applier'), dict) else {}
    app = ap.get('params') if isinstance(ap.get('params'), dict) else {}
    # anchoring reads bounding, reference criterion and seed from applier.params
    src = app if name == 'anchoring' else p
    fn = p.get('function', '')
    return '(mkBP %s)' % ' '.join([
        cstr(p.get('ordering', '')),
        fhex(p.get('ratio', 0)), cZ(p.get('min', 0)), cZ(p.get('max', MAXINT64)),
        cZ(src.get('randomSeed', 0)),
        fhex(src.get('allowedValuesRangeScaling', -1.0)), cbool(src.get('disallowNegativeValues', False)),
        cstr(src.get('referenceCriterionType', '')), fhex(src.get('newCriterionImportance', 0)),
        cZ(src.get('newCriterionRandomSeed', 0)),
        fhex(p.get('newCriterionScaling', 1.0)),
        fhex(p.get('mixingRatio', 0.5)),
        cstr(fn if isinstance(fn, str) else ''),
        fhex(fat.get('value', 0)), fhex(fat.get('alpha', 0)), fhex(fat.get('multiplier', 0)),
        cZ(fat.get('queryNumber', 0)),
        clist('(mkAA %s %s)' % (cstr(a.get('alternative', '')), fhex(a.get('coefficient', 0))) for a in anch),
        cfparams(p.get('loss')), cfparams(p.get('gain')),
        cstr(rp.get('function', '')),
        cstr(ap.get('function', '')),
        cbool(app.get('applyOnNotConsidered', False)),
    ])


def cbias(b):
    return '(mkB %s %s %s %s)' % (cstr(b.get('name', '')), cbool(b.get('disabled', False)),
                                  fhex(b.get('applyProbability', 1.0)), cbprops(b.get('props'), b.get('name', '')))


def crequest(req, with_biases=True):
    return '(mkReq %s %s %s %s %s %s %s)' % (
        cstr(req.get('preferenceFunction', '')),
        clist(cbias(b) for b in (req.get('biases') or [])) if with_biases else '[]',
        cZ(req.get('biasApplyRandomSeed', 0)),
        clist(calt(a) for a in (req.get('knownAlternatives') or [])),
        clist(cstr(s) for s in (req.get('choseToMake') or [])),
        clist(ccrit(c) for c in (req.get('criteria') or [])),
        crawparams(req.get('methodParameters')))


def cenv(streams, exps):
    return '(mkEnv %s %s)' % (
        clist('(%s, %s)' % (cZ(s), clist(fhex(v) for v in vals)) for s, vals in sorted(streams.items())),
        clist('(%s, %s)' % (fhex(x), fhex(y)) for x, y in exps))


# ---- observed responses -------------------------------------------------------------------------

def cevaluation(ev):
    if not isinstance(ev, dict):
        # an entry without an evaluation (a blank slot in the result): emitted as a value no model entry can equal
        return '(EV nan)'
    if 'ascendingIndex' in ev:
        return '(EE %s %s)' % (cZ(ev['ascendingIndex']), cZ(ev['descendingIndex']))
    if 'comparedWith' in ev:
        return '(EM %s %s %s)' % (fhex(ev['value']), cstr(ev['comparedWith']), fhex(ev['comparedAlternativeValue']))
    if 'notSatisfiedThreshold' in ev:
        return '(EA %s %s)' % (cmap(ev['notSatisfiedThreshold'] or {}), cZ(ev['thresholdsIndex']))
    if 'satisfiedThresholds' in ev:
        return '(ES %s %s)' % (cmap(ev['satisfiedThresholds'] or {}), cZ(ev['thresholdsIndex']))
    return '(EV %s)' % (fhex(ev['value']) if 'value' in ev else 'nan')


def centry(e):
    return '(mkE %s %s %s)' % (calt(e.get('alternative') or {'id': ''}), cevaluation(e.get('evaluation')),
                               clist(cstr(s) for s in (e.get('betterThanOrSameAs') or [])))


def cobserved(res):
    """res: the harness answer for op decide/trace"""
    if not res.get('ok'):
        return 'ObsErr'
    resp = res['resp']
    # an echo that lacks its name or its applyProbability is emitted with a value no request can match ("" / nan)
    echoes = clist('(%s, %s, %s)' % (cstr(b.get('name') or ''), fhex(b['applyProbability']) if 'applyProbability' in b else 'nan',
                                     cbool(b.get('props') is not None))
                   for b in (resp.get('biases') or []))
    return '(ObsOk %s %s)' % (clist(centry(e) for e in resp['result']), echoes)


# ---- states as dumped by the harness (Go field names) -------------------------------------------

def calt_d(a):
    return '(mkA %s %s)' % (cstr(a['Id']), cmap(a.get('Criteria') or {}))


def ccrit_d(c):
    r = c.get('ValuesRange')
    rng = 'None' if r is None else '(Some (%s, %s))' % (fhex(r['Min']), fhex(r['Max']))
    return '(mkC %s %s %s)' % (cstr(c['Id']), ctype(c.get('Type', '')), rng)


def cwc_d(w):
    return '(mkWC %s %s)' % (ccrit_d(w['Criterion']), fhex(w['Weight']))


def clf_d(f):
    f = f or {}
    return '(mkLF %s %s)' % (fhex(f.get('A', 0)), fhex(f.get('B', 0)))


def clparams_d(p):
    """Params of a heuristic: the raw decoded JSON map, or the typed levels object a listener produced"""
    if not isinstance(p, dict):
        return clparams({})
    if 'Thresholds' in p or 'Coefficient' in p:
        ths = p.get('Thresholds') or []
        return '(mkLP %s %s %s %s)' % (fhex(p.get('Coefficient', 0)), fhex(p.get('MaxValue', 0)),
                                       fhex(p.get('MinValue', 0)), clist(cmap(t) for t in ths))
    return clparams(p)


def cmparams_d(method, mp):
    mp = mp or {}
    if method == 'weightedSum':
        return '(P_ws %s)' % clist(cwc_d(w) for w in (mp.get('weightedCriteria') or []))
    if method == 'owa':
        return '(P_owa %s)' % clist(cwc_d(w) for w in (mp.get('Weights') or []))
    if method == 'choquetIntegral':
        return '(P_choquet %s %s)' % (cmap(mp.get('weights') or {}), clist(ccrit_d(c) for c in (mp.get('criteria') or [])))
    if method == 'electreIII':
        ec = mp.get('Criteria') or {}
        return '(P_electre %s %s)' % (
            clist('(%s, (mkEC %s %s %s %s))' % (cstr(k), fhex(v['K']), clf_d(v['Q']), clf_d(v['P']), clf_d(v['V']))
                  for k, v in sorted(ec.items(), key=lambda kv: kv[0].encode())),
            clf_d(mp.get('DistillationFun')))
    if method == 'majorityHeuristic':
        return '(P_majority %s %s %s %s %s)' % (cmap(mp.get('Weights') or {}), cstr(mp.get('CurrentChoice', '')),
                                                cZ(mp.get('RandomSeed', 0)), cbool(mp.get('RandomAlternativesOrdering', False)),
                                                cstr(mp.get('DrawResolution', '')))
    if method == 'aspectEliminationHeuristic':
        return '(P_aspect %s %s %s %s %s)' % (cstr(mp.get('Function', '')), clparams_d(mp.get('Params')),
                                              cZ(mp.get('RandomSeed', 0)), cmap(mp.get('Weights') or {}),
                                              cbool(mp.get('RandomAlternativesOrdering', False)))
    if method == 'satisfactionHeuristic':
        return '(P_satisf %s %s %s %s %s)' % (cstr(mp.get('Function', '')), clparams_d(mp.get('Params')),
                                              cZ(mp.get('RandomSeed', 0)), cstr(mp.get('CurrentChoice', '')),
                                              cbool(mp.get('RandomAlternativesOrdering', False)))
    raise ValueError('unknown method ' + method)


def cstate_d(method, d):
    return '(mkState %s %s %s %s)' % (clist(calt_d(a) for a in (d.get('NotConsideredAlternatives') or [])),
                                      clist(calt_d(a) for a in (d.get('ConsideredAlternatives') or [])),
                                      clist(ccrit_d(c) for c in (d.get('Criteria') or [])),
                                      cmparams_d(method, d.get('MethodParameters')))


# ---- bias reports (the `props` of a response's bias echo) ------------------------------------------

def caddition(method, mp):
    """methodParameters of an added criterion as the API shows them"""
    if not isinstance(mp, dict):
        return 'A_unknown'
    if method in ('weightedSum', 'owa', 'majorityHeuristic'):
        w = mp.get('weights') or {}
        if len(w) == 1:
            k, v = list(w.items())[0]
            return '(A_weight %s %s)' % (cstr(k), fhex(v))
        return 'A_unknown'
    if method == 'electreIII':
        c = mp.get('criteria') or {}
        if len(c) == 1:
            k, v = list(c.items())[0]
            return '(A_electre %s %s)' % (cstr(k), cecrit(v))
        return 'A_unknown'
    if method in ('aspectEliminationHeuristic', 'satisfactionHeuristic'):
        p = mp.get('params')
        ths = None
        cid = None
        if isinstance(p, dict) and p.get('thresholds') is not None:
            ths = []
            for t in p['thresholds']:
                (cid, v), = t.items()
                ths.append(v)
        tt = 'None' if ths is None else '(Some %s)' % clist(fhex(v) for v in ths)
        if method == 'aspectEliminationHeuristic':
            w = mp.get('weights') or {}
            if len(w) == 1:
                k, v = list(w.items())[0]
                return '(A_aspect %s %s %s)' % (cstr(k), fhex(v), tt)
            return 'A_unknown'
        if cid is None:
            return 'A_unknown'
        return '(A_satisf %s %s)' % (cstr(cid), tt)
    return 'A_unknown'


def ccomponent(c):
    return '(mkCP %s %s %s)' % (cstr(c['id']), ctype(c.get('type', '')), cmap(c.get('scaledValues') or {}))


def creport(name, method, props):
    if props is None:
        return 'R_none'
    if name == 'criteriaOmission':
        return '(R_omission %s)' % clist(ccrit(c) for c in (props.get('omittedCriteria') or []))
    if name == 'preferenceReversal':
        return '(R_reversal %s)' % clist(
            '(%s, (%s, %s), %s)' % (ccrit({'id': c['id'], 'type': c.get('type', '')}), fhex(c['valuesRange']['min']),
                                    fhex(c['valuesRange']['max']), cmap(c.get('alternativesValues') or {}))
            for c in (props.get('reversedPreferenceCriteria') or []))
    if name == 'fatigue':
        return '(R_fatigue %s %s %s)' % (fhex(props['effectiveFatigueRatio']),
                                         clist(calt(a) for a in (props.get('consideredAlternatives') or [])),
                                         clist(calt(a) for a in (props.get('notConsideredAlternatives') or [])))
    if name == 'criteriaConcealment':
        a = props['addedCriteria'][0]
        return '(R_concealment %s %s %s)' % (ccrit({'id': a['id'], 'type': a.get('type', ''), 'valuesRange': a.get('valuesRange')}),
                                             cmap(a.get('alternativesValues') or {}), caddition(method, a.get('methodParameters')))
    if name == 'criteriaMixing':
        return '(R_mixing %s %s %s %s)' % (ccomponent(props['component1']), ccomponent(props['component2']),
                                           ccomponent(props['newCriterion']), caddition(method, props.get('params')))
    if name == 'anchoring':
        refs = clist(calt(a) for a in (props.get('referencePoints') or []))
        sc = props.get('criteriaScaling') or {}
        scs = clist('(%s, (%s, (%s, %s)))' % (cstr(k), fhex(v['scale']), fhex(v['valuesRange']['min']), fhex(v['valuesRange']['max']))
                    for k, v in sorted(sc.items(), key=lambda kv: kv[0].encode()))
        diffs = clist('(%s, %s)' % (calt(d['alternative']),
                                    clist('(%s, %s)' % (cstr(r['referencePoint']), cmap(r.get('coefficients') or {}))
                                          for r in (d.get('referencePointsDifference') or [])))
                      for d in (props.get('perReferencePointsDifferences') or []))
        ar = props.get('applierResult') or {}
        if 'appliedDifferences' in ar:
            art = '(AR_inline %s)' % clist(calt(a) for a in (ar.get('appliedDifferences') or []))
        else:
            rc = ar.get('referenceCriterion') or {}
            art = '(AR_new %s %s)' % (
                ccrit({'id': rc.get('id', ''), 'type': rc.get('type', ''), 'valuesRange': rc.get('valuesRange')}),
                clist('(%s, %s, %s)' % (ccrit({'id': a['id'], 'type': a.get('type', '')}), cmap(a.get('alternativesValues') or {}),
                                        caddition(method, a.get('methodParameters'))) for a in (ar.get('addedCriteria') or [])))
        return '(R_anchoring %s %s %s %s)' % (refs, scs, diffs, art)
    return 'R_none'
