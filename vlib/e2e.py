"""End-to-end correspondence of whole requests: real code vs model."""
from . import core, emit, gen

_stream_cache = {}


def stream(pipe, seed, n):
    key = (seed, n)
    if key not in _stream_cache:
        r = pipe.call({'op': 'rng', 'seed': seed, 'n': n})
        _stream_cache[key] = r['vals']
    return _stream_cache[key]


def env_for(pipe, req, n=48, exps=()):
    streams = {s: stream(pipe, s, n) for s in gen.seeds_of(req)}
    return emit.cenv(streams, list(exps))


def case_term(pipe, req, res, n=48, exps=()):
    return '(mkCase %s %s %s)' % (env_for(pipe, req, n, exps), emit.crequest(req), emit.cobserved(res))


AGREE_TEXT = {0: 'agree', 1: 'model rejects, code accepts', 2: 'model accepts, code rejects',
              3: 'both accept, results differ', 4: 'both accept, bias echoes differ',
              10: 'model ran out of random numbers', 11: 'exp oracle has no entry', 12: 'model ran out of fuel',
              99: 'case file did not evaluate'}
