"""End-to-end correspondence of whole requests: real code vs model."""
from . import core, emit, gen

_stream_cache = {}


def stream(pipe, seed, n):
    key = (seed, n)
    if key not in _stream_cache:
        r = pipe.call({'op': 'rng', 'seed': seed, 'n': n})
        _stream_cache[key] = r['vals']
    return _stream_cache[key]


def env_for(pipe, req, n=48, exps=()):
    streams = {s: stream(pipe, s, n) for s in gen.seeds_of(req)}
    return emit.cenv(streams, list(exps))


def case_term(pipe, req, res, n=48, exps=()):
    return '(mkCase %s %s %s)' % (env_for(pipe, req, n, exps), emit.crequest(req), emit.cobserved(res))


AGREE_TEXT = {0: 'agree', 1: 'model rejects, code accepts', 2: 'model accepts, code rejects',
              3: 'both accept, results differ', 4: 'both accept, bias echoes differ',
              10: 'model ran out of random numbers', 11: 'exp oracle has no entry', 12: 'model ran out of fuel',
              99: 'case file did not evaluate'}


COLS = ['agree', 'C01', 'C03', 'C04', 'C05', 'C11', 'C12', 'C13', 'C01struct', 'C03values', 'C06', 'C08', 'C13order', 'coherent']


def xcase_term(pipe, req, res, n=48, exps=()):
    """universal case: request, environment, final state (from the trace), observed response"""
    fin = res.get('evalInput')
    fin_t = 'None' if fin is None else '(Some %s)' % emit.cstate_d(req['preferenceFunction'], fin)
    return '(mkX %s %s %s %s)' % (env_for(pipe, req, n, exps), emit.crequest(req), fin_t, emit.cobserved(res))


def _fnum(x):
    """numbers of a dump: NaN / Inf come as strings"""
    return float(x) if isinstance(x, str) else x


def exp_args(req, res):
    """arguments at which the real code may evaluate math.Exp for this request (a superset)"""
    xs = set()
    for b in req.get('biases') or []:
        p = b.get('props') if isinstance(b.get('props'), dict) else {}
        if b.get('name') == 'fatigue' and p.get('function') == 'expFromZero':
            fp = p.get('params') or {}
            xs.add(float(fp.get('alpha', 0)) * float(fp.get('queryNumber', 0)))
    stages = [s for s in (res.get('stages') or []) if s.get('name') == 'anchoring']
    reqb = [b for b in (req.get('biases') or []) if b.get('name') == 'anchoring' and not b.get('disabled')]
    for st in stages:
        cur = st.get('curBefore') or {}
        alts = (cur.get('ConsideredAlternatives') or []) + (cur.get('NotConsideredAlternatives') or [])
        for b in reqb:
            p = b.get('props') or {}
            alphas = [float(f['params'].get('alpha', 0)) for f in (p.get('loss'), p.get('gain'))
                      if isinstance(f, dict) and f.get('function') == 'expFromZero' and isinstance(f.get('params'), dict)]
            if not alphas:
                continue
            anch = [a.get('alternative') for a in (p.get('anchoringAlternatives') or [])]
            for c in cur.get('Criteria') or []:
                cid = c['Id']
                vals = [_fnum(a['Criteria'].get(cid)) for a in alts if cid in a['Criteria']]
                if not vals:
                    continue
                if c.get('ValuesRange'):
                    mn, mx = _fnum(c['ValuesRange']['Min']), _fnum(c['ValuesRange']['Max'])
                else:
                    mn, mx = vals[0], vals[0]
                    for v in vals[1:]:
                        if mn > v:
                            mn = v
                        if mx < v:
                            mx = v
                dif = 1.0 - 0.0
                cd = mx - mn
                scale = dif / cd if cd != 0 else 0.0
                sg = -1.0 if c.get('Type') == 'cost' else 1.0
                refs = [_fnum(a['Criteria'][cid]) for a in alts if a['Id'] in anch and cid in a['Criteria']]
                for a in alts:
                    if cid not in a['Criteria']:
                        continue
                    for r in refs:
                        d = (_fnum(a['Criteria'][cid]) * sg - r * sg) * scale
                        for al in alphas:
                            xs.add(al * d)
                            xs.add(al * (-d))
    return sorted(x for x in xs if x == x and abs(x) != float("inf"))


_exp_cache = {}


def exp_table(pipe, xs):
    need = [x for x in xs if x not in _exp_cache]
    if need:
        r = pipe.call({'op': 'exp', 'xs': need})
        for x, y in zip(need, r['vals']):
            _exp_cache[x] = y if not isinstance(y, str) else float(y.replace('+Inf', 'inf').replace('-Inf', '-inf').replace('NaN', 'nan'))
    return [(x, _exp_cache[x]) for x in xs]


def run_all(pipe, reqs, tag, n=48, op='trace'):
    """returns (results, verdicts, logs): verdicts[i] = judge_all columns for request i"""
    ress, terms = [], []
    for r in reqs:
        res = pipe.call({'op': op, 'req': r})
        ress.append(res)
        terms.append(xcase_term(pipe, r, res, n, exp_table(pipe, exp_args(r, res))))
    verd, logs = core.run_cases(tag, 'judge_all', terms)
    # retry cases that ran out of shipped random numbers with a longer prefix
    again = [i for i, v in enumerate(verd) if v and v[0] == 10]
    if again and n < 2000:
        t2 = [xcase_term(pipe, reqs[i], ress[i], 2048, exp_table(pipe, exp_args(reqs[i], ress[i]))) for i in again]
        v2, l2 = core.run_cases(tag + 'x', 'judge_all', t2, shard=20)
        for i, v in zip(again, v2):
            verd[i] = v
        logs += l2
    # code 21: the binary64 model computes an answer holding NaN / Inf, which the service's JSON encoder refuses; it is agreement
    # when the implementation failed exactly there, and "model accepts, code rejects" otherwise
    for res, v in zip(ress, verd):
        if v and v[0] == 21:
            if res.get('kind') == 'marshal':
                v[0] = 0
                core.NONFINITE += 1
            else:
                v[0] = 2
    return ress, verd, logs


NONFINITE_STRINGS = ('NaN', '+Inf', '-Inf')


def has_nonfinite(t):
    """a dumped Go value holds a float that is not a number (the dumps write them as strings)"""
    if isinstance(t, str):
        return t in NONFINITE_STRINGS
    if isinstance(t, dict):
        return any(has_nonfinite(x) for x in t.values())
    if isinstance(t, list):
        return any(has_nonfinite(x) for x in t)
    return False


def tolerant_report(p):
    """(report tree, encoder message or None): a report JSON cannot carry comes from the harness as the tree the encoder would
    have built with NaN / Inf as strings"""
    if isinstance(p, dict) and '__marshalError' in p and '__tolerant' in p:
        return p['__tolerant'], p['__marshalError']
    return p, None


# ---- stages (one bias application each) -----------------------------------------------------------
SCOLS = ['stage', 'inv', 'frame', 'C09later', 'C15', 'C16', 'C17', 'C18', 'C19', 'reported', 'faithful', 'model_nonfinite']


def enabled_biases(req):
    return [b for b in (req.get('biases') or []) if not (isinstance(b, dict) and b.get('disabled'))]


def stage_terms(pipe, req, res, n=48):
    """one term per traced stage; returns list of (term, info)"""
    out = []
    method = req.get('preferenceFunction')
    stages = res.get('stages') or []
    # the k-th traced stage belongs to the k-th *fired* enabled bias
    fired = []
    if res.get('ok'):
        echoes = res['resp'].get('biases') or []
        en = enabled_biases(req)
        fired = [b for b, ec in zip(en, echoes) if ec.get('props') is not None or b.get('name') == 'criteriaMixing']
    exps = exp_table(pipe, exp_args(req, res))
    env = env_for(pipe, req, n, exps)
    en = enabled_biases(req)
    # match stages to requested biases by order of names
    idx = 0
    for st in stages:
        while idx < len(en) and en[idx].get('name') != st.get('name'):
            idx += 1
        if idx >= len(en):
            break
        b = en[idx]
        idx += 1
        try:
            before = emit.cstate_d(method, st['curBefore'])
            after = 'None' if st.get('curAfter') is None else '(Some %s)' % emit.cstate_d(method, st['curAfter'])
            afterf = 'None' if st.get('curAfterFinal') is None else '(Some %s)' % emit.cstate_d(method, st['curAfterFinal'])
            rep = emit.creport(b['name'], method, tolerant_report(st.get('props'))[0]) if st.get('curAfter') is not None else 'R_none'
            repf = emit.creport(b['name'], method, tolerant_report(st.get('propsFinal'))[0]) if st.get('curAfterFinal') is not None else 'R_none'
        except Exception as e:   # a shape the emitter does not know: reported by the caller
            out.append((None, {'bias': b, 'stage': st, 'error': repr(e)}))
            continue
        term = '(mkS %s %s %s %s %s %s %s %s)' % (env, emit.cstr(b['name']), emit.cbprops(b.get('props'), b['name']),
                                                  before, after, rep, afterf, repf)
        out.append((term, {'bias': b, 'stage': st}))
    return out
