"""End-to-end correspondence of whole requests: real code vs model."""
from . import core, emit, gen

_stream_cache = {}


def stream(pipe, seed, n):
    key = (seed, n)
    if key not in _stream_cache:
        r = pipe.call({'op': 'rng', 'seed': seed, 'n': n})
        _stream_cache[key] = r['vals']
    return _stream_cache[key]


def env_for(pipe, req, n=48, exps=()):
    streams = {s: stream(pipe, s, n) for s in gen.seeds_of(req)}
    return emit.cenv(streams, list(exps))


def case_term(pipe, req, res, n=48, exps=()):
    return '(mkCase %s %s %s)' % (env_for(pipe, req, n, exps), emit.crequest(req), emit.cobserved(res))


AGREE_TEXT = {0: 'agree', 1: 'model rejects, code accepts', 2: 'model accepts, code rejects',
              3: 'both accept, results differ', 4: 'both accept, bias echoes differ',
              10: 'model ran out of random numbers', 11: 'exp oracle has no entry', 12: 'model ran out of fuel',
              99: 'case file did not evaluate'}


COLS = ['agree', 'C01', 'C03', 'C04', 'C05', 'C11', 'C12', 'C13', 'C01struct', 'C03values', 'C06']


def xcase_term(pipe, req, res, n=48, exps=()):
    """universal case: request, environment, final state (from the trace), observed response"""
    fin = res.get('evalInput')
    fin_t = 'None' if fin is None else '(Some %s)' % emit.cstate_d(req['preferenceFunction'], fin)
    return '(mkX %s %s %s %s)' % (env_for(pipe, req, n, exps), emit.crequest(req), fin_t, emit.cobserved(res))


def run_all(pipe, reqs, tag, n=48, op='trace'):
    """returns (results, verdicts, logs): verdicts[i] = judge_all columns for request i"""
    ress, terms = [], []
    for r in reqs:
        res = pipe.call({'op': op, 'req': r})
        ress.append(res)
        terms.append(xcase_term(pipe, r, res, n))
    verd, logs = core.run_cases(tag, 'judge_all', terms)
    # retry cases that ran out of shipped random numbers with a longer prefix
    again = [i for i, v in enumerate(verd) if v and v[0] == 10]
    if again and n < 2000:
        t2 = [xcase_term(pipe, reqs[i], ress[i], 2048) for i in again]
        v2, l2 = core.run_cases(tag + 'x', 'judge_all', t2, shard=20)
        for i, v in zip(again, v2):
            verd[i] = v
        logs += l2
    return ress, verd, logs
