"""Per-run context: statistics, violations, known findings, verdict and evidence."""
import json, os, random, sys, time
from . import core


class Ctx:
    def __init__(self, pid, tier, seed, level='proof'):
        self.pid, self.tier, self.seed, self.level = pid, tier, seed, level
        self.rnd = random.Random((hash(pid) & 0xffff) * 1000003 + seed) if False else random.Random('%s/%d' % (pid, seed))
        self.t0 = time.time()
        self.evaluations = 0
        self.signatures = set()
        self.histogram = {}
        self.samples = []
        self.violations = []      # (what, replay payload, found_input: bool)
        self.known = []           # (finding id, what)
        self.obligations = []     # names
        self.discharged = []
        self.axioms = {}
        self.trusted = []
        self.notes = []
        self.findings = [f for f in core.load_findings() if f.get('property') == pid and f.get('status') == 'finding']
        self.quick = tier == 'quick'

    # -- statistics -------------------------------------------------------------------------------
    def count(self, key, n=1):
        self.histogram[key] = self.histogram.get(key, 0) + n

    def seen(self, signature, trivial=False):
        self.evaluations += 1
        if not trivial:
            self.signatures.add(signature)

    def sample(self, s, limit=3):
        if len(self.samples) < limit:
            self.samples.append(s)

    # -- findings ---------------------------------------------------------------------------------
    def match_finding(self, facts):
        """facts: dict describing a failing case; a finding matches when all its 'match' items agree"""
        for f in self.findings:
            if all(facts.get(k) == v for k, v in f.get('match', {}).items()):
                return f
        return None

    def violation(self, what, payload, facts=None, found_input=True):
        f = self.match_finding(facts or {}) if found_input else None
        if f is not None:
            if f['id'] not in [k[0] for k in self.known]:
                self.known.append((f['id'], f.get('line') or f.get('what', what)))
            return False
        self.violations.append((what, payload, found_input))
        return True

    # -- proof obligations ------------------------------------------------------------------------
    def check_proofs(self, extra_files=()):
        if os.environ.get('VERIF_SKIP_PROOFS'):
            self.notes.append('proof obligations skipped (development run)')
            return True
        if self.pid in CONST_PROPS:
            # the inventory of constants is regenerated from the source, then the obligations are re-checked, in one locked step
            import subprocess
            with core._Lock():
                g = subprocess.run([sys.executable, os.path.join(core.VERIF, 'tools', 'gen_consts.py')], capture_output=True, text=True,
                                   env=dict(os.environ, VERIF_REPO=core.REPO))
                if g.returncode != 0:
                    self.violation('the inventory of constants could not be regenerated from the source',
                                   {'broken': 'tools/gen_consts.py', 'log': g.stderr[-2000:]}, found_input=False)
                else:
                    self.notes.append('constants inventory: ' + g.stdout.strip())
                ok, names, assumptions, logtxt = core.check_property_file(self.pid)
                # the binary64 side of the same obligation (not imported by Properties/*.v, which stay free of the floating-point library)
                okf, outf = core.coq_make(['Proofs/ConstSitesF.vo'])
                names = list(names) + ['consts_agree_F_now']
                if not okf:
                    ok = False
                    logtxt = (logtxt or '') + outf[-2000:]
        else:
            ok, names, assumptions, logtxt = core.check_property_file(self.pid)
        self.obligations = list(names)
        blocks = core.parse_assumptions(assumptions)
        self.axioms = {'Print Assumptions blocks': blocks}
        if ok:
            self.discharged = list(names)
        else:
            self.discharged = []
            payload = {'broken': 'Properties/%s.v' % self.pid, 'log': logtxt[-3000:]}
            if self.pid in CONST_PROPS:
                # which constants of the source are not the model's any more: (unexplained literals, lost constants, lost names)
                core.coq_make(['Proofs/ConstSites.vo'])
                payload['constants_disagreement'] = core.eval_term(self.pid + 'k', 'consts_disagreement', 'From RDM Require Import Proofs.ConstSites.\n')[:3000]
                payload['broken'] = 'Properties/%s.v (or Proofs/ConstSitesF.v: consts_agree_F_now)' % self.pid
            if self.pid == 'C02':
                # which map iterations of the source are not the classified code any more
                payload['uncovered_map_iterations'] = core.eval_term('C02u', 'uncovered_sites', 'From RDM Require Import Proofs.MapSites.\n')[:3000]
            self.violation('proof obligations of Properties/%s.v no longer check' % self.pid, payload, found_input=False)
        if ok and self.tier == 'thorough' and not os.environ.get('VERIF_NO_COQCHK'):
            # independent re-check of the compiled property file and everything it depends on
            import subprocess
            p = subprocess.run(['timeout', '3000', 'coqchk', '-silent', '-o', '-Q', '.', 'RDM', 'RDM.Properties.' + self.pid],
                               cwd=core.COQ, capture_output=True, text=True)
            out = p.stdout + p.stderr   # coqchk prints its context summary on stderr
            summary = out[out.find('CONTEXT SUMMARY'):][:1500] if 'CONTEXT SUMMARY' in out else out[-800:]
            self.axioms['coqchk'] = summary
            if p.returncode != 0 or '* Axioms: <none>' not in out:
                self.violation('coqchk does not accept Properties/%s.vo without axioms' % self.pid,
                               {'broken': 'coqchk RDM.Properties.%s' % self.pid, 'log': summary}, found_input=False)
        allowed = set(ALLOWED_AXIOMS)
        for b in blocks:
            for a in b:
                if a not in allowed and not a.startswith(('PrimFloat', 'PrimInt63', 'Uint63')):   # kernel primitives (machine floats and integers), not axioms
                    self.violation('theorem depends on an axiom outside the trusted base: ' + a,
                                   {'broken': 'Properties/%s.v' % self.pid, 'axiom': a}, found_input=False)
        return ok

    # -- the end ----------------------------------------------------------------------------------
    def finish(self, rule, checker_cmd, extra=None):
        wall = time.time() - self.t0
        cov = {
            'evaluations': self.evaluations,
            'distinct_nontrivial': len(self.signatures),
            'rule': rule,
            'samples': self.samples or ['(no case generated)'],
            'obligations': len(self.obligations),
            'discharged': len(self.discharged),
            'obligation_names': self.obligations,
            'checker_cmd': checker_cmd,
            'trusted_base': TRUSTED_BASE + self.trusted,
            'axioms_reported': self.axioms,
            'input_histogram': self.histogram,
            'known_findings_seen': [k[0] for k in self.known],
            'violations': [v[0] for v in self.violations],
            'notes': self.notes,
            'agreements_up_to_float_drift': core.DRIFT,
            'outside_the_finite_range_not_judged': core.NONFINITE,
        }
        if extra:
            cov.update(extra)
        if not os.environ.get('VERIF_SKIP_PROOFS') and core.REPO == '/repo':
            core.write_evidence(self.pid, self.tier, self.seed, self.level, cov, wall)
        for fid, what in self.known:
            print('KNOWN-FINDING: property=%s %s [%s]' % (self.pid, what, fid))
        if not self.violations:
            print('OK property=%s tier=%s evaluations=%d distinct=%d obligations=%d/%d wall=%.1fs' % (
                self.pid, self.tier, self.evaluations, len(self.signatures), len(self.discharged),
                len(self.obligations), wall))
            return 0
        # a violation with a concrete failing input first
        self.violations.sort(key=lambda v: not v[2])
        what, payload, found = self.violations[0]
        payload = dict(payload, property=self.pid, what=what, seed=self.seed, tier=self.tier,
                       other_violations=[v[0] for v in self.violations[1:8]])
        path = core.write_replay(self.pid, 'seed%d' % self.seed, payload)
        print('VIOLATION property=%s replay=%s%s' % (self.pid, path, '' if found else ' no-failing-input-found'))
        log_what = what if len(what) < 400 else what[:400] + '...'
        core.log('  ' + log_what)
        return 1


ALLOWED_AXIOMS = []
# properties whose Properties/<pid>.v carries the obligation over the regenerated inventory of constants (tools/mkprops.py CONST_PROPS)
CONST_PROPS = ('C03', 'C04', 'C05', 'C11', 'C12', 'C17', 'C19', 'C20')

TRUSTED_BASE = [
    'Coq 8.16.1 kernel and vm_compute (no native_compute)',
    'hand-written Gallina model under /verif/coq/Model, tied to /repo by the correspondence run of this check (same inputs through the real code and the model, instance NumF = hardware binary64)',
    'harness: /verif/harness/zz_verif.go (overlay in package main), /verif/vlib (generators, emitters, driver)',
    'Go toolchain 1.23.5, math/rand stream for a seed and math.Exp taken from the Go binary as oracles',
    'arithmetic theorems are proved over exact rationals (NumQc), not binary64; order-only theorems for any carrier with OrdLaws',
]
