(** * Instance of [Num] on IEEE binary64 primitive floats.
    Used only to *run* the model on the inputs the Go code ran on ([vm_compute]); no property
    theorem depends on this file. [+ - * /], comparisons and [abs] are the hardware operations Go
    executes on amd64 (no fused multiply-add with GOAMD64=v1). [trunc], [floor], [round8] are written
    with [Prim2SF] and validated against Go's [int()], [math.Floor], [math.Round] by the
    micro-correspondence of the driver ([check prims]). *)
From Coq Require Import ZArith Bool List Floats Uint63.
From RDM Require Import Base.Num.
Import ListNotations.
Local Open Scope float_scope.

Definition f_truncZ (x : float) : Z :=
  match Prim2SF x with
  | S754_finite s m e =>
      let a := if (0 <=? e)%Z then Z.shiftl (Zpos m) e else Z.shiftr (Zpos m) (- e) in
      if s then (- a)%Z else a
  | _ => 0%Z
  end.

Definition f_ofZ (z : Z) : float :=
  if (z <? 0)%Z then - (of_uint63 (Uint63.of_Z (- z))) else of_uint63 (Uint63.of_Z z).

Definition f_trunc (x : float) : float :=
  if 0x1p52 <=? abs x then x
  else let a := of_uint63 (Uint63.of_Z (Z.abs (f_truncZ x))) in
       if get_sign x then - a else a.

(* math.Round: half away from zero *)
Definition f_round (x : float) : float :=
  if is_nan x || is_infinity x then x
  else if 0x1p52 <=? abs x then x
  else let t := f_trunc x in
       if 0.5 <=? abs (x - t) then (if get_sign x then t - 1 else t + 1) else t.

Definition f_round8 (v : float) : float := f_round (v * 1e8) / 1e8.

Definition f_floorZ (x : float) : Z :=
  let t := f_truncZ x in
  if (x <? 0) && negb (f_ofZ t =? x) then (t - 1)%Z else t.

(* bit-level identity (distinguishes +0/-0, identifies NaN with NaN) *)
Definition sf_eqb (a b : spec_float) : bool :=
  match a, b with
  | S754_zero s1, S754_zero s2 => Bool.eqb s1 s2
  | S754_infinity s1, S754_infinity s2 => Bool.eqb s1 s2
  | S754_nan, S754_nan => true
  | S754_finite s1 m1 e1, S754_finite s2 m2 e2 => Bool.eqb s1 s2 && Pos.eqb m1 m2 && Z.eqb e1 e2
  | _, _ => false
  end.
Definition f_same (a b : float) : bool := sf_eqb (Prim2SF a) (Prim2SF b).

#[export] Instance NumF : Num := {|
  num := float;
  nzero := 0; none := 1;
  nadd := PrimFloat.add; nsub := PrimFloat.sub; nmul := PrimFloat.mul; ndiv := PrimFloat.div;
  nopp := PrimFloat.opp; nabs := PrimFloat.abs;
  nltb := PrimFloat.ltb; nleb := PrimFloat.leb; neqb := PrimFloat.eqb;
  nofZ := f_ofZ; ntruncZ := f_truncZ; nfloorZ := f_floorZ; nround8 := f_round8;
  c_eps6 := 1e-6; c_eps5 := 0.00001; c_half := 0.5; c_two := 2; c_001 := 0.01;
  c_dist_a := -0.15; c_dist_b := 0.3;
  c_maxfloat := 0x1.fffffffffffffp+1023;
  c_tol_abs := 1.5e-8; c_tol_rel := 1e-9;
  nsame := f_same;
|}.
