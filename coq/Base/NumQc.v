(** * Instance of [Num] on canonical rationals [Qc] (exact arithmetic, Leibniz equality).
    All arithmetic theorems are stated and proved on this instance; it is axiom-free. *)
From Coq Require Import ZArith QArith Qcanon Qround Qabs Bool List Lia Lqa.
From RDM Require Import Base.Num.
Import ListNotations.

Definition qc_ltb (x y : Qc) : bool := negb (Qle_bool y x).
Definition qc_leb (x y : Qc) : bool := Qle_bool x y.
Definition qc_eqb (x y : Qc) : bool := Qeq_bool x y.
Definition qc_abs (x : Qc) : Qc := Q2Qc (Qabs x).
Definition qc_ofZ (z : Z) : Qc := Q2Qc (inject_Z z).
(* truncation towards zero, like Go's int(x) *)
Definition qc_truncZ (x : Qc) : Z :=
  let q := this x in Z.quot (Qnum q) (Zpos (Qden q)).
Definition qc_floorZ (x : Qc) : Z := Qfloor x.
(* math.Round(x*1e8)/1e8 : half away from zero *)
Definition q_round_half_away (q : Q) : Z :=
  if Qle_bool 0 q then Qfloor (q + (1#2)) else (- Qfloor ((- q) + (1#2)))%Z.
Definition qc_round8 (x : Qc) : Qc :=
  Q2Qc (inject_Z (q_round_half_away (this x * inject_Z 100000000)) / inject_Z 100000000).

#[export] Instance NumQc : Num := {|
  num := Qc;
  nzero := Q2Qc 0; none := Q2Qc 1;
  nadd := Qcplus; nsub := Qcminus; nmul := Qcmult; ndiv := Qcdiv;
  nopp := Qcopp; nabs := qc_abs;
  nltb := qc_ltb; nleb := qc_leb; neqb := qc_eqb;
  nofZ := qc_ofZ; ntruncZ := qc_truncZ; nfloorZ := qc_floorZ; nround8 := qc_round8;
  c_eps6 := Q2Qc (1 # 1000000); c_eps5 := Q2Qc (1 # 100000); c_half := Q2Qc (1 # 2);
  c_two := Q2Qc 2; c_001 := Q2Qc (1 # 100);
  c_dist_a := Q2Qc (- 15 # 100); c_dist_b := Q2Qc (3 # 10);
  c_maxfloat := Q2Qc (inject_Z (2 ^ 1024 - 2 ^ 971));
  c_tol_abs := Q2Qc (15 # 1000000000); c_tol_rel := Q2Qc (1 # 1000000000);
  nsame := qc_eqb;
|}.

(** ** The order laws hold on every rational. *)
Lemma qc_leb_iff (x y : Qc) : qc_leb x y = true <-> (x <= y)%Qc.
Proof. unfold qc_leb, Qcle. apply Qle_bool_iff. Qed.

#[export] Program Instance OrdQc : OrdLaws NumQc := {| okv := fun _ => True |}.
Next Obligation. apply qc_leb_iff. apply Qcle_refl. Qed.
Next Obligation. apply qc_leb_iff. eapply Qcle_trans; apply qc_leb_iff; eassumption. Qed.
Next Obligation.
  destruct (Qclt_le_dec x y) as [A|A]; [left; apply qc_leb_iff; now apply Qclt_le_weak
                                       | right; now apply qc_leb_iff].
Qed.
Next Obligation.
  unfold qc_eqb, qc_leb.
  destruct (Qle_bool x y) eqn:A; destruct (Qle_bool y x) eqn:B; cbn [andb].
  - apply Qeq_bool_iff. apply Qle_bool_iff in A, B. apply Qle_antisym; assumption.
  - destruct (Qeq_bool x y) eqn:E; [|reflexivity]. apply Qeq_bool_iff in E.
    assert (Qle_bool y x = true) by (apply Qle_bool_iff; rewrite E; apply Qle_refl). congruence.
  - destruct (Qeq_bool x y) eqn:E; [|reflexivity]. apply Qeq_bool_iff in E.
    assert (Qle_bool x y = true) by (apply Qle_bool_iff; rewrite E; apply Qle_refl). congruence.
  - destruct (Qeq_bool x y) eqn:E; [|reflexivity]. apply Qeq_bool_iff in E.
    assert (Qle_bool x y = true) by (apply Qle_bool_iff; rewrite E; apply Qle_refl). congruence.
Qed.

Next Obligation. unfold qc_eqb. apply Qeq_bool_iff. reflexivity. Qed.
Next Obligation. unfold qc_eqb in H. apply Qeq_bool_iff in H. now apply Qc_is_canon. Qed.
