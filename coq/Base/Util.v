(** * Generic list utilities of the model: canonical string-keyed maps, insertion sort, results. *)
From Coq Require Import ZArith Bool List String Ascii.
Import ListNotations.
Local Open Scope string_scope.

(** ** Results: Go panics are modelled as [Err]. *)
Inductive err_class :=
| EInvalid        (* a documented validation failed (panic with an error, 400) *)
| EMissing        (* a lookup failed: missing value / weight / criterion / alternative *)
| ECollision      (* merge collision, duplicated criterion *)
| EType           (* interface conversion between parameter types *)
| EIndex          (* slice index / bounds *)
| EOutOfFuel      (* model recursion ran out of fuel (excluded by theorems on the valid domain) *)
| EOutOfRandom    (* the finite prefix of the random stream shipped with the case was exhausted *)
| EOutOfOracle.   (* exp table has no entry for the queried argument *)

Inductive res (A : Type) := Ok (a : A) | Err (e : err_class).
Arguments Ok {A} a.
Arguments Err {A} e.

Definition bind {A B} (r : res A) (f : A -> res B) : res B :=
  match r with Ok a => f a | Err e => Err e end.
Notation "'do' x <- r ; k" := (bind r (fun x => k)) (at level 200, x pattern, r at level 100, k at level 200).
Definition of_option {A} (o : option A) (e : err_class) : res A :=
  match o with Some a => Ok a | None => Err e end.

Fixpoint mapM {A B} (f : A -> res B) (l : list A) : res (list B) :=
  match l with
  | [] => Ok []
  | x :: r => do y <- f x; do ys <- mapM f r; Ok (y :: ys)
  end.

Definition is_ok {A} (r : res A) : bool := match r with Ok _ => true | Err _ => false end.

(** ** Strings *)
Definition str_eqb := String.eqb.
Definition str_ltb := String.ltb.

Fixpoint has_prefix (p s : string) : bool :=
  match p, s with
  | EmptyString, _ => true
  | String a p', String b s' => Ascii.eqb a b && has_prefix p' s'
  | _, EmptyString => false
  end.

Fixpoint mem_str (x : string) (l : list string) : bool :=
  match l with [] => false | y :: r => String.eqb x y || mem_str x r end.

Fixpoint nodup_str (l : list string) : bool :=
  match l with [] => true | x :: r => negb (mem_str x r) && nodup_str r end.

Fixpoint join_with (sep : string) (l : list string) : string :=
  match l with
  | [] => ""
  | [x] => x
  | x :: r => x ++ sep ++ join_with sep r
  end.

(* strings.Split(s, ",") *)
Fixpoint split_on_aux (c : ascii) (s : string) (cur : string) : list string :=
  match s with
  | EmptyString => [cur]
  | String a r => if Ascii.eqb a c then cur :: split_on_aux c r "" else split_on_aux c r (cur ++ String a "")
  end.
Definition split_on (c : ascii) (s : string) : list string := split_on_aux c s "".

(* strconv.Itoa for non-negative numbers *)
Definition digit_char (n : nat) : ascii := ascii_of_nat (48 + n).
Fixpoint nat_to_string_aux (fuel n : nat) (acc : string) : string :=
  match fuel with
  | O => acc
  | S f => let acc' := String (digit_char (Nat.modulo n 10)) acc in
           if Nat.ltb n 10 then acc' else nat_to_string_aux f (Nat.div n 10) acc'
  end.
Definition nat_to_string (n : nat) : string := nat_to_string_aux (S n) n "".

(** ** Stable insertion sort. [lt a b = true] means a is strictly before b. An element is inserted
    before the first element that is not strictly smaller, so equal elements keep their input order
    (this is what [sort.SliceStable] computes; for a strict total order on the elements present it is
    *the* sorted permutation and also what the unstable [sort.Sort]/[sort.Slice] compute). *)
Section Sort.
  Context {A : Type} (lt : A -> A -> bool).
  Fixpoint insert (x : A) (l : list A) : list A :=
    match l with
    | [] => [x]
    | y :: r => if lt y x then y :: insert x r else x :: l
    end.
  Fixpoint isort (l : list A) : list A :=
    match l with [] => [] | x :: r => insert x (isort r) end.
End Sort.

(** ** Canonical string-keyed maps: association lists strictly sorted by key. *)
Definition smap (A : Type) := list (string * A).

Section SMap.
  Context {A : Type}.
  Fixpoint mget (k : string) (m : smap A) : option A :=
    match m with
    | [] => None
    | (k', v) :: r => if String.eqb k k' then Some v else mget k r
    end.
  Definition mhas (k : string) (m : smap A) : bool :=
    match mget k m with Some _ => true | None => false end.
  Fixpoint mset (k : string) (v : A) (m : smap A) : smap A :=
    match m with
    | [] => [(k, v)]
    | (k', v') :: r =>
        if String.eqb k k' then (k, v) :: r
        else if String.ltb k k' then (k, v) :: m
        else (k', v') :: mset k v r
    end.
  Fixpoint mremove (k : string) (m : smap A) : smap A :=
    match m with
    | [] => []
    | (k', v') :: r => if String.eqb k k' then r else (k', v') :: mremove k r
    end.
  Definition mkeys (m : smap A) : list string := map fst m.
  Definition mvals (m : smap A) : list A := map snd m.
  Definition mof_list (l : list (string * A)) : smap A :=
    fold_left (fun m kv => mset (fst kv) (snd kv) m) l [].
  Fixpoint msorted (m : smap A) : bool :=
    match m with
    | [] => true
    | (k, _) :: r => match r with [] => true | (k', _) :: _ => String.ltb k k' && msorted r end
    end.
End SMap.

(** ** Misc *)
Fixpoint list_eqb {A B} (eqb : A -> B -> bool) (l1 : list A) (l2 : list B) : bool :=
  match l1, l2 with
  | [], [] => true
  | x :: r, y :: s => eqb x y && list_eqb eqb r s
  | _, _ => false
  end.

Definition option_eqb {A} (eqb : A -> A -> bool) (a b : option A) : bool :=
  match a, b with
  | None, None => true
  | Some x, Some y => eqb x y
  | _, _ => false
  end.

Fixpoint nth_opt {A} (n : nat) (l : list A) : option A :=
  match l, n with
  | [], _ => None
  | x :: _, O => Some x
  | _ :: r, S m => nth_opt m r
  end.

Fixpoint replace_nth {A} (n : nat) (x : A) (l : list A) : list A :=
  match l, n with
  | [], _ => []
  | _ :: r, O => x :: r
  | y :: r, S m => y :: replace_nth m x r
  end.

Fixpoint remove_nth {A} (n : nat) (l : list A) : list A :=
  match l, n with
  | [], _ => []
  | _ :: r, O => r
  | y :: r, S m => y :: remove_nth m r
  end.

Fixpoint last_opt {A} (l : list A) : option A :=
  match l with [] => None | [x] => Some x | _ :: r => last_opt r end.

Fixpoint zip {A B} (l1 : list A) (l2 : list B) : list (A * B) :=
  match l1, l2 with x :: r, y :: s => (x, y) :: zip r s | _, _ => [] end.

Fixpoint seqZ (start : Z) (n : nat) : list Z :=
  match n with O => [] | S m => start :: seqZ (start + 1) m end.
