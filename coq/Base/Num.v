(** * The numeric carrier of the model.
    One model text, two instances: [NumF] (IEEE binary64 primitive floats, used to run the model
    against the Go code bit for bit) and [NumQc] (exact rationals, used for arithmetic theorems).
    Order-only theorems are proved for any carrier satisfying [OrdLaws]. *)
From Coq Require Import ZArith Bool List.
Import ListNotations.

Class Num := {
  num : Type;
  nzero : num;
  none : num;
  nadd : num -> num -> num;
  nsub : num -> num -> num;
  nmul : num -> num -> num;
  ndiv : num -> num -> num;
  nopp : num -> num;
  nabs : num -> num;
  nltb : num -> num -> bool;      (* Go's [<]  *)
  nleb : num -> num -> bool;      (* Go's [<=] *)
  neqb : num -> num -> bool;      (* Go's [==] *)
  nofZ : Z -> num;                (* float64(int) *)
  ntruncZ : num -> Z;             (* int(x) *)
  nfloorZ : num -> Z;             (* int(math.Floor(x)) *)
  nround8 : num -> num;           (* math.Round(x*1e8)/1e8 *)
  (* decimal constants of the Go source, see Gen/Consts.v for the tie to the source *)
  c_eps6 : num;                   (* 1e-6   majority eps *)
  c_eps5 : num;                   (* 1e-5   choquet tie *)
  c_half : num;                   (* 0.5 *)
  c_two : num;                    (* 2 *)
  c_001 : num;                    (* 0.01  anchoring _minAllowedWeight *)
  c_dist_a : num;                 (* -0.15 default distillation a *)
  c_dist_b : num;                 (* 0.3   default distillation b *)
  c_maxfloat : num;               (* math.MaxFloat64 (NumQc: a large rational, see there) *)
  c_tol_abs : num;                (* 1.5e-8: half a unit of the API's 1e-8 rounding plus slack (checkers only) *)
  c_tol_rel : num;                (* 1e-9  relative slack for re-associated sums (checkers only) *)
  (* bit-level identity, used only to compare observed with computed values *)
  nsame : num -> num -> bool;
}.

Declare Scope num_scope.
Delimit Scope num_scope with num.
Bind Scope num_scope with num.
Infix "+" := nadd : num_scope.
Infix "-" := nsub : num_scope.
Infix "*" := nmul : num_scope.
Infix "/" := ndiv : num_scope.
Notation "- x" := (nopp x) : num_scope.
Infix "<?" := nltb : num_scope.
Infix "<=?" := nleb : num_scope.
Infix "=?" := neqb : num_scope.

Section Derived.
  Context {N : Num}.
  Local Open Scope num_scope.

  Definition ngtb (x y : num) : bool := y <? x.
  Definition ngeb (x y : num) : bool := y <=? x.
  Definition nmin (x y : num) : num := if x <? y then x else y.      (* math.Min on non-NaN *)
  Definition nmax (x y : num) : num := if y <? x then x else y.      (* math.Max on non-NaN *)
  (* utils.FloatsAreEqual(a, b, eps) = math.Abs(a-b) <= eps *)
  Definition floats_are_equal (a b eps : num) : bool := nabs (a - b) <=? eps.
  (* |a - b| <= 1.5e-8 + 1e-9*|b| : equality up to the API rounding *)
  Definition approx8 (a b : num) : bool := nabs (a - b) <=? (c_tol_abs + c_tol_rel * nabs b).
  Fixpoint nsum (l : list num) : num :=
    match l with [] => nzero | x :: r => x + nsum r end.
  (* left-to-right accumulation as Go's [total += x] starting from 0 *)
  Definition nsum_left (l : list num) : num := fold_left nadd l nzero.
End Derived.

(** ** Order laws: what structural theorems need. [okv] singles out the carrier subset on which
    the laws hold (finite floats; every rational). *)
Class OrdLaws (N : Num) := {
  okv : num -> Prop;
  leb_refl : forall x, okv x -> nleb x x = true;
  leb_trans : forall x y z, okv x -> okv y -> okv z ->
      nleb x y = true -> nleb y z = true -> nleb x z = true;
  leb_total : forall x y, okv x -> okv y -> nleb x y = true \/ nleb y x = true;
  ltb_leb : forall x y, okv x -> okv y -> nltb x y = negb (nleb y x);
  eqb_leb : forall x y, okv x -> okv y -> neqb x y = nleb x y && nleb y x;
  round8_okv : forall x, okv x -> okv (nround8 x);
  same_refl : forall x, nsame x x = true;
  same_eq : forall x y, nsame x y = true -> x = y;
}.

Section OrdFacts.
  Context {N : Num} {L : OrdLaws N}.

  Lemma eqb_refl x : okv x -> neqb x x = true.
  Proof. intros H. rewrite eqb_leb by assumption. now rewrite leb_refl. Qed.

  Lemma eqb_sym x y : okv x -> okv y -> neqb x y = neqb y x.
  Proof. intros. rewrite !eqb_leb by assumption. apply andb_comm. Qed.

  Lemma eqb_trans x y z : okv x -> okv y -> okv z ->
    neqb x y = true -> neqb y z = true -> neqb x z = true.
  Proof.
    intros Hx Hy Hz. rewrite !eqb_leb by assumption.
    intros H1 H2. apply andb_true_iff in H1 as [A B]. apply andb_true_iff in H2 as [C D].
    apply andb_true_iff; split.
    - apply (leb_trans x y z); assumption.
    - apply (leb_trans z y x); assumption.
  Qed.

  Lemma ltb_irrefl x : okv x -> nltb x x = false.
  Proof. intros. rewrite ltb_leb by assumption. now rewrite leb_refl. Qed.

  Lemma ltb_trans x y z : okv x -> okv y -> okv z ->
    nltb x y = true -> nltb y z = true -> nltb x z = true.
  Proof.
    intros Hx Hy Hz. rewrite !ltb_leb by assumption. intros A B.
    apply negb_true_iff in A, B. apply negb_true_iff.
    destruct (nleb z x) eqn:E; [|reflexivity].
    destruct (leb_total x y Hx Hy) as [T|T]; [|congruence].
    assert (nleb z y = true) by (eapply leb_trans; [| | |exact E|exact T]; assumption).
    congruence.
  Qed.

  Lemma ltb_leb_incl x y : okv x -> okv y -> nltb x y = true -> nleb x y = true.
  Proof.
    intros Hx Hy. rewrite ltb_leb by assumption. intros A. apply negb_true_iff in A.
    destruct (leb_total x y Hx Hy); congruence.
  Qed.

  Lemma ltb_eqb_false x y : okv x -> okv y -> nltb x y = true -> neqb x y = false.
  Proof.
    intros Hx Hy. rewrite ltb_leb, eqb_leb by assumption. intros A. apply negb_true_iff in A.
    rewrite A. apply andb_false_r.
  Qed.

  Lemma leb_ltb_trans x y z : okv x -> okv y -> okv z ->
    nleb x y = true -> nltb y z = true -> nltb x z = true.
  Proof.
    intros Hx Hy Hz A. rewrite !ltb_leb by assumption. intros B.
    apply negb_true_iff in B. apply negb_true_iff.
    destruct (nleb z x) eqn:E; [|reflexivity].
    assert (nleb z y = true) by (eapply leb_trans; [| | |exact E|exact A]; assumption).
    congruence.
  Qed.

  Lemma ltb_leb_trans x y z : okv x -> okv y -> okv z ->
    nltb x y = true -> nleb y z = true -> nltb x z = true.
  Proof.
    intros Hx Hy Hz. rewrite !ltb_leb by assumption. intros A B.
    apply negb_true_iff in A. apply negb_true_iff.
    destruct (nleb z x) eqn:E; [|reflexivity].
    assert (nleb y x = true) by (eapply leb_trans; [| | |exact B|exact E]; assumption).
    congruence.
  Qed.

  Lemma eqb_ltb_l x y z : okv x -> okv y -> okv z ->
    neqb x y = true -> nltb x z = nltb y z.
  Proof.
    intros Hx Hy Hz. rewrite eqb_leb by assumption. intros E.
    apply andb_true_iff in E as [A B]. rewrite !ltb_leb by assumption. f_equal.
    destruct (nleb z x) eqn:E1, (nleb z y) eqn:E2; try reflexivity.
    - assert (nleb z y = true) by (eapply leb_trans; [| | |exact E1|exact A]; assumption). congruence.
    - assert (nleb z x = true) by (eapply leb_trans; [| | |exact E2|exact B]; assumption). congruence.
  Qed.

  Lemma eqb_ltb_r x y z : okv x -> okv y -> okv z ->
    neqb x y = true -> nltb z x = nltb z y.
  Proof.
    intros Hx Hy Hz. rewrite eqb_leb by assumption. intros E.
    apply andb_true_iff in E as [A B]. rewrite !ltb_leb by assumption. f_equal.
    destruct (nleb x z) eqn:E1, (nleb y z) eqn:E2; try reflexivity.
    - assert (nleb y z = true) by (eapply leb_trans; [| | |exact B|exact E1]; assumption). congruence.
    - assert (nleb x z = true) by (eapply leb_trans; [| | |exact A|exact E2]; assumption). congruence.
  Qed.

  Lemma eqb_eqb_l x y z : okv x -> okv y -> okv z ->
    neqb x y = true -> neqb x z = neqb y z.
  Proof.
    intros Hx Hy Hz E.
    destruct (neqb x z) eqn:A, (neqb y z) eqn:B; try reflexivity.
    - rewrite eqb_sym in E by assumption.
      assert (neqb y z = true) by (eapply eqb_trans; [| | |exact E|exact A]; assumption). congruence.
    - assert (neqb x z = true) by (eapply eqb_trans; [| | |exact E|exact B]; assumption). congruence.
  Qed.

  (* trichotomy as a sum of booleans *)
  Lemma trichotomy x y : okv x -> okv y ->
    (nltb x y = true /\ neqb x y = false /\ nltb y x = false) \/
    (nltb x y = false /\ neqb x y = true /\ nltb y x = false) \/
    (nltb x y = false /\ neqb x y = false /\ nltb y x = true).
  Proof.
    intros Hx Hy. rewrite !ltb_leb, eqb_leb by assumption.
    destruct (leb_total x y Hx Hy) as [T|T]; rewrite T;
      destruct (nleb y x) eqn:E1; destruct (nleb x y) eqn:E2; simpl; try congruence; auto.
  Qed.
End OrdFacts.
