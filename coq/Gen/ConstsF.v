(** GENERATED on every run by tools/gen_consts.py from the Go source: the binary64 (hexadecimal notation, as strconv prints
    the value go/constant rounds the literal to) of every non-zero floating-point literal of Gen/Consts.v, in the same order.
    Kept apart so that Properties/*.v do not load the floating-point library. *)
From Coq Require Import List String ZArith Floats.
Import ListNotations.
Local Open Scope string_scope.

(* package directory, file:function (or <package>.name), (numerator, denominator), binary64 *)
Definition go_float_binary64 : list (string * string * (Z * Z) * float) := [
  ("logic/biases/anchoring", "logic/biases/anchoring/new-criterion-anchoring-applier.go:<package>._minAllowedWeight", ((1)%Z, (100)%Z), (0x1.47ae147ae147bp-07)%float);
  ("logic/biases/criteria-mixing", "logic/biases/criteria-mixing/criteria-mixing.go:parseProps", ((1)%Z, (2)%Z), (0x1p-01)%float);
  ("logic/biases/fatigue", "logic/biases/fatigue/fatigue.go:blurCriteriaValues", ((1)%Z, (2)%Z), (0x1p-01)%float);
  ("logic/biases/fatigue", "logic/biases/fatigue/fatigue.go:blurCriteriaValues", ((1)%Z, (1)%Z), (0x1p+00)%float);
  ("logic/limited-rationality/aspect-elimination", "logic/limited-rationality/aspect-elimination/aspect-elimination.go:sortCriteria", ((1)%Z, (2)%Z), (0x1p-01)%float);
  ("logic/limited-rationality/majority", "logic/limited-rationality/majority/draw-resolution.go:*RandomWinnerResolver.Resolve", ((1)%Z, (2)%Z), (0x1p-01)%float);
  ("logic/limited-rationality/majority", "logic/limited-rationality/majority/majority.go:<package>.eps", ((1)%Z, (1000000)%Z), (0x1.0c6f7a0b5ed8dp-20)%float);
  ("logic/preference-func/choquet", "logic/preference-func/choquet/choquet-integral.go:computeTotalWeight", ((1)%Z, (100000)%Z), (0x1.4f8b588e368f1p-17)%float);
  ("logic/preference-func/electreIII", "logic/preference-func/electreIII/distilation.go:<package>.DefaultDistillationFunc", ((-3)%Z, (20)%Z), (-0x1.3333333333333p-03)%float);
  ("logic/preference-func/electreIII", "logic/preference-func/electreIII/distilation.go:<package>.DefaultDistillationFunc", ((3)%Z, (10)%Z), (0x1.3333333333333p-02)%float);
  ("model", "model/alternative.go:<package>.roundPrecision", ((100000000)%Z, (1)%Z), (0x1.7d784p+26)%float);
  ("model/criteria-bounding", "model/criteria-bounding/criteria-bounding.go:DefaultParams", ((-1)%Z, (1)%Z), (-0x1p+00)%float);
  ("testUtils", "testUtils/test_utils.go:ValidateWeights", ((1)%Z, (1000000)%Z), (0x1.0c6f7a0b5ed8dp-20)%float);
  ("utils", "utils/utils.go:Differs", ((1)%Z, (100000000)%Z), (0x1.5798ee2308c3ap-27)%float);
  ("utils", "utils/utils.go:validateValue", ((1)%Z, (1000000)%Z), (0x1.0c6f7a0b5ed8dp-20)%float)
].
