(** GENERATED on every run by tools/gen_mapranges.py from the Go source: every `range` over a map-typed
    expression in the non-test code of lib, and every call to time.* or to package-level math/rand functions. *)
From Coq Require Import List String.
Import ListNotations.
Local Open Scope string_scope.

(* key = file:function#ordinal ; expr = the ranged expression ; fingerprints of the range statement and of the function body *)
Definition map_range_sites : list (string * string * (string * string)) := [
  ("logic/biases/anchoring/anchoring.go:matchScalingWithBounding#0", "scaling", ("b6708065d59ede9a", "17691802d77a2eaf"));
  ("logic/biases/anchoring/ideal-reference-alternative-evaluator.go:extractCriteriaValues#0", "*best", ("179ac57db6e7b62e", "b2cba098083e14cc"));
  ("logic/biases/anchoring/ideal-reference-alternative-evaluator.go:prepareCriteriaWithCoefficients#0", "firstAlternative.Alternative.Criteria", ("e9a2cccc1cdee4ed", "f17a002668306539"));
  ("logic/biases/anchoring/inline-anchoring-applier.go:*InlineAnchoringApplier.ApplyAnchoring#0", "boundingsWithScales", ("c6e1f8b03cda2ee6", "7adb904c5f47d2ae"));
  ("logic/biases/anchoring/inline-anchoring-applier.go:arithmeticAverage#0", "a.Coefficients", ("89c824b816baf202", "cfd5cf58dbfbb4d5"));
  ("logic/biases/anchoring/inline-anchoring-applier.go:arithmeticAverage#1", "newWeights", ("c2107148b96ab0e4", "cfd5cf58dbfbb4d5"));
  ("logic/biases/criteria-mixing/criteria-mixing.go:*criteriaToMix.mix#0", "c1Values", ("f5cbaab39a1cbdd8", "2782e8946b46aa62"));
  ("logic/limited-rationality/satisfaction-levels/satisfaction-levels-update.go:*SatisfactionLevelsUpdateListeners.Fetch#0", "sl.Listeners", ("b852301e47161a66", "089e65b6e0629823"));
  ("logic/preference-func/choquet/choquet-integral.go:prepareCriteriaInAscendingOrder#0", "alternative.Criteria", ("e44f246c2c555065", "177b5e30e003ba48"));
  ("logic/preference-func/choquet/choquet-integral_parsing.go:remapWeights#0", "*weights", ("68e9a450d773f86e", "50541994eb9d8edc"));
  ("logic/preference-func/choquet/choquet-integral_parsing.go:prepareWeights#0", "*weights", ("0c748aa2932ae3bc", "25083f5403e063c6"));
  ("logic/preference-func/electreIII/electre_III-bias-listener.go:*ElectreIIIBiasLIstener.Merge#0", "*oldEleParams.Criteria", ("659c69d4d95f881c", "5899b1b64a9a8dc8"));
  ("logic/preference-func/electreIII/electre_III-bias-listener.go:*ElectreIIIBiasLIstener.Merge#1", "*newEleParams.Criteria", ("4d27b1288a5b61d9", "5899b1b64a9a8dc8"));
  ("logic/preference-func/electreIII/electre_III-bias-listener.go:*ElectreIIIBiasLIstener.RankCriteriaAscending#0", "*eleParams.Criteria", ("f441b0f6046bf5e4", "edb1ea993f14fb6d"));
  ("logic/preference-func/owa/owa-bias-listener.go:*OwaBiasListener.Merge#0", "newParams.Weights", ("5ef1f71755f322a4", "c4a4bcd94bbdbc6b"));
  ("logic/preference-func/owa/owa.go:sortAlternativeCriteriaWeights#0", "alternative.Criteria", ("0ac3bd7b5761ffc2", "333859f80265bb01"));
  ("model/alternative.go:*AlternativeWithCriteria.WithCriterion#0", "a.Criteria", ("ce579f0e9fdaf89f", "c04e76bc54b6b529"));
  ("model/bias-listener.go:PrepareCumulatedWeightsMap#0", "a.Criteria", ("22d59760823742dc", "a8fc292e4811d834"));
  ("model/bias.go:ChooseBiases#0", "*available", ("72795329569d95ce", "875f3b5e0fce9ac4"));
  ("model/weights.go:*Weights.Merge#0", "*w", ("6924b76869ec8c18", "7c286e23b32981a2"));
  ("model/weights.go:*Weights.Merge#1", "*other", ("e8b7ef97078b3ba3", "7c286e23b32981a2"));
  ("model/weights.go:*Weights.Copy#0", "*w", ("6924b76869ec8c18", "66deff307a372a5f"));
  ("model/weights.go:*Weights.AsKeyValue#0", "*w", ("512a97b4196e2000", "1f718f8d600a54ca"));
  ("testUtils/test_utils.go:ValidateWeights#0", "expected", ("f9abb41c1882eee8", "61a03841eaf508ff"))
].

Definition clock_or_global_rand_calls : list string := [].
