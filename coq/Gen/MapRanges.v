(** GENERATED on every run by tools/gen_mapranges.py from the Go source: every `range` over a map-typed
    expression in the non-test code of lib, and every call to time.* or to package-level math/rand functions. *)
From Coq Require Import List String.
Import ListNotations.
Local Open Scope string_scope.

(* key = file:function#ordinal ; expr = the ranged expression *)
Definition map_range_sites : list (string * string) := [
  ("logic/biases/anchoring/anchoring.go:matchScalingWithBounding#0", "scaling");
  ("logic/biases/anchoring/ideal-reference-alternative-evaluator.go:extractCriteriaValues#0", "*best");
  ("logic/biases/anchoring/ideal-reference-alternative-evaluator.go:prepareCriteriaWithCoefficients#0", "firstAlternative.Alternative.Criteria");
  ("logic/biases/anchoring/inline-anchoring-applier.go:*InlineAnchoringApplier.ApplyAnchoring#0", "boundingsWithScales");
  ("logic/biases/anchoring/inline-anchoring-applier.go:arithmeticAverage#0", "a.Coefficients");
  ("logic/biases/anchoring/inline-anchoring-applier.go:arithmeticAverage#1", "newWeights");
  ("logic/biases/criteria-mixing/criteria-mixing.go:*criteriaToMix.mix#0", "c1Values");
  ("logic/limited-rationality/satisfaction-levels/satisfaction-levels-update.go:*SatisfactionLevelsUpdateListeners.Fetch#0", "sl.Listeners");
  ("logic/preference-func/choquet/choquet-integral.go:prepareCriteriaInAscendingOrder#0", "alternative.Criteria");
  ("logic/preference-func/choquet/choquet-integral_parsing.go:remapWeights#0", "*weights");
  ("logic/preference-func/choquet/choquet-integral_parsing.go:prepareWeights#0", "*weights");
  ("logic/preference-func/electreIII/electre_III-bias-listener.go:*ElectreIIIBiasLIstener.Merge#0", "*oldEleParams.Criteria");
  ("logic/preference-func/electreIII/electre_III-bias-listener.go:*ElectreIIIBiasLIstener.Merge#1", "*newEleParams.Criteria");
  ("logic/preference-func/electreIII/electre_III-bias-listener.go:*ElectreIIIBiasLIstener.RankCriteriaAscending#0", "*eleParams.Criteria");
  ("logic/preference-func/owa/owa-bias-listener.go:*OwaBiasListener.Merge#0", "newParams.Weights");
  ("logic/preference-func/owa/owa.go:sortAlternativeCriteriaWeights#0", "alternative.Criteria");
  ("model/alternative.go:*AlternativeWithCriteria.WithCriterion#0", "a.Criteria");
  ("model/bias-listener.go:PrepareCumulatedWeightsMap#0", "a.Criteria");
  ("model/bias.go:ChooseBiases#0", "*available");
  ("model/weights.go:*Weights.Merge#0", "*w");
  ("model/weights.go:*Weights.Merge#1", "*other");
  ("model/weights.go:*Weights.Copy#0", "*w");
  ("model/weights.go:*Weights.AsKeyValue#0", "*w");
  ("testUtils/test_utils.go:ValidateWeights#0", "expected")
].

Definition clock_or_global_rand_calls : list string := [].
