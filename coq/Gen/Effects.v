(** GENERATED on every run by tools/gen_effects.py from the Go source (lib and httpClient): syntactic summary of
    writes to state that can outlive a request, of factory methods, and of goroutine starts. *)
From Coq Require Import List String.
Import ListNotations.
Local Open Scope string_scope.

(* (kind, root, function): kind "global" = assignment rooted at a package-level variable outside init;
   kind "receiver" = assignment through a pointer receiver, root = the receiver type *)
Definition shared_writes : list (string * string * string) := [
  ("receiver", "additionalCriterionAnchoringState", "*additionalCriterionAnchoringState.newCriterion");
  ("receiver", "IdealCoefficientSatisfactionLevels", "*IdealCoefficientSatisfactionLevels.Initialize");
  ("receiver", "IdealCoefficientSatisfactionLevels", "*IdealCoefficientSatisfactionLevels.Next");
  ("receiver", "ThresholdSatisfactionLevels", "*ThresholdSatisfactionLevels.Initialize");
  ("receiver", "ThresholdSatisfactionLevels", "*ThresholdSatisfactionLevels.Next");
  ("receiver", "criteriaWeights", "*criteriaWeights.Swap");
  ("receiver", "AlternativeResults", "*AlternativeResults.Swap");
  ("receiver", "AlternativesRanking", "*AlternativesRanking.ReverseOrder")
].

(* factory methods handing out per-request objects: (function, what it returns) *)
Definition factories : list (string * string) := [
  ("*ImportanceRatioReferenceCriterionManager.NewProvider", "fresh");
  ("*RandomUniformReferenceCriterionManager.NewProvider", "fresh");
  ("*RandomWeightedReferenceCriterionManager.NewProvider", "fresh");
  ("*ExpFromZeroAnchoringEvaluator.BlankParams", "fresh");
  ("*IdealReferenceAlternativeEvaluator.BlankParams", "receiver(fields=0)");
  ("*NadirReferenceAlternativeEvaluator.BlankParams", "receiver(fields=0)");
  ("*InlineAnchoringApplier.BlankParams", "fresh");
  ("*LinearAnchoringEvaluator.BlankParams", "fresh");
  ("*NewCriterionAnchoringApplier.BlankParams", "fresh");
  ("*ConstFatigueFunction.BlankParams", "fresh");
  ("*ExponentialFromZeroFatigue.BlankParams", "fresh");
  ("*IdealCoefficientSatisfactionLevelsSource.BlankParams", "fresh");
  ("*ThresholdSatisfactionLevelsSource.BlankParams", "fresh")
].

Definition go_statements : list string := [].
