(** GENERATED on every run by tools/gen_consts.py from the Go source (non-test code of lib): every package-level string
    constant with the value the type checker gives it, and every non-zero floating-point literal with its exact decimal
    value (numerator, denominator). The binary64 the compiler rounds each literal to is in Gen/ConstsF.v. *)
From Coq Require Import List String ZArith.
Import ListNotations.
Local Open Scope string_scope.

(* package directory, file:name, value *)
Definition go_string_consts : list (string * string * string) := [
  ("logic/biases/anchoring", "logic/biases/anchoring/anchoring.go:BiasName", "anchoring");
  ("logic/biases/anchoring", "logic/biases/anchoring/exp-from-zero-anchoring.go:ExpFromZeroFunctionName", "expFromZero");
  ("logic/biases/anchoring", "logic/biases/anchoring/ideal-reference-alternative-evaluator.go:IdealReferenceAltEvaluator", "ideal");
  ("logic/biases/anchoring", "logic/biases/anchoring/ideal-reference-alternative-evaluator.go:NadirReferenceAltEvaluator", "nadir");
  ("logic/biases/anchoring", "logic/biases/anchoring/inline-anchoring-applier.go:InlineAnchoringApplierName", "inline");
  ("logic/biases/anchoring", "logic/biases/anchoring/linear-anchoring.go:LinearFunctionName", "linear");
  ("logic/biases/anchoring", "logic/biases/anchoring/new-criterion-anchoring-applier.go:NewCriterionAnchoringApplierName", "newCriterion");
  ("logic/biases/criteria-concealment", "logic/biases/criteria-concealment/criteria-concealment.go:BiasName", "criteriaConcealment");
  ("logic/biases/criteria-concealment", "logic/biases/criteria-concealment/criterion-addition.go:baseConcealedCriterionName", "__concealedCriterion__");
  ("logic/biases/criteria-mixing", "logic/biases/criteria-mixing/criteria-mixing.go:BiasName", "criteriaMixing");
  ("logic/biases/criteria-omission", "logic/biases/criteria-omission/criteria-omission.go:BiasName", "criteriaOmission");
  ("logic/biases/fatigue", "logic/biases/fatigue/const-fatigue-func.go:FatConstFunc", "const");
  ("logic/biases/fatigue", "logic/biases/fatigue/exp-fatigue-func.go:FatExpFromZero", "expFromZero");
  ("logic/biases/fatigue", "logic/biases/fatigue/fatigue.go:BiasName", "fatigue");
  ("logic/biases/preference-reversal", "logic/biases/preference-reversal/preference-reversal.go:BiasName", "preferenceReversal");
  ("logic/limited-rationality/aspect-elimination", "logic/limited-rationality/aspect-elimination/aspect-elimination.go:methodName", "aspectEliminationHeuristic");
  ("logic/limited-rationality/majority", "logic/limited-rationality/majority/draw-resolution.go:CurrentIsWinnerResolverName", "current");
  ("logic/limited-rationality/majority", "logic/limited-rationality/majority/draw-resolution.go:DrawAllowedResolverName", "allow");
  ("logic/limited-rationality/majority", "logic/limited-rationality/majority/draw-resolution.go:NewerIsWinnerResolverName", "newer");
  ("logic/limited-rationality/majority", "logic/limited-rationality/majority/draw-resolution.go:RandomIsWinnerResolverName", "random");
  ("logic/limited-rationality/majority", "logic/limited-rationality/majority/majority.go:methodName", "majorityHeuristic");
  ("logic/limited-rationality/satisfaction-levels", "logic/limited-rationality/satisfaction-levels/decreasing-coefficient.go:IdealDecreasingMul", "idealMultipliedCoefficient");
  ("logic/limited-rationality/satisfaction-levels", "logic/limited-rationality/satisfaction-levels/decreasing-coefficient.go:IdealSubtractive", "idealSubtractiveCoefficient");
  ("logic/limited-rationality/satisfaction-levels", "logic/limited-rationality/satisfaction-levels/increasing-coefficient.go:IdealAdditive", "idealAdditiveCoefficient");
  ("logic/limited-rationality/satisfaction-levels", "logic/limited-rationality/satisfaction-levels/increasing-coefficient.go:IdealIncreasingMul", "idealMultipliedCoefficient");
  ("logic/limited-rationality/satisfaction-levels", "logic/limited-rationality/satisfaction-levels/threshold-satisfaction-levels.go:Thresholds", "thresholds");
  ("logic/limited-rationality/satisfaction", "logic/limited-rationality/satisfaction/satisfaction.go:methodName", "satisfactionHeuristic");
  ("logic/preference-func/choquet", "logic/preference-func/choquet/choquet-integral.go:methodName", "choquetIntegral");
  ("logic/preference-func/choquet", "logic/preference-func/choquet/choquet-integral_parsing.go:criteriaSeparator", ",");
  ("logic/preference-func/electreIII", "logic/preference-func/electreIII/electre_III.go:methodName", "electreIII");
  ("logic/preference-func/electreIII", "logic/preference-func/electreIII/electre_III_parsing.go:criteria", "electreCriteria");
  ("logic/preference-func/electreIII", "logic/preference-func/electreIII/electre_III_parsing.go:distillationFun", "electreDistillation");
  ("logic/preference-func/owa", "logic/preference-func/owa/owa.go:methodName", "owa");
  ("logic/preference-func/weighted-sum", "logic/preference-func/weighted-sum/weighted-sum.go:methodName", "weightedSum");
  ("model/criteria-ordering", "model/criteria-ordering/random-criteria-resolver.go:RandomCriteria", "random");
  ("model/criteria-ordering", "model/criteria-ordering/strongest-by-probability-criteria-resolver.go:StrongestByProbabilityCriteriaFirst", "strongestByProbability");
  ("model/criteria-ordering", "model/criteria-ordering/strongest-criteria-resolver.go:StrongestCriteriaFirst", "strongest");
  ("model/criteria-ordering", "model/criteria-ordering/weakest-by-probability-criteria-resolver.go:WeakestByProbabilityCriteriaFirst", "weakestByProbability");
  ("model/criteria-ordering", "model/criteria-ordering/weakest-criteria-resolver.go:WeakestCriteriaFirst", "weakest");
  ("model", "model/criterion.go:Cost", "cost");
  ("model", "model/criterion.go:Gain", "gain");
  ("model", "model/decision-maker-helpers.go:WeightsParam", "weights");
  ("model/reference-criterion", "model/reference-criterion/importance-reference-criterion.go:ImportanceRatioReferenceCriterion", "importanceRatio");
  ("model/reference-criterion", "model/reference-criterion/random-uniform-reference-criterion.go:RandomUniformReferenceCriterion", "randomUniform");
  ("model/reference-criterion", "model/reference-criterion/random-weighted-reference-criterion.go:RandomWeightedReferenceCriterion", "randomWeighted");
  ("utils", "utils/exp-from-zero.go:ExpFromZeroFunctionName", "expFromZero");
  ("utils", "utils/linear-function.go:LinearFunctionName", "linear")
].

(* package directory, file:function (or <package>.name), literal as written, (numerator, denominator) *)
Definition go_float_literals : list (string * string * string * (Z * Z)) := [
  ("logic/biases/anchoring", "logic/biases/anchoring/new-criterion-anchoring-applier.go:<package>._minAllowedWeight", "0.01", ((1)%Z, (100)%Z));
  ("logic/biases/criteria-mixing", "logic/biases/criteria-mixing/criteria-mixing.go:parseProps", "0.5", ((1)%Z, (2)%Z));
  ("logic/biases/fatigue", "logic/biases/fatigue/fatigue.go:blurCriteriaValues", "0.5", ((1)%Z, (2)%Z));
  ("logic/biases/fatigue", "logic/biases/fatigue/fatigue.go:blurCriteriaValues", "1.0", ((1)%Z, (1)%Z));
  ("logic/limited-rationality/aspect-elimination", "logic/limited-rationality/aspect-elimination/aspect-elimination.go:sortCriteria", "0.5", ((1)%Z, (2)%Z));
  ("logic/limited-rationality/majority", "logic/limited-rationality/majority/draw-resolution.go:*RandomWinnerResolver.Resolve", "0.5", ((1)%Z, (2)%Z));
  ("logic/limited-rationality/majority", "logic/limited-rationality/majority/majority.go:<package>.eps", "1e-6", ((1)%Z, (1000000)%Z));
  ("logic/preference-func/choquet", "logic/preference-func/choquet/choquet-integral.go:computeTotalWeight", "0.00001", ((1)%Z, (100000)%Z));
  ("logic/preference-func/electreIII", "logic/preference-func/electreIII/distilation.go:<package>.DefaultDistillationFunc", "-.15", ((-3)%Z, (20)%Z));
  ("logic/preference-func/electreIII", "logic/preference-func/electreIII/distilation.go:<package>.DefaultDistillationFunc", ".3", ((3)%Z, (10)%Z));
  ("model", "model/alternative.go:<package>.roundPrecision", "1e8", ((100000000)%Z, (1)%Z));
  ("model/criteria-bounding", "model/criteria-bounding/criteria-bounding.go:DefaultParams", "-1.0", ((-1)%Z, (1)%Z));
  ("testUtils", "testUtils/test_utils.go:ValidateWeights", "1e-6", ((1)%Z, (1000000)%Z));
  ("utils", "utils/utils.go:Differs", "1e-8", ((1)%Z, (100000000)%Z));
  ("utils", "utils/utils.go:validateValue", "1e-6", ((1)%Z, (1000000)%Z))
].
