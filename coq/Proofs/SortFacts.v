(** * Facts about the stable insertion sort of Base/Util.v *)
From Coq Require Import Bool List Permutation Sorted Relations.
From RDM Require Import Base.Util.
Import ListNotations.

Section SortFacts.
  Context {A : Type} (lt : A -> A -> bool).

  Lemma insert_perm x l : Permutation (insert lt x l) (x :: l).
  Proof.
    induction l as [|y r IH]; cbn [insert]; [reflexivity|].
    destruct (lt y x); [|reflexivity].
    rewrite IH. apply perm_swap.
  Qed.

  Lemma isort_perm l : Permutation (isort lt l) l.
  Proof.
    induction l as [|x r IH]; cbn [isort]; [reflexivity|].
    rewrite insert_perm. now constructor.
  Qed.

  Lemma isort_length l : length (isort lt l) = length l.
  Proof. apply Permutation_length, isort_perm. Qed.

  Lemma isort_in x l : In x (isort lt l) <-> In x l.
  Proof. split; apply Permutation_in; [|symmetry]; apply isort_perm. Qed.

  (** sortedness with respect to "not (lt b a)" for consecutive a b, under totality *)
  Definition le (a b : A) : Prop := lt b a = false.

  Lemma insert_sorted x l :
    (forall a b, lt a b = false -> lt b a = false \/ lt b a = true) ->
    (forall a b c, le a b -> le b c -> le a c) ->
    (forall a b, lt a b = true -> le a b) ->
    StronglySorted le l -> StronglySorted le (insert lt x l).
  Proof.
    intros _ Htrans Hlt Hs. induction Hs as [|y r Hr IH Hall]; cbn [insert].
    - repeat constructor.
    - destruct (lt y x) eqn:E.
      + constructor; [exact IH|].
        rewrite Forall_forall. intros z Hz.
        apply (Permutation_in _ (insert_perm x r)) in Hz. destruct Hz as [<-|Hz].
        * now apply Hlt.
        * rewrite Forall_forall in Hall. now apply Hall.
      + constructor; [now constructor|].
        constructor; [exact E|].
        rewrite Forall_forall in *. intros z Hz. eapply Htrans; [exact E|]. now apply Hall.
  Qed.

  Lemma isort_sorted l :
    (forall a b c, le a b -> le b c -> le a c) ->
    (forall a b, lt a b = true -> le a b) ->
    StronglySorted le (isort lt l).
  Proof.
    intros Htrans Hlt. induction l as [|x r IH]; cbn [isort]; [constructor|].
    apply insert_sorted; auto. intros a b H. destruct (lt b a); auto.
  Qed.

  (** uniqueness: two strongly sorted permutations of each other are equal when [le] is
      antisymmetric on the elements present *)
  Lemma sorted_perm_unique l1 l2 :
    (forall a b, In a l1 -> In b l1 -> le a b -> le b a -> a = b) ->
    StronglySorted le l1 -> StronglySorted le l2 -> Permutation l1 l2 -> l1 = l2.
  Proof.
    revert l2. induction l1 as [|x r IH]; intros l2 Hanti S1 S2 P.
    - apply Permutation_nil in P. now subst.
    - destruct l2 as [|y s]; [apply Permutation_sym, Permutation_nil in P; discriminate|].
      inversion S1 as [|? ? Sr Hx]; subst. inversion S2 as [|? ? Ss Hy]; subst.
      assert (x = y) as ->.
      { assert (In y (x :: r)) as Iy by (eapply Permutation_in; [symmetry; exact P|now left]).
        assert (In x (y :: s)) as Ix by (eapply Permutation_in; [exact P|now left]).
        destruct Iy as [->|Iy]; [reflexivity|]. destruct Ix as [->|Ix]; [reflexivity|].
        rewrite Forall_forall in Hx, Hy.
        apply Hanti; [now left|now right|now apply Hx|now apply Hy]. }
      f_equal. apply IH; auto.
      + intros a b Ia Ib. apply Hanti; now right.
      + now apply Permutation_cons_inv in P.
  Qed.

  Lemma isort_perm_invariant l1 l2 :
    (forall a b c, le a b -> le b c -> le a c) ->
    (forall a b, lt a b = true -> le a b) ->
    (forall a b, In a l1 -> In b l1 -> le a b -> le b a -> a = b) ->
    Permutation l1 l2 -> isort lt l1 = isort lt l2.
  Proof.
    intros Htrans Hlt Hanti P.
    apply sorted_perm_unique.
    - intros a b Ia Ib. apply Hanti; now apply isort_in.
    - now apply isort_sorted.
    - now apply isort_sorted.
    - rewrite !isort_perm. exact P.
  Qed.
End SortFacts.
