(** * C19: anchoring shifts values by gains and losses against the reference point.
    All theorems are on the exact-rational instance [NumQc].

    Contents
    - 0. generic facts on folds over canonical maps
    - 2. [diff_spec], [diff_spec_coeff], [criteria_scaling_spec]: the mapped signed scaled differences
    - 3. [average_spec], [inline_value], [not_considered_only_if_asked]: the inline applier
    - 4. [zero_functions_identity]
    - 1. [reference_point_spec], [reference_point_first_alt_keys], zero-coefficient lemmas
    - 6. [anchoring_inline_passes_checker]
    - 5. [normalized_weights_sum_one], [new_criterion_value]
    - 6b. [anchoring_passes_checker] (both appliers)
    - 7. evaluated examples showing that the added hypotheses are needed *)
From Coq Require Import ZArith QArith Qcanon Qabs Bool List String Lia Lqa Sorted Permutation.
From RDM Require Import Base.Num Base.NumQc Base.Util Model.Data Model.Rank Model.Utility Model.Levels
  Model.Heuristics Model.Electre Model.Listeners Model.Biases Model.Anchoring Check.Stage Check.BiasCheckers
  Proofs.SortFacts Proofs.LevelFacts Proofs.AggregateFacts Proofs.WfFacts.
Import ListNotations.
Local Open Scope string_scope.
Local Open Scope list_scope.
Local Open Scope Qc_scope.



(** ** 0. Generic facts *)
Lemma fold_left_ext {A B} (f g : A -> B -> A) : (forall a b, f a b = g a b) ->
  forall l i, fold_left f l i = fold_left g l i.
Proof. intros H. induction l as [|x r IH]; intros i; cbn [fold_left]; [reflexivity|]. rewrite H. apply IH. Qed.

Lemma fold_left_ext_in {A B} (f g : A -> B -> A) : forall l i,
  (forall a b, In b l -> f a b = g a b) -> fold_left f l i = fold_left g l i.
Proof.
  induction l as [|x r IH]; intros i H; cbn [fold_left]; [reflexivity|].
  rewrite H by now left. apply IH. intros a b Hb. apply H. now right.
Qed.

Lemma str_eqb_sym (a b : string) : String.eqb a b = String.eqb b a.
Proof.
  destruct (String.eqb a b) eqn:E; symmetry.
  - apply String.eqb_eq in E. subst. apply String.eqb_refl.
  - apply String.eqb_neq. apply String.eqb_neq in E. congruence.
Qed.

(* a fold that stores, under the key of each element, a value computed from the element alone *)
Lemma fold_mset_spec {B V} (key : B -> string) (val : B -> res V) : forall l m0 fin,
  fold_left (fun acc x => do m <- acc; do v <- val x; Ok (mset (key x) v m)) l (Ok m0) = Ok fin ->
  NoDup (map key l) ->
  (forall x, In x l -> exists v, val x = Ok v /\ mget (key x) fin = Some v) /\
  (forall k, ~ In k (map key l) -> mget k fin = mget k m0).
Proof.
  induction l as [|x r IH]; intros m0 fin H ND; cbn [fold_left bind] in H.
  - injection H as <-. split; [intros x []|reflexivity].
  - destruct (val x) as [v|e] eqn:E; cbn [bind] in H.
    2:{ rewrite (fold_res_err (fun m x => do v <- val x; Ok (mset (key x) v m))) in H. discriminate. }
    cbn [map] in ND. inversion ND as [|k0 l0 Hnotin ND']; subst.
    destruct (IH _ _ H ND') as [IH1 IH2]. split.
    + intros y [<-|Hy].
      * exists v. split; [exact E|]. rewrite (IH2 _ Hnotin). apply mget_mset_same.
      * apply IH1, Hy.
    + intros k Hk. cbn [map In] in Hk. rewrite IH2 by tauto.
      apply mget_mset_other. intros ->. apply Hk. now left.
Qed.

Lemma fold_mset_keys {B V} (key : B -> string) (val : B -> res V) : forall l m0 fin,
  fold_left (fun acc x => do m <- acc; do v <- val x; Ok (mset (key x) v m)) l (Ok m0) = Ok fin ->
  forall k, In k (mkeys fin) <-> In k (map key l) \/ In k (mkeys m0).
Proof.
  induction l as [|x r IH]; intros m0 fin H k; cbn [fold_left bind] in H.
  - injection H as <-. cbn [map In]. tauto.
  - destruct (val x) as [v|e] eqn:E; cbn [bind] in H.
    2:{ rewrite (fold_res_err (fun m x => do v <- val x; Ok (mset (key x) v m))) in H. discriminate. }
    rewrite (IH _ _ H k), mkeys_mset. cbn [map In]. split; intros [A|A]; auto.
    + destruct A as [A|A]; auto.
    + destruct A as [A|A]; auto.
Qed.

Lemma fold_mset_back {B V} (key : B -> string) (val : B -> res V) : forall l m0 fin,
  fold_left (fun acc x => do m <- acc; do v <- val x; Ok (mset (key x) v m)) l (Ok m0) = Ok fin ->
  forall k v, mget k fin = Some v -> mget k m0 = Some v \/ exists x, In x l /\ key x = k /\ val x = Ok v.
Proof.
  induction l as [|x r IH]; intros m0 fin H k v Hk; cbn [fold_left bind] in H.
  - injection H as <-. now left.
  - destruct (val x) as [v0|e] eqn:E; cbn [bind] in H.
    2:{ rewrite (fold_res_err (fun m x => do v <- val x; Ok (mset (key x) v m))) in H. discriminate. }
    destruct (IH _ _ H k v Hk) as [A|(y & A1 & A2 & A3)].
    + destruct (string_dec k (key x)) as [->|NE].
      * rewrite mget_mset_same in A. injection A as ->. right. exists x. split; [now left|]. split; [reflexivity|exact E].
      * rewrite mget_mset_other in A by exact NE. now left.
    + right. exists y. split; [now right|]. split; assumption.
Qed.

(** ** 2. Differences against a reference point *)
(* gain of a positive scaled difference, negated loss of the negated difference otherwise *)
Definition mapped (e : @env NumQc) (loss gain : @fparams NumQc) (d : Qc) : res Qc :=
  if @nltb NumQc nzero d then eval_fun e gain d
  else do l <- eval_fun e loss (nopp d); Ok (nopp l).

Lemma mapped_diff_mapped e (p : @bprops NumQc) d :
  mapped_diff e p d = mapped e (bp_anch_loss p) (bp_anch_gain p) d.
Proof. reflexivity. Qed.

Lemma mapped_pos e loss gain d : 0 < d -> mapped e loss gain d = eval_fun e gain d.
Proof. intros H. unfold mapped. apply nltb_iff in H. change (@nltb NumQc nzero d = true) in H. now rewrite H. Qed.
Lemma mapped_nonpos e loss gain d : d <= 0 ->
  mapped e loss gain d = do l <- eval_fun e loss (- d); Ok (- l).
Proof. intros H. unfold mapped. apply nltb_false_iff in H. change (@nltb NumQc nzero d = false) in H. now rewrite H. Qed.

Notation sct := (@crit NumQc * (@num NumQc * (@num NumQc * @num NumQc)))%type.
Definition sc_ids (sc : list sct) : list string := map (fun cs => c_id (fst cs)) sc.

Definition diff_val (e : @env NumQc) (a r : @alt NumQc) (loss gain : @fparams NumQc)
           (cs : sct) : res Qc :=
  do va <- crit_value a (@fst (@crit NumQc) (@num NumQc * (@num NumQc * @num NumQc)) cs);
  do vr <- crit_value r (@fst (@crit NumQc) (@num NumQc * (@num NumQc * @num NumQc)) cs);
  mapped e loss gain ((va - vr) * @fst (@num NumQc) (@num NumQc * @num NumQc) (snd cs)).

Lemma ref_diffs_fold e sc a r loss gain :
  ref_diffs e sc a r loss gain =
  fold_left (fun acc x => do m <- acc; do v <- diff_val e a r loss gain x; Ok (mset (c_id (fst x)) v m)) sc (Ok []).
Proof.
  unfold ref_diffs. apply fold_left_ext. intros acc cs. unfold diff_val, mapped.
  destruct acc as [m|err]; cbn [bind]; [|reflexivity]. cbv zeta.
  destruct (crit_value a (fst cs)) as [va|]; cbn [bind]; [|reflexivity].
  destruct (crit_value r (fst cs)) as [vr|]; cbn [bind]; reflexivity.
Qed.

(** [diff_spec]: every coefficient is the mapped signed scaled difference *)
Theorem diff_spec e sc a r loss gain m :
  forall (Hnd_sc : NoDup (sc_ids sc)),
  ref_diffs e sc a r loss gain = Ok m ->
  forall c s rg, In (c, (s, rg)) sc ->
    exists va vr v, raw_value a c = Ok va /\ raw_value r c = Ok vr /\
                    mapped e loss gain ((sgn c va - sgn c vr) * s) = Ok v /\
                    mget (c_id c) m = Some v.
Proof.
  intros ND H c s rg Hin. rewrite ref_diffs_fold in H.
  destruct (fold_mset_spec _ _ _ _ _ H ND) as [H1 _].
  destruct (H1 _ Hin) as (v & Hv & Hm). cbn [fst snd] in *.
  unfold diff_val, crit_value in Hv. cbn [fst snd] in Hv.
  destruct (raw_value a c) as [va|] eqn:Ea; cbn [bind] in Hv; [|discriminate].
  destruct (raw_value r c) as [vr|] eqn:Er; cbn [bind] in Hv; [|discriminate].
  exists va, vr, v. repeat split; assumption.
Qed.

(* without [Hnd_sc]: every coefficient of the result is the mapped difference of some entry with that identifier *)
Theorem diff_spec_coeff e sc a r loss gain m :
  ref_diffs e sc a r loss gain = Ok m ->
  forall k v, mget k m = Some v ->
    exists c s rg va vr, In (c, (s, rg)) sc /\ c_id c = k /\ raw_value a c = Ok va /\ raw_value r c = Ok vr /\
                         mapped e loss gain ((sgn c va - sgn c vr) * s) = Ok v.
Proof.
  intros H k v Hk. rewrite ref_diffs_fold in H.
  destruct (fold_mset_back _ _ _ _ _ H k v Hk) as [A|([c [s rg]] & Hin & Hkey & Hv)]; [discriminate|].
  cbn [fst snd] in *. unfold diff_val, crit_value in Hv. cbn [fst snd] in Hv.
  destruct (raw_value a c) as [va|] eqn:Ea; cbn [bind] in Hv; [|discriminate].
  destruct (raw_value r c) as [vr|] eqn:Er; cbn [bind] in Hv; [|discriminate].
  exists c, s, rg, va, vr. repeat split; assumption.
Qed.

Theorem diff_keys e sc a r loss gain m :
  ref_diffs e sc a r loss gain = Ok m -> forall k, In k (mkeys m) <-> In k (sc_ids sc).
Proof.
  intros H k. rewrite ref_diffs_fold in H. rewrite (fold_mset_keys _ _ _ _ _ H k). cbn [mkeys map In]. unfold sc_ids. tauto.
Qed.

(** the scale is the inverse of the range width (0 for an empty range) *)
Lemma scale_ratio_unit (r : @num NumQc * @num NumQc) :
  @scale_ratio NumQc (nzero, none) r =
  if @neqb NumQc (@range_diff NumQc r) nzero then nzero else @ndiv NumQc none (@range_diff NumQc r).
Proof.
  unfold scale_ratio. destruct (neqb (range_diff r) nzero); [reflexivity|].
  unfold range_diff at 1. cbn [fst snd]. f_equal.
Qed.

Lemma scale_ratio_spec (mn mx : Qc) :
  @scale_ratio NumQc (nzero, none) (mn, mx) = if Qc_eq_dec (mx - mn) 0 then 0 else 1 / (mx - mn).
Proof.
  rewrite scale_ratio_unit. unfold range_diff. cbn [fst snd].
  destruct (neqb _ _) eqn:E; bconv; qcn.
  - destruct (Qc_eq_dec (mx - mn) 0); [reflexivity|contradiction].
  - destruct (Qc_eq_dec (mx - mn) 0); [contradiction|reflexivity].
Qed.

Theorem criteria_scaling_spec cs all sc :
  @criteria_scaling NumQc cs all = Ok sc ->
  map fst sc = cs /\
  forall c s mn mx, In (c, (s, (mn, mx))) sc ->
    In c cs /\ values_range all c = Ok (mn, mx) /\ s = (if Qc_eq_dec (mx - mn) 0 then 0 else 1 / (mx - mn)).
Proof.
  unfold criteria_scaling. revert sc. induction cs as [|c0 cs IH]; intros sc H; cbn [mapM] in H.
  - injection H as <-. split; [reflexivity|intros ? ? ? ? []].
  - apply bind_ok in H as (y & Hy & H). apply bind_ok in H as (ys & Hys & H). injection H as <-.
    apply bind_ok in Hy as (r0 & Hr0 & Hy). injection Hy as <-.
    destruct (IH _ Hys) as [IH1 IH2]. split; [cbn [map fst]; now rewrite IH1|].
    intros c s mn mx [Hin|Hin].
    + injection Hin as E1 E2 E3. subst c s r0. split; [now left|]. split; [exact Hr0|]. apply scale_ratio_spec.
    + destruct (IH2 _ _ _ _ Hin) as (A & B & C). split; [now right|]. split; assumption.
Qed.

Lemma criteria_scaling_ids cs all sc : @criteria_scaling NumQc cs all = Ok sc -> sc_ids sc = map c_id cs.
Proof.
  intros H. destruct (criteria_scaling_spec _ _ _ H) as [H1 _]. unfold sc_ids. rewrite <- H1, map_map. reflexivity.
Qed.

Lemma criteria_scaling_in cs all sc c :
  @criteria_scaling NumQc cs all = Ok sc -> In c cs ->
  exists rg, values_range all c = Ok rg /\ In (c, (scale_ratio (nzero, none) rg, rg)) sc.
Proof.
  unfold criteria_scaling. intros H Hc. destruct (mapM_ok_in _ _ _ _ H Hc) as (y & Hy & Hin).
  apply bind_ok in Hy as (rg & Hrg & Hy). injection Hy as <-. eauto.
Qed.



(** ** 3a. The arithmetic average of the reference-point differences *)
Definition col (k : string) (pts : list (string * smap (@num NumQc))) : list Qc :=
  flat_map (fun p => match mget k (snd p) with Some x => [x] | None => [] end) pts.

Lemma average_single (pt : string * smap (@num NumQc)) : @average NumQc [pt] = Ok (snd pt).
Proof. reflexivity. Qed.

Lemma mget_map_val {A B} (g : A -> B) (k : string) (m : smap A) :
  mget k (map (fun kv => (fst kv, g (snd kv))) m) = option_map g (mget k m).
Proof.
  induction m as [|[k' v'] m IH]; cbn [map mget fst snd]; [reflexivity|].
  destruct (String.eqb k k'); [reflexivity|exact IH].
Qed.

Lemma mkeys_map_val {A B} (g : A -> B) (m : smap A) :
  mkeys (map (fun kv => (fst kv, g (snd kv))) m) = mkeys m.
Proof. unfold mkeys. rewrite map_map. reflexivity. Qed.

Lemma nodup_in_mget {A} (l : smap A) k v : NoDup (mkeys l) -> In (k, v) l -> mget k l = Some v.
Proof.
  induction l as [|[k' v'] l IH]; intros ND Hin; [destruct Hin|].
  cbn [mkeys map fst] in ND. inversion ND as [|x y Hn ND']; subst.
  cbn [mget]. destruct Hin as [E|Hin].
  - injection E as -> ->. now rewrite String.eqb_refl.
  - destruct (String.eqb k k') eqn:E.
    + apply String.eqb_eq in E. subst. exfalso. apply Hn. change (In (fst (k', v)) (map fst l)). now apply in_map.
    + now apply IH.
Qed.

Definition add_step (m : smap (@num NumQc)) (kv : string * @num NumQc) : res (smap (@num NumQc)) :=
  do old <- of_option (mget (fst kv) m) EMissing; Ok (mset (fst kv) (@nadd NumQc old (snd kv)) m).

Lemma add_fold_spec : forall (l : smap (@num NumQc)) m fin,
  fold_left (fun acc kv => do m <- acc; add_step m kv) l (Ok m) = Ok fin ->
  NoDup (mkeys l) ->
  (forall k v, In (k, v) l -> exists old, mget k m = Some old /\ mget k fin = Some (old + v)) /\
  (forall k, ~ In k (mkeys l) -> mget k fin = mget k m).
Proof.
  induction l as [|[k0 v0] l IH]; intros m fin H ND; cbn [fold_left bind] in H.
  - injection H as <-. split; [intros k v []|reflexivity].
  - unfold add_step at 2 in H. cbn [fst snd] in H.
    destruct (mget k0 m) as [old|] eqn:E; cbn [of_option bind] in H.
    2:{ rewrite (fold_res_err add_step) in H. discriminate. }
    cbn [mkeys map fst] in ND. inversion ND as [|x y Hn ND']; subst.
    destruct (IH _ _ H ND') as [IH1 IH2]. split.
    + intros k v [Hin|Hin].
      * injection Hin as <- <-. exists old. split; [exact E|]. rewrite (IH2 _ Hn). apply mget_mset_same.
      * destruct (IH1 _ _ Hin) as (old1 & A & B). exists old1. split; [|exact B].
        rewrite <- A. symmetry. apply mget_mset_other. intros ->. apply Hn.
        change (In (fst (k0, v)) (map fst l)). now apply in_map.
    + intros k Hk. cbn [mkeys map fst In] in Hk. rewrite IH2 by (unfold mkeys; tauto).
      apply mget_mset_other. intros ->. apply Hk. now left.
Qed.

Lemma add_fold_mget (l : smap (@num NumQc)) m fin k :
  fold_left (fun acc kv => do m <- acc; add_step m kv) l (Ok m) = Ok fin -> NoDup (mkeys l) ->
  mget k fin = match mget k m, mget k l with
               | Some old, Some v => Some (old + v)
               | o, _ => o
               end.
Proof.
  intros H ND. destruct (add_fold_spec _ _ _ H ND) as [H1 H2].
  destruct (mget k l) as [v|] eqn:E.
  - apply mget_in in E. destruct (H1 _ _ E) as (old & A & B). now rewrite A, B.
  - apply mget_none_iff in E. rewrite (H2 _ E). destruct (mget k m); reflexivity.
Qed.

Lemma sum_fold_mget : forall (rest : list (string * smap (@num NumQc))) m fin k,
  fold_left (fun acc p => fold_left (fun acc2 kv => do m <- acc2; add_step m kv) (snd p) acc) rest (Ok m) = Ok fin ->
  (forall p, In p rest -> NoDup (mkeys (snd p))) ->
  mget k fin = match mget k m with Some x => Some (x + nsum (col k rest)) | None => None end.
Proof.
  induction rest as [|p rest IH]; intros m fin k H ND; cbn [fold_left] in H.
  - injection H as <-. cbn [col flat_map nsum]. destruct (mget k m); [|reflexivity]. f_equal. qcr.
  - match type of H with fold_left _ rest ?X = _ => remember X as r1 eqn:E in H end.
    symmetry in E. destruct r1 as [m1|e].
    2:{ exfalso. clear - H. revert H. induction rest as [|q rest IH]; cbn [fold_left]; [discriminate|].
        rewrite (fold_res_err add_step). exact IH. }
    rewrite (IH _ _ k H (fun q Hq => ND q (or_intror Hq))).
    rewrite (add_fold_mget _ _ _ k E (ND p (or_introl eq_refl))).
    unfold col. cbn [flat_map]. fold (col k rest).
    unfold smap in *.
    repeat match goal with |- context [match mget ?k ?l with _ => _ end] => destruct (mget k l) end;
      try reflexivity; f_equal; cbn [app nsum]; qcr.
Qed.

Lemma ofnat_gt1 n : @nltb NumQc none (nofZ (Z.of_nat (S (S n)))) = true.
Proof.
  apply nltb_iff. cbn [nofZ NumQc]. unfold qc_ofZ, Qclt. rewrite this_ofnat.
  change (inject_Z 1 < inject_Z (Z.of_nat (S (S n))))%Q. rewrite <- Zlt_Qlt. lia.
Qed.

Lemma div_one (x : Qc) : x / Q2Qc (inject_Z 1) = x.
Proof. change (Q2Qc (inject_Z 1)) with 1. unfold Qcdiv. change (/ 1) with 1. ring. Qed.

(** [average_spec]: coordinate-wise mean over the points (keys of the first point) *)
Theorem average_spec p0 rest avg :
  (forall p, In p rest -> NoDup (mkeys (snd p))) ->
  @average NumQc (p0 :: rest) = Ok avg ->
  forall k, mget k avg = match mget k (snd p0) with
                         | Some _ => Some (nsum (col k (p0 :: rest)) / @nofZ NumQc (Z.of_nat (List.length (p0 :: rest))))
                         | None => None
                         end.
Proof.
  intros ND H k. unfold average in H. apply bind_ok in H as (sum & Hs & H).
  change (fold_left (fun acc p => fold_left (fun acc2 kv => do m <- acc2; add_step m kv) (snd p) acc) rest (Ok (snd p0)) = Ok sum) in Hs.
  pose proof (sum_fold_mget _ _ _ k Hs ND) as Hk.
  assert (Hc : col k (p0 :: rest) = match mget k (snd p0) with Some x => x :: col k rest | None => col k rest end).
  { unfold col. cbn [flat_map]. destruct (mget k (snd p0)); reflexivity. }
  destruct rest as [|p1 rest].
  - cbn [List.length] in H. change (Ok sum = Ok avg) in H. injection H as <-.
    rewrite Hk, Hc. destruct (mget k (snd p0)) as [x|]; [|reflexivity]. f_equal.
    cbn [col flat_map nsum List.length Z.of_nat]. cbn [nofZ NumQc]. unfold qc_ofZ.
    change (Z.pos (Pos.of_succ_nat 0)) with 1%Z. rewrite div_one. qcr.
  - cbn [List.length] in H. rewrite ofnat_gt1 in H. injection H as <-.
    unfold smap in *. cbn [num NumQc] in *.
    match goal with |- context [map (fun kv => (fst kv, snd kv / ?n)) _] =>
      rewrite (mget_map_val (fun x => x / n)) end.
    rewrite Hk, Hc. destruct (mget k (snd p0)) as [x|]; [|reflexivity].
    cbn [option_map nsum List.length]. reflexivity.
Qed.

(** ** 3b. The inline applier *)
Definition inl_new (p : @bprops NumQc) (rg : @num NumQc * @num NumQc) (v d : Qc) : Qc :=
  bound_value p rg (v + (snd rg - fst rg) * d).

Definition inl_step (p : @bprops NumQc) (a : @alt NumQc) (st : smap (@num NumQc) * smap (@num NumQc)) (cs : sct)
  : res (smap (@num NumQc) * smap (@num NumQc)) :=
  let c := fst cs in
  do d <- of_option (mget (c_id c) (fst st)) EMissing;
  do v <- of_option (mget (c_id c) (a_vals a)) EMissing;
  let nv := bound_value p (snd (snd cs)) (nadd v (nmul (range_diff (snd (snd cs))) d)) in
  Ok (mset (c_id c) nv (fst st), mset (c_id c) (nsub nv v) (snd st)).

Lemma inl_fold_spec p a : forall (l : list sct) m0 ap0 m ap,
  fold_left (fun acc cs => do st <- acc; inl_step p a st cs) l (Ok (m0, ap0)) = Ok (m, ap) ->
  NoDup (sc_ids l) ->
  (forall c s rg, In (c, (s, rg)) l ->
     exists d v, mget (c_id c) m0 = Some d /\ mget (c_id c) (a_vals a) = Some v /\
                 mget (c_id c) m = Some (inl_new p rg v d) /\
                 mget (c_id c) ap = Some (inl_new p rg v d - v)) /\
  (forall k, ~ In k (sc_ids l) -> mget k m = mget k m0 /\ mget k ap = mget k ap0).
Proof.
  induction l as [|[c0 [s0 rg0]] l IH]; intros m0 ap0 m ap H ND; cbn [fold_left bind] in H.
  - injection H as <- <-. split; [intros c s rg []|intros; split; reflexivity].
  - unfold inl_step at 2 in H. cbn [fst snd] in H.
    destruct (mget (c_id c0) m0) as [d|] eqn:Ed; cbn [of_option bind] in H.
    2:{ rewrite (fold_res_err (inl_step p a)) in H. discriminate. }
    destruct (mget (c_id c0) (a_vals a)) as [v|] eqn:Ev; cbn [of_option bind] in H.
    2:{ rewrite (fold_res_err (inl_step p a)) in H. discriminate. }
    cbn [sc_ids map fst] in ND. inversion ND as [|x y Hn ND']; subst.
    destruct (IH _ _ _ _ H ND') as [IH1 IH2]. split.
    + intros c s rg [Hin|Hin].
      * injection Hin as <- <- <-. destruct (IH2 _ Hn) as [A B]. exists d, v.
        split; [exact Ed|]. split; [exact Ev|]. rewrite A, B, !mget_mset_same. split; reflexivity.
      * destruct (IH1 _ _ _ Hin) as (d1 & v1 & A & B & C & D). exists d1, v1.
        split; [|repeat split; assumption].
        rewrite <- A. symmetry. apply mget_mset_other. intros E. apply Hn. rewrite <- E.
        unfold sc_ids. change (c_id c) with ((fun cs : sct => c_id (fst cs)) (c, (s, rg))). now apply in_map.
    + intros k Hk. cbn [sc_ids map fst In] in Hk. destruct (IH2 k) as [A B]; [unfold sc_ids; tauto|].
      rewrite A, B. split; apply mget_mset_other; intros ->; apply Hk; now left.
Qed.

(* the per-alternative function of [apply_inline] *)
Definition inl_alt (p : @bprops NumQc) (sc : list sct) (ad : @alt NumQc * list (string * smap (@num NumQc)))
  : res (@alt NumQc * @alt NumQc) :=
  let a := fst ad in
  do avg <- average (snd ad);
  do nd <- fold_left (fun acc cs => do st <- acc; inl_step p a st cs) sc (Ok (avg, []));
  Ok ({| a_id := a_id a; a_vals := fst nd |}, {| a_id := a_id a; a_vals := snd nd |}).

Lemma inl_alt_spec p sc ad b dd :
  inl_alt p sc ad = Ok (b, dd) -> NoDup (sc_ids sc) ->
  a_id b = a_id (fst ad) /\ a_id dd = a_id (fst ad) /\
  exists avg, average (snd ad) = Ok avg /\
    forall c s rg, In (c, (s, rg)) sc ->
      exists mean v, mget (c_id c) avg = Some mean /\ mget (c_id c) (a_vals (fst ad)) = Some v /\
                     mget (c_id c) (a_vals b) = Some (inl_new p rg v mean) /\
                     mget (c_id c) (a_vals dd) = Some (inl_new p rg v mean - v).
Proof.
  intros H ND. unfold inl_alt in H. cbv zeta in H.
  apply bind_ok in H as (avg & Havg & H). apply bind_ok in H as ([m ap] & Hf & H).
  injection H as <- <-. cbn [a_id a_vals fst snd]. split; [reflexivity|]. split; [reflexivity|].
  exists avg. split; [exact Havg|]. destruct (inl_fold_spec _ _ _ _ _ _ _ Hf ND) as [H1 _]. exact H1.
Qed.

Lemma apply_inline_unfold (cur : @state NumQc) p sc diffs :
  apply_inline cur p sc diffs =
  do r <- mapM (inl_alt p sc) diffs;
  do consd <- update_alts (st_cons cur) (map fst r);
  do nconsd <- (if bp_anch_not_considered p then update_alts (st_notcons cur) (map fst r) else Ok (st_notcons cur));
  do rep <- (if bp_anch_not_considered p then Ok (map snd r) else update_alts (st_cons cur) (map snd r));
  Ok ({| st_notcons := nconsd; st_cons := consd; st_crits := st_crits cur; st_params := st_params cur |}, ARInline rep).
Proof. reflexivity. Qed.

(** lookups by identifier *)
Lemma fetch_alt'_find (l : list (@alt NumQc)) id :
  fetch_alt' l id = match find_alt id l with Some a => Ok a | None => Err EMissing end.
Proof.
  induction l as [|a l IH]; cbn [fetch_alt' find_alt find]; [reflexivity|].
  destruct (String.eqb (a_id a) id); [reflexivity|exact IH].
Qed.

Lemma find_alt_id (l : list (@alt NumQc)) id a : find_alt id l = Some a -> a_id a = id /\ In a l.
Proof.
  unfold find_alt. intros H. apply find_some in H as [A B]. apply String.eqb_eq in B. split; assumption.
Qed.

Lemma find_alt_in_ids (l : list (@alt NumQc)) id : In id (map a_id l) -> exists a, find_alt id l = Some a.
Proof.
  induction l as [|a l IH]; intros H; [destruct H|]. cbn [find_alt find].
  destruct (String.eqb (a_id a) id) eqn:E; [eauto|].
  destruct H as [H|H]; [apply String.eqb_neq in E; contradiction|]. apply IH, H.
Qed.

Lemma find_alt_nodup (l : list (@alt NumQc)) a : NoDup (map a_id l) -> In a l -> find_alt (a_id a) l = Some a.
Proof.
  induction l as [|x l IH]; intros ND Hin; [destruct Hin|].
  cbn [map] in ND. inversion ND as [|y z Hn ND']; subst. cbn [find_alt find].
  destruct Hin as [->|Hin]; [now rewrite String.eqb_refl|].
  destruct (String.eqb (a_id x) (a_id a)) eqn:E.
  - apply String.eqb_eq in E. exfalso. apply Hn. rewrite E. now apply in_map.
  - now apply IH.
Qed.

(* looking up an identifier in the image of a [mapM] that keeps identifiers: first match in the source *)
Lemma find_mapM {X} (F : X -> res (@alt NumQc * @alt NumQc)) (idx : X -> string) (G : @alt NumQc * @alt NumQc -> @alt NumQc) :
  forall l r id b,
  mapM F l = Ok r -> (forall x y, In x l -> F x = Ok y -> a_id (G y) = idx x) ->
  find_alt id (map G r) = Some b ->
  exists x y, find (fun x => String.eqb (idx x) id) l = Some x /\ F x = Ok y /\ G y = b.
Proof.
  induction l as [|x l IH]; intros r id b H Hid Hf; cbn [mapM] in H.
  - injection H as <-. discriminate.
  - apply bind_ok in H as (y & Hy & H). apply bind_ok in H as (ys & Hys & H). injection H as <-.
    cbn [map find_alt find] in Hf. cbn [find]. rewrite (Hid x y (or_introl eq_refl) Hy) in Hf.
    destruct (String.eqb (idx x) id) eqn:E.
    + injection Hf as <-. exists x, y. repeat split. exact Hy.
    + apply (IH ys id b Hys); [|exact Hf]. intros x' y' Hx'. apply Hid. now right.
Qed.

Lemma find_mapM_none {X} (F : X -> res (@alt NumQc * @alt NumQc)) (idx : X -> string) (G : @alt NumQc * @alt NumQc -> @alt NumQc) :
  forall l r id,
  mapM F l = Ok r -> (forall x y, In x l -> F x = Ok y -> a_id (G y) = idx x) ->
  find_alt id (map G r) = None -> find (fun x => String.eqb (idx x) id) l = None.
Proof.
  induction l as [|x l IH]; intros r id H Hid Hf; cbn [mapM] in H; [reflexivity|].
  apply bind_ok in H as (y & Hy & H). apply bind_ok in H as (ys & Hys & H). injection H as <-.
  cbn [map find_alt find] in Hf. cbn [find]. rewrite (Hid x y (or_introl eq_refl) Hy) in Hf.
  destruct (String.eqb (idx x) id) eqn:E; [discriminate|].
  apply (IH ys id Hys); [|exact Hf]. intros x' y' Hx'. apply Hid. now right.
Qed.

Lemma update_alts_in (old new l : list (@alt NumQc)) b :
  update_alts old new = Ok l -> In b l -> exists a, In a old /\ a_id b = a_id a /\ find_alt (a_id b) new = Some b.
Proof.
  unfold update_alts. intros H Hb. destruct (mapM_ok_in_inv _ _ _ _ H Hb) as (a & Ha & Hf).
  rewrite fetch_alt'_find in Hf. destruct (find_alt (a_id a) new) as [b'|] eqn:E; [|discriminate].
  injection Hf as ->. destruct (find_alt_id _ _ _ E) as [A _]. exists a. split; [exact Ha|]. split; [exact A|].
  now rewrite A.
Qed.

Lemma update_alts_find (old new l : list (@alt NumQc)) id :
  update_alts old new = Ok l -> In id (map a_id old) ->
  exists dd, find_alt id l = Some dd /\ find_alt id new = Some dd.
Proof.
  unfold update_alts. revert l. induction old as [|a old IH]; intros l H Hin; [destruct Hin|].
  cbn [mapM] in H. apply bind_ok in H as (y & Hy & H). apply bind_ok in H as (ys & Hys & H). injection H as <-.
  rewrite fetch_alt'_find in Hy. destruct (find_alt (a_id a) new) as [dd|] eqn:E; [|discriminate]. injection Hy as ->.
  destruct (find_alt_id _ _ _ E) as [A _]. cbn [find_alt find]. rewrite A.
  destruct (String.eqb (a_id a) id) eqn:E2.
  - apply String.eqb_eq in E2. subst id. eauto.
  - destruct Hin as [Hin|Hin]; [apply String.eqb_neq in E2; contradiction|]. apply (IH ys Hys Hin).
Qed.

Lemma update_alts_ids (old new l : list (@alt NumQc)) : update_alts old new = Ok l -> map a_id l = map a_id old.
Proof.
  unfold update_alts. revert l. induction old as [|a old IH]; intros l H; cbn [mapM] in H.
  - now injection H as <-.
  - apply bind_ok in H as (y & Hy & H). apply bind_ok in H as (ys & Hys & H). injection H as <-.
    cbn [map]. rewrite (IH _ Hys). f_equal. now apply fetch_alt'_id in Hy.
Qed.

(** [inline_value]: every touched alternative gets v' = bound (v + (max - min) * mean), and the report is v' - v *)
Theorem inline_value (cur : @state NumQc) p sc diffs st rep :
  forall (Hnd_sc : NoDup (sc_ids sc)),
  apply_inline cur p sc diffs = Ok (st, ARInline rep) ->
  forall b, In b (st_cons st) \/ (bp_anch_not_considered p = true /\ In b (st_notcons st)) ->
  exists ad avg dd,
    find (fun ad => String.eqb (a_id (fst ad)) (a_id b)) diffs = Some ad /\
    average (snd ad) = Ok avg /\
    find_alt (a_id b) rep = Some dd /\
    forall c s mn mx, In (c, (s, (mn, mx))) sc ->
      exists mean v,
        mget (c_id c) avg = Some mean /\ mget (c_id c) (a_vals (fst ad)) = Some v /\
        mget (c_id c) (a_vals b) = Some (bound_value p (mn, mx) (v + (mx - mn) * mean)) /\
        mget (c_id c) (a_vals dd) = Some (bound_value p (mn, mx) (v + (mx - mn) * mean) - v).
Proof.
  intros ND H b Hb. rewrite apply_inline_unfold in H.
  apply bind_ok in H as (r & Hr & H). apply bind_ok in H as (consd & Hc & H).
  apply bind_ok in H as (nconsd & Hn & H). apply bind_ok in H as (rep' & Hrep & H).
  injection H as <- <-. cbn [st_cons st_notcons] in Hb.
  assert (Hid1 : forall x y, In x diffs -> inl_alt p sc x = Ok y -> a_id (fst y) = a_id (fst x)).
  { intros x [y1 y2] _ Hy. now destruct (inl_alt_spec _ _ _ _ _ Hy ND) as (A & _). }
  assert (Hid2 : forall x y, In x diffs -> inl_alt p sc x = Ok y -> a_id (snd y) = a_id (fst x)).
  { intros x [y1 y2] _ Hy. now destruct (inl_alt_spec _ _ _ _ _ Hy ND) as (_ & A & _). }
  (* b is looked up in the new alternatives by the identifier of an old one *)
  assert (Hfb : exists a0, (In a0 (st_cons cur) \/ bp_anch_not_considered p = true) /\ a_id b = a_id a0 /\
                           find_alt (a_id b) (map fst r) = Some b).
  { destruct Hb as [Hb|[Hflag Hb]].
    - destruct (update_alts_in _ _ _ _ Hc Hb) as (a0 & A & B & C). exists a0. auto.
    - rewrite Hflag in Hn. destruct (update_alts_in _ _ _ _ Hn Hb) as (a0 & A & B & C). exists a0. auto. }
  destruct Hfb as (a0 & Ha0 & Hida & Hfb).
  destruct (find_mapM (inl_alt p sc) (fun x => a_id (fst x)) fst _ _ _ _ Hr Hid1 Hfb) as (ad & [b' dd] & Hfind & Had & Eb).
  cbn [fst] in Eb. subst b'.
  destruct (inl_alt_spec _ _ _ _ _ Had ND) as (Ib & Idd & avg & Havg & Hvals).
  assert (Hdd : find_alt (a_id b) (map snd r) = Some dd).
  { destruct (find_alt (a_id b) (map snd r)) as [dd'|] eqn:E.
    - destruct (find_mapM (inl_alt p sc) (fun x => a_id (fst x)) snd _ _ _ _ Hr Hid2 E) as (ad' & y' & Hfind' & Had' & Edd).
      rewrite Hfind in Hfind'. injection Hfind' as <-. rewrite Had in Had'. injection Had' as <-. cbn [snd] in Edd. now subst.
    - pose proof (find_mapM_none (inl_alt p sc) (fun x => a_id (fst x)) snd _ _ _ Hr Hid2 E) as Hnone.
      cbv beta in Hnone. rewrite Hfind in Hnone. discriminate. }
  exists ad, avg, dd. split; [exact Hfind|]. split; [exact Havg|]. split.
  - destruct (bp_anch_not_considered p) eqn:Hflag.
    + injection Hrep as <-. exact Hdd.
    + destruct Ha0 as [Ha0|Ha0]; [|discriminate].
      destruct (update_alts_find _ _ _ (a_id b) Hrep) as (dd' & A & B).
      { rewrite Hida. now apply in_map. }
      rewrite A. rewrite Hdd in B. now symmetry.
  - intros c s mn mx Hin. destruct (Hvals _ _ _ Hin) as (mean & v & A & B & C & D).
    exists mean, v. unfold inl_new in C, D. cbn [fst snd] in C, D. repeat split; assumption.
Qed.

(** [not_considered_only_if_asked] *)
Theorem not_considered_only_if_asked (cur : @state NumQc) p sc diffs st ar :
  bp_anch_not_considered p = false ->
  apply_inline cur p sc diffs = Ok (st, ar) -> st_notcons st = st_notcons cur.
Proof.
  intros Hflag H. rewrite apply_inline_unfold in H. rewrite Hflag in H.
  apply bind_ok in H as (r & Hr & H). apply bind_ok in H as (consd & Hc & H).
  cbn [bind] in H. apply bind_ok in H as (rep' & Hrep & H). injection H as <- _. reflexivity.
Qed.

Lemma apply_inline_frame (cur : @state NumQc) p sc diffs st ar :
  apply_inline cur p sc diffs = Ok (st, ar) ->
  st_crits st = st_crits cur /\ st_params st = st_params cur /\
  map a_id (st_cons st) = map a_id (st_cons cur) /\ map a_id (st_notcons st) = map a_id (st_notcons cur) /\
  exists rep, ar = ARInline rep.
Proof.
  intros H. rewrite apply_inline_unfold in H.
  apply bind_ok in H as (r & Hr & H). apply bind_ok in H as (consd & Hc & H).
  apply bind_ok in H as (nconsd & Hn & H). apply bind_ok in H as (rep' & Hrep & H).
  injection H as <- <-. cbn [st_crits st_params st_cons st_notcons]. split; [reflexivity|]. split; [reflexivity|].
  split; [now apply update_alts_ids in Hc|]. split; [|eauto].
  destruct (bp_anch_not_considered p); [now apply update_alts_ids in Hn|]. now injection Hn as <-.
Qed.



(** ** The steps of [apply_anchoring] *)
Definition ref_alt (p : @bprops NumQc) (rpv : smap (@num NumQc)) : @alt NumQc :=
  {| a_id := bp_anch_ref p; a_vals := rpv |}.

Definition anch_of (cur : @state NumQc) (p : @bprops NumQc) : res (list (@alt NumQc * @num NumQc)) :=
  mapM (fun aa => do a <- fetch_alt' (all_alts cur) (aa_id aa); Ok (a, aa_coef aa)) (bp_anch_alts p).

Definition diffs_of (e : @env NumQc) (p : @bprops NumQc) (sc : list sct) (refs : list (@alt NumQc)) (all : list (@alt NumQc))
  : res (list (@alt NumQc * list (string * smap (@num NumQc)))) :=
  mapM (fun a => do ds <- mapM (fun r => do d <- ref_diffs e sc a r (bp_anch_loss p) (bp_anch_gain p);
                                         Ok (a_id r, d)) refs;
                 Ok (a, ds)) all.

Definition scaling_of (sc : list sct) : smap (@num NumQc * (@num NumQc * @num NumQc)) :=
  fold_left (fun m cs => mset (c_id (fst cs)) (snd cs) m) sc [].

Lemma apply_anchoring_inv e (cur : @state NumQc) p st rep :
  apply_anchoring e cur p = Ok (st, rep) ->
  exists anch rpv sc diffs ar,
    bp_anch_alts p <> [] /\
    anch_of cur p = Ok anch /\
    reference_point (String.eqb (bp_anch_ref p) rp_nadir) (st_crits cur) anch = Ok rpv /\
    valid_bounding p = true /\
    criteria_scaling (st_crits cur) (all_alts cur) = Ok sc /\
    diffs_of e p sc [ref_alt p rpv] (all_alts cur) = Ok diffs /\
    (String.eqb (bp_anch_applier p) ap_inline || String.eqb (bp_anch_applier p) ap_new = true) /\
    (if String.eqb (bp_anch_applier p) ap_inline then apply_inline cur p sc diffs
     else apply_new_criterion e cur p sc diffs) = Ok (st, ar) /\
    rep = RAnchoring [ref_alt p rpv] (scaling_of sc) diffs ar.
Proof.
  unfold apply_anchoring. intros H.
  destruct (bp_anch_alts p) as [|aa0 aas] eqn:Ea; [discriminate|]. rewrite <- Ea in H.
  destruct (negb (known_fun (bp_anch_loss p)) || negb (known_fun (bp_anch_gain p))); [discriminate|].
  destruct (String.eqb (bp_anch_applier p) ap_inline || String.eqb (bp_anch_applier p) ap_new) eqn:Eap;
    cbn [negb] in H; [|discriminate].
  apply bind_ok in H as (anch & Hanch & H).
  destruct (negb (String.eqb (bp_anch_ref p) rp_ideal || String.eqb (bp_anch_ref p) rp_nadir)); [discriminate|].
  apply bind_ok in H as (rpv & Hrp & H).
  destruct (valid_bounding p) eqn:Evb; cbn [negb] in H; [|discriminate].
  apply bind_ok in H as (sc & Hsc & H). apply bind_ok in H as (diffs & Hd & H).
  apply bind_ok in H as ([st' ar] & Hap & H). cbn [fst snd] in H. injection H as <- <-.
  exists anch, rpv, sc, diffs, ar. split; [discriminate|]. unfold anch_of.
  repeat split; try assumption; reflexivity.
Qed.

Lemma diffs_of_spec e p sc r all diffs :
  diffs_of e p sc [r] all = Ok diffs ->
  Forall2 (fun a ad => exists d, ad = (a, [(a_id r, d)]) /\
                                 ref_diffs e sc a r (bp_anch_loss p) (bp_anch_gain p) = Ok d) all diffs.
Proof.
  unfold diffs_of. intros H. apply mapM_Forall2 in H.
  induction H as [|a ad all diffs Hx _ IH]; constructor; [|exact IH].
  apply bind_ok in Hx as (ds & Hds & Hx). injection Hx as <-. cbn [mapM] in Hds.
  apply bind_ok in Hds as (y & Hy & Hds). cbn [bind] in Hds. injection Hds as <-.
  apply bind_ok in Hy as (d & Hd & Hy). injection Hy as <-. exists d. split; [reflexivity|exact Hd].
Qed.

Lemma diffs_of_fst e p sc r all diffs : diffs_of e p sc [r] all = Ok diffs -> map fst diffs = all.
Proof.
  intros H. apply diffs_of_spec in H. induction H as [|a ad all diffs (d & -> & _) _ IH]; [reflexivity|].
  cbn [map fst]. now rewrite IH.
Qed.

Lemma diffs_of_in e p sc r all diffs ad :
  diffs_of e p sc [r] all = Ok diffs -> In ad diffs ->
  exists d, ad = (fst ad, [(a_id r, d)]) /\ In (fst ad) all /\
            ref_diffs e sc (fst ad) r (bp_anch_loss p) (bp_anch_gain p) = Ok d.
Proof.
  intros H Hin. apply diffs_of_spec in H. induction H as [|a ad' all diffs (d & -> & Hd) _ IH]; [destruct Hin|].
  destruct Hin as [<-|Hin].
  - exists d. cbn [fst]. split; [reflexivity|]. split; [now left|exact Hd].
  - destruct (IH Hin) as (d' & A & B & C). exists d'. split; [exact A|]. split; [now right|exact C].
Qed.

Lemma find_fst {X Y} (g : X -> bool) (l : list (X * Y)) xy :
  find (fun xy => g (fst xy)) l = Some xy -> find g (map fst l) = Some (fst xy).
Proof.
  induction l as [|z l IH]; cbn [find map]; [discriminate|].
  destruct (g (fst z)); [intros H; now injection H as <-|exact IH].
Qed.

Lemma find_fst_ex {X Y} (g : X -> bool) (l : list (X * Y)) x :
  find g (map fst l) = Some x -> exists xy, find (fun xy => g (fst xy)) l = Some xy /\ fst xy = x.
Proof.
  induction l as [|z l IH]; cbn [find map]; [discriminate|].
  destruct (g (fst z)); [intros H; injection H as <-; eauto|exact IH].
Qed.

(** ** 4. Zero gain and loss functions without bounding: nothing moves *)
Definition zero_fun (f : @fparams NumQc) : Prop := fp_name f = fn_linear /\ fp_a f = 0 /\ fp_b f = 0.

Lemma eval_fun_zero e f x : zero_fun f -> @eval_fun NumQc e f x = Ok 0.
Proof. intros (Hn & Ha & Hb). unfold eval_fun. rewrite Hn, Ha, Hb. reflexivity. Qed.

(* for a = b = 0, [lf_eval] returns 0 *)
Lemma lf_eval_zero (x : Qc) : fst (@lf_eval NumQc {| lf_a := 0; lf_b := 0 |} x) = 0.
Proof. reflexivity. Qed.

Lemma mapped_zero e loss gain d : zero_fun loss -> zero_fun gain -> mapped e loss gain d = Ok 0.
Proof.
  intros Hl Hg. unfold mapped. rewrite !eval_fun_zero by assumption.
  destruct (nltb _ _); reflexivity.
Qed.

Lemma bound_value_off (p : @bprops NumQc) r v : bounding_off p = true -> bound_value p r v = v.
Proof.
  unfold bounding_off, bound_value. intros H. apply andb_true_iff in H as [A B].
  apply negb_true_iff in A, B. rewrite A, B. reflexivity.
Qed.

Theorem zero_functions_identity e (cur : @state NumQc) p st rep :
  zero_fun (bp_anch_gain p) -> zero_fun (bp_anch_loss p) -> bounding_off p = true ->
  bp_anch_applier p = ap_inline ->
  NoDup (map c_id (st_crits cur)) -> NoDup (map a_id (all_alts cur)) ->
  apply_anchoring e cur p = Ok (st, rep) ->
  forall b, In b (all_alts st) ->
    exists a, find_alt (a_id b) (all_alts cur) = Some a /\
              forall c, In c (st_crits cur) -> mget (c_id c) (a_vals b) = mget (c_id c) (a_vals a).
Proof.
  intros Hg Hl Hoff Hap NDc NDa H b Hb.
  apply apply_anchoring_inv in H as (anch & rpv & sc & diffs & ar & _ & _ & _ & _ & Hsc & Hd & _ & Happ & _).
  rewrite Hap, String.eqb_refl in Happ.
  assert (NDsc : NoDup (sc_ids sc)) by now rewrite (criteria_scaling_ids _ _ _ Hsc).
  destruct (apply_inline_frame _ _ _ _ _ _ Happ) as (_ & _ & _ & _ & rp & ->).
  assert (Hcase : (In b (st_cons st) \/ bp_anch_not_considered p = true /\ In b (st_notcons st)) \/
                  (bp_anch_not_considered p = false /\ In b (st_notcons cur))).
  { unfold all_alts in Hb. apply in_app_or in Hb as [Hb|Hb]; [now left; left|].
    destruct (bp_anch_not_considered p) eqn:Hflag; [left; right; now split|].
    right. split; [reflexivity|]. now rewrite <- (not_considered_only_if_asked _ _ _ _ _ _ Hflag Happ). }
  destruct Hcase as [Hcase|[Hflag Hb']].
  - destruct (inline_value _ _ _ _ _ _ NDsc Happ b Hcase) as (ad & avg & dd & Hfind & Havg & _ & Hvals).
    pose proof (find_some _ _ Hfind) as [Hin _].
    destruct (diffs_of_in _ _ _ _ _ _ _ Hd Hin) as (d & Ead & Hina & Hrd).
    exists (fst ad). split.
    + apply (find_fst (fun a => String.eqb (a_id a) (a_id b))) in Hfind.
      rewrite (diffs_of_fst _ _ _ _ _ _ Hd) in Hfind. exact Hfind.
    + intros c Hc. destruct (criteria_scaling_in _ _ _ _ Hsc Hc) as ([mn mx] & _ & Hinsc).
      destruct (Hvals _ _ _ _ Hinsc) as (mean & v & A & B & C & _).
      rewrite Ead in Havg. cbn [snd] in Havg. rewrite average_single in Havg. injection Havg as <-. cbn [snd] in A.
      destruct (diff_spec _ _ _ _ _ _ _ NDsc Hrd _ _ _ Hinsc) as (va & vr & w & _ & _ & Hw & Hm).
      rewrite mapped_zero in Hw by assumption. injection Hw as <-.
      rewrite A in Hm. injection Hm as ->.
      rewrite C, B, bound_value_off by assumption. f_equal. qcr.
  - exists b. split; [|reflexivity]. apply find_alt_nodup; [exact NDa|]. unfold all_alts. apply in_or_app. now right.
Qed.



(** ** 1. The reference point *)
(* cross-multiplied comparisons of coefficient-weighted values *)
Lemma cross_trans (a b c ka kb kc : Q) :
  (0 < ka -> 0 < kb -> 0 < kc -> a * kb <= b * ka -> b * kc <= c * kb -> a * kc <= c * ka)%Q.
Proof.
  intros Ha Hb Hc H1 H2.
  assert (H3 : (kb * (a * kc) <= kb * (c * ka))%Q).
  { assert (A : ((a * kb) * kc <= (b * ka) * kc)%Q) by (apply Qmult_le_compat_r; [exact H1|now apply Qlt_le_weak]).
    assert (B : ((b * kc) * ka <= (c * kb) * ka)%Q) by (apply Qmult_le_compat_r; [exact H2|now apply Qlt_le_weak]).
    lra. }
  apply (Qmult_le_l _ _ kb Hb). exact H3.
Qed.

Lemma cross_div (a b ka kb : Q) : (0 < ka -> 0 < kb -> (a * kb <= b * ka <-> a / ka <= b / kb))%Q.
Proof.
  intros Ha Hb. split; intros H.
  - apply Qle_shift_div_l; [exact Hb|].
    setoid_replace (a / ka * kb)%Q with ((a * kb) / ka)%Q by (field; lra).
    apply Qle_shift_div_r; [exact Ha|]. exact H.
  - assert (A : ((a / ka) * (ka * kb) <= (b / kb) * (ka * kb))%Q).
    { apply Qmult_le_compat_r; [exact H|]. apply Qlt_le_weak. apply Qmult_lt_0_compat; assumption. }
    setoid_replace (a / ka * (ka * kb))%Q with (a * kb)%Q in A by (field; lra).
    setoid_replace (b / kb * (ka * kb))%Q with (b * ka)%Q in A by (field; lra). exact A.
Qed.

Lemma Qc_cross_trans (a b c ka kb kc : Qc) :
  0 < ka -> 0 < kb -> 0 < kc -> a * kb <= b * ka -> b * kc <= c * kb -> a * kc <= c * ka.
Proof. intros. qcq. apply (cross_trans (this a) (this b) (this c) (this ka) (this kb) (this kc)); assumption. Qed.

Lemma this_div (x y : Qc) : (this (x / y) == this x / this y)%Q.
Proof. unfold Qcdiv. rewrite LevelFacts.this_mult, this_inv. reflexivity. Qed.

Lemma Qc_cross_div (a b ka kb : Qc) : 0 < ka -> 0 < kb -> (a * kb <= b * ka <-> a / ka <= b / kb).
Proof. intros Ha Hb. qcq. rewrite !this_div. apply cross_div; assumption. Qed.

(** [dom nadir c x y]: the (value, coefficient) pair [x] is at least as good as [y] for the reference point *)
Definition dom (nadir : bool) (c : @crit NumQc) (x y : Qc * Qc) : Prop :=
  if is_cost c
  then (if nadir then fst y * snd x <= fst x * snd y else fst x * snd y <= fst y * snd x)
  else (if nadir then fst x * snd x <= fst y * snd y else fst y * snd y <= fst x * snd x).

Lemma dom_refl nadir c x : dom nadir c x x.
Proof. unfold dom. destruct (is_cost c), nadir; apply Qcle_refl. Qed.

Lemma dom_trans nadir c x y z :
  0 < snd x -> 0 < snd y -> 0 < snd z -> dom nadir c x y -> dom nadir c y z -> dom nadir c x z.
Proof.
  unfold dom. intros Hx Hy Hz. destruct (is_cost c), nadir; intros A B.
  - eapply Qc_cross_trans; [exact Hz|exact Hy|exact Hx|exact B|exact A].
  - eapply Qc_cross_trans; [exact Hx|exact Hy|exact Hz|exact A|exact B].
  - eapply Qcle_trans; eassumption.
  - eapply Qcle_trans; eassumption.
Qed.

(** *** zero coefficients *)
Lemma can_new_be_better_spec (ac bc : Qc) :
  @can_new_be_better NumQc ac bc = negb (@neqb NumQc bc nzero && negb (@neqb NumQc ac nzero)).
Proof. unfold can_new_be_better. destruct (@neqb NumQc bc nzero), (@neqb NumQc ac nzero); reflexivity. Qed.

Lemma can_new_be_better_nonzero_cand (ac bc : Qc) : bc <> 0 -> @can_new_be_better NumQc ac bc = true.
Proof. intros H. rewrite can_new_be_better_spec. apply neqb_false_iff in H. change (@nzero NumQc) with 0. now rewrite H. Qed.

Lemma can_new_be_better_zero_held (bc : Qc) : @can_new_be_better NumQc 0 bc = true.
Proof. rewrite can_new_be_better_spec. change (@neqb NumQc 0 nzero) with true. now rewrite andb_false_r. Qed.

(* a candidate with coefficient 0 never replaces a value held with a non-zero coefficient *)
Lemma can_new_be_better_zero_cand (ac : Qc) : ac <> 0 -> @can_new_be_better NumQc ac 0 = false.
Proof.
  intros H. rewrite can_new_be_better_spec. apply neqb_false_iff in H. change (@nzero NumQc) with 0. rewrite H. reflexivity.
Qed.

Lemma ref_predicate_zero_cand nadir (c : @crit NumQc) (av ac bv : Qc) :
  ac <> 0 -> @ref_predicate NumQc nadir c av ac bv 0 = false.
Proof. intros H. unfold ref_predicate. now rewrite can_new_be_better_zero_cand. Qed.

(** *** one comparison *)
Definition rp_upd (nadir : bool) (c : @crit NumQc) (old : @num NumQc * @num NumQc) (v kb : @num NumQc)
  : @num NumQc * @num NumQc :=
  if ref_predicate nadir c (fst old) (snd old) v kb then (v, kb) else old.

Lemma rp_upd_zero_cand nadir c old v : snd old <> 0 -> rp_upd nadir c old v 0 = old.
Proof. intros H. unfold rp_upd. now rewrite ref_predicate_zero_cand. Qed.

Lemma is_better_dom (c : @crit NumQc) (av ac bv bc : Qc) :
  (@is_better NumQc c av ac bv bc = true -> dom false c (bv, bc) (av, ac)) /\
  (@is_better NumQc c av ac bv bc = false -> dom false c (av, ac) (bv, bc)).
Proof.
  unfold is_better, dom. cbn [fst snd]. destruct (is_cost c).
  - destruct (neqb _ _) eqn:E; split; intros H; bconv; qcn.
    + rewrite E. apply Qcle_refl.
    + rewrite E. apply Qcle_refl.
    + now apply Qclt_le_weak.
    + exact H.
  - destruct (neqb _ _) eqn:E; split; intros H; bconv; qcn.
    + rewrite E. apply Qcle_refl.
    + rewrite E. apply Qcle_refl.
    + now apply Qclt_le_weak.
    + exact H.
Qed.

Lemma dom_nadir_flip c x y : dom true c x y <-> dom false c y x.
Proof. unfold dom. destruct (is_cost c); reflexivity. Qed.

Lemma rp_upd_spec nadir c old v kb :
  snd old <> 0 -> kb <> 0 ->
  let new := rp_upd nadir c old v kb in
  dom nadir c new old /\ dom nadir c new (v, kb) /\ (new = old \/ new = (v, kb)).
Proof.
  intros Ho Hk. unfold rp_upd, ref_predicate. rewrite (can_new_be_better_nonzero_cand _ _ Hk). cbn [andb].
  destruct old as [av ac]. cbn [fst snd] in *.
  destruct (is_better_dom c av ac v kb) as [Ht Hf].
  destruct nadir; destruct (is_better c av ac v kb); cbn [negb]; cbv zeta.
  - split; [apply dom_refl|]. split; [apply dom_nadir_flip, Ht; reflexivity|now left].
  - split; [apply dom_nadir_flip, Hf; reflexivity|]. split; [apply dom_refl|now right].
  - split; [apply Ht; reflexivity|]. split; [apply dom_refl|now right].
  - split; [apply dom_refl|]. split; [apply Hf; reflexivity|now left].
Qed.

(** *** the folds *)
Definition rp_map : Type := smap (@num NumQc * @num NumQc).

Definition rp_step (nadir : bool) (ak : @alt NumQc * @num NumQc) (m : rp_map) (c : @crit NumQc) : res rp_map :=
  do v <- raw_value (fst ak) c;
  do old <- of_option (mget (c_id c) m) EMissing;
  if ref_predicate nadir c (fst old) (snd old) v (snd ak) then Ok (mset (c_id c) (v, snd ak) m) else Ok m.

Definition rp_inner (nadir : bool) (cs : list (@crit NumQc)) (acc : res rp_map) (ak : @alt NumQc * @num NumQc) : res rp_map :=
  fold_left (fun acc2 c => do m <- acc2; rp_step nadir ak m c) cs acc.

Lemma rp_inner_spec nadir ak : forall cs m0 m,
  rp_inner nadir cs (Ok m0) ak = Ok m -> NoDup (map c_id cs) ->
  (forall c, In c cs -> exists v old, raw_value (fst ak) c = Ok v /\ mget (c_id c) m0 = Some old /\
                                      mget (c_id c) m = Some (rp_upd nadir c old v (snd ak))) /\
  (forall k, ~ In k (map c_id cs) -> mget k m = mget k m0) /\
  (forall k, In k (mkeys m) <-> In k (mkeys m0)).
Proof.
  unfold rp_inner. induction cs as [|c0 cs IH]; intros m0 m H ND; cbn [fold_left bind] in H.
  - injection H as <-. split; [intros c []|]. split; [reflexivity|reflexivity].
  - destruct (rp_step nadir ak m0 c0) as [m1|e] eqn:E.
    2:{ rewrite (fold_res_err (rp_step nadir ak)) in H. discriminate. }
    cbn [map] in ND. inversion ND as [|x y Hn ND']; subst.
    destruct (IH _ _ H ND') as (IH1 & IH2 & IH3).
    unfold rp_step in E.
    destruct (raw_value (fst ak) c0) as [v|] eqn:Ev; cbn [bind] in E; [|discriminate].
    destruct (mget (c_id c0) m0) as [old|] eqn:Eo; cbn [of_option bind] in E; [|discriminate].
    assert (Hm1 : mget (c_id c0) m1 = Some (rp_upd nadir c0 old v (snd ak)) /\
                  (forall k, k <> c_id c0 -> mget k m1 = mget k m0) /\
                  (forall k, In k (mkeys m1) <-> In k (mkeys m0))).
    { unfold rp_upd. destruct (ref_predicate nadir c0 (fst old) (snd old) v (snd ak)); injection E as <-.
      - split; [apply mget_mset_same|]. split; [intros k Hk; now apply mget_mset_other|].
        intros k. rewrite mkeys_mset. split; [intros [->|A]; [|exact A]|auto].
        apply mkeys_in_iff. eauto.
      - split; [exact Eo|]. split; reflexivity. }
    destruct Hm1 as (A1 & A2 & A3). split; [|split].
    + intros c [<-|Hc].
      * exists v, old. split; [exact Ev|]. split; [exact Eo|]. rewrite (IH2 _ Hn). exact A1.
      * destruct (IH1 _ Hc) as (v' & old' & B1 & B2 & B3). exists v', old'. split; [exact B1|]. split; [|exact B3].
        rewrite <- B2. symmetry. apply A2. intros E'. apply Hn. rewrite <- E'. now apply in_map.
    + intros k Hk. cbn [map In] in Hk. rewrite IH2 by tauto. apply A2. intros ->. apply Hk. now left.
    + intros k. rewrite IH3. apply A3.
Qed.

Lemma rp_inner_keys nadir ak : forall cs m0 m,
  rp_inner nadir cs (Ok m0) ak = Ok m -> forall k, In k (mkeys m) <-> In k (mkeys m0).
Proof.
  unfold rp_inner. induction cs as [|c0 cs IH]; intros m0 m H k; cbn [fold_left bind] in H.
  - injection H as <-. reflexivity.
  - destruct (rp_step nadir ak m0 c0) as [m1|e] eqn:E.
    2:{ rewrite (fold_res_err (rp_step nadir ak)) in H. discriminate. }
    rewrite (IH _ _ H k). unfold rp_step in E.
    destruct (raw_value (fst ak) c0) as [v|] eqn:Ev; cbn [bind] in E; [|discriminate].
    destruct (mget (c_id c0) m0) as [old|] eqn:Eo; cbn [of_option bind] in E; [|discriminate].
    destruct (ref_predicate nadir c0 (fst old) (snd old) v (snd ak)); injection E as <-; [|reflexivity].
    rewrite mkeys_mset. split; [intros [->|A]; [|exact A]|auto]. apply mkeys_in_iff. eauto.
Qed.

Lemma rp_inner_err nadir cs e ak : rp_inner nadir cs (Err e) ak = Err e.
Proof. unfold rp_inner. apply (fold_res_err (rp_step nadir ak)). Qed.

Lemma rp_outer_err nadir cs e rest : fold_left (rp_inner nadir cs) rest (Err e) = Err e.
Proof. induction rest as [|ak rest IH]; cbn [fold_left]; [reflexivity|]. rewrite rp_inner_err. exact IH. Qed.

Lemma rp_outer_spec nadir cs : NoDup (map c_id cs) -> forall rest m0 best,
  fold_left (rp_inner nadir cs) rest (Ok m0) = Ok best ->
  (forall ak, In ak rest -> 0 < snd ak) ->
  (forall k, In k (mkeys best) <-> In k (mkeys m0)) /\
  forall c h0, In c cs -> mget (c_id c) m0 = Some h0 -> 0 < snd h0 ->
    exists h, mget (c_id c) best = Some h /\ 0 < snd h /\ dom nadir c h h0 /\
              (forall ai ki vi, In (ai, ki) rest -> raw_value ai c = Ok vi -> dom nadir c h (vi, ki)) /\
              (h = h0 \/ exists aj kj, In (aj, kj) rest /\ raw_value aj c = Ok (fst h) /\ snd h = kj).
Proof.
  intros ND. induction rest as [|[a kb] rest IH]; intros m0 best H Hpos; cbn [fold_left] in H.
  - injection H as <-. split; [reflexivity|]. intros c h0 _ Hh Hk. exists h0. split; [exact Hh|]. split; [exact Hk|].
    split; [apply dom_refl|]. split; [intros ? ? ? []|now left].
  - destruct (rp_inner nadir cs (Ok m0) (a, kb)) as [m1|e] eqn:E.
    2:{ rewrite rp_outer_err in H. discriminate. }
    destruct (rp_inner_spec _ _ _ _ _ E ND) as (I1 & I2 & I3).
    destruct (IH _ _ H (fun ak Hak => Hpos ak (or_intror Hak))) as [K1 K2].
    assert (Hkb : 0 < kb) by apply (Hpos (a, kb) (or_introl eq_refl)).
    split; [intros k; rewrite K1; apply I3|].
    intros c h0 Hc Hh Hk. destruct (I1 _ Hc) as (v & old & B1 & B2 & B3). cbn [fst snd] in *.
    rewrite Hh in B2. injection B2 as <-.
    assert (Hk0 : snd h0 <> 0) by (intros E0; rewrite E0 in Hk; discriminate).
    assert (Hkb0 : kb <> 0) by (intros E0; rewrite E0 in Hkb; discriminate).
    destruct (rp_upd_spec nadir c h0 v kb Hk0 Hkb0) as (D1 & D2 & D3).
    set (h1 := rp_upd nadir c h0 v kb) in *.
    assert (Hk1 : 0 < snd h1) by (destruct D3 as [->| ->]; assumption).
    destruct (K2 c h1 Hc B3 Hk1) as (h & F1 & F2 & F3 & F4 & F5).
    exists h. split; [exact F1|]. split; [exact F2|]. split; [apply (dom_trans nadir c h h1 h0); assumption|]. split.
    + intros ai ki vi [Hin|Hin] Hv.
      * injection Hin as <- <-. rewrite B1 in Hv. injection Hv as <-.
        eapply (dom_trans nadir c h h1 (v, kb)); assumption.
      * apply (F4 ai ki vi Hin Hv).
    + destruct F5 as [->|(aj & kj & G1 & G2 & G3)].
      * destruct D3 as [->|D3]; [now left|]. right. exists a, kb. rewrite D3. cbn [fst snd].
        split; [now left|]. split; [exact B1|reflexivity].
      * right. exists aj, kj. split; [now right|]. split; assumption.
Qed.

Lemma reference_point_unfold nadir cs (a0 : @alt NumQc) (k0 : @num NumQc) rest :
  reference_point nadir cs ((a0, k0) :: rest) =
  do best <- fold_left (rp_inner nadir cs) rest (Ok (map (fun kv => (fst kv, (snd kv, k0))) (a_vals a0)));
  Ok (map (fun kv => (fst kv, fst (snd kv))) best).
Proof. reflexivity. Qed.

(** [reference_point_spec] *)
Theorem reference_point_spec nadir cs (a0 : @alt NumQc) (k0 : @num NumQc) rest rp :
  forall (Hnd_cs : NoDup (map c_id cs)),
  (forall ak, In ak ((a0, k0) :: rest) -> 0 < snd ak) ->
  reference_point nadir cs ((a0, k0) :: rest) = Ok rp ->
  forall c, In c cs -> (forall ak, In ak ((a0, k0) :: rest) -> exists v, raw_value (fst ak) c = Ok v) ->
    exists aj kj vj, In (aj, kj) ((a0, k0) :: rest) /\ raw_value aj c = Ok vj /\ mget (c_id c) rp = Some vj /\
      forall ai ki vi, In (ai, ki) ((a0, k0) :: rest) -> raw_value ai c = Ok vi -> dom nadir c (vj, kj) (vi, ki).
Proof.
  intros ND Hpos H c Hc Hvals. rewrite reference_point_unfold in H. apply bind_ok in H as (best & Hb & H). injection H as <-.
  destruct (rp_outer_spec nadir cs ND _ _ _ Hb (fun ak Hak => Hpos ak (or_intror Hak))) as [_ K].
  destruct (Hvals (a0, k0) (or_introl eq_refl)) as [v0 Hv0]. cbn [fst] in Hv0.
  assert (Hinit : mget (c_id c) (map (fun kv : string * @num NumQc => (fst kv, (snd kv, k0))) (a_vals a0)) = Some (v0, k0)).
  { rewrite (mget_map_val (fun v : @num NumQc => (v, k0))). unfold raw_value in Hv0.
    destruct (mget (c_id c) (a_vals a0)); [|discriminate]. injection Hv0 as ->. reflexivity. }
  assert (Hk0 : 0 < k0) by apply (Hpos (a0, k0) (or_introl eq_refl)).
  destruct (K c (v0, k0) Hc Hinit Hk0) as ([vh kh] & F1 & F2 & F3 & F4 & F5). cbn [fst snd] in *.
  assert (Hrp : mget (c_id c) (map (fun kv : string * (@num NumQc * @num NumQc) => (fst kv, fst (snd kv))) best) = Some vh).
  { rewrite (mget_map_val (fun x : @num NumQc * @num NumQc => fst x)), F1. reflexivity. }
  assert (Hall : forall ai ki vi, In (ai, ki) ((a0, k0) :: rest) -> raw_value ai c = Ok vi -> dom nadir c (vh, kh) (vi, ki)).
  { intros ai ki vi [Hin|Hin] Hv.
    - injection Hin as <- <-. rewrite Hv0 in Hv. injection Hv as <-. exact F3.
    - apply (F4 ai ki vi Hin Hv). }
  destruct F5 as [E|(aj & kj & G1 & G2 & G3)].
  - injection E as -> ->. exists a0, k0, v0. split; [now left|]. split; [exact Hv0|]. split; [exact Hrp|exact Hall].
  - subst kj. exists aj, kh, vh. split; [now right|]. split; [exact G2|]. split; [exact Hrp|exact Hall].
Qed.

(** the reference point has exactly the keys of the first anchoring alternative *)
Theorem reference_point_first_alt_keys nadir cs (a0 : @alt NumQc) (k0 : @num NumQc) rest rp :
  reference_point nadir cs ((a0, k0) :: rest) = Ok rp ->
  forall k, In k (mkeys rp) <-> In k (mkeys (a_vals a0)).
Proof.
  intros H k. rewrite reference_point_unfold in H. apply bind_ok in H as (best & Hb & H). injection H as <-.
  rewrite (mkeys_map_val (fun x : @num NumQc * @num NumQc => fst x)).
  rewrite <- (mkeys_map_val (fun v : @num NumQc => (v, k0)) (a_vals a0)).
  revert k. clear - Hb. revert Hb. generalize (map (fun kv : string * @num NumQc => (fst kv, (snd kv, k0))) (a_vals a0)).
  induction rest as [|ak rest IH]; intros m0 H k; cbn [fold_left] in H.
  - injection H as <-. reflexivity.
  - destruct (rp_inner nadir cs (Ok m0) ak) as [m1|e] eqn:E.
    2:{ rewrite rp_outer_err in H. discriminate. }
    rewrite (IH _ H k). apply (rp_inner_keys _ _ _ _ _ E).
Qed.

(** Without [Hnd_cs] the statement fails: two criteria with the same identifier and different types. *)
Definition cx_gain : @crit NumQc := {| c_id := "x"; c_type := TGain; c_range := None |}.
Definition cx_cost : @crit NumQc := {| c_id := "x"; c_type := TCost; c_range := None |}.
Definition cx_a0 : @alt NumQc := {| a_id := "a0"; a_vals := [("x", Q2Qc 1)] |}.
Definition cx_a1 : @alt NumQc := {| a_id := "a1"; a_vals := [("x", Q2Qc 2)] |}.
Example reference_point_dup_criteria :
  @reference_point NumQc false [cx_gain; cx_cost] [(cx_a0, Q2Qc 1); (cx_a1, Q2Qc 1)] = Ok [("x", Q2Qc 2)].
Proof. vm_compute. reflexivity. Qed.



(** ** 6. The model passes the C19 checker *)
(** *** the clauses of [C19_ok] *)
Definition ck_ref (p : @bprops NumQc) (before : @state NumQc) (refs : list (@alt NumQc)) : bool :=
  let all := all_alts before in
  let nadir := String.eqb (bp_anch_ref p) rp_nadir in
  match refs with
  | [rp] =>
      forallb (fun c =>
                 let cands := flat_map (fun aa => match find_alt (aa_id aa) all with
                                                  | Some a => [(val_of a (c_id c), aa_coef aa)] | None => [] end)
                                       (bp_anch_alts p) in
                 let score (vk : num * num) := if is_cost c then ndiv (fst vk) (snd vk) else nmul (fst vk) (snd vk) in
                 let better (x y : num * num) :=
                   if xorb (is_cost c) nadir then nleb (score x) (score y) else nleb (score y) (score x) in
                 match mget (c_id c) (a_vals rp) with
                 | Some v => existsb (fun x => nsame (fst x) v
                                               && (existsb (fun y => neqb (snd y) nzero) cands || forallb (fun y => better x y) cands)) cands
                 | None => false
                 end) (st_crits before)
  | _ => false
  end.

Definition ck_scaling (before : @state NumQc) (scaling : smap (@num NumQc * (@num NumQc * @num NumQc))) : bool :=
  forallb (fun c => match mget (c_id c) scaling, values_range (all_alts before) c with
                    | Some (sc, r), Ok r' => pair_same r r'
                                             && nsame sc (if neqb (range_diff r') nzero then nzero else ndiv none (range_diff r'))
                    | _, _ => false
                    end) (st_crits before).

Definition ck_diffs (e : @env NumQc) (p : @bprops NumQc) (before : @state NumQc) (refs : list (@alt NumQc))
           (scaling : smap (@num NumQc * (@num NumQc * @num NumQc)))
           (diffs : list (@alt NumQc * list (string * smap (@num NumQc)))) : bool :=
  list_eqb (fun a ad =>
              alt_same a (fst ad)
              && forallb (fun rd =>
                            match find_alt (fst rd) refs with
                            | Some r =>
                                forallb (fun c =>
                                           match mget (c_id c) scaling, mget (c_id c) (snd rd) with
                                           | Some (sc, _), Some got =>
                                               let d := nmul (nsub (sgn c (val_of a (c_id c))) (sgn c (val_of r (c_id c)))) sc in
                                               match mapped_diff e p d with Ok want => near got want | Err _ => false end
                                           | _, _ => false
                                           end) (st_crits before)
                            | None => false
                            end) (snd ad))
           (all_alts before) diffs.

Definition ck_inline (p : @bprops NumQc) (before after : @state NumQc)
           (scaling : smap (@num NumQc * (@num NumQc * @num NumQc)))
           (diffs : list (@alt NumQc * list (string * smap (@num NumQc)))) (applied : list (@alt NumQc)) : bool :=
  let all := all_alts before in
  list_eqb crit_same (st_crits before) (st_crits after) && params_same (st_params before) (st_params after)
  && (bp_anch_not_considered p || list_eqb alt_same (st_notcons before) (st_notcons after))
  && forallb (fun b =>
                match find_alt (a_id b) all, find (fun ad => String.eqb (a_id (fst ad)) (a_id b)) diffs with
                | Some a, Some ad =>
                    let touched := existsb (fun x => String.eqb (a_id x) (a_id b)) (st_cons before) || bp_anch_not_considered p in
                    if negb touched then alt_same a b else
                    forallb (fun c =>
                               match mget (c_id c) scaling with
                               | Some (_, r) =>
                                   let ds := flat_map (fun rd => match mget (c_id c) (snd rd) with Some x => [x] | None => [] end) (snd ad) in
                                   let mean := ndiv (nsum ds) (nofZ (Z.of_nat (List.length ds))) in
                                   let v := val_of a (c_id c) in
                                   near (val_of b (c_id c)) (bound_value p r (nadd v (nmul (range_diff r) mean)))
                                   && match find_alt (a_id b) applied with
                                      | Some dd => nsame (val_of dd (c_id c)) (nsub (val_of b (c_id c)) v)
                                      | None => false
                                      end
                               | None => false
                               end) (st_crits before)
                | _, _ => false
                end) (all_alts after).

Lemma C19_ok_inline_split e p (before after : @state NumQc) refs scaling diffs applied :
  C19_ok e p before after (RAnchoring refs scaling diffs (ARInline applied)) =
  ck_ref p before refs && ck_scaling before scaling && ck_diffs e p before refs scaling diffs
  && same_split before after && ck_inline p before after scaling diffs applied.
Proof. reflexivity. Qed.

(** *** reflexivity of the comparison functions *)
Lemma nsame_refl (x : @num NumQc) : nsame x x = true.
Proof. apply (@same_refl NumQc OrdQc). Qed.

Lemma list_eqb_refl_gen {A} (f : A -> A -> bool) (l : list A) : (forall x, f x x = true) -> list_eqb f l l = true.
Proof. intros H. induction l as [|x l IH]; cbn [list_eqb]; [reflexivity|]. now rewrite H, IH. Qed.

Lemma smap_same_refl (m : smap (@num NumQc)) : smap_same m m = true.
Proof. apply list_eqb_refl_gen. intros [k v]. cbn [fst snd]. now rewrite String.eqb_refl, nsame_refl. Qed.

Lemma alt_same_refl (a : @alt NumQc) : alt_same a a = true.
Proof. unfold alt_same. now rewrite String.eqb_refl, smap_same_refl. Qed.

Lemma ctype_eqb_refl (t : ctype) : ctype_eqb t t = true.
Proof. destruct t; reflexivity. Qed.

Lemma crit_same_refl (c : @crit NumQc) : crit_same c c = true.
Proof.
  unfold crit_same, range_same. rewrite String.eqb_refl, ctype_eqb_refl. cbn [andb].
  destruct (c_range c) as [[a b]|]; cbn [option_eqb fst snd]; [|reflexivity]. now rewrite !nsame_refl.
Qed.

Lemma linfun_same_refl (f : @linfun NumQc) : linfun_same f f = true.
Proof. unfold linfun_same. now rewrite !nsame_refl. Qed.

Lemma ecrit_same_refl (x : @ecrit NumQc) : ecrit_same x x = true.
Proof. unfold ecrit_same. now rewrite nsame_refl, !linfun_same_refl. Qed.

Lemma lparams_same_refl (x : @lparams NumQc) : lparams_same x x = true.
Proof. unfold lparams_same. rewrite !nsame_refl. cbn [andb]. apply list_eqb_refl_gen, smap_same_refl. Qed.

Lemma wcrit_same_refl (x : @wcrit NumQc) : wcrit_same x x = true.
Proof. unfold wcrit_same. now rewrite crit_same_refl, nsame_refl. Qed.

Lemma params_same_refl (x : @mparams NumQc) : params_same x x = true.
Proof.
  destruct x; cbn [params_same].
  - apply list_eqb_refl_gen, wcrit_same_refl.
  - apply list_eqb_refl_gen, wcrit_same_refl.
  - rewrite smap_same_refl. cbn [andb]. apply list_eqb_refl_gen, crit_same_refl.
  - rewrite linfun_same_refl, andb_true_r. apply list_eqb_refl_gen. intros [k v]. cbn [fst snd].
    now rewrite String.eqb_refl, ecrit_same_refl.
  - now rewrite smap_same_refl, !String.eqb_refl, Z.eqb_refl, Bool.eqb_reflx.
  - now rewrite smap_same_refl, lparams_same_refl, !String.eqb_refl, Z.eqb_refl, Bool.eqb_reflx.
  - now rewrite lparams_same_refl, !String.eqb_refl, Z.eqb_refl, Bool.eqb_reflx.
Qed.

Lemma near_refl (x : @num NumQc) : near x x = true.
Proof. apply approx8_refl. Qed.

Lemma list_eqb_Forall2 {A B} (f : A -> B -> bool) l1 l2 :
  Forall2 (fun x y => f x y = true) l1 l2 -> list_eqb f l1 l2 = true.
Proof. induction 1 as [|x y l1 l2 H _ IH]; cbn [list_eqb]; [reflexivity|]. now rewrite H, IH. Qed.

Lemma Forall2_imp {A B} (P Q : A -> B -> Prop) l1 l2 :
  (forall x y, P x y -> Q x y) -> Forall2 P l1 l2 -> Forall2 Q l1 l2.
Proof. intros H. induction 1; constructor; auto. Qed.

Lemma str_list_eqb_refl (l : list string) : list_eqb String.eqb l l = true.
Proof. apply list_eqb_refl_gen, String.eqb_refl. Qed.

(** *** values under the invariant *)
Lemma val_of_raw (a : @alt NumQc) (c : @crit NumQc) v : raw_value a c = Ok v -> val_of a (c_id c) = v.
Proof. unfold raw_value, val_of. destruct (mget (c_id c) (a_vals a)); [intros H; now injection H|discriminate]. Qed.

Lemma val_of_mget (a : @alt NumQc) k v : mget k (a_vals a) = Some v -> val_of a k = v.
Proof. unfold val_of. now intros ->. Qed.

Lemma inv_has_value (s : @state NumQc) a c :
  inv s = true -> In a (all_alts s) -> In c (st_crits s) -> exists v, raw_value a c = Ok v.
Proof.
  unfold inv. intros H Ha Hc. apply andb_true_iff in H as [H _]. apply andb_true_iff in H as [H _].
  rewrite forallb_forall in H. specialize (H a Ha). rewrite forallb_forall in H. specialize (H c Hc).
  unfold mhas in H. unfold raw_value. destruct (mget (c_id c) (a_vals a)) as [v|]; [exists v; reflexivity|discriminate].
Qed.

(** *** clause: reference point *)
Lemma anch_of_cands (cur : @state NumQc) p anch id :
  anch_of cur p = Ok anch ->
  flat_map (fun aa => match find_alt (aa_id aa) (all_alts cur) with
                      | Some a => [(val_of a id, aa_coef aa)] | None => [] end) (bp_anch_alts p)
  = map (fun ak => (val_of (fst ak) id, snd ak)) anch.
Proof.
  unfold anch_of. generalize (bp_anch_alts p). intros l. revert anch.
  induction l as [|aa l IH]; intros anch H; cbn [mapM] in H.
  - injection H as <-. reflexivity.
  - apply bind_ok in H as (y & Hy & H). apply bind_ok in H as (ys & Hys & H). injection H as <-.
    apply bind_ok in Hy as (a & Ha & Hy). injection Hy as <-.
    rewrite fetch_alt'_find in Ha. cbn [flat_map map fst snd].
    destruct (find_alt (aa_id aa) (all_alts cur)) as [a'|]; [|discriminate]. injection Ha as ->.
    cbn [app]. f_equal. now apply IH.
Qed.

Lemma anch_of_in (cur : @state NumQc) p anch ak :
  anch_of cur p = Ok anch -> In ak anch ->
  In (fst ak) (all_alts cur) /\ exists aa, In aa (bp_anch_alts p) /\ snd ak = aa_coef aa.
Proof.
  unfold anch_of. intros H Hin. destruct (mapM_ok_in_inv _ _ _ _ H Hin) as (aa & Haa & Hy).
  apply bind_ok in Hy as (a & Ha & Hy). injection Hy as <-. cbn [fst snd].
  rewrite fetch_alt'_find in Ha. destruct (find_alt (aa_id aa) (all_alts cur)) as [a'|] eqn:E; [|discriminate].
  injection Ha as ->. split; [now apply find_alt_id in E|eauto].
Qed.

Lemma dom_better nadir (c : @crit NumQc) (x y : @num NumQc * @num NumQc) :
  0 < snd x -> 0 < snd y -> dom nadir c x y ->
  (if xorb (is_cost c) nadir
   then @nleb NumQc (if is_cost c then ndiv (fst x) (snd x) else nmul (fst x) (snd x))
                    (if is_cost c then ndiv (fst y) (snd y) else nmul (fst y) (snd y))
   else @nleb NumQc (if is_cost c then ndiv (fst y) (snd y) else nmul (fst y) (snd y))
                    (if is_cost c then ndiv (fst x) (snd x) else nmul (fst x) (snd x))) = true.
Proof.
  intros Hx Hy. unfold dom. destruct (is_cost c), nadir; cbn [xorb]; intros H; apply nleb_iff; qcn.
  - apply (proj1 (Qc_cross_div (fst y) (fst x) (snd y) (snd x) Hy Hx)). exact H.
  - apply (proj1 (Qc_cross_div (fst x) (fst y) (snd x) (snd y) Hx Hy)). exact H.
  - exact H.
  - exact H.
Qed.

Lemma ck_ref_ok (cur : @state NumQc) p anch rpv :
  inv cur = true -> NoDup (map c_id (st_crits cur)) ->
  (forall aa, In aa (bp_anch_alts p) -> 0 < aa_coef aa) ->
  anch_of cur p = Ok anch ->
  reference_point (String.eqb (bp_anch_ref p) rp_nadir) (st_crits cur) anch = Ok rpv ->
  ck_ref p cur [ref_alt p rpv] = true.
Proof.
  intros Hinv NDc Hcoef Hanch Hrp. unfold ck_ref. cbv zeta. apply forallb_forall. intros c Hc.
  rewrite (anch_of_cands _ _ _ (c_id c) Hanch).
  destruct anch as [|[a0 k0] rest]; [discriminate|].
  assert (Hpos : forall ak, In ak ((a0, k0) :: rest) -> 0 < snd ak).
  { intros ak Hak. destruct (anch_of_in _ _ _ _ Hanch Hak) as (_ & aa & Haa & ->). now apply Hcoef. }
  assert (Hvals : forall ak, In ak ((a0, k0) :: rest) -> exists v, raw_value (fst ak) c = Ok v).
  { intros ak Hak. destruct (anch_of_in _ _ _ _ Hanch Hak) as (Hin & _). now apply (inv_has_value cur). }
  destruct (reference_point_spec _ _ _ _ _ _ NDc Hpos Hrp c Hc Hvals) as (aj & kj & vj & Hin & Hvj & Hm & Hdom).
  cbn [ref_alt a_vals]. rewrite Hm. apply existsb_exists.
  exists (vj, kj). split.
  - apply in_map_iff. exists (aj, kj). cbn [fst snd]. split; [|exact Hin]. now rewrite (val_of_raw _ _ _ Hvj).
  - cbn [fst]. rewrite nsame_refl. cbn [andb]. apply orb_true_iff. right. apply forallb_forall. intros y Hy.
    apply in_map_iff in Hy as ([ai ki] & <- & Hi). cbn [fst snd].
    destruct (Hvals _ Hi) as [vi Hvi]. cbn [fst] in Hvi. rewrite (val_of_raw _ _ _ Hvi).
    apply (dom_better _ c (vj, kj) (vi, ki)).
    + apply (Hpos _ Hin).
    + apply (Hpos _ Hi).
    + apply (Hdom ai ki vi Hi Hvi).
Qed.

(** *** clause: scaling *)
Lemma fold_mset_pure {B V} (key : B -> string) (val : B -> V) : forall l m0,
  NoDup (map key l) ->
  (forall x, In x l -> mget (key x) (fold_left (fun m x => mset (key x) (val x) m) l m0) = Some (val x)) /\
  (forall k, ~ In k (map key l) -> mget k (fold_left (fun m x => mset (key x) (val x) m) l m0) = mget k m0).
Proof.
  induction l as [|x l IH]; intros m0 ND; cbn [fold_left].
  - split; [intros x []|reflexivity].
  - cbn [map] in ND. inversion ND as [|y z Hn ND']; subst.
    destruct (IH (mset (key x) (val x) m0) ND') as [IH1 IH2]. split.
    + intros y [<-|Hy]; [|now apply IH1]. rewrite (IH2 _ Hn). apply mget_mset_same.
    + intros k Hk. cbn [map In] in Hk. rewrite IH2 by tauto. apply mget_mset_other. intros ->. apply Hk. now left.
Qed.

Lemma scaling_of_mget (sc : list sct) c s rg :
  NoDup (sc_ids sc) -> In (c, (s, rg)) sc -> mget (c_id c) (scaling_of sc) = Some (s, rg).
Proof.
  intros ND Hin. unfold scaling_of.
  destruct (fold_mset_pure (fun cs : sct => c_id (fst cs)) (fun cs : sct => snd cs) sc [] ND) as [H _].
  apply (H _ Hin).
Qed.

Lemma ck_scaling_ok (cur : @state NumQc) sc :
  NoDup (map c_id (st_crits cur)) ->
  criteria_scaling (st_crits cur) (all_alts cur) = Ok sc -> ck_scaling cur (scaling_of sc) = true.
Proof.
  intros NDc Hsc. unfold ck_scaling. apply forallb_forall. intros c Hc.
  assert (NDsc : NoDup (sc_ids sc)) by now rewrite (criteria_scaling_ids _ _ _ Hsc).
  destruct (criteria_scaling_in _ _ _ _ Hsc Hc) as (rg & Hrg & Hin).
  rewrite (scaling_of_mget _ _ _ _ NDsc Hin), Hrg. unfold pair_same. rewrite !nsame_refl. cbn [andb].
  reflexivity.
Qed.

(** *** clause: differences *)
Lemma ck_diffs_ok e (cur : @state NumQc) p sc rpv diffs :
  NoDup (map c_id (st_crits cur)) ->
  criteria_scaling (st_crits cur) (all_alts cur) = Ok sc ->
  diffs_of e p sc [ref_alt p rpv] (all_alts cur) = Ok diffs ->
  ck_diffs e p cur [ref_alt p rpv] (scaling_of sc) diffs = true.
Proof.
  intros NDc Hsc Hd. unfold ck_diffs.
  assert (NDsc : NoDup (sc_ids sc)) by now rewrite (criteria_scaling_ids _ _ _ Hsc).
  apply list_eqb_Forall2. apply diffs_of_spec in Hd.
  eapply Forall2_imp; [|exact Hd]. intros a ad (d & -> & Hrd).
  cbn [fst snd]. rewrite alt_same_refl. cbn [andb forallb fst snd find_alt find ref_alt a_id].
  rewrite String.eqb_refl, andb_true_r. apply forallb_forall. intros c Hc.
  destruct (criteria_scaling_in _ _ _ _ Hsc Hc) as (rg & Hrg & Hin).
  rewrite (scaling_of_mget _ _ _ _ NDsc Hin).
  destruct (diff_spec _ _ _ _ _ _ _ NDsc Hrd _ _ _ Hin) as (va & vr & w & Hva & Hvr & Hw & Hm).
  rewrite Hm. cbv zeta. rewrite (val_of_raw _ _ _ Hva), (val_of_raw _ _ _ Hvr).
  rewrite mapped_diff_mapped. change (nmul (nsub (sgn c va) (sgn c vr)) (scale_ratio (nzero, none) rg))
    with ((sgn c va - sgn c vr) * scale_ratio (nzero, none) rg) .
  rewrite Hw. apply near_refl.
Qed.

(** *** clause: the inline applier *)
Lemma mean_single (x : @num NumQc) :
  @ndiv NumQc (nsum [x]) (nofZ (Z.of_nat (List.length [x]))) = x.
Proof. cbn [nsum List.length Z.of_nat]. cbn [nofZ NumQc]. unfold qc_ofZ. change (Z.pos (Pos.of_succ_nat 0)) with 1%Z. qcn. rewrite div_one. ring. Qed.

Lemma existsb_id_in (l : list (@alt NumQc)) id : existsb (fun x => String.eqb (a_id x) id) l = true <-> In id (map a_id l).
Proof.
  rewrite existsb_exists, in_map_iff. split.
  - intros (x & A & B). apply String.eqb_eq in B. eauto.
  - intros (x & A & B). exists x. split; [exact B|]. now apply String.eqb_eq.
Qed.

Lemma ck_inline_ok e (cur : @state NumQc) p sc rpv diffs st applied :
  NoDup (map a_id (all_alts cur)) -> NoDup (map c_id (st_crits cur)) ->
  criteria_scaling (st_crits cur) (all_alts cur) = Ok sc ->
  diffs_of e p sc [ref_alt p rpv] (all_alts cur) = Ok diffs ->
  apply_inline cur p sc diffs = Ok (st, ARInline applied) ->
  ck_inline p cur st (scaling_of sc) diffs applied = true.
Proof.
  intros NDa NDc Hsc Hd Happ. unfold ck_inline. cbv zeta.
  assert (NDsc : NoDup (sc_ids sc)) by now rewrite (criteria_scaling_ids _ _ _ Hsc).
  destruct (apply_inline_frame _ _ _ _ _ _ Happ) as (Hcr & Hpa & Hidc & Hidn & _).
  rewrite Hcr, Hpa, params_same_refl, (list_eqb_refl_gen _ _ crit_same_refl). cbn [andb].
  assert (Hnc : bp_anch_not_considered p || list_eqb alt_same (st_notcons cur) (st_notcons st) = true).
  { destruct (bp_anch_not_considered p) eqn:Hflag; [reflexivity|]. cbn [orb].
    rewrite (not_considered_only_if_asked _ _ _ _ _ _ Hflag Happ). apply list_eqb_refl_gen, alt_same_refl. }
  rewrite Hnc. cbn [andb]. apply forallb_forall. intros b Hb.
  assert (Hcase : (In b (st_cons st) \/ bp_anch_not_considered p = true /\ In b (st_notcons st)) \/
                  (bp_anch_not_considered p = false /\ In b (st_notcons cur))).
  { unfold all_alts in Hb. apply in_app_or in Hb as [Hb|Hb]; [now left; left|].
    destruct (bp_anch_not_considered p) eqn:Hflag; [left; right; now split|].
    right. split; [reflexivity|]. now rewrite <- (not_considered_only_if_asked _ _ _ _ _ _ Hflag Happ). }
  destruct Hcase as [Hcase|[Hflag Hb']].
  - destruct (inline_value _ _ _ _ _ _ NDsc Happ b Hcase) as (ad & avg & dd & Hfind & Havg & Hdd & Hvals).
    pose proof (find_some _ _ Hfind) as [Hin _].
    destruct (diffs_of_in _ _ _ _ _ _ _ Hd Hin) as (d & Ead & Hina & Hrd).
    assert (Hfa : find_alt (a_id b) (all_alts cur) = Some (fst ad)).
    { apply (find_fst (fun a => String.eqb (a_id a) (a_id b))) in Hfind.
      rewrite (diffs_of_fst _ _ _ _ _ _ Hd) in Hfind. exact Hfind. }
    rewrite Hfa, Hfind.
    assert (Ht : existsb (fun x => String.eqb (a_id x) (a_id b)) (st_cons cur) || bp_anch_not_considered p = true).
    { destruct Hcase as [Hc|[-> _]]; [|apply orb_true_r].
      apply orb_true_iff. left. apply existsb_id_in. rewrite <- Hidc. now apply in_map. }
    rewrite Ht. cbn [negb]. apply forallb_forall. intros c Hc.
    destruct (criteria_scaling_in _ _ _ _ Hsc Hc) as ([mn mx] & _ & Hinsc).
    rewrite (scaling_of_mget _ _ _ _ NDsc Hinsc).
    destruct (Hvals _ _ _ _ Hinsc) as (mean & v & A & B & C & D).
    destruct ad as [a1 pts]. cbn [fst snd] in *. injection Ead as Epts. subst pts.
    rewrite average_single in Havg. injection Havg as <-. cbn [snd] in A.
    cbn [snd flat_map]. rewrite A. cbn [app]. rewrite mean_single.
    rewrite (val_of_mget _ _ _ B), (val_of_mget _ _ _ C), Hdd, (val_of_mget _ _ _ D).
    unfold range_diff. cbn [fst snd]. rewrite near_refl. cbn [andb]. apply nsame_refl.
  - assert (Hfa : find_alt (a_id b) (all_alts cur) = Some b).
    { apply find_alt_nodup; [exact NDa|]. unfold all_alts. apply in_or_app. now right. }
    rewrite Hfa.
    destruct (find_fst_ex (fun a : @alt NumQc => String.eqb (a_id a) (a_id b)) diffs b) as (ad & Hfind & _).
    { rewrite (diffs_of_fst _ _ _ _ _ _ Hd). exact Hfa. }
    rewrite Hfind, Hflag, orb_false_r.
    assert (Hnt : existsb (fun x => String.eqb (a_id x) (a_id b)) (st_cons cur) = false).
    { destruct (existsb _ (st_cons cur)) eqn:E; [|reflexivity]. exfalso.
      apply existsb_id_in in E. unfold all_alts in NDa. rewrite map_app in NDa.
      apply in_map_iff in E as (x & Ex & Hx). apply in_split in Hx as (l1 & l2 & Hx).
      rewrite Hx, map_app in NDa. cbn [map] in NDa. rewrite <- app_assoc in NDa. cbn [app] in NDa.
      apply NoDup_remove_2 in NDa. apply NDa. apply in_or_app. right. apply in_or_app. right.
      rewrite Ex. now apply in_map. }
    rewrite Hnt. cbn [negb]. apply alt_same_refl.
Qed.

(** *** the theorem for the inline applier *)
Theorem anchoring_inline_passes_checker e (cur : @state NumQc) p st rep :
  inv cur = true ->
  NoDup (map a_id (all_alts cur)) -> NoDup (map c_id (st_crits cur)) ->
  (forall aa, In aa (bp_anch_alts p) -> 0 < aa_coef aa) ->
  bp_anch_applier p = ap_inline ->
  apply_anchoring e cur p = Ok (st, rep) ->
  C19_ok e p cur st rep = true.
Proof.
  intros Hinv NDa NDc Hcoef Hap H.
  apply apply_anchoring_inv in H as (anch & rpv & sc & diffs & ar & _ & Hanch & Hrp & _ & Hsc & Hd & _ & Happ & ->).
  rewrite Hap, String.eqb_refl in Happ.
  destruct (apply_inline_frame _ _ _ _ _ _ Happ) as (_ & _ & Hidc & Hidn & applied & ->).
  rewrite C19_ok_inline_split.
  rewrite (ck_ref_ok _ _ _ _ Hinv NDc Hcoef Hanch Hrp), (ck_scaling_ok _ _ NDc Hsc), (ck_diffs_ok _ _ _ _ _ _ NDc Hsc Hd).
  rewrite (ck_inline_ok _ _ _ _ _ _ _ _ NDa NDc Hsc Hd Happ).
  unfold same_split. rewrite Hidc, Hidn, !str_list_eqb_refl. reflexivity.
Qed.



(** ** 5. The new-criterion applier *)
(** *** normalised weights *)
Definition nw_dif (ranked : list (@wcrit NumQc)) : Qc :=
  match ranked with
  | [] => 0
  | first :: _ => if @nltb NumQc (snd first) c_001 then @nsub NumQc c_001 (snd first) else 0
  end.
(* the total shifted weight *)
Definition nw_total (ranked : list (@wcrit NumQc)) : Qc := nsum (map (fun c : @wcrit NumQc => snd c + nw_dif ranked) ranked).

Lemma fold_add_snd (l : list (@wcrit NumQc)) (acc : Qc) :
  fold_left (fun t (c : @wcrit NumQc) => @nadd NumQc t (snd c)) l acc = acc + nsum (map snd l).
Proof.
  revert acc. induction l as [|x l IH]; intros acc; cbn [fold_left map nsum]; qcn; [ring|]. rewrite IH. ring.
Qed.

Lemma normalize_weights_eq (ranked : list (@wcrit NumQc)) :
  normalize_weights ranked = map (fun c : @wcrit NumQc => (fst c, (snd c + nw_dif ranked) / nw_total ranked)) ranked.
Proof.
  destruct ranked as [|first rest]; [reflexivity|].
  unfold normalize_weights. rewrite map_map. cbn [fst snd].
  rewrite fold_add_snd, map_map. cbn [snd].
  unfold nw_total, nw_dif. apply map_ext. intros c. f_equal. qcn.
  match goal with |- _ / (?z + ?S) = _ => assert (Hz : z + S = S) by (generalize S; intros S'; change z with 0; ring); rewrite Hz end. reflexivity.
Qed.

Lemma nsum_div (l : list Qc) (t : Qc) : nsum (map (fun x => x / t) l) = nsum l / t.
Proof.
  induction l as [|x l IH]; cbn [map nsum]; qcn.
  - unfold Qcdiv. ring.
  - rewrite IH. unfold Qcdiv. ring.
Qed.

Theorem normalized_weights_sum_one (ranked : list (@wcrit NumQc)) :
  ranked <> [] -> nw_total ranked <> 0 -> nsum (map snd (normalize_weights ranked)) = 1.
Proof.
  intros _ Ht. rewrite normalize_weights_eq, map_map. cbn [snd].
  rewrite <- (map_map (fun c : @wcrit NumQc => snd c + nw_dif ranked) (fun x => x / nw_total ranked)).
  rewrite nsum_div. fold (nw_total ranked). unfold Qcdiv. now apply Qcmult_inv_r.
Qed.

(* a ranking in ascending order has a positive total shifted weight *)
Lemma nsum_ge (l : list Qc) (b : Qc) : 0 < b -> l <> [] -> (forall x, In x l -> b <= x) -> 0 < nsum l.
Proof.
  intros Hb NE H. destruct l as [|x l]; [congruence|]. clear NE.
  assert (G : forall l', (forall x, In x l' -> b <= x) -> 0 <= nsum l').
  { induction l' as [|y l' IH]; intros H'; cbn [nsum]; qcn; [apply Qcle_refl|].
    assert (A := H' y (or_introl eq_refl)). assert (B := IH (fun z Hz => H' z (or_intror Hz))). qcq. lra. }
  cbn [nsum]. qcn. assert (A := H x (or_introl eq_refl)). assert (B := G l (fun z Hz => H z (or_intror Hz))). qcq. lra.
Qed.

Lemma nw_total_pos (ranked : list (@wcrit NumQc)) :
  ranked <> [] -> StronglySorted Qcle (map snd ranked) -> 0 < nw_total ranked.
Proof.
  intros NE S. unfold nw_total. apply (nsum_ge _ (@c_001 NumQc)).
  - reflexivity.
  - destruct ranked; [congruence|discriminate].
  - intros x Hx. apply in_map_iff in Hx as (c & <- & Hc).
    destruct ranked as [|first rest]; [destruct Hc|]. cbn [map] in S. inversion S as [|y z _ Hall]; subst.
    assert (Hle : snd first <= snd c).
    { destruct Hc as [<-|Hc]; [apply Qcle_refl|]. rewrite Forall_forall in Hall. apply Hall. now apply in_map. }
    unfold nw_dif. destruct (@nltb NumQc (snd first) c_001) eqn:E; bconv; qcn.
    + set (k := @c_001 NumQc) in *. qcq. lra.
    + set (k := @c_001 NumQc) in *. qcq. lra.
Qed.

Lemma rank_criteria_sort (s : @state NumQc) ranked :
  rank_criteria s = Ok ranked -> exists w, sort_by_weights (st_crits s) w = Ok ranked.
Proof.
  unfold rank_criteria. destruct (st_params s); intros H;
    try (apply bind_ok in H as (w' & _ & H); exists w'; exact H); try (eexists; exact H).
Qed.

Lemma sort_by_weights_spec (cs : list (@crit NumQc)) w ranked :
  sort_by_weights cs w = Ok ranked ->
  StronglySorted Qcle (map snd ranked) /\ Permutation (map fst ranked) cs.
Proof.
  unfold sort_by_weights. intros H. apply bind_ok in H as (wc & Hwc & H). injection H as <-. split.
  - rewrite sorted_weights_snd. apply qsort_sorted.
  - assert (Hfst : map fst wc = cs).
    { unfold zip_with_weights in Hwc. clear - Hwc. revert wc Hwc. induction cs as [|c cs IH]; intros wc H; cbn [mapM] in H.
      - now injection H as <-.
      - apply bind_ok in H as (y & Hy & H). apply bind_ok in H as (ys & Hys & H). injection H as <-.
        apply bind_ok in Hy as (v & _ & Hy). injection Hy as <-. cbn [map fst]. f_equal. now apply IH. }
    rewrite <- Hfst. apply Permutation_map. apply isort_perm.
Qed.

Lemma rank_criteria_total_pos (s : @state NumQc) ranked :
  rank_criteria s = Ok ranked -> ranked <> [] -> 0 < nw_total ranked.
Proof.
  intros H NE. destruct (rank_criteria_sort _ _ H) as (w & Hw).
  destruct (sort_by_weights_spec _ _ _ Hw) as [S _]. now apply nw_total_pos.
Qed.

(** *** the value of a new criterion *)
Notation rdt := (string * smap (@num NumQc))%type.
Notation adt := (@crit NumQc * @addition NumQc)%type.

Definition nc_cv (weights : list (@wcrit NumQc)) (rdiff : rdt) : res (@num NumQc) :=
  fold_left (fun accv c => do s <- accv;
                           do v <- of_option (mget (c_id (fst c)) (snd rdiff)) EMissing;
                           Ok (nadd s (nmul v (snd c))))
            weights (Ok nzero).

(* Σ_c ŵ_c * d_c, in the checker's form *)
Definition nc_sum (weights : list (@wcrit NumQc)) (d : smap (@num NumQc)) : @num NumQc :=
  nsum (map (fun w : @wcrit NumQc => @nmul NumQc (snd w) (match mget (c_id (fst w)) d with Some x => x | None => nzero end)) weights).

Definition nc_val (p : @bprops NumQc) (rr : @num NumQc * @num NumQc) (cv : @num NumQc) : @num NumQc :=
  bound_value p rr (nadd (nadd (fst rr) (ndiv (range_diff rr) c_two)) (nmul (ndiv (range_diff rr) c_two) cv)).

Lemma nc_cv_spec weights (rdiff : rdt) cv :
  nc_cv weights rdiff = Ok cv ->
  cv = nc_sum weights (snd rdiff) /\
  forall w, In w weights -> exists v, mget (c_id (fst w)) (snd rdiff) = Some v.
Proof.
  unfold nc_cv, nc_sum.
  assert (G : forall l s0 cv0,
             fold_left (fun accv (c : @wcrit NumQc) => do s <- accv;
                          do v <- of_option (mget (c_id (fst c)) (snd rdiff)) EMissing;
                          Ok (@nadd NumQc s (@nmul NumQc v (snd c)))) l (Ok s0) = Ok cv0 ->
             cv0 = s0 + nsum (map (fun w : @wcrit NumQc => @nmul NumQc (snd w)
                                     (match mget (c_id (fst w)) (snd rdiff) with Some x => x | None => nzero end)) l) /\
             forall w, In w l -> exists v, mget (c_id (fst w)) (snd rdiff) = Some v).
  { induction l as [|w l IH]; intros s0 cv0 H; cbn [fold_left bind] in H.
    - injection H as <-. split; [cbn [map nsum]; qcr|intros w []].
    - destruct (mget (c_id (fst w)) (snd rdiff)) as [v|] eqn:E; cbn [of_option bind] in H.
      2:{ rewrite (fold_res_err (fun s (c : @wcrit NumQc) =>
                     do v <- of_option (mget (c_id (fst c)) (snd rdiff)) EMissing;
                     Ok (@nadd NumQc s (@nmul NumQc v (snd c))))) in H. discriminate. }
      destruct (IH _ _ H) as [A B]. split.
      + rewrite A. cbn [map nsum]. rewrite E. qcr.
      + intros w' [<-|Hw']; [eauto|now apply B]. }
  intros H. destruct (G _ _ _ H) as [A B]. split; [|exact B]. rewrite A. qcr.
Qed.

Definition nc_alt_step (p : @bprops NumQc) (rr : @num NumQc * @num NumQc) (weights : list (@wcrit NumQc))
           (a : @alt NumQc) (rc : rdt * adt) : res (@alt NumQc) :=
  let '(rdiff, (newc, _)) := rc in
  do cv <- nc_cv weights rdiff;
  with_value a (c_id newc) (nc_val p rr cv).

Definition nc_alt (p : @bprops NumQc) (rr : @num NumQc * @num NumQc) (weights : list (@wcrit NumQc)) (added : list adt)
           (ad : @alt NumQc * list rdt) : res (@alt NumQc) :=
  fold_left (fun acc rc => do a <- acc; nc_alt_step p rr weights a rc) (zip (snd ad) added) (Ok (fst ad)).

Definition new_ids (l : list (rdt * adt)) : list string := map (fun rc => c_id (fst (snd rc))) l.

Lemma with_value_spec (a : @alt NumQc) id v a' :
  with_value a id v = Ok a' ->
  mget id (a_vals a) = None /\ a_id a' = a_id a /\ a_vals a' = mset id v (a_vals a).
Proof.
  unfold with_value, mhas. destruct (mget id (a_vals a)); [discriminate|]. intros H. injection H as <-. auto.
Qed.

Lemma nc_alt_fold_spec p rr weights : forall (l : list (rdt * adt)) a a',
  fold_left (fun acc rc => do a <- acc; nc_alt_step p rr weights a rc) l (Ok a) = Ok a' ->
  a_id a' = a_id a /\
  (forall k, ~ In k (new_ids l) -> mget k (a_vals a') = mget k (a_vals a)) /\
  (forall k, In k (new_ids l) -> mget k (a_vals a) = None) /\
  NoDup (new_ids l) /\
  (forall rdiff newc add, In (rdiff, (newc, add)) l ->
     exists cv, nc_cv weights rdiff = Ok cv /\ mget (c_id newc) (a_vals a') = Some (nc_val p rr cv)).
Proof.
  induction l as [|[rdiff [newc add]] l IH]; intros a a' H; cbn [fold_left bind] in H.
  - injection H as <-. split; [reflexivity|]. split; [reflexivity|]. split; [intros k []|]. split; [constructor|intros ? ? ? []].
  - match type of H with context [nc_alt_step ?x1 ?x2 ?x3 ?x4 ?x5] =>
      destruct (nc_alt_step x1 x2 x3 x4 x5) as [a1|e] eqn:E end.
    2:{ rewrite (fold_res_err (nc_alt_step p rr weights)) in H. discriminate. }
    unfold nc_alt_step in E. apply bind_ok in E as (cv & Hcv & E).
    destruct (with_value_spec _ _ _ _ E) as (W1 & W2 & W3).
    destruct (IH _ _ H) as (I1 & I2 & I3 & I4 & I5).
    assert (Hn : ~ In (c_id newc) (new_ids l)).
    { intros Hin. specialize (I3 _ Hin). rewrite W3, mget_mset_same in I3. discriminate. }
    cbn [new_ids map fst snd]. fold (new_ids l). split; [now rewrite I1|]. split; [|split; [|split]].
    + intros k Hk. cbn [In] in Hk. rewrite I2 by tauto. rewrite W3. apply mget_mset_other. intros ->. apply Hk. now left.
    + intros k [<-|Hk]; [exact W1|]. specialize (I3 _ Hk). rewrite W3 in I3.
      rewrite mget_mset_other in I3; [exact I3|]. intros ->. contradiction.
    + constructor; assumption.
    + intros rdiff' newc' add' [Hin|Hin].
      * injection Hin as <- <- <-. exists cv. split; [exact Hcv|]. rewrite (I2 _ Hn), W3. apply mget_mset_same.
      * apply (I5 _ _ _ Hin).
Qed.

(** *** the shape of [apply_new_criterion] *)
Definition nc_create (e : @env NumQc) (p : @bprops NumQc) (ref : @crit NumQc)
           (st : list (@crit NumQc) * @mparams NumQc * list adt) (ir : nat * string)
  : res (list (@crit NumQc) * @mparams NumQc * list adt) :=
  let '(crits, params, added) := st in
  let g := new_rng e (bp_seed p + Z.of_nat (fst ir))%Z in
  let newc := {| c_id := not_used_name crits (anchoring_criterion_prefix ++ snd ir);
                 c_type := c_type ref; c_range := c_range ref |} in
  do crits' <- add_criterion crits newc;
  do ag <- on_criterion_added newc ref params g;
  do params' <- merge params (fst ag);
  Ok (crits', params', added ++ [(newc, fst ag)]).

Definition nc_refs (diffs : list (@alt NumQc * list rdt)) : list string :=
  match diffs with [] => [] | d0 :: _ => map fst (snd d0) end.

Definition nc_rep (added : list adt) (new_alts : list (@alt NumQc)) : list (@crit NumQc * smap (@num NumQc) * @addition NumQc) :=
  map (fun ca : adt => (fst ca,
                 fold_left (fun m (a : @alt NumQc) => match mget (c_id (fst ca)) (a_vals a) with
                                       | Some v => mset (a_id a) v m | None => m end) new_alts [],
                 snd ca)) added.

Lemma apply_new_criterion_unfold e (cur : @state NumQc) p sc diffs :
  apply_new_criterion e cur p sc diffs =
  do ranked <- rank_criteria cur;
  do ref <- reference_criterion e ranked p;
  do rsc <- of_option (find (fun cs : sct => String.eqb (c_id (fst cs)) (c_id ref)) sc) EMissing;
  do created <- fold_left (fun acc ir => do st <- acc; nc_create e p ref st ir)
                          (zip (seq 0 (List.length (nc_refs diffs))) (nc_refs diffs)) (Ok (st_crits cur, st_params cur, []));
  do new_alts <- mapM (nc_alt p (snd (snd rsc)) (normalize_weights ranked) (snd created)) diffs;
  do consd <- update_alts (st_cons cur) new_alts;
  do nconsd <- update_alts (st_notcons cur) new_alts;
  Ok ({| st_notcons := nconsd; st_cons := consd; st_crits := fst (fst created); st_params := snd (fst created) |},
      ARNew ref (nc_rep (snd created) new_alts)).
Proof.
  unfold apply_new_criterion.
  destruct (rank_criteria cur) as [ranked|]; cbn [bind]; [|reflexivity].
  destruct (reference_criterion e ranked p) as [ref|]; cbn [bind]; [|reflexivity].
  destruct (of_option _ EMissing) as [rsc|]; cbn [bind]; [|reflexivity].
  fold (nc_refs diffs).
  match goal with |- bind ?X _ = bind ?Y _ => change X with Y; destruct Y as [[[crits params] added]|]; cbn [bind]; reflexivity end.
Qed.

(** [new_criterion_value] *)
Theorem new_criterion_value e (cur : @state NumQc) p sc diffs st refc rep :
  apply_new_criterion e cur p sc diffs = Ok (st, ARNew refc rep) ->
  exists ranked rsc added new_alts,
    rank_criteria cur = Ok ranked /\ reference_criterion e ranked p = Ok refc /\
    find (fun cs : sct => String.eqb (c_id (fst cs)) (c_id refc)) sc = Some rsc /\
    update_alts (st_cons cur) new_alts = Ok (st_cons st) /\
    update_alts (st_notcons cur) new_alts = Ok (st_notcons st) /\
    rep = nc_rep added new_alts /\
    let mn := fst (snd (snd rsc)) in
    let mx := snd (snd (snd rsc)) in
    let half := (mx - mn) / @c_two NumQc in
    Forall2 (fun (ad : @alt NumQc * list rdt) (a' : @alt NumQc) =>
               a_id a' = a_id (fst ad) /\
               (forall k, ~ In k (new_ids (zip (snd ad) added)) -> mget k (a_vals a') = mget k (a_vals (fst ad))) /\
               (forall k, In k (new_ids (zip (snd ad) added)) -> mget k (a_vals (fst ad)) = None) /\
               forall rdiff newc add, In (rdiff, (newc, add)) (zip (snd ad) added) ->
                 (forall w, In w (normalize_weights ranked) -> exists v, mget (c_id (fst w)) (snd rdiff) = Some v) /\
                 mget (c_id newc) (a_vals a') =
                 Some (bound_value p (mn, mx) (mn + half + half * nc_sum (normalize_weights ranked) (snd rdiff))))
            diffs new_alts.
Proof.
  intros H. rewrite apply_new_criterion_unfold in H.
  apply bind_ok in H as (ranked & Hr & H). apply bind_ok in H as (ref & Href & H).
  apply bind_ok in H as (rsc & Hrsc & H). apply bind_ok in H as ([[crits params] added] & Hcr & H).
  apply bind_ok in H as (new_alts & Hna & H). apply bind_ok in H as (consd & Hc & H). apply bind_ok in H as (nconsd & Hn & H).
  injection H as <- <- <-. cbn [fst snd] in *.
  exists ranked, rsc, added, new_alts. split; [exact Hr|]. split; [exact Href|]. split.
  { match type of Hrsc with of_option ?F _ = _ => destruct F as [x|]; [|discriminate] end. now injection Hrsc as ->. }
  cbn [st_cons st_notcons]. split; [exact Hc|]. split; [exact Hn|]. split; [reflexivity|]. cbv zeta.
  apply mapM_Forall2 in Hna. eapply Forall2_imp; [|exact Hna]. intros ad a' Ha'. unfold nc_alt in Ha'.
  destruct (nc_alt_fold_spec _ _ _ _ _ _ Ha') as (I1 & I2 & I3 & _ & I5).
  split; [exact I1|]. split; [exact I2|]. split; [exact I3|].
  intros rdiff newc add Hin. destruct (I5 _ _ _ Hin) as (cv & Hcv & Hm).
  destruct (nc_cv_spec _ _ _ Hcv) as [-> Hw]. split; [exact Hw|]. rewrite Hm. unfold nc_val, range_diff.
  destruct (snd (snd rsc)) as [mn mx]. reflexivity.
Qed.



(** ** 6b. The new-criterion applier passes the checker *)
Definition ck_new (p : @bprops NumQc) (before after : @state NumQc) (refs : list (@alt NumQc))
           (scaling : smap (@num NumQc * (@num NumQc * @num NumQc)))
           (diffs : list (@alt NumQc * list (string * smap (@num NumQc))))
           (refc : @crit NumQc) (added : list (@crit NumQc * smap (@num NumQc) * @addition NumQc)) : bool :=
  has_crit (c_id refc) (st_crits before)
  && Nat.eqb (List.length added) (List.length refs)
  && Nat.eqb (List.length (st_crits after)) (List.length (st_crits before) + List.length added)
  && is_prefix_crits (st_crits before) (st_crits after)
  && values_kept (st_crits before) before after
  && inv after
  && match rank_criteria before, mget (c_id refc) scaling with
     | Ok ranked, Some (_, rr) =>
         let ws := normalize_weights ranked in
         near (nsum (map snd ws)) none
         && forallb (fun nr =>
                       let '(nc, vals, _) := fst nr in
                       negb (has_crit (c_id nc) (st_crits before))
                       && forallb (fun b =>
                                     match find (fun ad => String.eqb (a_id (fst ad)) (a_id b)) diffs with
                                     | Some ad =>
                                         match find (fun rd => String.eqb (fst rd) (snd nr)) (snd ad) with
                                         | Some rd =>
                                             let cv := nsum (map (fun w => nmul (snd w) (match mget (c_id (fst w)) (snd rd) with Some x => x | None => nzero end)) ws) in
                                             let half := ndiv (range_diff rr) c_two in
                                             near (val_of b (c_id nc)) (bound_value p rr (nadd (nadd (fst rr) half) (nmul half cv)))
                                             && option_eqb nsame (mget (a_id b) vals) (mget (c_id nc) (a_vals b))
                                         | None => false
                                         end
                                     | None => false
                                     end) (all_alts after))
                    (zip added (map a_id refs))
     | _, _ => false
     end.

Lemma C19_ok_new_split e p (before after : @state NumQc) refs scaling diffs refc added :
  C19_ok e p before after (RAnchoring refs scaling diffs (ARNew refc added)) =
  ck_ref p before refs && ck_scaling before scaling && ck_diffs e p before refs scaling diffs
  && same_split before after && ck_new p before after refs scaling diffs refc added.
Proof. reflexivity. Qed.

(** *** auxiliary facts *)
Lemma reference_criterion_nonempty e (p : @bprops NumQc) c : @reference_criterion NumQc e [] p = Ok c -> False.
Proof.
  unfold reference_criterion.
  destruct (String.eqb (bp_ref_type p) "" || String.eqb (bp_ref_type p) rc_importance); [discriminate|].
  destruct (String.eqb (bp_ref_type p) rc_uniform).
  { destruct (draw (new_rng e (bp_ref_seed p))) as [dg|]; cbn [bind]; [|discriminate].
    destruct (Z.to_nat _); discriminate. }
  destruct (String.eqb (bp_ref_type p) rc_weighted); [|discriminate].
  destruct (draw (new_rng e (bp_ref_seed p))) as [dg|]; cbn [bind]; discriminate.
Qed.

Lemma has_crit_mem id (cs : list (@crit NumQc)) : has_crit id cs = mem_str id (map c_id cs).
Proof.
  induction cs as [|c cs IH]; cbn [has_crit existsb map mem_str]; [reflexivity|].
  fold (has_crit id cs). rewrite IH, (str_eqb_sym (c_id c) id). reflexivity.
Qed.

Lemma option_eqb_nsame_refl (o : option (@num NumQc)) : option_eqb nsame o o = true.
Proof. destruct o; cbn [option_eqb]; [apply nsame_refl|reflexivity]. Qed.

Lemma find_Forall2 {X} (R : X -> @alt NumQc -> Prop) (idx : X -> string) : forall l1 l2 id y,
  Forall2 R l1 l2 -> (forall x y, R x y -> a_id y = idx x) ->
  find_alt id l2 = Some y ->
  exists x, find (fun x => String.eqb (idx x) id) l1 = Some x /\ R x y.
Proof.
  intros l1 l2 id y F Hid. induction F as [|x y' l1 l2 Hxy _ IH]; cbn [find_alt find]; [discriminate|].
  rewrite (Hid _ _ Hxy). destruct (String.eqb (idx x) id); [intros H; injection H as <-; eauto|exact IH].
Qed.

Lemma Forall2_ids {X} (R : X -> @alt NumQc -> Prop) (idx : X -> string) l1 l2 :
  Forall2 R l1 l2 -> (forall x y, R x y -> a_id y = idx x) -> map a_id l2 = map idx l1.
Proof. intros F Hid. induction F as [|x y l1 l2 Hxy _ IH]; cbn [map]; [reflexivity|]. now rewrite IH, (Hid _ _ Hxy). Qed.

(* the reported values of a new criterion: one entry per alternative *)
Lemma vals_fold_spec (k : string) : forall (l : list (@alt NumQc)) (m0 : smap (@num NumQc)),
  NoDup (map a_id l) ->
  (forall b, In b l ->
     mget (a_id b) (fold_left (fun m (a : @alt NumQc) => match mget k (a_vals a) with Some v => mset (a_id a) v m | None => m end) l m0)
     = match mget k (a_vals b) with Some v => Some v | None => mget (a_id b) m0 end) /\
  (forall id, ~ In id (map a_id l) ->
     mget id (fold_left (fun m (a : @alt NumQc) => match mget k (a_vals a) with Some v => mset (a_id a) v m | None => m end) l m0)
     = mget id m0).
Proof.
  induction l as [|a l IH]; intros m0 ND; cbn [fold_left].
  - split; [intros b []|reflexivity].
  - cbn [map] in ND. inversion ND as [|x y Hn ND']; subst.
    destruct (IH (match mget k (a_vals a) with Some v => mset (a_id a) v m0 | None => m0 end) ND') as [IH1 IH2]. split.
    + intros b [<-|Hb].
      * rewrite (IH2 _ Hn). destruct (mget k (a_vals a)); [apply mget_mset_same|reflexivity].
      * rewrite (IH1 _ Hb). destruct (mget k (a_vals b)); [reflexivity|].
        destruct (mget k (a_vals a)); [|reflexivity]. apply mget_mset_other. intros E. apply Hn. rewrite <- E. now apply in_map.
    + intros id Hid. cbn [map In] in Hid. rewrite IH2 by tauto.
      destruct (mget k (a_vals a)); [|reflexivity]. apply mget_mset_other. intros ->. apply Hid. now left.
Qed.

(** *** the new-criterion applier on the differences against one reference point *)
Definition nc_rel (p : @bprops NumQc) (rr : @num NumQc * @num NumQc) (ws : list (@wcrit NumQc)) (rid : string)
           (newc : @crit NumQc) (ad : @alt NumQc * list rdt) (a' : @alt NumQc) : Prop :=
  a_id a' = a_id (fst ad) /\
  (forall k, k <> c_id newc -> mget k (a_vals a') = mget k (a_vals (fst ad))) /\
  mget (c_id newc) (a_vals (fst ad)) = None /\
  exists d, snd ad = [(rid, d)] /\ mget (c_id newc) (a_vals a') = Some (nc_val p rr (nc_sum ws d)).

Lemma new_criterion_single e (cur : @state NumQc) p sc r diffs st ar :
  diffs_of e p sc [r] (all_alts cur) = Ok diffs -> all_alts cur <> [] ->
  apply_new_criterion e cur p sc diffs = Ok (st, ar) ->
  exists ranked ref rsc newc ag new_alts,
    rank_criteria cur = Ok ranked /\ reference_criterion e ranked p = Ok ref /\
    find (fun cs : sct => String.eqb (c_id (fst cs)) (c_id ref)) sc = Some rsc /\
    mem_str (c_id newc) (map c_id (st_crits cur)) = false /\
    st_crits st = st_crits cur ++ [newc] /\
    Forall2 (nc_rel p (snd (snd rsc)) (normalize_weights ranked) (a_id r) newc) diffs new_alts /\
    update_alts (st_cons cur) new_alts = Ok (st_cons st) /\
    update_alts (st_notcons cur) new_alts = Ok (st_notcons st) /\
    ar = ARNew ref (nc_rep [(newc, ag)] new_alts).
Proof.
  intros Hd NE H. rewrite apply_new_criterion_unfold in H.
  apply bind_ok in H as (ranked & Hr & H). apply bind_ok in H as (ref & Href & H).
  apply bind_ok in H as (rsc & Hrsc & H). apply bind_ok in H as (created & Hcr & H).
  apply bind_ok in H as (new_alts & Hna & H). apply bind_ok in H as (consd & Hc & H). apply bind_ok in H as (nconsd & Hn & H).
  injection H as <- <-.
  assert (Hrefs : nc_refs diffs = [a_id r]).
  { pose proof (diffs_of_spec _ _ _ _ _ _ Hd) as F. destruct F as [|a ad all diffs (d & -> & _) _]; [congruence|]. reflexivity. }
  rewrite Hrefs in Hcr. cbn [List.length seq zip fold_left bind] in Hcr.
  unfold nc_create in Hcr. cbn [fst snd] in Hcr.
  apply bind_ok in Hcr as (crits' & Hadd & Hcr). apply bind_ok in Hcr as (ag & Hag & Hcr).
  apply bind_ok in Hcr as (params' & Hmerge & Hcr). injection Hcr as <-. cbn [fst snd app] in *.
  set (newc := {| c_id := not_used_name (st_crits cur) (anchoring_criterion_prefix ++ a_id r);
                  c_type := c_type ref; c_range := c_range ref |}) in *.
  unfold add_criterion in Hadd. destruct (mem_str (c_id newc) (map c_id (st_crits cur))) eqn:Emem; [discriminate|].
  injection Hadd as <-.
  exists ranked, ref, rsc, newc, (fst ag), new_alts.
  split; [exact Hr|]. split; [exact Href|]. split.
  { match type of Hrsc with of_option ?F _ = _ => destruct F as [x|]; [|discriminate] end. now injection Hrsc as ->. }
  split; [exact Emem|]. split; [reflexivity|]. split; [|cbn [st_cons st_notcons]; repeat split; assumption].
  apply mapM_Forall2 in Hna. pose proof (diffs_of_spec _ _ _ _ _ _ Hd) as F.
  clear - Hna F. revert new_alts Hna. induction F as [|a ad all diffs (d & -> & _) _ IH]; intros new_alts Hna.
  - inversion Hna. constructor.
  - inversion Hna as [|x y l1 l2 Hxy Hrest]; subst. constructor; [|now apply IH].
    unfold nc_alt in Hxy. cbn [fst snd zip] in Hxy.
    destruct (nc_alt_fold_spec _ _ _ _ _ _ Hxy) as (I1 & I2 & I3 & _ & I5).
    unfold nc_rel. cbn [fst snd]. split; [exact I1|]. split; [|split].
    + intros k Hk. apply I2. cbn [new_ids map fst snd In]. intros [E|[]]. apply Hk. now symmetry.
    + apply I3. cbn [new_ids map fst snd In]. now left.
    + exists d. split; [reflexivity|]. destruct (I5 (a_id r, d) newc (fst ag) (or_introl eq_refl)) as (cv & Hcv & Hm).
      destruct (nc_cv_spec _ _ _ Hcv) as [-> _]. exact Hm.
Qed.

Lemma Forall2_app_gen {A B} (R : A -> B -> Prop) l1 l2 l1' l2' :
  Forall2 R l1 l1' -> Forall2 R l2 l2' -> Forall2 R (l1 ++ l2) (l1' ++ l2').
Proof. induction 1; cbn [app]; [auto|]. intros. constructor; auto. Qed.

Lemma Forall2_in_r {A B} (R : A -> B -> Prop) l1 l2 y :
  Forall2 R l1 l2 -> In y l2 -> exists x, R x y.
Proof. induction 1 as [|x y' l1 l2 H _ IH]; intros Hin; [destruct Hin|]. destruct Hin as [<-|Hin]; eauto. Qed.

Lemma ck_new_ok e (cur : @state NumQc) p sc rpv diffs st refc added :
  inv cur = true -> inv st = true ->
  NoDup (map a_id (all_alts cur)) -> NoDup (map c_id (st_crits cur)) ->
  all_alts cur <> [] ->
  criteria_scaling (st_crits cur) (all_alts cur) = Ok sc ->
  diffs_of e p sc [ref_alt p rpv] (all_alts cur) = Ok diffs ->
  apply_new_criterion e cur p sc diffs = Ok (st, ARNew refc added) ->
  ck_new p cur st [ref_alt p rpv] (scaling_of sc) diffs refc added = true.
Proof.
  intros Hinv Hinv' NDa NDc NE Hsc Hd Happ.
  assert (NDsc : NoDup (sc_ids sc)) by now rewrite (criteria_scaling_ids _ _ _ Hsc).
  destruct (new_criterion_single _ _ _ _ _ _ _ _ Hd NE Happ)
    as (ranked & ref & rsc & newc & ag & new_alts & Hr & Href & Hrsc & Hmem & Hcrits & Hrel & Hc & Hn & Ear).
  injection Ear as -> ->. cbn [ref_alt a_id] in Hrel.
  set (rr := snd (snd rsc)) in *. set (ws := normalize_weights ranked) in *.
  assert (Hidrel : forall x y, nc_rel p rr ws (bp_anch_ref p) newc x y -> a_id y = a_id (fst x)).
  { intros x y (A & _). exact A. }
  assert (Hfst : map fst diffs = all_alts cur) by apply (diffs_of_fst _ _ _ _ _ _ Hd).
  (* an alternative of the new state is the image of the old alternative with its identifier *)
  assert (Himg : forall x b, In x (all_alts cur) -> find_alt (a_id x) new_alts = Some b ->
                 exists ad, find (fun ad => String.eqb (a_id (fst ad)) (a_id b)) diffs = Some ad /\
                            fst ad = x /\ nc_rel p rr ws (bp_anch_ref p) newc ad b).
  { intros x b Hx Hb. destruct (find_Forall2 _ (fun ad => a_id (fst ad)) _ _ _ _ Hrel Hidrel Hb) as (ad & Hf & Hrb).
    assert (Eid : a_id b = a_id x) by (apply find_alt_id in Hb; tauto).
    exists ad. rewrite Eid. split; [exact Hf|]. split; [|exact Hrb].
    apply (find_fst (fun a => String.eqb (a_id a) (a_id x))) in Hf. rewrite Hfst in Hf.
    change (find_alt (a_id x) (all_alts cur) = Some (fst ad)) in Hf.
    rewrite (find_alt_nodup _ _ NDa Hx) in Hf. now injection Hf. }
  assert (Hupd : forall old l, incl old (all_alts cur) -> update_alts old new_alts = Ok l ->
                 Forall2 (fun x b => In x (all_alts cur) /\ find_alt (a_id x) new_alts = Some b) old l).
  { intros old l Hincl Hu. unfold update_alts in Hu. apply mapM_Forall2 in Hu.
    revert Hincl. induction Hu as [|x b old l Hxb _ IH]; intros Hincl; constructor.
    - split; [apply Hincl; now left|]. rewrite fetch_alt'_find in Hxb. destruct (find_alt (a_id x) new_alts); [|discriminate].
      now injection Hxb as ->.
    - apply IH. intros z Hz. apply Hincl. now right. }
  assert (Hall : Forall2 (fun x b => In x (all_alts cur) /\ find_alt (a_id x) new_alts = Some b) (all_alts cur) (all_alts st)).
  { unfold all_alts at 2 3. apply Forall2_app_gen.
    - apply Hupd; [|exact Hc]. intros z Hz. unfold all_alts. apply in_or_app. now left.
    - apply Hupd; [|exact Hn]. intros z Hz. unfold all_alts. apply in_or_app. now right. }
  assert (Hnewid : forall c, In c (st_crits cur) -> c_id c <> c_id newc).
  { intros c Hc' E. apply mem_str_false in Hmem. apply Hmem. rewrite <- E. now apply in_map. }
  unfold ck_new.
  (* has_crit ref *)
  pose proof (find_some _ _ Hrsc) as [Hinrsc Eidrsc]. apply String.eqb_eq in Eidrsc.
  assert (Hhas : has_crit (c_id ref) (st_crits cur) = true).
  { rewrite has_crit_mem. apply mem_str_In. rewrite <- Eidrsc, <- (criteria_scaling_ids _ _ _ Hsc).
    unfold sc_ids. now apply (in_map (fun cs : sct => c_id (fst cs))). }
  rewrite Hhas. cbn [nc_rep map List.length Nat.eqb andb].
  rewrite Hcrits, app_length. cbn [List.length]. rewrite Nat.eqb_refl. cbn [andb].
  assert (Hpre : is_prefix_crits (st_crits cur) (st_crits cur ++ [newc]) = true).
  { unfold is_prefix_crits. rewrite firstn_app, firstn_all, Nat.sub_diag. cbn [firstn]. rewrite app_nil_r.
    apply list_eqb_refl_gen, crit_same_refl. }
  rewrite Hpre. cbn [andb].
  assert (Hkept : values_kept (st_crits cur) cur st = true).
  { unfold values_kept. apply list_eqb_Forall2. eapply Forall2_imp; [|exact Hall].
    intros x b [Hx Hb]. destruct (Himg _ _ Hx Hb) as (ad & _ & <- & (_ & Hk & _)).
    apply forallb_forall. intros c Hc'. rewrite (Hk _ (Hnewid c Hc')). apply option_eqb_nsame_refl. }
  rewrite Hkept, Hinv', Hr. cbn [andb].
  destruct rsc as [c' [s' rr']]. cbn [fst snd] in *. subst rr.
  rewrite <- Eidrsc, (scaling_of_mget _ _ _ _ NDsc Hinrsc). cbv zeta. fold ws.
  assert (Hne : ranked <> []).
  { intros ->. exact (reference_criterion_nonempty _ _ _ Href). }
  assert (Hsum : nsum (map snd ws) = 1).
  { apply normalized_weights_sum_one; [exact Hne|]. pose proof (rank_criteria_total_pos _ _ Hr Hne) as Hp.
    intros E0. rewrite E0 in Hp. discriminate. }
  rewrite Hsum. change (@none NumQc) with 1. rewrite near_refl. cbn [andb zip map ref_alt a_id forallb fst snd].
  rewrite andb_true_r, has_crit_mem, Hmem. cbn [negb andb].
  apply forallb_forall. intros b Hb.
  destruct (Forall2_in_r _ _ _ _ Hall Hb) as (x & [Hx Hfb]).
  destruct (Himg _ _ Hx Hfb) as ([a1 pts] & Hfind & Efst & (_ & _ & _ & d & Epts & Hval)). cbn [fst snd] in *. subst pts.
  rewrite Hfind. cbn [snd find fst]. rewrite String.eqb_refl. cbn [snd].
  rewrite (val_of_mget _ _ _ Hval). unfold nc_val, nc_sum. rewrite near_refl. cbn [andb].
  assert (NDn : NoDup (map a_id new_alts)).
  { rewrite (Forall2_ids _ (fun ad : @alt NumQc * list rdt => a_id (fst ad)) _ _ Hrel Hidrel), <- (map_map fst a_id), Hfst. exact NDa. }
  destruct (vals_fold_spec (c_id newc) new_alts [] NDn) as [V1 _].
  assert (Hbn : In b new_alts) by (apply find_alt_id in Hfb; tauto).
  pose proof (V1 b Hbn) as Hv1. rewrite Hval in Hv1. rewrite Hval.
  match type of Hv1 with ?L = _ => match goal with |- option_eqb _ ?X _ = _ => change X with L end end.
  rewrite Hv1. cbn [option_eqb]. apply nsame_refl.
Qed.

Lemma anch_of_nonempty (cur : @state NumQc) p anch : bp_anch_alts p <> [] -> anch_of cur p = Ok anch -> all_alts cur <> [].
Proof.
  unfold anch_of. intros NE H E. rewrite E in H. destruct (bp_anch_alts p) as [|aa l]; [congruence|].
  cbn [mapM fetch_alt' bind] in H. discriminate.
Qed.

(** [anchoring_passes_checker]: both appliers; for the new-criterion applier the invariant of the
    produced state is the explicit hypothesis [Hinv_after] *)
Theorem anchoring_passes_checker e (cur : @state NumQc) p st rep :
  inv cur = true ->
  NoDup (map a_id (all_alts cur)) -> NoDup (map c_id (st_crits cur)) ->
  (forall aa, In aa (bp_anch_alts p) -> 0 < aa_coef aa) ->
  forall (Hinv_after : bp_anch_applier p <> ap_inline -> inv st = true),
  apply_anchoring e cur p = Ok (st, rep) ->
  C19_ok e p cur st rep = true.
Proof.
  intros Hinv NDa NDc Hcoef Hinv_after H.
  destruct (String.eqb (bp_anch_applier p) ap_inline) eqn:Eap.
  { apply String.eqb_eq in Eap. now apply (anchoring_inline_passes_checker e cur p st rep). }
  assert (Hinv' : inv st = true).
  { apply Hinv_after. intros E. rewrite E, String.eqb_refl in Eap. discriminate. }
  apply apply_anchoring_inv in H as (anch & rpv & sc & diffs & ar & NEa & Hanch & Hrp & _ & Hsc & Hd & _ & Happ & ->).
  rewrite Eap in Happ.
  pose proof (anch_of_nonempty _ _ _ NEa Hanch) as NE.
  destruct (new_criterion_single _ _ _ _ _ _ _ _ Hd NE Happ)
    as (ranked & ref & rsc & newc & ag & new_alts & _ & _ & _ & _ & _ & _ & Hc & Hn & Ear).
  subst ar. rewrite C19_ok_new_split.
  rewrite (ck_ref_ok _ _ _ _ Hinv NDc Hcoef Hanch Hrp), (ck_scaling_ok _ _ NDc Hsc), (ck_diffs_ok _ _ _ _ _ _ NDc Hsc Hd).
  rewrite (ck_new_ok _ _ _ _ _ _ _ _ _ Hinv Hinv' NDa NDc NE Hsc Hd Happ).
  unfold same_split. rewrite (update_alts_ids _ _ _ Hc), (update_alts_ids _ _ _ Hn), !str_list_eqb_refl. reflexivity.
Qed.



(** ** 7. Concrete evaluations: why the added hypotheses are needed *)
Definition qz (z : Z) : Qc := Q2Qc (inject_Z z).
Definition ex_lin (a b : Qc) : @fparams NumQc :=
  {| fp_name := "linear"; fp_a := a; fp_b := b; fp_alpha := 0; fp_mult := 0 |}.
Definition ex_props (alts : list (@anchor_alt NumQc)) (applier : string) : @bprops NumQc :=
  {| bp_ordering := ""; bp_ratio := 0; bp_min := 0; bp_max := 0; bp_seed := 0;
     bp_scaling := qz (-1); bp_nonneg := false;
     bp_ref_type := ""; bp_ref_importance := 0; bp_ref_seed := 0; bp_new_scaling := 0; bp_mix_ratio := 0;
     bp_fat_function := ""; bp_fat_value := 0; bp_fat_alpha := 0; bp_fat_mult := 0; bp_fat_query := 0;
     bp_anch_alts := alts; bp_anch_loss := ex_lin 1 0; bp_anch_gain := ex_lin 1 0;
     bp_anch_ref := "ideal"; bp_anch_applier := applier; bp_anch_not_considered := false |}.
Definition ex_x : @crit NumQc := {| c_id := "x"; c_type := TGain; c_range := None |}.
Definition ex_alt1 (id : string) (x : Z) : @alt NumQc := {| a_id := id; a_vals := [("x", qz x)] |}.
Definition ex_env : @env NumQc := {| env_streams := []; env_exp := [] |}.

(** (a) [diff_spec] needs [Hnd_sc]: with a duplicated identifier the later entry wins *)
Example diff_dup_ids :
  exists m, @ref_diffs NumQc ex_env [(ex_x, (qz 1, (qz 0, qz 1))); (ex_x, (qz 2, (qz 0, qz 1)))]
                       (ex_alt1 "a" 3) (ex_alt1 "r" 1) (ex_lin 1 0) (ex_lin 1 0) = Ok m /\
            mget "x" m = Some (qz 4).
Proof. eexists. split; vm_compute; reflexivity. Qed.

(** (b) [inline_value] needs [Hnd_sc]: on the second visit of an identifier the inline applier reads the value it
    has just written as if it were the difference: 10 + 10 * (1/10) = 11, then 10 + 10 * 11 = 120 *)
Definition ex_cur1 : @state NumQc :=
  {| st_notcons := []; st_cons := [ex_alt1 "a" 10]; st_crits := [ex_x]; st_params := PWs [(ex_x, 1)] |}.
Example inline_dup_ids :
  match @apply_inline NumQc ex_cur1 (ex_props [] "inline")
          [(ex_x, (1, (qz 0, qz 10))); (ex_x, (1, (qz 0, qz 10)))]
          [(ex_alt1 "a" 10, [("r", [("x", Q2Qc (1 # 10))])])] with
  | Ok (st, _) => map (fun a : @alt NumQc => mget "x" (a_vals a)) (st_cons st) = [Some (qz 120)]
  | Err _ => False
  end.
Proof. vm_compute. reflexivity. Qed.

(** (c) the coefficient hypothesis of [anchoring_passes_checker]: a later anchoring alternative with coefficient 0 never
    replaces the held value (model and code: reference value -5), although the largest value x coefficient would be
    0 = 10 x 0 > -5 = -5 x 1. A coefficient of 0 has no weighted comparison on cost criteria (value / 0), so the checker
    does not judge the weighted clause when one occurs: it only asks the reference value to be the value of one of the
    anchoring alternatives, and accepts the model's output here *)
Definition ex_cur2 : @state NumQc :=
  {| st_notcons := []; st_cons := [ex_alt1 "a0" (-5); ex_alt1 "a1" 10]; st_crits := [ex_x]; st_params := PWs [(ex_x, 1)] |}.
Definition ex_p2 : @bprops NumQc := ex_props [{| aa_id := "a0"; aa_coef := 1 |}; {| aa_id := "a1"; aa_coef := 0 |}] "inline".
Example zero_coefficient_not_judged :
  inv ex_cur2 = true /\
  match apply_anchoring ex_env ex_cur2 ex_p2 with
  | Ok (st, RAnchoring [rp] _ _ _ as rep) => mget "x" (a_vals rp) = Some (qz (-5)) /\ C19_ok ex_env ex_p2 ex_cur2 st rep = true
  | _ => False
  end.
Proof. split; [reflexivity|]. vm_compute. split; reflexivity. Qed.

(* the same data with the coefficient 1/100 instead of 0 is accepted *)
Definition ex_p3 : @bprops NumQc :=
  ex_props [{| aa_id := "a0"; aa_coef := 1 |}; {| aa_id := "a1"; aa_coef := Q2Qc (1 # 100) |}] "inline".
Example small_coefficient_accepted :
  match apply_anchoring ex_env ex_cur2 ex_p3 with
  | Ok (st, rep) => C19_ok ex_env ex_p3 ex_cur2 st rep = true
  | Err _ => False
  end.
Proof. vm_compute. reflexivity. Qed.

(** ** Assumptions *)
Print Assumptions diff_spec.
Print Assumptions diff_spec_coeff.
Print Assumptions criteria_scaling_spec.
Print Assumptions average_spec.
Print Assumptions inline_value.
Print Assumptions not_considered_only_if_asked.
Print Assumptions zero_functions_identity.
Print Assumptions reference_point_spec.
Print Assumptions reference_point_first_alt_keys.
Print Assumptions can_new_be_better_zero_cand.
Print Assumptions rp_upd_zero_cand.
Print Assumptions normalized_weights_sum_one.
Print Assumptions new_criterion_value.
Print Assumptions anchoring_inline_passes_checker.
Print Assumptions anchoring_passes_checker.
Print Assumptions zero_coefficient_not_judged.
