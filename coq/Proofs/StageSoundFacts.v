(** * Soundness of the boolean checkers of C07 ([inv], [same_split], [values_kept], [frame_ok], Check/Stage.v) and of
    C03 ([C03_ok], Check/C03.v): what a passed check says about the OBSERVED data, in declarative terms.

    Nothing is assumed about the arguments of the checkers beyond what the checkers themselves test.

    - Part 1: bridges from the boolean comparisons to Prop ([pointwise], Leibniz equality under [OrdLaws]).
    - Part 2 ([{N : Num}]): [inv_spec], [inv_sound], [inv_iff], [inv_weighted_ids_perm].
    - Part 3 ([{N : Num} {L : OrdLaws N}]): [same_split_sound], [values_kept_sound], [frame_spec], [frame_ok_sound],
      [frame_ok_iff].
    - Part 4: [C03_code_zero], [C03_code_two] (any carrier); on [NumQc]: [within_rounding], [C03_entry_spec],
      [C03_spec], [C03_ok_sound], [C03_finding], [C03_code_two_sound], [round8_close], [within_rounding_abs],
      [C03_choquet_textbook].
    - Part 5: examples on [NumQc] (the checkers evaluate to [true] on the output of the model). *)
From Coq Require Import ZArith QArith Qcanon Qabs Qround Bool List String Permutation Sorted Lia Lqa.
From RDM Require Import Base.Num Base.NumQc Base.Util Model.Data Model.Rank Model.Utility Model.Levels Model.Heuristics
  Model.Listeners Model.Biases Model.Anchoring Model.Pipeline Spec.Aggregates Check.C03 Check.Stage
  Proofs.SortFacts Proofs.WfFacts Proofs.AggregateFacts.
Import ListNotations.
Local Close Scope Q_scope.
Local Open Scope string_scope.
Local Open Scope list_scope.

Ltac bsplit :=
  repeat match goal with
         | H : andb _ _ = true |- _ => apply andb_true_iff in H; destruct H
         end.

(** ** Part 1. Bridges *)
Section Bridges.
  Context {A B : Type}.

  (* same length, and [R] holds position by position *)
  Definition pointwise (R : A -> B -> Prop) (l1 : list A) (l2 : list B) : Prop :=
    List.length l1 = List.length l2 /\
    forall i x y, nth_error l1 i = Some x -> nth_error l2 i = Some y -> R x y.

  Lemma list_eqb_pointwise (f : A -> B -> bool) : forall l1 l2,
    list_eqb f l1 l2 = true <-> pointwise (fun x y => f x y = true) l1 l2.
  Proof.
    unfold pointwise. induction l1 as [|x r IH]; intros [|y s]; cbn [list_eqb List.length].
    - split; [|reflexivity]. intros _. split; [reflexivity|]. intros [|i] ? ?; discriminate.
    - split; [discriminate|]. intros [H _]. discriminate.
    - split; [discriminate|]. intros [H _]. discriminate.
    - rewrite andb_true_iff, IH. split.
      + intros [H1 [H2 H3]]. split; [now f_equal|].
        intros [|i] x' y'; cbn [nth_error]; intros E1 E2.
        * injection E1 as <-. injection E2 as <-. exact H1.
        * now apply (H3 i).
      + intros [H1 H2]. split; [apply (H2 0%nat); reflexivity|]. split; [now injection H1|].
        intros i x' y' E1 E2. now apply (H2 (S i)).
  Qed.

  Lemma pointwise_impl (R S : A -> B -> Prop) l1 l2 :
    (forall x y, In x l1 -> In y l2 -> R x y -> S x y) -> pointwise R l1 l2 -> pointwise S l1 l2.
  Proof.
    intros H [Len P]. split; [exact Len|]. intros i x y E1 E2.
    apply H; [eapply nth_error_In; exact E1|eapply nth_error_In; exact E2|]. now apply (P i).
  Qed.
End Bridges.

Lemma list_eqb_eq {A} (f : A -> A -> bool) : (forall x y, f x y = true -> x = y) ->
  forall l1 l2, list_eqb f l1 l2 = true -> l1 = l2.
Proof.
  intros Hf. induction l1 as [|x r IH]; intros [|y s]; cbn [list_eqb]; intros H; try discriminate; [reflexivity|].
  bsplit. f_equal; [now apply Hf|now apply IH].
Qed.

Lemma list_eqb_refl_of {A} (f : A -> A -> bool) : (forall x, f x x = true) -> forall l, list_eqb f l l = true.
Proof. intros Hf. induction l as [|x r IH]; cbn [list_eqb]; [reflexivity|]. now rewrite Hf, IH. Qed.

Lemma option_eqb_eq {A} (f : A -> A -> bool) : (forall x y, f x y = true -> x = y) ->
  forall o1 o2, option_eqb f o1 o2 = true -> o1 = o2.
Proof. intros Hf [x|] [y|]; cbn [option_eqb]; intros H; try discriminate; [f_equal; now apply Hf|reflexivity]. Qed.

Lemma mhas_iff {A} (k : string) (m : smap A) : mhas k m = true <-> exists v, mget k m = Some v.
Proof. unfold mhas. destruct (mget k m) as [v|]; split; try discriminate; eauto. intros [v H]. discriminate. Qed.

Lemma existsb_In {A} (f : A -> bool) l : existsb f l = true <-> exists x, In x l /\ f x = true.
Proof. apply existsb_exists. Qed.

(** *** under [OrdLaws] every [_same] comparison is Leibniz equality *)
Section SameEq.
  Context {N : Num} {L : OrdLaws N}.

  Lemma smap_same_eq (a b : smap num) : smap_same a b = true -> a = b.
  Proof.
    unfold smap_same. apply list_eqb_eq. intros [k v] [k' v']. cbn [fst snd]. intros H. bsplit.
    f_equal; [now apply String.eqb_eq|now apply same_eq].
  Qed.

  Lemma alt_same_eq (a b : alt) : alt_same a b = true -> a = b.
  Proof.
    unfold alt_same. destruct a as [i v], b as [i' v']. cbn [a_id a_vals]. intros H. bsplit.
    f_equal; [now apply String.eqb_eq|now apply smap_same_eq].
  Qed.

  Lemma ctype_eqb_eq (a b : ctype) : ctype_eqb a b = true -> a = b.
  Proof. destruct a, b; cbn; intros H; try discriminate; reflexivity. Qed.

  Lemma range_same_eq (a b : option (num * num)) : range_same a b = true -> a = b.
  Proof.
    unfold range_same. apply option_eqb_eq. intros [x y] [x' y']. cbn [fst snd]. intros H. bsplit.
    f_equal; now apply same_eq.
  Qed.

  Lemma crit_same_eq (a b : crit) : crit_same a b = true -> a = b.
  Proof.
    unfold crit_same. destruct a as [i t r], b as [i' t' r']. cbn [c_id c_type c_range]. intros H. bsplit.
    f_equal; [now apply String.eqb_eq|now apply ctype_eqb_eq|now apply range_same_eq].
  Qed.

  Lemma crits_same_eq (a b : list crit) : list_eqb crit_same a b = true -> a = b.
  Proof. apply list_eqb_eq, crit_same_eq. Qed.

  Lemma alts_same_eq (a b : list alt) : list_eqb alt_same a b = true -> a = b.
  Proof. apply list_eqb_eq, alt_same_eq. Qed.

  Lemma wcrit_same_eq (a b : wcrit) : wcrit_same a b = true -> a = b.
  Proof.
    unfold wcrit_same. destruct a as [c w], b as [c' w']. cbn [fst snd]. intros H. bsplit.
    f_equal; [now apply crit_same_eq|now apply same_eq].
  Qed.

  Lemma linfun_same_eq (a b : linfun) : linfun_same a b = true -> a = b.
  Proof.
    unfold linfun_same. destruct a as [a1 a2], b as [b1 b2]. cbn [lf_a lf_b]. intros H. bsplit. f_equal; now apply same_eq.
  Qed.

  Lemma ecrit_same_eq (a b : ecrit) : ecrit_same a b = true -> a = b.
  Proof.
    unfold ecrit_same. destruct a as [a1 a2 a3 a4], b as [b1 b2 b3 b4]. cbn [ec_k ec_q ec_p ec_v]. intros H. bsplit.
    f_equal; [now apply same_eq|now apply linfun_same_eq..].
  Qed.

  Lemma lparams_same_eq (a b : lparams) : lparams_same a b = true -> a = b.
  Proof.
    unfold lparams_same. destruct a as [a1 a2 a3 a4], b as [b1 b2 b3 b4]. cbn [lp_coef lp_max lp_min lp_ths]. intros H. bsplit.
    f_equal; [now apply same_eq..|]. eapply list_eqb_eq; [|eassumption]. apply smap_same_eq.
  Qed.

  Lemma params_same_eq (a b : mparams) : params_same a b = true -> a = b.
  Proof.
    destruct a, b; cbn [params_same]; intros H; try discriminate; bsplit.
    - f_equal. eapply list_eqb_eq; [|eassumption]. apply wcrit_same_eq.
    - f_equal. eapply list_eqb_eq; [|eassumption]. apply wcrit_same_eq.
    - f_equal; [now apply smap_same_eq|now apply crits_same_eq].
    - f_equal; [|now apply linfun_same_eq]. eapply list_eqb_eq; [|eassumption].
      intros [k e] [k' e']. cbn [fst snd]. intros H'. bsplit. f_equal; [now apply String.eqb_eq|now apply ecrit_same_eq].
    - f_equal; [now apply smap_same_eq|now apply String.eqb_eq|now apply Z.eqb_eq|now apply eqb_prop|now apply String.eqb_eq].
    - f_equal; [now apply String.eqb_eq|now apply lparams_same_eq|now apply Z.eqb_eq|now apply smap_same_eq|now apply eqb_prop].
    - f_equal; [now apply String.eqb_eq|now apply lparams_same_eq|now apply Z.eqb_eq|now apply String.eqb_eq|now apply eqb_prop].
  Qed.

  Lemma state_same_eq (a b : state) : state_same a b = true -> a = b.
  Proof.
    unfold state_same. destruct a as [a1 a2 a3 a4], b as [b1 b2 b3 b4]. cbn [st_cons st_notcons st_crits st_params]. intros H. bsplit.
    f_equal; [now apply alts_same_eq|now apply alts_same_eq|now apply crits_same_eq|now apply params_same_eq].
  Qed.

  (* reflexivity, for the converse directions *)
  Lemma smap_same_rf (m : smap num) : smap_same m m = true.
  Proof. unfold smap_same. apply list_eqb_refl_of. intros [k v]. cbn [fst snd]. now rewrite String.eqb_refl, same_refl. Qed.
  Lemma alt_same_rf (a : alt) : alt_same a a = true.
  Proof. unfold alt_same. now rewrite String.eqb_refl, smap_same_rf. Qed.
  Lemma crit_same_rf (c : crit) : crit_same c c = true.
  Proof.
    unfold crit_same, range_same. rewrite String.eqb_refl. destruct (c_type c); cbn [ctype_eqb andb];
      (destruct (c_range c) as [[a b]|]; cbn [option_eqb fst snd]; [now rewrite !same_refl|reflexivity]).
  Qed.
  Lemma wcrit_same_rf (x : wcrit) : wcrit_same x x = true.
  Proof. unfold wcrit_same. now rewrite crit_same_rf, same_refl. Qed.
  Lemma linfun_same_rf (f : linfun) : linfun_same f f = true.
  Proof. unfold linfun_same. now rewrite !same_refl. Qed.
  Lemma ecrit_same_rf (x : ecrit) : ecrit_same x x = true.
  Proof. unfold ecrit_same. now rewrite same_refl, !linfun_same_rf. Qed.
  Lemma lparams_same_rf (x : lparams) : lparams_same x x = true.
  Proof. unfold lparams_same. rewrite !same_refl. cbn [andb]. apply list_eqb_refl_of, smap_same_rf. Qed.
  Lemma params_same_rf (p : mparams) : params_same p p = true.
  Proof.
    destruct p; cbn [params_same].
    - apply list_eqb_refl_of, wcrit_same_rf.
    - apply list_eqb_refl_of, wcrit_same_rf.
    - rewrite smap_same_rf. cbn [andb]. apply list_eqb_refl_of, crit_same_rf.
    - rewrite linfun_same_rf, andb_true_r. apply list_eqb_refl_of. intros [k v]. cbn [fst snd].
      now rewrite String.eqb_refl, ecrit_same_rf.
    - now rewrite smap_same_rf, !String.eqb_refl, Z.eqb_refl, eqb_reflx.
    - now rewrite smap_same_rf, String.eqb_refl, Z.eqb_refl, eqb_reflx, lparams_same_rf.
    - now rewrite !String.eqb_refl, Z.eqb_refl, eqb_reflx, lparams_same_rf.
  Qed.
  Lemma state_same_rf (s : state) : state_same s s = true.
  Proof.
    unfold state_same. rewrite !(list_eqb_refl_of alt_same alt_same_rf), (list_eqb_refl_of crit_same crit_same_rf).
    now rewrite params_same_rf.
  Qed.
End SameEq.

(** ** Part 2. [inv]: the invariant of the working data (any carrier; no comparison of numbers is involved) *)
Lemma power_set_all_sublist (S l : list string) : In S (power_set_all l) -> sublist S l.
Proof.
  revert S. induction l as [|x r IH]; intros S H; cbn [power_set_all] in H.
  - destruct H as [<-|[]]. constructor.
  - apply in_flat_map in H as (t & Ht & [<-|[<-|[]]]); [apply sl_skip|apply sl_keep]; now apply IH.
Qed.

Lemma power_set_iff (S l : list string) : In S (power_set l) <-> S <> [] /\ sublist S l.
Proof.
  split.
  - unfold power_set. intros H. apply filter_In in H as [H1 H2]. split; [now destruct S|now apply power_set_all_sublist].
  - intros [H1 H2]. now apply sublist_power_set.
Qed.

Section Inv.
  Context {N : Num}.

  (* the alternative carries a value under the id of the criterion *)
  Definition has_value (a : alt) (c : crit) : Prop := exists v, mget (c_id c) (a_vals a) = Some v.
  (* the map has an entry under the id of every criterion of [cs] *)
  Definition map_covers {A} (m : smap A) (cs : list crit) : Prop :=
    forall c, In c cs -> exists v, mget (c_id c) m = Some v.

  (** what "the method's parameters cover every current criterion" means, per kind of parameters *)
  Definition params_cover_spec (p : mparams) (cs : list crit) : Prop :=
    match p with
    | PWs wc | POwa wc =>
        (* as many weighted criteria as criteria, and every criterion's id occurs among them *)
        List.length wc = List.length cs /\ forall c, In c cs -> exists x, In x wc /\ c_id (fst x) = c_id c
    | PChoquet w _ =>
        (* a capacity for every non-empty sub-list of the criteria ids (under its sorted, comma-joined key);
           the criteria list stored in the parameters is not looked at *)
        forall S, S <> [] -> sublist S (map c_id cs) -> exists v, mget (criterion_key S) w = Some v
    | PElectre ecs _ => map_covers ecs cs
    | PMajority w _ _ _ _ => map_covers w cs
    | PAspect _ lp _ w _ => map_covers w cs /\ forall t, In t (lp_ths lp) -> map_covers t cs
    | PSatisf _ lp _ _ _ => forall t, In t (lp_ths lp) -> map_covers t cs
    end.

  Record inv_spec (s : state) : Prop := {
    (* "each known alternative still has a value for every current criterion" *)
    inv_every_alternative_has_every_value :
      forall a c, In a (st_cons s) \/ In a (st_notcons s) -> In c (st_crits s) -> has_value a c;
    (* "the method's parameters cover every current criterion" *)
    inv_parameters_cover_criteria : params_cover_spec (st_params s) (st_crits s);
    (* the ids of the current criteria are pairwise distinct *)
    inv_criterion_ids_distinct : NoDup (map c_id (st_crits s));
  }.

  Lemma covers_weights_iff (w : smap num) cs : covers_weights w cs = true <-> map_covers w cs.
  Proof.
    unfold covers_weights, map_covers. rewrite forallb_forall. split; intros H c Hc; apply mhas_iff; now apply H.
  Qed.

  Lemma params_cover_iff p cs : params_cover p cs = true <-> params_cover_spec p cs.
  Proof.
    assert (W : forall wc : list wcrit,
      Nat.eqb (List.length wc) (List.length cs)
      && forallb (fun c => existsb (fun x => String.eqb (c_id (fst x)) (c_id c)) wc) cs = true <->
      List.length wc = List.length cs /\ forall c, In c cs -> exists x, In x wc /\ c_id (fst x) = c_id c).
    { intros wc. rewrite andb_true_iff, Nat.eqb_eq, forallb_forall. split; intros [H1 H2]; (split; [exact H1|]); intros c Hc.
      - apply H2 in Hc. apply existsb_exists in Hc as (x & Hx & E). exists x. split; [exact Hx|now apply String.eqb_eq].
      - apply existsb_exists. destruct (H2 c Hc) as (x & Hx & E). exists x. split; [exact Hx|now apply String.eqb_eq]. }
    destruct p as [wc|wc|w cs'|ecs d|w cur sd rn dr|fn lp sd w rn|fn lp sd cur rn]; cbn [params_cover params_cover_spec].
    - apply W.
    - apply W.
    - rewrite forallb_forall. split.
      + intros H S Hne Hs. apply mhas_iff. apply H. now apply power_set_iff.
      + intros H S HS. apply power_set_iff in HS as [Hne Hs]. apply mhas_iff. now apply H.
    - unfold map_covers. rewrite forallb_forall. split; intros H c Hc; apply mhas_iff; now apply H.
    - apply covers_weights_iff.
    - rewrite andb_true_iff, covers_weights_iff, forallb_forall. split; intros [H1 H2]; (split; [exact H1|]);
        intros t Ht; apply covers_weights_iff; now apply H2.
    - rewrite forallb_forall. split; intros H t Ht; apply covers_weights_iff; now apply H.
  Qed.

  (** requested (1): soundness of [inv]; in fact an equivalence *)
  Theorem inv_iff s : inv s = true <-> inv_spec s.
  Proof.
    unfold inv. rewrite !andb_true_iff, params_cover_iff, nodup_str_NoDup, forallb_forall. split.
    - intros [[H1 H2] H3]. split; [|exact H2|exact H3].
      intros a c Ha Hc. apply mhas_iff.
      assert (Ha' : In a (all_alts s)) by (unfold all_alts; apply in_or_app; exact Ha).
      specialize (H1 a Ha'). rewrite forallb_forall in H1. now apply H1.
    - intros [H1 H2 H3]. split; [split|]; [|exact H2|exact H3].
      intros a Ha. apply forallb_forall. intros c Hc. apply mhas_iff. apply H1; [|exact Hc].
      unfold all_alts in Ha. now apply in_app_or in Ha.
  Qed.

  Theorem inv_sound s : inv s = true -> inv_spec s.
  Proof. apply inv_iff. Qed.

  (** with the distinctness of the ids, the length test of the weighted kinds gives more: the ids of the weighted
      criteria are exactly the ids of the current criteria, each once (in some order) *)
  Corollary inv_weighted_ids_perm s wc : inv s = true -> st_params s = PWs wc \/ st_params s = POwa wc ->
    Permutation (map c_id (st_crits s)) (map (fun x => c_id (fst x)) wc).
  Proof.
    intros H Hp. apply inv_sound in H as [_ H2 H3].
    assert (C : List.length wc = List.length (st_crits s) /\
                forall c, In c (st_crits s) -> exists x, In x wc /\ c_id (fst x) = c_id c).
    { destruct Hp as [Hp|Hp]; rewrite Hp in H2; exact H2. }
    destruct C as [Len Cov]. apply NoDup_Permutation_bis; [exact H3|rewrite !map_length; apply Nat.eq_le_incl; exact Len|].
    intros i Hi. apply in_map_iff in Hi as (c & <- & Hc). destruct (Cov c Hc) as (x & Hx & <-).
    apply in_map_iff. now exists x.
  Qed.

  Corollary inv_weighted_ids_distinct s wc : inv s = true -> st_params s = PWs wc \/ st_params s = POwa wc ->
    NoDup (map (fun x => c_id (fst x)) wc).
  Proof.
    intros H Hp. eapply Permutation_NoDup; [eapply inv_weighted_ids_perm; eassumption|].
    now apply inv_sound in H as [_ _ H3].
  Qed.
End Inv.

(** ** Part 3. The frame of one stage *)
Section Frame.
  Context {N : Num} {L : OrdLaws N}.

  (** "the alternatives and their considered / not-considered split never change": the same ids, in the same order,
      in both lists *)
  Definition split_unchanged (before after : state) : Prop :=
    map a_id (st_cons before) = map a_id (st_cons after) /\
    map a_id (st_notcons before) = map a_id (st_notcons after).

  Lemma str_list_eqb_iff (l l' : list string) : list_eqb String.eqb l l' = true <-> l = l'.
  Proof.
    split; [apply list_eqb_eq; intros x y; apply String.eqb_eq|].
    intros <-. apply list_eqb_refl_of, String.eqb_refl.
  Qed.

  Theorem same_split_iff before after : same_split before after = true <-> split_unchanged before after.
  Proof. unfold same_split, split_unchanged. now rewrite andb_true_iff, !str_list_eqb_iff. Qed.

  Theorem same_split_sound before after : same_split before after = true -> split_unchanged before after.
  Proof. apply same_split_iff. Qed.

  (* consequence: the alternatives correspond position by position in "considered ++ not considered" *)
  Lemma split_unchanged_all before after : split_unchanged before after ->
    map a_id (all_alts before) = map a_id (all_alts after).
  Proof. intros [H1 H2]. unfold all_alts. now rewrite !map_app, H1, H2. Qed.

  (** the value (present or absent) under the id of every criterion of [cs] is the same in [x] and [y] *)
  Definition same_values_on (cs : list crit) (x y : alt) : Prop :=
    forall c, In c cs -> mget (c_id c) (a_vals x) = mget (c_id c) (a_vals y).
  (** position by position in "considered ++ not considered", the values of the criteria [cs] are unchanged *)
  Definition values_kept_spec (cs : list crit) (before after : state) : Prop :=
    pointwise (same_values_on cs) (all_alts before) (all_alts after).

  Lemma option_nsame_iff (o1 o2 : option num) : option_eqb nsame o1 o2 = true <-> o1 = o2.
  Proof.
    split; [apply option_eqb_eq; intros x y; apply same_eq|].
    intros <-. destruct o1; cbn [option_eqb]; [apply same_refl|reflexivity].
  Qed.

  Theorem values_kept_iff cs before after : values_kept cs before after = true <-> values_kept_spec cs before after.
  Proof.
    unfold values_kept, values_kept_spec. rewrite list_eqb_pointwise. unfold pointwise, same_values_on.
    split; intros [Len P]; (split; [exact Len|]); intros i x y E1 E2.
    - intros c Hc. apply option_nsame_iff. specialize (P i x y E1 E2). rewrite forallb_forall in P. now apply P.
    - apply forallb_forall. intros c Hc. apply option_nsame_iff. now apply (P i x y E1 E2).
  Qed.

  Theorem values_kept_sound cs before after : values_kept cs before after = true -> values_kept_spec cs before after.
  Proof. apply values_kept_iff. Qed.

  (** *** the clauses, bias by bias *)
  (* omission: every remaining criterion (id, type, range) is one of the earlier criteria, and the values of the
     remaining criteria are unchanged.  Not tested: the order of the remaining criteria, the parameters *)
  Definition omission_frame (before after : state) : Prop :=
    (forall c, In c (st_crits after) -> In c (st_crits before)) /\
    values_kept_spec (st_crits after) before after.
  (* reversal, fatigue: criteria and parameters are unchanged (the values may change) *)
  Definition crits_params_unchanged (before after : state) : Prop :=
    st_crits before = st_crits after /\ st_params before = st_params after.
  (* concealment, mixing, second alternative: exactly one criterion appended, the values of the earlier ones unchanged *)
  Definition one_criterion_appended (before after : state) : Prop :=
    (exists c, st_crits after = st_crits before ++ [c]) /\
    values_kept_spec (st_crits before) before after.
  (* anchoring: the earlier criteria are a prefix of the later ones; with the inline applier criteria and parameters are
     unchanged and, unless the applier also works on the not-considered alternatives, these are unchanged; with any
     other applier the values of the earlier criteria are unchanged *)
  Definition anchoring_frame (p : bprops) (before after : state) : Prop :=
    (exists added, st_crits after = st_crits before ++ added) /\
    ((bp_anch_applier p = ap_inline /\ crits_params_unchanged before after /\
      (bp_anch_not_considered p = true \/ st_notcons before = st_notcons after))
     \/ (bp_anch_applier p <> ap_inline /\ values_kept_spec (st_crits before) before after)).

  Inductive frame_clause (p : bprops) (before after : state) : string -> Prop :=
  | frame_omission : omission_frame before after -> frame_clause p before after b_omission
  | frame_reversal : crits_params_unchanged before after -> frame_clause p before after b_reversal
  | frame_fatigue : crits_params_unchanged before after -> frame_clause p before after b_fatigue
  | frame_concealment : before = after \/ one_criterion_appended before after -> frame_clause p before after b_concealment
  | frame_mixing : before = after \/ one_criterion_appended before after -> frame_clause p before after b_mixing
  | frame_anchoring : anchoring_frame p before after -> frame_clause p before after b_anchoring.

  Record frame_spec (name : string) (p : bprops) (before after : state) : Prop := {
    frame_split_unchanged : split_unchanged before after;
    frame_bias_clause : frame_clause p before after name;
  }.

  Lemma is_prefix_iff (a b : list crit) : is_prefix_crits a b = true <-> exists r, b = a ++ r.
  Proof.
    unfold is_prefix_crits. split.
    - intros H. apply crits_same_eq in H. exists (skipn (List.length a) b).
      rewrite H at 1. symmetry. apply firstn_skipn.
    - intros [r ->]. rewrite firstn_app, firstn_all, Nat.sub_diag. cbn [firstn]. rewrite app_nil_r.
      apply list_eqb_refl_of, crit_same_rf.
  Qed.

  Lemma crits_same_iff (a b : list crit) : list_eqb crit_same a b = true <-> a = b.
  Proof. split; [apply crits_same_eq|]. intros <-. apply list_eqb_refl_of, crit_same_rf. Qed.
  Lemma alts_same_iff' (a b : list alt) : list_eqb alt_same a b = true <-> a = b.
  Proof. split; [apply alts_same_eq|]. intros <-. apply list_eqb_refl_of, alt_same_rf. Qed.
  Lemma params_same_iff (a b : mparams) : params_same a b = true <-> a = b.
  Proof. split; [apply params_same_eq|]. intros <-. apply params_same_rf. Qed.
  Lemma state_same_iff (a b : state) : state_same a b = true <-> a = b.
  Proof. split; [apply state_same_eq|]. intros <-. apply state_same_rf. Qed.

  Lemma unchanged_iff before after :
    list_eqb crit_same (st_crits before) (st_crits after) && params_same (st_params before) (st_params after) = true
    <-> crits_params_unchanged before after.
  Proof. unfold crits_params_unchanged. now rewrite andb_true_iff, crits_same_iff, params_same_iff. Qed.

  Lemma omission_iff before after :
    forallb (fun c => existsb (crit_same c) (st_crits before)) (st_crits after)
    && values_kept (st_crits after) before after = true <-> omission_frame before after.
  Proof.
    unfold omission_frame. rewrite andb_true_iff, values_kept_iff, forallb_forall.
    split; intros [H1 H2]; (split; [|exact H2]); intros c Hc.
    - apply H1 in Hc. apply existsb_exists in Hc as (c' & Hc' & E). apply crit_same_eq in E. now subst c'.
    - apply existsb_exists. exists c. split; [now apply H1|apply crit_same_rf].
  Qed.

  Lemma appended_iff before after :
    state_same before after
    || (Nat.eqb (List.length (st_crits after)) (S (List.length (st_crits before)))
        && is_prefix_crits (st_crits before) (st_crits after)
        && values_kept (st_crits before) before after) = true
    <-> before = after \/ one_criterion_appended before after.
  Proof.
    unfold one_criterion_appended.
    rewrite orb_true_iff, !andb_true_iff, state_same_iff, Nat.eqb_eq, is_prefix_iff, values_kept_iff.
    split; (intros [H|H]; [now left|right]).
    - destruct H as [[Len [r Hr]] V]. split; [|exact V].
      rewrite Hr, app_length in Len. destruct r as [|c [|c' r']]; cbn [List.length] in Len; try lia.
      now exists c.
    - destruct H as [[c Hc] V]. split; [split|exact V].
      + rewrite Hc, app_length. cbn [List.length]. lia.
      + now exists [c].
  Qed.

  Lemma anchoring_iff p before after :
    is_prefix_crits (st_crits before) (st_crits after)
    && (if String.eqb (bp_anch_applier p) ap_inline
        then list_eqb crit_same (st_crits before) (st_crits after) && params_same (st_params before) (st_params after)
             && (bp_anch_not_considered p || list_eqb alt_same (st_notcons before) (st_notcons after))
        else values_kept (st_crits before) before after) = true
    <-> anchoring_frame p before after.
  Proof.
    unfold anchoring_frame. rewrite andb_true_iff, is_prefix_iff.
    destruct (String.eqb (bp_anch_applier p) ap_inline) eqn:E.
    - apply String.eqb_eq in E. rewrite andb_true_iff, unchanged_iff, orb_true_iff, alts_same_iff'.
      split; intros [H1 H2]; (split; [exact H1|]).
      + left. split; [exact E|exact H2].
      + destruct H2 as [(_ & H2)|(Hne & _)]; [exact H2|contradiction].
    - apply String.eqb_neq in E. rewrite values_kept_iff.
      split; intros [H1 H2]; (split; [exact H1|]).
      + right. now split.
      + destruct H2 as [(He & _)|(_ & H2)]; [contradiction|exact H2].
  Qed.

  (** requested (2): soundness of [frame_ok]; in fact an equivalence *)
  Theorem frame_ok_iff name p before after : frame_ok name p before after = true <-> frame_spec name p before after.
  Proof.
    unfold frame_ok. rewrite andb_true_iff, same_split_iff. split.
    - intros [S H]. split; [exact S|].
      destruct (String.eqb name b_omission) eqn:E1; [apply String.eqb_eq in E1; subst name; constructor; now apply omission_iff|].
      destruct (String.eqb name b_reversal) eqn:E2; [apply String.eqb_eq in E2; subst name; constructor; now apply unchanged_iff|].
      destruct (String.eqb name b_fatigue) eqn:E3; [apply String.eqb_eq in E3; subst name; constructor; now apply unchanged_iff|].
      destruct (String.eqb name b_concealment) eqn:E4;
        [apply String.eqb_eq in E4; subst name; constructor; now apply appended_iff|].
      destruct (String.eqb name b_mixing) eqn:E5;
        [apply String.eqb_eq in E5; subst name; constructor; now apply appended_iff|].
      cbn [orb] in H.
      destruct (String.eqb name b_anchoring) eqn:E6; [apply String.eqb_eq in E6; subst name; constructor; now apply anchoring_iff|].
      discriminate.
    - intros [S H]. split; [exact S|].
      destruct H as [H|H|H|H|H|H].
      + change (String.eqb b_omission b_omission) with true. cbv iota. now apply omission_iff.
      + change (String.eqb b_reversal b_omission) with false. change (String.eqb b_reversal b_reversal) with true.
        cbv iota. now apply unchanged_iff.
      + change (String.eqb b_fatigue b_omission) with false. change (String.eqb b_fatigue b_reversal) with false.
        change (String.eqb b_fatigue b_fatigue) with true. cbv iota. now apply unchanged_iff.
      + change (String.eqb b_concealment b_omission) with false. change (String.eqb b_concealment b_reversal) with false.
        change (String.eqb b_concealment b_fatigue) with false. change (String.eqb b_concealment b_concealment) with true.
        cbv iota. cbn [orb]. now apply appended_iff.
      + change (String.eqb b_mixing b_omission) with false. change (String.eqb b_mixing b_reversal) with false.
        change (String.eqb b_mixing b_fatigue) with false. change (String.eqb b_mixing b_concealment) with false.
        change (String.eqb b_mixing b_mixing) with true.
        cbv iota. cbn [orb]. now apply appended_iff.
      + change (String.eqb b_anchoring b_omission) with false. change (String.eqb b_anchoring b_reversal) with false.
        change (String.eqb b_anchoring b_fatigue) with false. change (String.eqb b_anchoring b_concealment) with false.
        change (String.eqb b_anchoring b_mixing) with false. change (String.eqb b_anchoring b_anchoring) with true.
        cbv iota. cbn [orb]. now apply anchoring_iff.
  Qed.

  Theorem frame_ok_sound name p before after : frame_ok name p before after = true -> frame_spec name p before after.
  Proof. apply frame_ok_iff. Qed.

  (* a name that is none of the six is rejected *)
  Corollary frame_ok_known_name name p before after : frame_ok name p before after = true ->
    In name [b_omission; b_reversal; b_fatigue; b_concealment; b_mixing; b_anchoring].
  Proof. intros H. apply frame_ok_sound in H as [_ H]. destruct H; cbn [In]; tauto. Qed.

  (** "value changes made by an earlier bias remain in force": read on the data, whenever the stage is not a
      reversal, a fatigue or an inline anchoring, every criterion that is present both before and after keeps its
      value (or its absence) in every alternative *)
  Corollary frame_ok_common_values_kept name p before after :
    frame_ok name p before after = true ->
    name <> b_reversal -> name <> b_fatigue -> ~ (name = b_anchoring /\ bp_anch_applier p = ap_inline) ->
    pointwise (fun x y => forall c, In c (st_crits before) -> In c (st_crits after) ->
                                    mget (c_id c) (a_vals x) = mget (c_id c) (a_vals y))
              (all_alts before) (all_alts after).
  Proof.
    intros H N1 N2 N3. apply frame_ok_sound in H as [_ H].
    assert (K : forall cs, values_kept_spec cs before after ->
                (forall c, In c (st_crits before) -> In c (st_crits after) -> In c cs) ->
                pointwise (fun x y => forall c, In c (st_crits before) -> In c (st_crits after) ->
                                                mget (c_id c) (a_vals x) = mget (c_id c) (a_vals y))
                          (all_alts before) (all_alts after)).
    { intros cs V Hcs. eapply pointwise_impl; [|exact V]. intros x y _ _ Hxy c Hb Ha. apply Hxy. now apply Hcs. }
    assert (R : before = after -> pointwise (fun x y => forall c, In c (st_crits before) -> In c (st_crits after) ->
                                    mget (c_id c) (a_vals x) = mget (c_id c) (a_vals y)) (all_alts before) (all_alts after)).
    { intros <-. split; [reflexivity|]. intros i x y E1 E2. rewrite E1 in E2. injection E2 as <-. reflexivity. }
    destruct H as [[_ V]|H|H|[E|[_ V]]|[E|[_ V]]|[_ [(E & _)|(_ & V)]]]; try congruence.
    - apply (K _ V). auto.
    - now apply R.
    - apply (K _ V). auto.
    - now apply R.
    - apply (K _ V). auto.
    - exfalso. apply N3. now split.
    - apply (K _ V). auto.
  Qed.
End Frame.

(** ** Part 4. C03: the reported utility is the defining aggregate, up to the rounding of the API *)
Section C03Gen.
  Context {N : Num}.

  Definition code_step (c : entry -> nat) (acc : nat) (e : entry) : nat :=
    if Nat.eqb acc 1 then 1%nat else if Nat.eqb (c e) 0 then acc else c e.

  Lemma C03_code_fold st obs : C03_code st obs = fold_left (code_step (check_value (st_params st))) obs 0%nat.
  Proof. reflexivity. Qed.

  Lemma fold_zero c : forall obs acc,
    fold_left (code_step c) obs acc = 0%nat <-> acc = 0%nat /\ forall e, In e obs -> c e = 0%nat.
  Proof.
    induction obs as [|e t IH]; intros acc; cbn [fold_left].
    - split; [intros ->; split; [reflexivity|intros e []]|now intros [-> _]].
    - rewrite IH. unfold code_step. split.
      + intros [H1 H2]. destruct (Nat.eqb acc 1) eqn:E1; [discriminate|].
        destruct (Nat.eqb (c e) 0) eqn:E2.
        * apply Nat.eqb_eq in E2. split; [exact H1|]. intros e' [<-|He']; [exact E2|now apply H2].
        * apply Nat.eqb_neq in E2. contradiction.
      + intros [-> H2]. cbn [Nat.eqb]. rewrite (H2 e) by now left. cbn [Nat.eqb]. split; [reflexivity|].
        intros e' He'. apply H2. now right.
  Qed.

  Lemma fold_two c : (forall e, (c e <= 2)%nat) -> forall obs acc, (acc <= 2)%nat ->
    fold_left (code_step c) obs acc = 2%nat ->
    acc <> 1%nat /\ (forall e, In e obs -> c e <> 1%nat) /\ (acc = 2%nat \/ exists e, In e obs /\ c e = 2%nat).
  Proof.
    intros Hc. induction obs as [|e t IH]; intros acc Ha H; cbn [fold_left] in H.
    - subst acc. split; [lia|]. split; [intros e []|now left].
    - pose proof (Hc e) as He.
      assert (Hs : (code_step c acc e <= 2)%nat).
      { unfold code_step. destruct (Nat.eqb acc 1); [lia|]. destruct (Nat.eqb (c e) 0); lia. }
      destruct (IH _ Hs H) as (A & B & C). unfold code_step in A, C.
      destruct (Nat.eqb acc 1) eqn:E1; [congruence|]. apply Nat.eqb_neq in E1.
      destruct (Nat.eqb (c e) 0) eqn:E2; [apply Nat.eqb_eq in E2|apply Nat.eqb_neq in E2].
      + split; [exact E1|]. split.
        * intros e' [<-|He']; [lia|now apply B].
        * destruct C as [C|(e' & He' & C)]; [now left|]. right. exists e'. split; [now right|exact C].
      + split; [exact E1|]. split.
        * intros e' [<-|He']; [exact A|now apply B].
        * right. destruct C as [C|(e' & He' & C)]; [exists e; split; [now left|exact C]|].
          exists e'. split; [now right|exact C].
  Qed.

  Lemma check_value_le2 p e : (check_value p e <= 2)%nat.
  Proof.
    unfold check_value.
    repeat match goal with |- context [match ?x with _ => _ end] => destruct x end; lia.
  Qed.

  (** the code is 0 exactly when every entry passes its own test *)
  Theorem C03_ok_iff_entries st obs :
    C03_ok st obs = true <-> forall e, In e obs -> check_value (st_params st) e = 0%nat.
  Proof.
    unfold C03_ok. rewrite Nat.eqb_eq, C03_code_fold, fold_zero. split; [now intros [_ H]|now split].
  Qed.

  (** the code is 2 only if no entry has code 1 and some entry has code 2 *)
  Theorem C03_code_two st obs : C03_code st obs = 2%nat ->
    (forall e, In e obs -> check_value (st_params st) e = 0%nat \/ check_value (st_params st) e = 2%nat) /\
    exists e, In e obs /\ check_value (st_params st) e = 2%nat.
  Proof.
    rewrite C03_code_fold. intros H.
    apply (fold_two _ (check_value_le2 (st_params st))) in H as (_ & B & C); [|lia]. split.
    - intros e He. pose proof (B e He). pose proof (check_value_le2 (st_params st) e). lia.
    - destruct C as [C|C]; [discriminate|exact C].
  Qed.

  (** the test of one entry, inverted (no arithmetic yet) *)
  Definition aggregate_of (p : mparams) (a : alt) : res num :=
    match p with
    | PWs wc => ws_spec wc a
    | POwa wc => owa_spec_alt wc a
    | PChoquet w _ => choquet_value w a
    | _ => Err EType
    end.

  Lemma check_value_zero_inv p e : check_value p e = 0%nat ->
    exists v s, e_eval e = EValue v /\ aggregate_of p (e_alt e) = Ok s /\ approx8 v (nround8 s) = true.
  Proof.
    unfold check_value, aggregate_of, choquet_spec. intros H.
    destruct (e_eval e) as [v| | | |]; try discriminate.
    destruct p as [wc|wc|w cs| | | |]; try discriminate.
    - destruct (ws_spec wc (e_alt e)) as [s|]; [|discriminate].
      destruct (approx8 v (nround8 s)) eqn:E; [now exists v, s|].
      destruct (ws_unweighted wc (e_alt e)) as [u|]; [|discriminate].
      destruct (approx8 v (nround8 u)); discriminate.
    - destruct (owa_spec_alt wc (e_alt e)) as [s|]; [|discriminate].
      destruct (approx8 v (nround8 s)) eqn:E; [now exists v, s|discriminate].
    - destruct (choquet_value w (e_alt e)) as [s|]; [|discriminate].
      destruct (approx8 v (nround8 s)) eqn:E; [now exists v, s|discriminate].
  Qed.

  Lemma check_value_two_inv p e : check_value p e = 2%nat ->
    exists v wc s u, e_eval e = EValue v /\ p = PWs wc /\
      ws_spec wc (e_alt e) = Ok s /\ approx8 v (nround8 s) = false /\
      ws_value wc (e_alt e) = Ok u /\ approx8 v (nround8 u) = true.
  Proof.
    unfold check_value, choquet_spec, ws_unweighted. intros H.
    destruct (e_eval e) as [v| | | |]; try discriminate.
    destruct p as [wc|wc|w cs| | | |]; try discriminate.
    - destruct (ws_spec wc (e_alt e)) as [s|] eqn:Es; [|discriminate].
      destruct (approx8 v (nround8 s)) eqn:E; [discriminate|].
      destruct (ws_value wc (e_alt e)) as [u|] eqn:Eu; [|discriminate].
      destruct (approx8 v (nround8 u)) eqn:E'; [|discriminate]. exists v, wc, s, u. repeat split; assumption || reflexivity.
    - destruct (owa_spec_alt wc (e_alt e)) as [s|]; [|discriminate].
      destruct (approx8 v (nround8 s)); discriminate.
    - destruct (choquet_value w (e_alt e)) as [s|]; [|discriminate].
      destruct (approx8 v (nround8 s)); discriminate.
  Qed.

  Lemma mapM_Forall2 {A B} (f : A -> res B) : forall l ys, mapM f l = Ok ys -> Forall2 (fun x y => f x = Ok y) l ys.
  Proof.
    induction l as [|x r IH]; intros ys H; cbn [mapM] in H.
    - injection H as <-. constructor.
    - apply bind_ok in H as (y & Hy & H). apply bind_ok in H as (ys' & Hys & H). injection H as <-.
      constructor; [exact Hy|now apply IH].
  Qed.

  Lemma Forall2_weaken {A B} (R S : A -> B -> Prop) : (forall x y, R x y -> S x y) ->
    forall l l', Forall2 R l l' -> Forall2 S l l'.
  Proof. intros H l l'. induction 1; constructor; auto. Qed.
End C03Gen.

Section C03Qc.
  Local Open Scope Qc_scope.
  Notation alt := (@alt NumQc).
  Notation crit := (@crit NumQc).
  Notation wcrit := (@wcrit NumQc).
  Notation entry := (@entry NumQc).
  Notation state := (@state NumQc).
  Notation mparams := (@mparams NumQc).

  (** *** the tolerance *)
  (* [round8 s] = s rounded to 8 decimals, half away from zero (what the API applies to the computed utility) *)
  Definition round8 (s : Qc) : Qc := qc_round8 s.
  (** |v - round8(s)| <= 1.5e-8 + 1e-9 * |round8(s)| *)
  Definition within_rounding (v s : Qc) : Prop :=
    qc_abs (v - round8 s) <= Q2Qc (15 # 1000000000) + Q2Qc (1 # 1000000000) * qc_abs (round8 s).

  Lemma approx8_iff (v s : Qc) : @approx8 NumQc v (nround8 s) = true <-> within_rounding v s.
  Proof. exact (qc_leb_iff _ _). Qed.

  Lemma this_Q2Qc (q : Q) : (this (Q2Qc q) == q)%Q.
  Proof. apply Qred_correct. Qed.

  Lemma round_half_away_close (q : Q) : (Qabs (inject_Z (q_round_half_away q) - q) <= 1 # 2)%Q.
  Proof.
    unfold q_round_half_away. apply Qabs_Qle_condition. destruct (Qle_bool 0 q).
    - pose proof (Qfloor_le (q + (1 # 2))) as A. pose proof (Qlt_floor (q + (1 # 2))) as B.
      rewrite inject_Z_plus in B. change (inject_Z 1) with 1%Q in B. split; lra.
    - pose proof (Qfloor_le (- q + (1 # 2))) as A. pose proof (Qlt_floor (- q + (1 # 2))) as B.
      rewrite inject_Z_plus in B. change (inject_Z 1) with 1%Q in B. rewrite inject_Z_opp. split; lra.
  Qed.

  (** the rounding moves a number by at most half a unit of the eighth decimal *)
  Lemma round8_close (s : Qc) : qc_abs (round8 s - s) <= Q2Qc (1 # 200000000).
  Proof.
    unfold Qcle. rewrite this_abs, this_minus, this_Q2Qc. unfold round8, qc_round8. rewrite this_Q2Qc.
    pose proof (round_half_away_close (this s * inject_Z 100000000)) as H.
    set (R := inject_Z (q_round_half_away (this s * inject_Z 100000000))) in *.
    set (X := this s) in *.
    apply Qabs_Qle_condition in H. apply Qabs_Qle_condition.
    unfold Qdiv. change (/ inject_Z 100000000)%Q with (1 # 100000000)%Q.
    change (inject_Z 100000000) with (100000000 # 1)%Q in H. split; lra.
  Qed.

  (** hence the reported value is within 2e-8 + 1e-9 * |round8 s| of the unrounded aggregate *)
  Lemma within_rounding_abs (v s : Qc) : within_rounding v s ->
    qc_abs (v - s) <= Q2Qc (2 # 100000000) + Q2Qc (1 # 1000000000) * qc_abs (round8 s).
  Proof.
    unfold within_rounding. intros H. pose proof (round8_close s) as C. unfold Qcle in *.
    rewrite this_abs, this_minus, this_Q2Qc in C.
    rewrite this_plus, this_mult, !this_abs, this_minus, !this_Q2Qc in H.
    rewrite this_plus, this_mult, !this_abs, this_minus, !this_Q2Qc.
    pose proof (Qabs_nonneg (this (round8 s))) as P.
    set (A := Qabs (this (round8 s))) in *. set (RS := this (round8 s)) in *.
    apply Qabs_Qle_condition in H. apply Qabs_Qle_condition in C. apply Qabs_Qle_condition. split; lra.
  Qed.

  (** *** the three aggregates, read declaratively *)
  (* the value the alternative is evaluated on for a criterion: its stored value, negated for a cost criterion *)
  Definition signed_value_of (a : alt) (c : crit) (v : Qc) : Prop :=
    exists raw, mget (c_id c) (a_vals a) = Some raw /\ v = if is_cost c then - raw else raw.
  (* weighted sum: the sum over the weighted criteria of weight x signed value *)
  Definition weighted_sum_of (wc : list wcrit) (a : alt) (s : Qc) : Prop :=
    exists terms, Forall2 (fun x t => exists v, signed_value_of a (fst x) v /\ t = snd x * v) wc terms /\ s = nsum terms.
  (* the unweighted sum of the signed values (what the pinned implementation reports, finding D2) *)
  Definition plain_sum_of (wc : list wcrit) (a : alt) (u : Qc) : Prop :=
    exists terms, Forall2 (fun x t => signed_value_of a (fst x) t) wc terms /\ u = nsum terms.
  Definition ascending (l : list Qc) : Prop := StronglySorted Qcle l.
  (* OWA: as many values as weights; ascending values times ascending weights.  The values are ALL the values the
     alternative carries (whatever their keys), the weights are those of the parameters *)
  Definition owa_of (wc : list wcrit) (a : alt) (s : Qc) : Prop :=
    List.length (a_vals a) = List.length wc /\
    exists sv sw, Permutation sv (map snd (a_vals a)) /\ ascending sv /\
                  Permutation sw (map snd wc) /\ ascending sw /\ s = dot sv sw.

  Lemma crit_value_reading (a : alt) (c : crit) v : crit_value a c = Ok v -> signed_value_of a c v.
  Proof.
    unfold crit_value, raw_value. intros H. apply bind_ok in H as (raw & Hr & H). injection H as <-.
    destruct (mget (c_id c) (a_vals a)) as [r|] eqn:E; cbn [of_option] in Hr; [|discriminate]. injection Hr as <-.
    exists r. split; [exact E|reflexivity].
  Qed.

  Lemma ws_spec_reading wc a s : ws_spec wc a = Ok s -> weighted_sum_of wc a s.
  Proof.
    unfold ws_spec. intros H. apply bind_ok in H as (vs & Hvs & H). injection H as <-.
    exists vs. split; [|reflexivity]. apply mapM_Forall2 in Hvs. eapply Forall2_weaken; [|exact Hvs].
    cbv beta. intros x t Ht. apply bind_ok in Ht as (v & Hv & Ht). injection Ht as <-.
    exists v. split; [now apply crit_value_reading|reflexivity].
  Qed.

  Lemma ws_value_reading wc a u : ws_value wc a = Ok u -> plain_sum_of wc a u.
  Proof.
    intros H. apply ws_value_is_unweighted in H as (vs & Hvs & ->).
    exists vs. split; [|reflexivity]. apply mapM_Forall2 in Hvs. eapply Forall2_weaken; [|exact Hvs].
    cbv beta. intros x t Ht. now apply crit_value_reading.
  Qed.

  Lemma owa_spec_reading wc a s : owa_spec_alt wc a = Ok s -> owa_of wc a s.
  Proof.
    unfold owa_spec_alt. destruct (Nat.eqb (List.length (a_vals a)) (List.length wc)) eqn:E; [|discriminate].
    intros H. injection H as <-. apply Nat.eqb_eq in E. split; [exact E|].
    exists (isort qc_ltb (map snd (a_vals a))), (isort qc_ltb (map snd wc)).
    split; [apply isort_perm|]. split; [apply qsort_sorted|]. split; [apply isort_perm|]. split; [apply qsort_sorted|].
    reflexivity.
  Qed.

  (* the ascending arrangement is unique, so [owa_of] determines its value *)
  Lemma ascending_perm_eq (l1 l2 : list Qc) : ascending l1 -> ascending l2 -> Permutation l1 l2 -> l1 = l2.
  Proof.
    intros S1. revert l2. induction S1 as [|x r Sr IH Hx]; intros l2 S2 P.
    - apply Permutation_nil in P. now subst.
    - destruct S2 as [|y s Ss Hy]; [apply Permutation_sym, Permutation_nil in P; discriminate|].
      assert (x = y).
      { apply Qcle_antisym.
        - assert (I : In y (x :: r)) by (apply (Permutation_in _ (Permutation_sym P)); now left).
          destruct I as [->|I]; [apply Qcle_refl|]. rewrite Forall_forall in Hx. now apply Hx.
        - assert (I : In x (y :: s)) by (apply (Permutation_in _ P); now left).
          destruct I as [->|I]; [apply Qcle_refl|]. rewrite Forall_forall in Hy. now apply Hy. }
      subst y. f_equal. apply IH; [exact Ss|]. now apply Permutation_cons_inv in P.
  Qed.

  Lemma owa_of_functional wc a s s' : owa_of wc a s -> owa_of wc a s' -> s = s'.
  Proof.
    intros (_ & sv & sw & P1 & A1 & P2 & A2 & ->) (_ & sv' & sw' & P1' & A1' & P2' & A2' & ->).
    rewrite (ascending_perm_eq sv sv' A1 A1'), (ascending_perm_eq sw sw' A2 A2'); [reflexivity| |].
    - eapply Permutation_trans; [exact P2|now apply Permutation_sym].
    - eapply Permutation_trans; [exact P1|now apply Permutation_sym].
  Qed.

  (** *** the specification of C03 *)
  (** the reported value of entry [e] is, within the tolerance, the defining aggregate of the criteria values of the
      entry's OWN alternative [e_alt e] under the parameters [p] *)
  Inductive C03_entry_spec : mparams -> entry -> Prop :=
  | C03_weighted_sum wc e v s :
      e_eval e = EValue v -> weighted_sum_of wc (e_alt e) s -> within_rounding v s -> C03_entry_spec (PWs wc) e
  | C03_owa wc e v s :
      e_eval e = EValue v -> owa_of wc (e_alt e) s -> within_rounding v s -> C03_entry_spec (POwa wc) e
  | C03_choquet w cs e v s :
      (* the Choquet integral as the model computes it: sorted values within 1e-5 of the first value of a group are
         tied with it; see [C03_choquet_textbook] for the relation with the textbook form *)
      e_eval e = EValue v -> choquet_value w (e_alt e) = Ok s -> within_rounding v s -> C03_entry_spec (PChoquet w cs) e.

  Definition C03_spec (st : state) (obs : list entry) : Prop :=
    forall e, In e obs -> C03_entry_spec (st_params st) e.

  Lemma check_value_zero_sound p e : check_value p e = 0%nat -> C03_entry_spec p e.
  Proof.
    intros H. apply check_value_zero_inv in H as (v & s & Hv & Ha & Hr). apply approx8_iff in Hr.
    destruct p as [wc|wc|w cs| | | |]; cbn [aggregate_of] in Ha; try discriminate.
    - eapply C03_weighted_sum; [exact Hv|apply ws_spec_reading; exact Ha|exact Hr].
    - eapply C03_owa; [exact Hv|apply owa_spec_reading; exact Ha|exact Hr].
    - eapply C03_choquet; [exact Hv|exact Ha|exact Hr].
  Qed.

  (** requested (3) *)
  Theorem C03_ok_sound (st : state) (obs : list entry) : C03_ok st obs = true -> C03_spec st obs.
  Proof. intros H e He. apply check_value_zero_sound. now apply (proj1 (C03_ok_iff_entries st obs) H). Qed.

  (* consequences spelled out *)
  Corollary C03_ok_utility_params (st : state) (obs : list entry) : C03_ok st obs = true -> obs <> [] ->
    (exists wc, st_params st = PWs wc) \/ (exists wc, st_params st = POwa wc) \/ (exists w cs, st_params st = PChoquet w cs).
  Proof.
    intros H Hne. destruct obs as [|e t]; [congruence|].
    pose proof (C03_ok_sound st _ H e (or_introl eq_refl)) as S.
    inversion S; [left|right; left|right; right]; eauto.
  Qed.

  (** *** code 2: the recorded finding (weighted sum reports the unweighted sum) *)
  (* the entry's value is NOT the weighted sum within the tolerance, but it is the unweighted sum of the signed
     values within the tolerance *)
  Definition C03_finding (p : mparams) (e : entry) : Prop :=
    exists wc v s u, p = PWs wc /\ e_eval e = EValue v /\
      weighted_sum_of wc (e_alt e) s /\ ~ within_rounding v s /\
      plain_sum_of wc (e_alt e) u /\ within_rounding v u.

  Lemma check_value_two_sound p e : check_value p e = 2%nat -> C03_finding p e.
  Proof.
    intros H. apply check_value_two_inv in H as (v & wc & s & u & Hv & Hp & Hs & Hn & Hu & Ha).
    exists wc, v, s, u. split; [exact Hp|]. split; [exact Hv|]. split; [now apply ws_spec_reading|]. split.
    - intros W. apply approx8_iff in W. congruence.
    - split; [now apply ws_value_reading|now apply approx8_iff].
  Qed.

  (** code 2 means: the parameters are those of the weighted sum, every entry either satisfies the property or shows
      the finding, and at least one entry shows the finding *)
  Theorem C03_code_two_sound (st : state) (obs : list entry) : C03_code st obs = 2%nat ->
    (exists wc, st_params st = PWs wc) /\
    (forall e, In e obs -> C03_entry_spec (st_params st) e \/ C03_finding (st_params st) e) /\
    exists e, In e obs /\ C03_finding (st_params st) e.
  Proof.
    intros H. apply C03_code_two in H as [A (e & He & B)].
    assert (F : C03_finding (st_params st) e) by now apply check_value_two_sound.
    split; [destruct F as (wc & _ & _ & _ & Hp & _); now exists wc|]. split.
    - intros e' He'. destruct (A e' He') as [Z|T]; [left; now apply check_value_zero_sound|right; now apply check_value_two_sound].
    - now exists e.
  Qed.

  (** *** Choquet: when no two consecutive sorted values are distinct and within 1e-5, the aggregate is the textbook
      integral: sum over ascending values v(1)<=...<=v(n) of (v(k) - v(k-1)) x capacity of {(k),...,(n)}, v(0)=0 *)
  Corollary C03_choquet_textbook w cs (e : entry) t :
    C03_entry_spec (PChoquet w cs) e ->
    gapped (map snd (isort cw_lt (a_vals (e_alt e)))) -> choquet_textbook w (e_alt e) = Ok t ->
    exists v, e_eval e = EValue v /\ within_rounding v t.
  Proof.
    intros S G T. inversion S as [| |w' cs' e' v s Hv Hs Hr]; subst.
    rewrite (choquet_value_textbook w (e_alt e) t G T) in Hs. injection Hs as <-. now exists v.
  Qed.
End C03Qc.

(** ** Part 5. Non-vacuity: the checkers evaluate to [true] on the output of the model (instance [NumQc]) *)
Module StageExamples.
  Local Open Scope string_scope.
  Local Open Scope list_scope.

  Definition q (a : Z) (b : positive) : @Num.num NumQc := Q2Qc (a # b).
  Definition fp0 : @fparams NumQc :=
    {| fp_name := "linear"; fp_a := q 1 1; fp_b := q 0 1; fp_alpha := q 0 1; fp_mult := q 0 1 |}.
  (* split: exactly one criterion is omitted; mixing ratio 1/2; constant fatigue 1/10; anchoring on alternative "x" *)
  Definition bp (applier : string) : @bprops NumQc := {|
    bp_ordering := ""; bp_ratio := q 1 2; bp_min := 1; bp_max := 1; bp_seed := 0;
    bp_scaling := q 1 1; bp_nonneg := false; bp_ref_type := ""; bp_ref_importance := q 1 2; bp_ref_seed := 0;
    bp_new_scaling := q 1 1; bp_mix_ratio := q 1 2;
    bp_fat_function := "const"; bp_fat_value := q 1 10; bp_fat_alpha := q 0 1; bp_fat_mult := q 0 1; bp_fat_query := 0;
    bp_anch_alts := [{| aa_id := "x"; aa_coef := q 1 1 |}]; bp_anch_loss := fp0; bp_anch_gain := fp0;
    bp_anch_ref := "ideal"; bp_anch_applier := applier; bp_anch_not_considered := false |}.
  Definition env0 : @env NumQc :=
    {| env_streams := [(0%Z, [q 1 2; q 1 3; q 1 4; q 1 5; q 1 6; q 1 7; q 1 8]); (7%Z, [q 0 1; q 0 1; q 0 1])];
       env_exp := [] |}.
  Definition cr (id : string) : @crit NumQc := {| c_id := id; c_type := TGain; c_range := None |}.
  Definition A1 : @alt NumQc := {| a_id := "x"; a_vals := [("a", q 1 1); ("b", q 2 1); ("c", q 5 1)] |}.
  Definition A2 : @alt NumQc := {| a_id := "y"; a_vals := [("a", q 3 1); ("b", q 1 1); ("c", q 4 1)] |}.
  Definition s0 : @state NumQc :=
    {| st_notcons := [A2]; st_cons := [A1]; st_crits := [cr "a"; cr "b"; cr "c"];
       st_params := PWs [(cr "a", q 1 1); (cr "b", q 2 1); (cr "c", q 3 1)] |}.

  Example inv_holds : inv s0 = true.
  Proof. vm_compute. reflexivity. Qed.

  (* one stage of the model: the invariant before and after, the frame, and the criteria afterwards *)
  Definition stage (name : string) (p : @bprops NumQc) (s : @state NumQc) :=
    match apply_bias env0 name s p with
    | Ok (st, _) => Some (inv s, inv st, frame_ok name p s st, map c_id (st_crits st))
    | Err _ => None
    end.

  Example stage_omission : stage b_omission (bp "inline") s0 = Some (true, true, true, ["b"; "c"]).
  Proof. vm_compute. reflexivity. Qed.
  Example stage_reversal : stage b_reversal (bp "inline") s0 = Some (true, true, true, ["a"; "b"; "c"]).
  Proof. vm_compute. reflexivity. Qed.
  Example stage_fatigue : stage b_fatigue (bp "inline") s0 = Some (true, true, true, ["a"; "b"; "c"]).
  Proof. vm_compute. reflexivity. Qed.
  Example stage_concealment :
    stage b_concealment (bp "inline") s0 = Some (true, true, true, ["a"; "b"; "c"; "__concealedCriterion__"]).
  Proof. vm_compute. reflexivity. Qed.
  Example stage_mixing : stage b_mixing (bp "inline") s0 = Some (true, true, true, ["a"; "b"; "c"; "__b+c__"]).
  Proof. vm_compute. reflexivity. Qed.
  Example stage_anchoring_inline : stage b_anchoring (bp "inline") s0 = Some (true, true, true, ["a"; "b"; "c"]).
  Proof. vm_compute. reflexivity. Qed.
  Example stage_anchoring_new :
    stage b_anchoring (bp "newCriterion") s0 = Some (true, true, true, ["a"; "b"; "c"; "__anchoring_criterion_ideal"]).
  Proof. vm_compute. reflexivity. Qed.

  (* so the hypotheses of the theorems are satisfiable, e.g. *)
  Definition after_omission : @state NumQc :=
    match apply_bias env0 b_omission s0 (bp "inline") with Ok (st, _) => st | Err _ => s0 end.
  Example frame_spec_inhabited : frame_spec b_omission (bp "inline") s0 after_omission /\ inv_spec after_omission.
  Proof. split; [apply frame_ok_sound|apply inv_sound]; vm_compute; reflexivity. Qed.

  (* the checkers are not trivially true: a dropped value, a swapped split, an unknown name *)
  Definition A1' : @alt NumQc := {| a_id := "x"; a_vals := [("a", q 1 1); ("c", q 5 1)] |}.
  Example inv_rejects_missing_value :
    inv {| st_notcons := [A2]; st_cons := [A1']; st_crits := st_crits s0; st_params := st_params s0 |} = false.
  Proof. vm_compute. reflexivity. Qed.
  Example frame_rejects_swapped_split :
    frame_ok b_reversal (bp "inline") s0
      {| st_notcons := [A1]; st_cons := [A2]; st_crits := st_crits s0; st_params := st_params s0 |} = false.
  Proof. vm_compute. reflexivity. Qed.
  Example frame_rejects_unknown_name : frame_ok "noSuchBias" (bp "inline") s0 s0 = false.
  Proof. vm_compute. reflexivity. Qed.
  (* what [frame_ok] does NOT reject: a concealment that changes nothing *)
  Example frame_accepts_idle_concealment : frame_ok b_concealment (bp "inline") s0 s0 = true.
  Proof. vm_compute. reflexivity. Qed.

  (** C03 *)
  Definition with_params (p : @mparams NumQc) : @state NumQc :=
    {| st_notcons := []; st_cons := [A1; A2]; st_crits := [cr "a"; cr "b"; cr "c"]; st_params := p |}.
  Definition run_c03 (p : @mparams NumQc) :=
    match utility_evaluate (with_params p) with
    | Ok obs => Some (C03_ok (with_params p) obs, C03_code (with_params p) obs, List.length obs)
    | Err _ => None
    end.
  Definition unit_weights : list (@wcrit NumQc) := [(cr "a", q 1 1); (cr "b", q 1 1); (cr "c", q 1 1)].
  Definition some_weights : list (@wcrit NumQc) := [(cr "a", q 1 1); (cr "b", q 2 1); (cr "c", q 3 1)].
  Definition capacity : smap (@Num.num NumQc) :=
    [("a", q 1 5); ("a,b", q 1 2); ("a,b,c", q 1 1); ("a,c", q 3 5); ("b", q 1 5); ("b,c", q 1 2); ("c", q 3 10)].

  Example c03_weighted_sum_unit : run_c03 (PWs unit_weights) = Some (true, 0%nat, 2%nat).
  Proof. vm_compute. reflexivity. Qed.
  Example c03_owa : run_c03 (POwa some_weights) = Some (true, 0%nat, 2%nat).
  Proof. vm_compute. reflexivity. Qed.
  Example c03_choquet : run_c03 (PChoquet capacity [cr "a"; cr "b"; cr "c"]) = Some (true, 0%nat, 2%nat).
  Proof. vm_compute. reflexivity. Qed.
  (* the recorded finding: with weights other than 1 the model (like the pinned implementation) reports the unweighted sum *)
  Example c03_weighted_sum_finding : run_c03 (PWs some_weights) = Some (false, 2%nat, 2%nat).
  Proof. vm_compute. reflexivity. Qed.
  (* not trivially true: a value off by 1e-7 *)
  Example c03_rejects_wrong_value :
    C03_ok (with_params (POwa some_weights))
      [{| e_alt := A1; e_eval := EValue (Q2Qc (200000001 # 10000000)); e_links := [] |}] = false
    /\ C03_ok (with_params (POwa some_weights))
      [{| e_alt := A1; e_eval := EValue (q 20 1); e_links := [] |}] = true.
  Proof. split; vm_compute; reflexivity. Qed.
End StageExamples.

Print Assumptions inv_sound.
Print Assumptions inv_iff.
Print Assumptions inv_weighted_ids_perm.
Print Assumptions inv_weighted_ids_distinct.
Print Assumptions same_split_sound.
Print Assumptions same_split_iff.
Print Assumptions values_kept_sound.
Print Assumptions values_kept_iff.
Print Assumptions frame_ok_sound.
Print Assumptions frame_ok_iff.
Print Assumptions frame_ok_known_name.
Print Assumptions frame_ok_common_values_kept.
Print Assumptions C03_ok_iff_entries.
Print Assumptions C03_code_two.
Print Assumptions C03_ok_sound.
Print Assumptions C03_ok_utility_params.
Print Assumptions C03_code_two_sound.
Print Assumptions C03_choquet_textbook.
Print Assumptions round8_close.
Print Assumptions within_rounding_abs.
Print Assumptions owa_of_functional.
Print Assumptions StageExamples.frame_spec_inhabited.
Print Assumptions StageExamples.stage_anchoring_new.
Print Assumptions StageExamples.c03_choquet.
