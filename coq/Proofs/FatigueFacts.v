(** * C17: fatigue blurs every value by at most the fatigue ratio.
    The structure of [apply_fatigue] is analysed for every carrier; the bounds are on [NumQc]. *)
From Coq Require Import ZArith QArith Qcanon Qabs Bool List String Lia Lqa Permutation.
From RDM Require Import Base.Num Base.NumQc Base.Util Model.Data Model.Rank Model.Utility Model.Levels
     Model.Heuristics Model.Electre Model.Listeners Model.Biases Check.Stage Check.BiasCheckers
     Proofs.SortFacts Proofs.RankFacts Proofs.WfFacts Proofs.LevelFacts Proofs.AggregateFacts Proofs.ReversalFacts.
Import ListNotations.
Local Open Scope string_scope.
Local Open Scope list_scope.

(** ** 1. The structure of the blur, for every carrier *)
Section Structure.
  Context {N : Num}.

  (* the sign drawn for one value *)
  Definition fat_sign (d : num) : num := if nleb c_half d then nopp none else none.
  (* the blurred value before bounding: v + ((v * u) * f) * s *)
  Definition blur_one (v u f s : num) : num := nadd v (nmul (nmul (nmul v u) f) s).

  Lemma blur_values_cons c r rest a p f gv gs acc :
    blur_values ((c, r) :: rest) a p f gv gs acc =
    do v <- raw_value a c;
    do dv <- draw gv;
    do ds <- draw gs;
    blur_values rest a p f (snd dv) (snd ds)
                (mset (c_id c) (bound_value p r (blur_one v (fst dv) f (fat_sign (fst ds)))) acc).
  Proof. reflexivity. Qed.

  Lemma bounding_off_id p r x : bounding_off p = true -> bound_value p r x = x.
  Proof.
    unfold bounding_off, bound_value. intros H. apply andb_true_iff in H as [H1 H2].
    apply negb_true_iff in H1, H2. now rewrite H1, H2.
  Qed.

  Lemma draw_inv (g : rng) x g' : draw g = Ok (x, g') -> g = x :: g'.
  Proof. destruct g; cbn [draw]; [discriminate|]. intros H. now injection H as -> ->. Qed.

  Section Draws.
    Variable P : num -> Prop.   (* a property of the drawn numbers *)

    (* the value written for the id [k] by [blur_values] *)
    Definition blurred_value (cs : list (crit * (num * num))) (a : alt) (p : bprops) (f : num) (k : string) (x : num) : Prop :=
      exists c r v u d, In (c, r) cs /\ c_id c = k /\ raw_value a c = Ok v /\ P u /\
                        x = bound_value p r (blur_one v u f (fat_sign d)).

    Lemma blur_values_spec a p f : forall cs gv gs acc vals gv' gs',
      blur_values cs a p f gv gs acc = Ok (vals, gv', gs') -> Forall P gv ->
      Forall P gv' /\
      (forall k, ~ In k (item_ids cs) -> mget k vals = mget k acc) /\
      (forall k, In k (item_ids cs) -> exists x, mget k vals = Some x /\ blurred_value cs a p f k x) /\
      (forall k, In k (mkeys vals) <-> In k (mkeys acc) \/ In k (item_ids cs)) /\
      (NoDup (item_ids cs) -> (forall k, In k (item_ids cs) -> ~ In k (mkeys acc)) ->
       List.length vals = (List.length acc + List.length cs)%nat).
    Proof.
      induction cs as [|[c r] rest IH]; intros gv gs acc vals gv' gs' H HP.
      - cbn [blur_values] in H. injection H as <- <- <-. split; [exact HP|]. split; [reflexivity|].
        split; [intros k []|]. split; [cbn [item_ids map In]; tauto|]. intros _ _. cbn [List.length]. lia.
      - rewrite blur_values_cons in H.
        apply bind_ok in H as (v & Hv & H). apply bind_ok in H as ([u gv1] & Hu & H).
        apply bind_ok in H as ([d gs1] & Hd & H). cbn [fst snd] in H.
        apply draw_inv in Hu. subst gv. inversion HP as [|? ? Pu HP1]; subst.
        destruct (IH _ _ _ _ _ _ H HP1) as (I1 & I2 & I3 & I4 & I5).
        set (x0 := bound_value p r (blur_one v u f (fat_sign d))) in *.
        split; [exact I1|]. split; [|split; [|split]].
        + intros k NI. cbn [item_ids map In fst] in NI. rewrite I2 by tauto.
          apply mget_mset_other. intros ->. apply NI. now left.
        + intros k Hk. destruct (in_dec string_dec k (item_ids rest)) as [I|NI].
          * destruct (I3 k I) as (x & Hx & c' & r' & v' & u' & d' & Hin & B).
            exists x. split; [exact Hx|]. exists c', r', v', u', d'. split; [now right|exact B].
          * cbn [item_ids map In fst] in Hk. destruct Hk as [<-|Hk]; [|contradiction].
            exists x0. split; [rewrite (I2 _ NI); apply mget_mset_same|].
            exists c, r, v, u, d. repeat split; auto. now left.
        + intros k. rewrite I4, mkeys_mset. cbn [item_ids map In fst]. fold (item_ids rest).
          split; intros Hk; intuition (subst; auto).
        + intros ND Hd'. cbn [item_ids map fst] in ND. inversion ND as [|? ? NI ND']; subst.
          rewrite I5.
          * rewrite mset_length_new; [cbn [List.length]; lia|]. apply Hd'. now left.
          * exact ND'.
          * intros k Hk Hk'. apply mkeys_mset in Hk' as [->|Hk']; [contradiction|].
            apply (Hd' k); [now right|exact Hk'].
    Qed.

    (* one alternative blurred with some part of a stream satisfying [P] *)
    Definition blurred (cs : list (crit * (num * num))) (p : bprops) (f : num) (a a' : alt) : Prop :=
      a_id a' = a_id a /\
      exists gv0 gs0 gv1 gs1, Forall P gv0 /\ blur_values cs a p f gv0 gs0 [] = Ok (a_vals a', gv1, gs1).

    Lemma blur_alts_spec cs p f : forall l gv gs acc res gv' gs',
      blur_alts cs l p f gv gs acc = Ok (res, gv', gs') -> Forall P gv ->
      Forall P gv' /\ exists news, res = acc ++ news /\ Forall2 (blurred cs p f) l news.
    Proof.
      induction l as [|a rest IH]; intros gv gs acc res gv' gs' H HP; cbn [blur_alts] in H.
      - injection H as <- <- <-. split; [exact HP|]. exists []. split; [now rewrite app_nil_r|constructor].
      - apply bind_ok in H as ([[vals gv1] gs1] & Hb & H).
        destruct (blur_values_spec a p f _ _ _ _ _ _ _ Hb HP) as (HP1 & _).
        destruct (IH _ _ _ _ _ _ H HP1) as (HP' & news & -> & HF).
        split; [exact HP'|]. exists ({| a_id := a_id a; a_vals := vals |} :: news).
        split; [now rewrite <- app_assoc|]. constructor; [|exact HF].
        split; [reflexivity|]. exists gv, gs, gv1, gs1. split; [exact HP|exact Hb].
    Qed.

    Lemma apply_fatigue_inv e cur p st rep :
      apply_fatigue e cur p = Ok (st, rep) -> Forall P (new_rng e (bp_seed p)) ->
      exists f crs,
        fatigue_ratio e p = Ok f /\ valid_bounding p = true /\
        ranges_of (all_alts cur) (st_crits cur) = Ok crs /\
        Forall2 (blurred crs p f) (st_cons cur) (st_cons st) /\
        Forall2 (blurred crs p f) (st_notcons cur) (st_notcons st) /\
        st_crits st = st_crits cur /\ st_params st = st_params cur /\
        rep = RFatigue f (st_cons st) (st_notcons st).
    Proof.
      unfold apply_fatigue. intros H HP. apply bind_ok in H as (f & Hf & H).
      destruct (valid_bounding p) eqn:Hvb; cbn [negb] in H; [|discriminate].
      apply bind_ok in H as (crs & Hc & H). apply bind_ok in H as ([[consd gv] gs] & H1 & H).
      apply bind_ok in H as ([[nconsd gv2] gs2] & H2 & H). injection H as <- <-.
      destruct (blur_alts_spec _ _ _ _ _ _ _ _ _ _ H1 HP) as (HP1 & n1 & -> & F1).
      destruct (blur_alts_spec _ _ _ _ _ _ _ _ _ _ H2 HP1) as (_ & n2 & -> & F2).
      exists f, crs. cbn [app st_cons st_notcons st_crits st_params]. repeat split; assumption.
    Qed.
  End Draws.

  Lemma Forall_True {A} (l : list A) : Forall (fun _ => True) l.
  Proof. induction l; constructor; auto. Qed.

  Lemma blurred_id P cs p f a a' : blurred P cs p f a a' -> a_id a' = a_id a.
  Proof. now intros [H _]. Qed.

  (** B5. the frame of fatigue: criteria, parameters and ids unchanged; the report carries [f] and
      exactly the new considered / not-considered alternatives *)
  Theorem fatigue_frame e cur p st rep :
    apply_fatigue e cur p = Ok (st, rep) ->
    st_crits st = st_crits cur /\ st_params st = st_params cur /\
    map a_id (st_cons st) = map a_id (st_cons cur) /\ map a_id (st_notcons st) = map a_id (st_notcons cur) /\
    exists f, fatigue_ratio e p = Ok f /\ rep = RFatigue f (st_cons st) (st_notcons st).
  Proof.
    intros H. apply (apply_fatigue_inv (fun _ => True)) in H; [|apply Forall_True].
    destruct H as (f & crs & Hf & _ & _ & F1 & F2 & C & Pm & ->).
    repeat (split; [assumption|]).
    split; [|split; [|eauto]]; symmetry; eapply Forall2_map_eq; try eassumption;
      intros x y Hxy; symmetry; eapply blurred_id; exact Hxy.
  Qed.
End Structure.

(** ** 2. Arithmetic on exact rationals *)
Local Open Scope Qc_scope.

Definition in01 (d : Qc) : Prop := 0 <= d /\ d < 1.

(** *** B3: the sign *)
Lemma fat_sign_neg (d : Qc) : @fat_sign NumQc d = -(1) <-> Q2Qc (1 # 2) <= d.
Proof.
  unfold fat_sign. change (@c_half NumQc) with (Q2Qc (1 # 2)).
  destruct (@nleb NumQc (Q2Qc (1 # 2)) d) eqn:E; bconv.
  - split; [intros _; exact E|reflexivity].
  - split; [discriminate|]. intros H. exfalso. apply Qcle_not_lt in H. contradiction.
Qed.

Lemma fat_sign_pos (d : Qc) : @fat_sign NumQc d = 1 <-> d < Q2Qc (1 # 2).
Proof.
  unfold fat_sign. change (@c_half NumQc) with (Q2Qc (1 # 2)).
  destruct (@nleb NumQc (Q2Qc (1 # 2)) d) eqn:E; bconv.
  - split; [discriminate|]. intros H. exfalso. apply Qcle_not_lt in E. contradiction.
  - split; [intros _; exact E|reflexivity].
Qed.

Lemma fat_sign_cases (d : Qc) : @fat_sign NumQc d = 1 \/ @fat_sign NumQc d = -(1).
Proof. unfold fat_sign. destruct (@nleb NumQc c_half d); [now right|now left]. Qed.

(** B3. the sign is -1 iff the sign draw is at least 1/2, +1 otherwise; both occur for draws in [0,1) *)
Theorem sign_both_directions :
  (forall d : Qc, @fat_sign NumQc d = -(1) <-> Q2Qc (1 # 2) <= d) /\
  (forall d : Qc, @fat_sign NumQc d = 1 <-> d < Q2Qc (1 # 2)) /\
  (exists d, in01 d /\ @fat_sign NumQc d = 1) /\ (exists d, in01 d /\ @fat_sign NumQc d = -(1)).
Proof.
  split; [exact fat_sign_neg|]. split; [exact fat_sign_pos|]. split.
  - exists 0. split; [split; [apply Qcle_refl|reflexivity]|reflexivity].
  - exists (Q2Qc (1 # 2)). split; [split; [discriminate|reflexivity]|reflexivity].
Qed.

(** *** B1: the blur is at most |f v| *)
Lemma Q_blur_abs (v u f : Q) : (0 <= u -> u < 1 -> Qabs (v * u * f) <= Qabs (f * v))%Q.
Proof.
  intros U0 U1. assert (E : (v * u * f == u * (f * v))%Q) by ring. rewrite E, Qabs_Qmult, (Qabs_pos u) by exact U0.
  pose proof (Qabs_nonneg (f * v)). nra.
Qed.

Lemma blur_expr_bound (v u f s : Qc) :
  0 <= u -> u < 1 -> s = 1 \/ s = -(1) ->
  @nabs NumQc (v + (v * u * f) * s - v)%Qc <= @nabs NumQc (f * v)%Qc.
Proof.
  intros U0 U1 Hs. cbn [nabs NumQc]. unfold Qcle in *. unfold Qclt in U1. rewrite !this_abs.
  rewrite this_mult in *. change (this 0) with 0%Q in U0. change (this 1) with 1%Q in U1.
  pose proof (Q_blur_abs (this v) (this u) (this f) U0 U1) as B.
  destruct Hs as [-> | ->].
  - assert (E : (this (v + v * u * f * 1 - v) == this v * this u * this f)%Q).
    { rewrite this_minus, this_plus, !this_mult. change (this 1) with 1%Q. ring. }
    rewrite E. exact B.
  - assert (E : (this (v + v * u * f * -(1) - v) == - (this v * this u * this f))%Q).
    { rewrite this_minus, this_plus, !this_mult, this_opp. change (this 1) with 1%Q. ring. }
    rewrite E, Qabs_opp. exact B.
Qed.

Lemma blur_one_Qc (v u f s : Qc) : @blur_one NumQc v u f s = v + (v * u * f) * s.
Proof. reflexivity. Qed.

(* interval form: v - |f v| <= blurred <= v + |f v| *)
Lemma blur_expr_interval (v u f s : Qc) :
  0 <= u -> u < 1 -> s = 1 \/ s = -(1) ->
  v - @nabs NumQc (f * v)%Qc <= v + (v * u * f) * s /\ v + (v * u * f) * s <= v + @nabs NumQc (f * v)%Qc.
Proof.
  intros U0 U1 Hs. pose proof (blur_expr_bound v u f s U0 U1 Hs) as B.
  cbn [nabs NumQc] in *. set (d := qc_abs (f * v)) in *. set (x := v * u * f * s) in *.
  unfold Qcle in B. rewrite this_abs in B. apply Qabs_Qle_condition in B.
  rewrite this_minus, this_plus in B.
  split; unfold Qcle; rewrite ?this_minus, ?this_plus; lra.
Qed.

Lemma blur_zero (v u s : Qc) : v + (v * u * 0) * s = v.
Proof. ring. Qed.

(** *** B4: bounding *)
Lemma two_neq0 : @c_two NumQc <> 0.
Proof. discriminate. Qed.

Lemma this_div2 (x : Qc) : (this (x / Q2Qc 2) == this x / 2)%Q.
Proof. unfold Qcdiv. rewrite this_mult, this_inv. change (this (Q2Qc 2)) with 2%Q. reflexivity. Qed.

Lemma half_plus (lo hi : Qc) : lo + (hi - lo) / Q2Qc 2 = (lo + hi) / Q2Qc 2.
Proof. apply Qc_eq_this. rewrite this_plus, !this_div2, this_minus, this_plus. field. Qed.
Lemma half_minus (lo hi : Qc) : hi - (hi - lo) / Q2Qc 2 = (lo + hi) / Q2Qc 2.
Proof. apply Qc_eq_this. rewrite this_minus, !this_div2, this_minus, this_plus. field. Qed.
Lemma half_one (x : Qc) : x / Q2Qc 2 * 1 = x / Q2Qc 2.
Proof. ring. Qed.

(* [scale_equally]: the range scaled about its centre *)
Lemma scale_equally_centre (lo hi s : Qc) :
  @scale_equally NumQc (lo, hi) s =
  ((lo + hi) / Q2Qc 2 - (hi - lo) / Q2Qc 2 * s, (lo + hi) / Q2Qc 2 + (hi - lo) / Q2Qc 2 * s).
Proof.
  unfold scale_equally, range_diff. cbn [fst snd]. qcn. change (@c_two NumQc) with (Q2Qc 2).
  now rewrite half_plus, half_minus.
Qed.

Lemma scale_equally_one (r : Qc * Qc) : @scale_equally NumQc r 1 = r.
Proof.
  destruct r as [lo hi]. rewrite scale_equally_centre, half_one. f_equal.
  - rewrite <- half_plus. ring.
  - rewrite <- half_minus. ring.
Qed.

(* raise to 0 (when requested), then clip into the scaled range (when scaling > 0) *)
Definition raise0 (p : @bprops NumQc) (v : Qc) : Qc := if bp_nonneg p then Qcmax 0 v else v.
Definition clip (lo hi x : Qc) : Qc := Qcmin hi (Qcmax lo x).

Lemma clip_model (lo hi x : Qc) :
  (if @nltb NumQc hi (if @nltb NumQc x lo then lo else x) then hi else if @nltb NumQc x lo then lo else x) = clip lo hi x.
Proof.
  unfold clip, Qcmin, Qcmax.
  destruct (@nltb NumQc x lo) eqn:A; destruct (Qclt_le_dec x lo) as [A'|A']; bconv;
    try (apply Qcle_not_lt in A'; contradiction); try (apply Qclt_not_le in A'; contradiction).
  - destruct (@nltb NumQc hi lo) eqn:B; destruct (Qclt_le_dec hi lo) as [B'|B']; bconv;
      try (apply Qcle_not_lt in B'; contradiction); try (apply Qclt_not_le in B'; contradiction); reflexivity.
  - destruct (@nltb NumQc hi x) eqn:B; destruct (Qclt_le_dec hi x) as [B'|B']; bconv;
      try (apply Qcle_not_lt in B'; contradiction); try (apply Qclt_not_le in B'; contradiction); reflexivity.
Qed.

Lemma raise0_model (p : @bprops NumQc) (v : Qc) :
  (if bp_nonneg p && @nltb NumQc v nzero then nzero else v) = raise0 p v.
Proof.
  unfold raise0, Qcmax. destruct (bp_nonneg p); cbn [andb]; [|reflexivity].
  change (@nzero NumQc) with 0. destruct (@nltb NumQc v 0) eqn:E; destruct (Qclt_le_dec v 0) as [A|A]; bconv; try reflexivity.
  - apply Qcle_not_lt in A. contradiction.
  - apply Qclt_not_le in A. contradiction.
Qed.

(** B4. [bound_value]: first raise to 0 (if requested and v < 0), then, when the scaling is positive,
    clip into the range scaled about its centre (scaling 1: the range itself, [scale_equally_one]) *)
Theorem bounding_spec (p : @bprops NumQc) (r : Qc * Qc) (v : Qc) :
  @bound_value NumQc p r v =
  if @nltb NumQc 0 (bp_scaling p)
  then clip (fst (scale_equally r (bp_scaling p))) (snd (scale_equally r (bp_scaling p))) (raise0 p v)
  else raise0 p v.
Proof.
  unfold bound_value. rewrite raise0_model. change (@nzero NumQc) with 0.
  destruct (@nltb NumQc 0 (bp_scaling p)); [|reflexivity].
  destruct (@neqb NumQc (bp_scaling p) none) eqn:E.
  - bconv. rewrite E, scale_equally_one. apply clip_model.
  - apply clip_model.
Qed.

Lemma Qcmax_mono (a x y : Qc) : x <= y -> Qcmax a x <= Qcmax a y.
Proof.
  intros H. destruct (Qcmax_cases a x) as [[A ->]|[A ->]]; destruct (Qcmax_cases a y) as [[B ->]|[B ->]]; qcq; lra.
Qed.
Lemma Qcmin_mono (a x y : Qc) : x <= y -> Qcmin a x <= Qcmin a y.
Proof.
  intros H. destruct (Qcmin_cases a x) as [[A ->]|[A ->]]; destruct (Qcmin_cases a y) as [[B ->]|[B ->]]; qcq; lra.
Qed.

Theorem bound_value_mono (p : @bprops NumQc) (r : Qc * Qc) (v w : Qc) :
  v <= w -> @bound_value NumQc p r v <= @bound_value NumQc p r w.
Proof.
  intros H. rewrite !bounding_spec.
  assert (R : raise0 p v <= raise0 p w) by (unfold raise0; destruct (bp_nonneg p); [now apply Qcmax_mono|exact H]).
  destruct (@nltb NumQc 0 (bp_scaling p)); [|exact R]. unfold clip. now apply Qcmin_mono, Qcmax_mono.
Qed.

(** *** the value written for one criterion of one alternative *)
Lemma raw_value_id {N : Num} (a : alt) (c c' : crit) : c_id c' = c_id c -> raw_value a c' = raw_value a c.
Proof. unfold raw_value. now intros ->. Qed.

Lemma ranges_of_in {N : Num} all cs crs c :
  ranges_of all cs = Ok crs -> In c cs -> exists r, In (c, r) crs /\ values_range all c = Ok r /\ In (c_id c) (item_ids crs).
Proof.
  intros H Hc. pose proof (ranges_of_spec _ _ _ H) as [Hfst Hr]. rewrite <- Hfst in Hc.
  apply in_map_iff in Hc as ([c' r] & E & I). cbn [fst] in E. subst c'. exists r. split; [exact I|]. split; [now apply Hr|].
  unfold item_ids. apply in_map_iff. exists (c, r). split; [reflexivity|exact I].
Qed.

Lemma blurred_at {N : Num} (P : num -> Prop) crs p f a a' c r :
  blurred P crs p f a a' -> In (c, r) crs ->
  exists r' v u d, (NoDup (item_ids crs) -> r' = r) /\ mget (c_id c) (a_vals a) = Some v /\ P u /\
    mget (c_id c) (a_vals a') = Some (bound_value p r' (blur_one v u f (fat_sign d))).
Proof.
  intros [_ (gv0 & gs0 & gv1 & gs1 & HP0 & Hb)] I.
  destruct (blur_values_spec P a p f _ _ _ _ _ _ _ Hb HP0) as (_ & _ & I3 & _).
  assert (Hin : In (c_id c) (item_ids crs)).
  { unfold item_ids. apply in_map_iff. exists (c, r). split; [reflexivity|exact I]. }
  destruct (I3 _ Hin) as (x & Hx & c' & r' & v & u & d & Hin' & Eid & Hv & Pu & ->).
  exists r', v, u, d. split; [|split; [|split; [exact Pu|exact Hx]]].
  - intros ND. assert (E : (c', r') = (c, r)).
    { apply (NoDup_map_inj (fun cr : crit * (num * num) => c_id (fst cr)) crs); auto. }
    now injection E.
  - rewrite (raw_value_id a c c' Eid) in Hv. unfold raw_value in Hv.
    destruct (mget (c_id c) (a_vals a)); cbn [of_option] in Hv; [now injection Hv as ->|discriminate].
Qed.

(** B1. with bounding off, every blurred value differs from the old one by at most |f v| *)
Theorem blur_bound cs (a : @alt NumQc) p (f : Qc) gv gs vals gv' gs' :
  blur_values cs a p f gv gs [] = Ok (vals, gv', gs') -> Forall in01 gv -> bounding_off p = true ->
  forall c r, In (c, r) cs ->
    exists v v', mget (c_id c) (a_vals a) = Some v /\ mget (c_id c) vals = Some v' /\
                 @nabs NumQc (v' - v)%Qc <= @nabs NumQc (f * v)%Qc.
Proof.
  intros Hb HP Hoff c r I.
  assert (B : blurred in01 cs p f a {| a_id := a_id a; a_vals := vals |}).
  { split; [reflexivity|]. exists gv, gs, gv', gs'. split; [exact HP|exact Hb]. }
  destruct (blurred_at (N:=NumQc) in01 _ _ _ _ _ _ _ B I) as (r' & v & u & d & _ & Hv & [U0 U1] & Hv').
  cbn [a_vals] in Hv'. rewrite bounding_off_id in Hv' by exact Hoff.
  exists v, (blur_one v u f (fat_sign d)). split; [exact Hv|]. split; [exact Hv'|].
  rewrite blur_one_Qc. apply blur_expr_bound; [exact U0|exact U1|apply fat_sign_cases].
Qed.

Definition blur_within (f : Qc) (cs : list (@crit NumQc)) (a a' : @alt NumQc) : Prop :=
  a_id a' = a_id a /\
  forall c, In c cs -> exists v v', mget (c_id c) (a_vals a) = Some v /\ mget (c_id c) (a_vals a') = Some v' /\
                                    @nabs NumQc (v' - v)%Qc <= @nabs NumQc (f * v)%Qc.

Theorem blur_bound_state e (cur : @state NumQc) p st rep (f : Qc) :
  apply_fatigue e cur p = Ok (st, rep) -> Forall in01 (new_rng e (bp_seed p)) -> bounding_off p = true ->
  fatigue_ratio e p = Ok f ->
  Forall2 (blur_within f (st_crits cur)) (st_cons cur) (st_cons st) /\
  Forall2 (blur_within f (st_crits cur)) (st_notcons cur) (st_notcons st).
Proof.
  intros H HP Hoff Hf. apply (apply_fatigue_inv (N:=NumQc) in01) in H; [|exact HP].
  destruct H as (f' & crs & Hf' & _ & Hc & F1 & F2 & _). rewrite Hf in Hf'. injection Hf' as <-.
  assert (K : forall a a', blurred in01 crs p f a a' -> blur_within f (st_crits cur) a a').
  { intros a a' B. split; [eapply blurred_id; exact B|]. intros c Hc0.
    destruct (ranges_of_in _ _ _ _ Hc Hc0) as (r & I & _).
    destruct (blurred_at (N:=NumQc) in01 _ _ _ _ _ _ _ B I) as (r' & v & u & d & _ & Hv & [U0 U1] & Hv').
    rewrite bounding_off_id in Hv' by exact Hoff.
    exists v, (blur_one v u f (fat_sign d)). split; [exact Hv|]. split; [exact Hv'|].
    rewrite blur_one_Qc. apply blur_expr_bound; [exact U0|exact U1|apply fat_sign_cases]. }
  split; (eapply Forall2_impl_in; [|eassumption]); intros a a' _ _; apply K.
Qed.

(** B2. fatigue ratio 0 without bounding: every value of a current criterion is kept, and the new
    value maps contain exactly the current criteria *)
Definition kept_exactly (cs : list (@crit NumQc)) (a a' : @alt NumQc) : Prop :=
  a_id a' = a_id a /\
  (forall c, In c cs -> mget (c_id c) (a_vals a') = mget (c_id c) (a_vals a)) /\
  (forall k, In k (mkeys (a_vals a')) <-> In k (map c_id cs)).

Theorem f_zero_identity e (cur : @state NumQc) p st rep :
  apply_fatigue e cur p = Ok (st, rep) -> fatigue_ratio e p = Ok (0 : Qc) -> bounding_off p = true ->
  Forall2 (kept_exactly (st_crits cur)) (st_cons cur) (st_cons st) /\
  Forall2 (kept_exactly (st_crits cur)) (st_notcons cur) (st_notcons st).
Proof.
  intros H Hf Hoff. apply (apply_fatigue_inv (N:=NumQc) (fun _ => True)) in H; [|apply Forall_True].
  destruct H as (f' & crs & Hf' & _ & Hc & F1 & F2 & _). rewrite Hf in Hf'. injection Hf' as <-.
  assert (K : forall a a', blurred (fun _ => True) crs p (0 : Qc) a a' -> kept_exactly (st_crits cur) a a').
  { intros a a' B. split; [eapply blurred_id; exact B|]. split.
    - intros c Hc0. destruct (ranges_of_in _ _ _ _ Hc Hc0) as (r & I & _).
      destruct (blurred_at (N:=NumQc) _ _ _ _ _ _ _ _ B I) as (r' & v & u & d & _ & Hv & _ & Hv').
      rewrite bounding_off_id in Hv' by exact Hoff. rewrite Hv, Hv', blur_one_Qc. f_equal. apply blur_zero.
    - destruct B as [_ (gv0 & gs0 & gv1 & gs1 & HP0 & Hb)].
      destruct (blur_values_spec _ a p _ _ _ _ _ _ _ _ Hb HP0) as (_ & _ & _ & I4 & _).
      intros k. rewrite I4, (ranges_of_ids _ _ _ Hc). cbn [mkeys map In]. tauto. }
  split; (eapply Forall2_impl_in; [|eassumption]); intros a a' _ _; apply K.
Qed.

(** ** 3. B6: the model passes the checker *)
Lemma nabs_nonneg (x : Qc) : 0 <= @nabs NumQc x.
Proof. cbn [nabs NumQc]. unfold Qcle. rewrite this_abs. apply Qabs_nonneg. Qed.

Lemma tol_rel_nonneg : 0 <= @c_tol_rel NumQc.
Proof. unfold Qcle. cbn. discriminate. Qed.

Lemma slack_nonneg (x d : Qc) : 0 <= x -> 0 <= d -> 0 <= @c_tol_rel NumQc * (x + d).
Proof. intros Hx Hd. pose proof tol_rel_nonneg as T. set (t := @c_tol_rel NumQc) in *. qcq. nra. Qed.

Lemma c17_off_ok (v u f s : Qc) :
  in01 u -> s = 1 \/ s = -(1) ->
  let v' := @blur_one NumQc v u f s in
  let d := @nabs NumQc (@nmul NumQc f v) in
  let slack := @nmul NumQc c_tol_rel (@nadd NumQc (@nabs NumQc v) d) in
  @nleb NumQc (@nabs NumQc (@nsub NumQc v' v)) (@nadd NumQc d slack) = true.
Proof.
  intros [U0 U1] Hs. cbv zeta. apply nleb_iff. pose proof (blur_expr_bound v u f s U0 U1 Hs) as B.
  pose proof (slack_nonneg _ _ (nabs_nonneg v) (nabs_nonneg (f * v)%Qc)) as S. rewrite blur_one_Qc. qcn.
  set (x := qc_abs (v + v * u * f * s - v)) in *. set (d := qc_abs (f * v)) in *.
  set (sl := @c_tol_rel NumQc * (qc_abs v + d)) in *. qcq. lra.
Qed.

Lemma c17_on_ok p (r : Qc * Qc) (v u f s : Qc) :
  in01 u -> s = 1 \/ s = -(1) ->
  let v' := @bound_value NumQc p r (@blur_one NumQc v u f s) in
  let d := @nabs NumQc (@nmul NumQc f v) in
  let slack := @nmul NumQc c_tol_rel (@nadd NumQc (@nabs NumQc v) d) in
  within (@nsub NumQc (bound_value p r (@nsub NumQc v d)) slack) (@nadd NumQc (bound_value p r (@nadd NumQc v d)) slack) v' = true.
Proof.
  intros [U0 U1] Hs. cbv zeta. destruct (blur_expr_interval v u f s U0 U1 Hs) as [B1 B2].
  pose proof (slack_nonneg _ _ (nabs_nonneg v) (nabs_nonneg (f * v)%Qc)) as S. rewrite blur_one_Qc. qcn.
  apply (bound_value_mono p r) in B1, B2. cbn [nabs NumQc] in *.
  set (lo := @bound_value NumQc p r (v - qc_abs (f * v))%Qc) in *. set (hi := @bound_value NumQc p r (v + qc_abs (f * v))%Qc) in *.
  set (x := @bound_value NumQc p r (v + v * u * f * s)%Qc) in *. set (sl := @c_tol_rel NumQc * (qc_abs v + qc_abs (f * v))) in *.
  unfold within. apply andb_true_iff. split; apply nleb_iff; qcq; lra.
Qed.

Lemma c17_zero_ok (f v' v : Qc) : (f = 0 -> v' = v) -> negb (@neqb NumQc f nzero) || @neqb NumQc v' v = true.
Proof.
  intros H. destruct (@neqb NumQc f nzero) eqn:E; cbn [negb orb]; [|reflexivity].
  bconv. apply neqb_iff. now apply H.
Qed.

Theorem fatigue_passes_checker e (cur : @state NumQc) p st rep :
  Forall in01 (new_rng e (bp_seed p)) -> NoDup (map c_id (st_crits cur)) ->
  apply_fatigue e cur p = Ok (st, rep) -> C17_ok e p cur st rep = true.
Proof.
  intros HP NDc H. apply (apply_fatigue_inv (N:=NumQc) in01) in H; [|exact HP].
  destruct H as (f & crs & Hf & Hvb & Hc & F1 & F2 & C & Pm & ->).
  assert (NDi : NoDup (item_ids crs)) by (rewrite (ranges_of_ids _ _ _ Hc); exact NDc).
  assert (Hid : forall a a', blurred in01 crs p f a a' -> a_id a = a_id a').
  { intros a a' B. symmetry. eapply blurred_id. exact B. }
  unfold C17_ok. rewrite Hf, C, Pm.
  rewrite !(list_eqb_refl_gen alt_same alt_same_refl), same_refl, crits_same_refl, params_same_refl.
  rewrite same_split_ids by (symmetry; eapply Forall2_map_eq; try eassumption; exact Hid).
  cbn [andb]. apply list_eqb_Forall2. unfold all_alts.
  apply Forall2_app; (eapply Forall2_impl_in; [|eassumption]); intros a b _ _ Hab; cbv beta;
    apply andb_true_iff; split.
  1,3: apply forallb_forall; intros c Hc0;
    destruct (ranges_of_in _ _ _ _ Hc Hc0) as (r & I & Hr & _);
    destruct (blurred_at (N:=NumQc) in01 _ _ _ _ _ _ _ Hab I) as (r' & v & u & d & Er & Hv & Pu & Hv');
    rewrite (Er NDi) in Hv'; rewrite Hv, Hv'; fold (all_alts cur); rewrite Hr;
    destruct (bounding_off p) eqn:Ebo;
    [ rewrite (bounding_off_id p r _ Ebo); apply andb_true_iff; split;
      [ apply c17_off_ok; [exact Pu|apply fat_sign_cases]
      | apply c17_zero_ok; intros ->; rewrite blur_one_Qc; apply blur_zero ]
    | apply andb_true_iff; split;
      [ apply c17_on_ok; [exact Pu|apply fat_sign_cases]
      | apply c17_zero_ok; intros ->; rewrite blur_one_Qc, blur_zero; reflexivity ] ].
  all: destruct Hab as [_ (gv0 & gs0 & gv1 & gs1 & HP0 & Hb)];
    destruct (blur_values_spec (N:=NumQc) in01 a p f _ _ _ _ _ _ _ Hb HP0) as (_ & _ & _ & _ & I5);
    apply Nat.eqb_eq; rewrite I5; [|exact NDi|intros k _ []];
    cbn [List.length Nat.add]; pose proof (ranges_of_spec _ _ _ Hc) as [Hfst _];
    now rewrite <- Hfst, map_length.
Qed.

(** ** 4. Executed examples (instance [NumQc]) *)
Definition check17 e p s :=
  match apply_fatigue e s p with Ok (st, rep) => Some (C17_ok e p s st rep) | Err _ => None end.
Definition xstream := [xq 1 4; xq 3 4; xq 1 2; xq 0 1; xq 1 8; xq 7 8; xq 1 3; xq 2 3].

(* f = 1/10, no bounding (scaling -1): value draws 1/4, 3/4, 1/2, ..; sign draws from the same stream *)
Example ex_fatigue_unbounded :
  let p := xprops "" (xq 1 2) (xq (-1) 1) false (xq 1 10) in
  (show_st (apply_fatigue (xenv xstream) xs1 p), check17 (xenv xstream) p xs1)
  = (Ok ([("a", [("g", 41 # 4); ("k", 185 # 2)]); ("b", [("g", 19 # 1); ("k", 300 # 1)])],
         [("c", [("g", 567 # 40); ("k", 1095 # 8)])]), Some true)%Q.
Proof. vm_compute. reflexivity. Qed.

(* bounding: non-negative, range scaled by 1/2 about its centre (g: [12.5, 17.5], k: [100, 300]) *)
Example ex_fatigue_bounded :
  let p := xprops "" (xq 1 2) (xq 1 2) true (xq 1 10) in
  (show_st (apply_fatigue (xenv xstream) xs1 p), check17 (xenv xstream) p xs1)
  = (Ok ([("a", [("g", 25 # 2); ("k", 100 # 1)]); ("b", [("g", 35 # 2); ("k", 300 # 1)])],
         [("c", [("g", 567 # 40); ("k", 1095 # 8)])]), Some true)%Q.
Proof. vm_compute. reflexivity. Qed.

(* the draws must lie in [0,1): a value draw 2 moves a value by 2 |f v| and the checker rejects *)
Example cex_draw_outside_unit :
  let p := xprops "" (xq 1 2) (xq (-1) 1) false (xq 1 10) in
  check17 (xenv (xq 2 1 :: xstream)) p xs1 = Some false.
Proof. vm_compute. reflexivity. Qed.

(* distinct criterion ids are needed: a criterion listed twice yields one value, the checker counts two *)
Example cex_fatigue_duplicate_crit_ids :
  let p := xprops "" (xq 1 2) (xq (-1) 1) false (xq 1 10) in
  check17 (xenv xstream) p (xstate [xalt "a" 10 100] [xalt "b" 30 300] [xg; xg]) = Some false.
Proof. vm_compute. reflexivity. Qed.

Print Assumptions fatigue_frame.
Print Assumptions sign_both_directions.
Print Assumptions blur_expr_bound.
Print Assumptions blur_bound.
Print Assumptions blur_bound_state.
Print Assumptions f_zero_identity.
Print Assumptions scale_equally_centre.
Print Assumptions scale_equally_one.
Print Assumptions bounding_spec.
Print Assumptions bound_value_mono.
Print Assumptions fatigue_passes_checker.
