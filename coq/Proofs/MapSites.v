(** * Classification of every map-iteration site of the Go source (inventory regenerated on every run
    in Gen/MapRanges.v) by the order-independence pattern that covers it; the lemma for each pattern
    is in Proofs/MapOrderFacts.v. A site that appears in the source and is not classified here makes
    the obligation [all_sites_covered] of Properties/C02.v fail. *)
From Coq Require Import List String Bool.
From RDM Require Import Gen.MapRanges.
Import ListNotations.
Local Open Scope string_scope.

Inductive pattern :=
| PAssign        (* per-key assignment into another map: writes to distinct keys commute (assign_perm) *)
| PAccumulate    (* per-key accumulation, outer sequence in slice order (accumulate_perm) *)
| PCollectSort   (* entries collected, then sorted by a strict total order (collect_sort_perm) *)
| PMergeVerdict  (* copy with collision / validity check: result and verdict order-free (merge_map_perm) *)
| PChoquetTies   (* collected and sorted by value with ties: tie order irrelevant (choquet_tie_order_irrelevant) *)
| PMessageOnly   (* feeds the wording of an error message only *)
| PTestOnly.     (* test utilities, not reachable from MakeDecision *)

(* key, pattern, fingerprint of the range statement, fingerprint of the enclosing function body (tools/gotools/mapranges: the
   function's own identifiers are renamed by first occurrence, so renaming the function or its locals, or moving it to another
   file, changes neither) *)
Definition classified : list (string * pattern * string * string) := [
  ("logic/biases/anchoring/anchoring.go:matchScalingWithBounding#0", PAssign, "b6708065d59ede9a", "17691802d77a2eaf");
  ("logic/biases/anchoring/ideal-reference-alternative-evaluator.go:extractCriteriaValues#0", PAssign, "179ac57db6e7b62e", "b2cba098083e14cc");
  ("logic/biases/anchoring/ideal-reference-alternative-evaluator.go:prepareCriteriaWithCoefficients#0", PAssign, "e9a2cccc1cdee4ed", "f17a002668306539");
  ("logic/biases/anchoring/inline-anchoring-applier.go:*InlineAnchoringApplier.ApplyAnchoring#0", PAssign, "c6e1f8b03cda2ee6", "7adb904c5f47d2ae");
  ("logic/biases/anchoring/inline-anchoring-applier.go:arithmeticAverage#0", PAccumulate, "89c824b816baf202", "cfd5cf58dbfbb4d5");
  ("logic/biases/anchoring/inline-anchoring-applier.go:arithmeticAverage#1", PAssign, "c2107148b96ab0e4", "cfd5cf58dbfbb4d5");
  ("logic/biases/criteria-mixing/criteria-mixing.go:*criteriaToMix.mix#0", PAssign, "f5cbaab39a1cbdd8", "2782e8946b46aa62");
  ("logic/limited-rationality/satisfaction-levels/satisfaction-levels-update.go:*SatisfactionLevelsUpdateListeners.Fetch#0", PMessageOnly, "b852301e47161a66", "089e65b6e0629823");
  ("logic/preference-func/choquet/choquet-integral.go:prepareCriteriaInAscendingOrder#0", PChoquetTies, "e44f246c2c555065", "177b5e30e003ba48");
  ("logic/preference-func/choquet/choquet-integral_parsing.go:remapWeights#0", PMergeVerdict, "68e9a450d773f86e", "50541994eb9d8edc");
  ("logic/preference-func/choquet/choquet-integral_parsing.go:prepareWeights#0", PMergeVerdict, "0c748aa2932ae3bc", "25083f5403e063c6");
  ("logic/preference-func/electreIII/electre_III-bias-listener.go:*ElectreIIIBiasLIstener.Merge#0", PAssign, "659c69d4d95f881c", "5899b1b64a9a8dc8");
  ("logic/preference-func/electreIII/electre_III-bias-listener.go:*ElectreIIIBiasLIstener.Merge#1", PMergeVerdict, "4d27b1288a5b61d9", "5899b1b64a9a8dc8");
  ("logic/preference-func/electreIII/electre_III-bias-listener.go:*ElectreIIIBiasLIstener.RankCriteriaAscending#0", PAssign, "f441b0f6046bf5e4", "edb1ea993f14fb6d");
  ("logic/preference-func/owa/owa-bias-listener.go:*OwaBiasListener.Merge#0", PCollectSort, "5ef1f71755f322a4", "c4a4bcd94bbdbc6b");
  ("logic/preference-func/owa/owa.go:sortAlternativeCriteriaWeights#0", PCollectSort, "0ac3bd7b5761ffc2", "333859f80265bb01");
  ("model/alternative.go:*AlternativeWithCriteria.WithCriterion#0", PAssign, "ce579f0e9fdaf89f", "c04e76bc54b6b529");
  ("model/bias-listener.go:PrepareCumulatedWeightsMap#0", PAccumulate, "22d59760823742dc", "a8fc292e4811d834");
  ("model/bias.go:ChooseBiases#0", PMessageOnly, "72795329569d95ce", "875f3b5e0fce9ac4");
  ("model/weights.go:*Weights.Merge#0", PAssign, "6924b76869ec8c18", "7c286e23b32981a2");
  ("model/weights.go:*Weights.Merge#1", PMergeVerdict, "e8b7ef97078b3ba3", "7c286e23b32981a2");
  ("model/weights.go:*Weights.Copy#0", PAssign, "6924b76869ec8c18", "66deff307a372a5f");
  ("model/weights.go:*Weights.AsKeyValue#0", PCollectSort, "512a97b4196e2000", "1f718f8d600a54ca");
  ("testUtils/test_utils.go:ValidateWeights#0", PTestOnly, "f9abb41c1882eee8", "61a03841eaf508ff")
].

(* patterns whose order-independence is a property of the loop alone; for the others (what happens to the collected
   entries AFTER the loop matters) the whole function has to be the classified one *)
Definition self_contained (p : pattern) : bool :=
  match p with PAssign | PAccumulate | PMergeVerdict => true | _ => false end.

(* a site of the source is covered when its code is the code that was classified: the same loop (self-contained patterns),
   or a function whose whole body is that of a classified site - wherever it now lives and whatever it is called. The key
   (place and name) is kept for the reader only: a loop that keeps its place but changes its body is NOT covered. *)
Definition covered (site : string * string * (string * string)) : bool :=
  let '(_, _, (lfp, ffp)) := site in
  existsb (fun c => let '(_, p, l, f) := c in (self_contained p && String.eqb l lfp) || String.eqb f ffp) classified.

Definition uncovered_sites : list string := map (fun s => fst (fst s)) (filter (fun s => negb (covered s)) map_range_sites).

Definition all_covered : bool := forallb covered map_range_sites.
