(** * Classification of every map-iteration site of the Go source (inventory regenerated on every run
    in Gen/MapRanges.v) by the order-independence pattern that covers it; the lemma for each pattern
    is in Proofs/MapOrderFacts.v. A site that appears in the source and is not classified here makes
    the obligation [all_sites_covered] of Properties/C02.v fail. *)
From Coq Require Import List String Bool.
From RDM Require Import Gen.MapRanges.
Import ListNotations.
Local Open Scope string_scope.

Inductive pattern :=
| PAssign        (* per-key assignment into another map: writes to distinct keys commute (assign_perm) *)
| PAccumulate    (* per-key accumulation, outer sequence in slice order (accumulate_perm) *)
| PCollectSort   (* entries collected, then sorted by a strict total order (collect_sort_perm) *)
| PMergeVerdict  (* copy with collision / validity check: result and verdict order-free (merge_map_perm) *)
| PChoquetTies   (* collected and sorted by value with ties: tie order irrelevant (choquet_tie_order_irrelevant) *)
| PMessageOnly   (* feeds the wording of an error message only *)
| PTestOnly.     (* test utilities, not reachable from MakeDecision *)

Definition classified : list (string * pattern) := [
  ("logic/biases/anchoring/anchoring.go:matchScalingWithBounding#0", PAssign);
  ("logic/biases/anchoring/ideal-reference-alternative-evaluator.go:extractCriteriaValues#0", PAssign);
  ("logic/biases/anchoring/ideal-reference-alternative-evaluator.go:prepareCriteriaWithCoefficients#0", PAssign);
  ("logic/biases/anchoring/inline-anchoring-applier.go:*InlineAnchoringApplier.ApplyAnchoring#0", PAssign);
  ("logic/biases/anchoring/inline-anchoring-applier.go:arithmeticAverage#0", PAccumulate);
  ("logic/biases/anchoring/inline-anchoring-applier.go:arithmeticAverage#1", PAssign);
  ("logic/biases/criteria-mixing/criteria-mixing.go:*criteriaToMix.mix#0", PAssign);
  ("logic/limited-rationality/satisfaction-levels/satisfaction-levels-update.go:*SatisfactionLevelsUpdateListeners.Fetch#0", PMessageOnly);
  ("logic/preference-func/choquet/choquet-integral.go:prepareCriteriaInAscendingOrder#0", PChoquetTies);
  ("logic/preference-func/choquet/choquet-integral_parsing.go:remapWeights#0", PMergeVerdict);
  ("logic/preference-func/choquet/choquet-integral_parsing.go:prepareWeights#0", PMergeVerdict);
  ("logic/preference-func/electreIII/electre_III-bias-listener.go:*ElectreIIIBiasLIstener.Merge#0", PAssign);
  ("logic/preference-func/electreIII/electre_III-bias-listener.go:*ElectreIIIBiasLIstener.Merge#1", PMergeVerdict);
  ("logic/preference-func/electreIII/electre_III-bias-listener.go:*ElectreIIIBiasLIstener.RankCriteriaAscending#0", PAssign);
  ("logic/preference-func/owa/owa-bias-listener.go:*OwaBiasListener.Merge#0", PCollectSort);
  ("logic/preference-func/owa/owa.go:sortAlternativeCriteriaWeights#0", PCollectSort);
  ("model/alternative.go:*AlternativeWithCriteria.WithCriterion#0", PAssign);
  ("model/bias-listener.go:PrepareCumulatedWeightsMap#0", PAccumulate);
  ("model/bias.go:ChooseBiases#0", PMessageOnly);
  ("model/weights.go:*Weights.Merge#0", PAssign);
  ("model/weights.go:*Weights.Merge#1", PMergeVerdict);
  ("model/weights.go:*Weights.Copy#0", PAssign);
  ("model/weights.go:*Weights.AsKeyValue#0", PCollectSort);
  ("testUtils/test_utils.go:ValidateWeights#0", PTestOnly)
].

Fixpoint class_of (k : string) (l : list (string * pattern)) : option pattern :=
  match l with [] => None | (k', p) :: r => if String.eqb k k' then Some p else class_of k r end.

Definition covered (site : string * string) : bool :=
  match class_of (fst site) classified with Some _ => true | None => false end.

Definition all_covered : bool := forallb covered map_range_sites.
