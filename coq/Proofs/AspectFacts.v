(** * C12: the aspect-elimination heuristic of the model ranks in reverse order of elimination.
    Main result: [aspect_passes_checker] -- every ranking produced by [aspect_evaluate] is accepted by the
    checker [C12_ok], provided the ids of the considered alternatives and the ids of the criteria are
    pairwise distinct.  The second hypothesis is necessary: see [cex_duplicate_criteria] at the end. *)
From Coq Require Import ZArith Bool List String Permutation Sorted Lia.
From RDM Require Import Base.Num Base.Util Model.Data Model.Rank Model.Utility Model.Levels Model.Heuristics
  Check.C04 Check.C12 Proofs.SortFacts Proofs.RankFacts.
Import ListNotations.
Local Open Scope string_scope.
Local Open Scope list_scope.

(** ** Generic list facts *)
Lemma nth_opt_lt {A} : forall (l : list A) j x, nth_opt j l = Some x -> j < List.length l.
Proof.
  induction l as [|y r IH]; intros j x H; [destruct j; discriminate|].
  destruct j as [|j]; cbn [nth_opt List.length] in *; [lia|]. apply IH in H. lia.
Qed.

Lemma nth_opt_in {A} : forall (l : list A) j x, nth_opt j l = Some x -> In x l.
Proof.
  induction l as [|y r IH]; intros j x H; [destruct j; discriminate|].
  destruct j as [|j]; cbn [nth_opt] in H; [injection H as ->; now left|]. right. eapply IH; eassumption.
Qed.

Lemma SS_app {A} (R : A -> A -> Prop) l1 l2 :
  StronglySorted R l1 -> StronglySorted R l2 -> (forall x y, In x l1 -> In y l2 -> R x y) ->
  StronglySorted R (l1 ++ l2).
Proof.
  induction l1 as [|a r IH]; intros S1 S2 H; cbn [app]; [assumption|].
  inversion S1 as [|? ? S1' F1]; subst. constructor.
  - apply IH; [assumption|assumption|]. intros x y Hx Hy. apply H; [now right|assumption].
  - apply Forall_app. split; [assumption|]. apply Forall_forall. intros y Hy. apply H; [now left|assumption].
Qed.

Lemma SS_app_inv {A} (R : A -> A -> Prop) l1 l2 :
  StronglySorted R (l1 ++ l2) ->
  StronglySorted R l1 /\ StronglySorted R l2 /\ (forall x y, In x l1 -> In y l2 -> R x y).
Proof.
  induction l1 as [|a r IH]; cbn [app]; intros S.
  - split; [constructor|]. split; [assumption|]. intros x y [].
  - inversion S as [|? ? S' F]; subst. apply IH in S' as (S1 & S2 & H).
    apply Forall_app in F as [F1 F2]. split; [now constructor|]. split; [assumption|].
    intros x y [<-|Hx] Hy; [|now apply H]. rewrite Forall_forall in F2. now apply F2.
Qed.

Lemma SS_const {A} (R : A -> A -> Prop) l : (forall x y, In x l -> In y l -> R x y) -> StronglySorted R l.
Proof.
  induction l as [|a r IH]; intros H; constructor.
  - apply IH. intros x y Hx Hy. apply H; now right.
  - apply Forall_forall. intros y Hy. apply H; [now left|now right].
Qed.

Lemma filter_all_true {A} (p : A -> bool) l : (forall x, In x l -> p x = true) -> filter p l = l.
Proof.
  induction l as [|x r IH]; intros H; cbn [filter]; [reflexivity|].
  rewrite (H x) by now left. f_equal. apply IH. intros y Hy. apply H. now right.
Qed.

Lemma filter_filter {A} (p q : A -> bool) l : filter p (filter q l) = filter (fun x => p x && q x) l.
Proof.
  induction l as [|x r IH]; cbn [filter]; [reflexivity|].
  destruct (q x); cbn [filter]; [destruct (p x); cbn [andb]; now rewrite IH|].
  rewrite andb_false_r. exact IH.
Qed.

Lemma fold_max_ub : forall l a b, (a <= b)%Z -> (forall x, In x l -> (x <= b)%Z) -> (fold_left Z.max l a <= b)%Z.
Proof.
  induction l as [|y r IH]; intros a b Ha H; cbn [fold_left]; [assumption|].
  apply IH; [|intros x Hx; apply H; now right]. specialize (H y (or_introl eq_refl)). lia.
Qed.

Lemma fold_max_lb_acc : forall l a, (a <= fold_left Z.max l a)%Z.
Proof. induction l as [|y r IH]; intros a; cbn [fold_left]; [lia|]. specialize (IH (Z.max a y)). lia. Qed.

Lemma fold_max_lb : forall l a x, In x l -> (x <= fold_left Z.max l a)%Z.
Proof.
  induction l as [|y r IH]; intros a x []; cbn [fold_left].
  - subst. pose proof (fold_max_lb_acc r (Z.max a x)). lia.
  - now apply IH.
Qed.

(** ** Canonical maps *)
Lemma mget_mset_same {A} k (v : A) : forall m, mget k (mset k v m) = Some v.
Proof.
  induction m as [|[k' v'] r IH]; cbn [mset mget].
  - now rewrite String.eqb_refl.
  - destruct (String.eqb k k') eqn:E; [cbn [mget]; now rewrite String.eqb_refl|].
    destruct (String.ltb k k'); cbn [mget]; [now rewrite String.eqb_refl|]. now rewrite E.
Qed.

Lemma mget_mset_other {A} k k' (v : A) : k <> k' -> forall m, mget k (mset k' v m) = mget k m.
Proof.
  intros Hne. apply String.eqb_neq in Hne.
  induction m as [|[k2 v2] r IH]; cbn [mset mget].
  - now rewrite Hne.
  - destruct (String.eqb k' k2) eqn:E.
    + apply String.eqb_eq in E. subst k2. cbn [mget]. now rewrite Hne.
    + destruct (String.ltb k' k2); cbn [mget]; [now rewrite Hne|]. now rewrite IH.
Qed.

Lemma mhas_mset {A} k k' (v : A) m : k = k' \/ mhas k m = true -> mhas k (mset k' v m) = true.
Proof.
  unfold mhas. destruct (String.eqb_spec k k') as [->|Hne].
  - intros _. now rewrite mget_mset_same.
  - intros [E|H]; [contradiction|]. now rewrite mget_mset_other.
Qed.

(** ** The shuffle is a permutation *)
Lemma replace_nth_perm1 {A} (x y : A) : forall r j, nth_opt j r = Some y ->
  Permutation (y :: replace_nth j x r) (x :: r).
Proof.
  induction r as [|z r IH]; intros j H; [destruct j; discriminate|].
  destruct j as [|j]; cbn [nth_opt replace_nth] in *.
  - injection H as ->. apply perm_swap.
  - etransitivity; [apply perm_swap|]. etransitivity; [apply perm_skip, IH, H|]. apply perm_swap.
Qed.

Lemma swap_perm {A} : forall (l : list A) i j xi xj, nth_opt i l = Some xi -> nth_opt j l = Some xj ->
  Permutation (replace_nth j xi (replace_nth i xj l)) l.
Proof.
  induction l as [|x r IH]; intros i j xi xj Hi Hj; [destruct i; discriminate|].
  destruct i as [|i], j as [|j]; cbn [nth_opt replace_nth] in *.
  - injection Hi as ->. injection Hj as ->. reflexivity.
  - injection Hi as ->. now apply replace_nth_perm1.
  - injection Hj as ->. now apply replace_nth_perm1.
  - apply perm_skip. now apply IH.
Qed.

Section Shuffle.
  Context {N : Num}.

  Lemma shuffle_from_perm {A} : forall i (l : list A) g l' g',
    shuffle_from i l g = Ok (l', g') -> Permutation l' l.
  Proof.
    induction i as [|i IH]; intros l g l' g' H; cbn [shuffle_from] in H.
    - injection H as -> _. reflexivity.
    - destruct (draw g) as [[x g1]|] eqn:D; cbn [bind fst snd] in H; [|discriminate].
      destruct (nth_opt (S i) l) as [xi|] eqn:E1; [|discriminate].
      match type of H with match ?o with _ => _ end = _ => destruct o as [xj|] eqn:E2; [|discriminate] end.
      apply IH in H. etransitivity; [exact H|]. eapply swap_perm; eassumption.
  Qed.

  Lemma order_alternatives_perm rnd l g l' g' :
    order_alternatives rnd l g = Ok (l', g') -> Permutation l' l.
  Proof.
    unfold order_alternatives, shuffle. destruct rnd; intros H.
    - eapply shuffle_from_perm; eassumption.
    - injection H as -> _. reflexivity.
  Qed.
End Shuffle.

(** ** Every level of a source built by [lv_init] has a threshold for every criterion *)
Section Cover.
  Context {N : Num}.

  Definition src_covers (crits : list crit) (src : lsource) : Prop :=
    match src with
    | LIdeal _ _ _ crs _ => map fst crs = crits
    | LThs rest => forall t, In t rest -> forall c, In c crits -> mhas (c_id c) t = true
    end.

  Lemma level_at_fold_has (cur : num) k : forall (crs : list (crit * (num * num))) m,
    mhas k m = true \/ In k (map (fun cr => c_id (fst cr)) crs) ->
    mhas k (fold_left (fun m cr =>
                 let '(c, r) := cr in
                 let delta := nmul (range_diff r) cur in
                 mset (c_id c) (if is_cost c then nsub (snd r) delta else nadd (fst r) delta) m) crs m) = true.
  Proof.
    induction crs as [|[c r] crs IH]; intros m H; cbn [fold_left map In fst] in *.
    - destruct H as [H|[]]. exact H.
    - apply IH. destruct H as [H|[H|H]].
      + left. apply mhas_mset. now right.
      + left. apply mhas_mset. left. now symmetry.
      + now right.
  Qed.

  Lemma level_at_has crs cur c : In c (map fst crs) -> mhas (c_id c) (level_at crs cur) = true.
  Proof.
    intros H. unfold level_at. apply level_at_fold_has. right.
    rewrite <- (map_map fst c_id). now apply in_map.
  Qed.

  Lemma src_covers_next crits src t src' :
    src_covers crits src -> lv_next src = Some (t, src') ->
    src_covers crits src' /\ (forall c, In c crits -> mhas (c_id c) t = true).
  Proof.
    destruct src as [d sr lp crs cur|rest]; cbn [src_covers lv_next]; intros H E.
    - destruct (has_next d lp cur); [|discriminate]. injection E as <- <-. cbn [src_covers].
      split; [assumption|]. intros c Hc. apply level_at_has. now rewrite H.
    - destruct rest as [|t0 r]; [discriminate|]. injection E as <- <-. cbn [src_covers]. split.
      + intros t1 H1. apply H. now right.
      + apply H. now left.
  Qed.

  Lemma prefix_cover crits : forall m src, src_covers crits src ->
    forall t, In t (lv_prefix m src) -> forall c, In c crits -> mhas (c_id c) t = true.
  Proof.
    induction m as [|m IH]; intros src H t Ht; cbn [lv_prefix] in Ht; [contradiction|].
    destruct (lv_next src) as [[t0 src']|] eqn:E; [|contradiction].
    destruct (src_covers_next _ _ _ _ H E) as [H' Ht0].
    destruct Ht as [<-|Ht]; [exact Ht0|]. eapply IH; eassumption.
  Qed.

  Lemma mapM_fst {A B} (f : A -> res B) : forall (l : list A) (r : list (A * B)),
    mapM (fun c => do y <- f c; Ok (c, y)) l = Ok r -> map fst r = l.
  Proof.
    induction l as [|x l IH]; intros r H; cbn [mapM] in H.
    - injection H as <-. reflexivity.
    - destruct (f x) as [y|]; cbn [bind] in H; [|discriminate].
      destruct (mapM (fun c => do y <- f c; Ok (c, y)) l) as [ys|] eqn:E; cbn [bind] in H; [|discriminate].
      injection H as <-. cbn [map fst]. f_equal. now apply IH.
  Qed.

  Lemma lv_init_covers d fn lp s src : lv_init d fn lp s = Ok src -> src_covers (st_crits s) src.
  Proof.
    unfold lv_init. destruct (String.eqb fn ""); [discriminate|].
    assert (Hideal : forall sr src,
      (if negb (validate_coef d lp) then Err EInvalid else
       do crs <- mapM (fun c => do r <- values_range (all_alts s) c; Ok (c, r)) (st_crits s);
       Ok (LIdeal d sr lp crs (initial_value d lp))) = Ok src -> src_covers (st_crits s) src).
    { intros sr src0 H. destruct (negb (validate_coef d lp)); [discriminate|].
      destruct (mapM _ (st_crits s)) as [crs|] eqn:E; cbn [bind] in H; [|discriminate].
      injection H as <-. cbn [src_covers]. eapply mapM_fst. exact E. }
    destruct (String.eqb fn lv_mul); [apply Hideal|].
    destruct (String.eqb fn _); [apply Hideal|].
    destruct (String.eqb fn lv_thresholds); [|discriminate].
    destruct (forallb _ (lp_ths lp)) eqn:F; [|discriminate]. intros H. injection H as <-.
    cbn [src_covers]. intros t Ht c Hc. rewrite forallb_forall in F. specialize (F t Ht).
    rewrite forallb_forall in F. now apply F.
  Qed.

  Theorem lv_init_levels_cover : forall d fn lp s src, lv_init d fn lp s = Ok src ->
    forall m t, In t (lv_prefix m src) -> forall c, In c (st_crits s) -> mhas (c_id c) t = true.
  Proof. intros d fn lp s src H m. apply prefix_cover. eapply lv_init_covers. exact H. Qed.

  Lemma zip_with_weights_fst cs w cw : zip_with_weights cs w = Ok cw -> map fst cw = cs.
  Proof. unfold zip_with_weights. apply mapM_fst. Qed.
End Cover.

(** ** [is_below] (model) versus [fails] (checker) *)
Section Below.
  Context {N : Num}.

  Definition thr (t : smap num) (c : crit) : num :=
    match mget (c_id c) t with Some x => x | None => nzero end.

  Lemma is_below_fails a t c b :
    is_below a t c = Ok b -> mhas (c_id c) t = true -> fails a t c = b.
  Proof.
    unfold is_below, crit_value, raw_value, fails, mhas.
    destruct (mget (c_id c) (a_vals a)) as [v|]; cbn [of_option bind]; [|discriminate].
    destruct (mget (c_id c) t) as [th|]; [|discriminate]. intros H _. now injection H.
  Qed.

  Lemma is_below_false_fails a t c : is_below a t c = Ok false -> fails a t c = false.
  Proof.
    intros H. destruct (mhas (c_id c) t) eqn:E; [now apply is_below_fails|].
    unfold fails, mhas in *. destruct (mget (c_id c) (a_vals a)); [|reflexivity].
    destruct (mget (c_id c) t); [discriminate|reflexivity].
  Qed.

  Definition belowb (t : smap num) (c : crit) (a : alt) : bool :=
    match is_below a t c with Ok true => true | _ => false end.
  Definition evalok (t : smap num) (c : crit) (a : alt) : Prop := exists b, is_below a t c = Ok b.
  Definition mk_elim (t : smap num) (c : crit) (idx : Z) (a : alt) : mres :=
    (a, EAspect [(c_id c, thr t c)] idx).
  Definition aids (l : list alt) : list string := map a_id l.
  Definition rm_all (temp : list alt) (l : list string) : list alt := fold_left remove_alt l temp.

  Lemma belowb_true t c a : belowb t c a = true -> is_below a t c = Ok true.
  Proof. unfold belowb. destruct (is_below a t c) as [[|]|]; congruence. Qed.

  Lemma belowb_false t c a : evalok t c a -> belowb t c a = false -> is_below a t c = Ok false.
  Proof. unfold belowb. intros [b E]. rewrite E. destruct b; congruence. Qed.

  (** *** remove_alt *)
  Lemma remove_alt_incl id : forall l, incl (remove_alt l id) l.
  Proof.
    induction l as [|a r IH]; cbn [remove_alt]; [apply incl_refl|].
    destruct (String.eqb (a_id a) id); [apply incl_tl, incl_refl|].
    intros x [<-|H]; [now left|right; now apply IH].
  Qed.

  Lemma remove_alt_length id : forall l, List.length l <= S (List.length (remove_alt l id)).
  Proof.
    induction l as [|a r IH]; cbn [remove_alt List.length]; [lia|].
    destruct (String.eqb (a_id a) id); cbn [List.length]; lia.
  Qed.

  Lemma remove_alt_in id x : forall l, NoDup (aids l) -> In x (remove_alt l id) -> In x l /\ a_id x <> id.
  Proof.
    induction l as [|a r IH]; cbn [remove_alt aids map]; intros ND H; [contradiction|].
    inversion ND as [|? ? Hnin ND']; subst.
    destruct (String.eqb (a_id a) id) eqn:E.
    - apply String.eqb_eq in E. split; [now right|]. intros Hx. apply Hnin. rewrite E, <- Hx.
      now apply in_map.
    - apply String.eqb_neq in E. destruct H as [<-|H]; [split; [now left|assumption]|].
      destruct (IH ND' H) as [H1 H2]. split; [now right|assumption].
  Qed.

  Lemma remove_alt_nodup id : forall l, NoDup (aids l) -> NoDup (aids (remove_alt l id)).
  Proof.
    induction l as [|a r IH]; cbn [remove_alt aids map]; intros ND; [constructor|].
    inversion ND as [|? ? Hnin ND']; subst.
    destruct (String.eqb (a_id a) id); [assumption|]. cbn [map]. constructor; [|now apply IH].
    intros H. apply Hnin. apply in_map_iff in H as (x & Hx & Hin). apply in_map_iff. exists x.
    split; [assumption|]. now apply (remove_alt_incl id r).
  Qed.

  Lemma rm_all_incl : forall ids l, incl (rm_all l ids) l.
  Proof.
    induction ids as [|id ids IH]; intros l; cbn [rm_all fold_left]; [apply incl_refl|].
    eapply incl_tran; [apply IH|apply remove_alt_incl].
  Qed.

  Lemma rm_all_in x : forall ids l, NoDup (aids l) -> In x (rm_all l ids) -> In x l /\ ~ In (a_id x) ids.
  Proof.
    induction ids as [|id ids IH]; intros l ND H; cbn [rm_all fold_left] in H; [split; [assumption|intros []]|].
    destruct (IH _ (remove_alt_nodup id l ND) H) as [H1 H2].
    destruct (remove_alt_in id x l ND H1) as [H3 H4]. split; [assumption|].
    intros [E|E]; [now apply H4|now apply H2].
  Qed.

  Lemma rm_all_nodup : forall ids l, NoDup (aids l) -> NoDup (aids (rm_all l ids)).
  Proof.
    induction ids as [|id ids IH]; intros l ND; cbn [rm_all fold_left]; [assumption|].
    apply IH. now apply remove_alt_nodup.
  Qed.

  (** with pairwise distinct ids, removal is a filter: the order of the remaining ones is preserved *)
  Lemma remove_alt_filter id : forall l, NoDup (aids l) ->
    remove_alt l id = filter (fun x => negb (String.eqb (a_id x) id)) l.
  Proof.
    induction l as [|a r IH]; cbn [remove_alt aids map filter]; intros ND; [reflexivity|].
    inversion ND as [|? ? Hnin ND']; subst.
    destruct (String.eqb (a_id a) id) eqn:E; cbn [negb].
    - apply String.eqb_eq in E. symmetry. apply filter_all_true. intros x Hx.
      apply negb_true_iff, String.eqb_neq. intros Hxe. apply Hnin. rewrite E, <- Hxe. now apply in_map.
    - f_equal. now apply IH.
  Qed.

  Lemma rm_all_filter : forall ids l, NoDup (aids l) ->
    rm_all l ids = filter (fun x => negb (mem_str (a_id x) ids)) l.
  Proof.
    induction ids as [|id ids IH]; intros l ND; cbn [rm_all fold_left].
    - symmetry. apply filter_all_true. reflexivity.
    - change (fold_left remove_alt ids (remove_alt l id)) with (rm_all (remove_alt l id) ids).
      rewrite IH by now apply remove_alt_nodup. rewrite remove_alt_filter by assumption.
      rewrite filter_filter. apply filter_ext. intros x. cbn [mem_str].
      rewrite negb_orb. apply andb_comm.
  Qed.

  (** *** One criterion of one level *)
  Lemma walk_spec t c idx : forall todo temp elim temp' elim' stop,
    aspect_walk todo temp t c idx elim = Ok (temp', elim', stop) ->
    exists done rest,
      todo = done ++ rest /\
      Forall (evalok t c) done /\
      temp' = rm_all temp (aids (filter (belowb t c) done)) /\
      elim' = elim ++ map (mk_elim t c idx) (filter (belowb t c) done) /\
      (2 <= List.length temp -> 1 <= List.length temp') /\
      (stop = false -> rest = [] /\ (2 <= List.length temp -> 2 <= List.length temp')) /\
      (stop = true -> List.length temp' <= 1 /\ (2 <= List.length temp -> filter (belowb t c) done <> [])).
  Proof.
    induction todo as [|a r IH]; intros temp elim temp' elim' stop H.
    - cbn [aspect_walk] in H. injection H as <- <- <-. exists [], [].
      cbn [app filter map aids rm_all fold_left]. rewrite app_nil_r.
      repeat split; try constructor; try lia; try discriminate; auto.
    - cbn [aspect_walk] in H.
      destruct (is_below a t c) as [b|] eqn:Eb; cbn [bind] in H; [|discriminate].
      assert (Hbb : belowb t c a = b) by (unfold belowb; rewrite Eb; now destruct b).
      assert (Hok : evalok t c a) by (now exists b).
      pose proof (remove_alt_length (a_id a) temp) as Hlen.
      destruct b.
      + destruct (Nat.leb (List.length (remove_alt temp (a_id a))) 1) eqn:El.
        * injection H as <- <- <-. apply Nat.leb_le in El. exists [a], r.
          cbn [filter]. rewrite Hbb. cbn [app map aids rm_all fold_left].
          repeat split; try (constructor; [assumption|constructor]); try lia; try discriminate.
        * apply Nat.leb_gt in El. apply IH in H as (done & rest & -> & Hf & -> & -> & H1 & H2 & H3).
          exists (a :: done), rest. cbn [filter]. rewrite Hbb. cbn [app map aids rm_all fold_left].
          split; [reflexivity|]. split; [now constructor|]. split; [reflexivity|].
          split; [now rewrite <- app_assoc|]. split; [intros _; apply H1; lia|]. split.
          -- intros Hs. destruct (H2 Hs) as [-> H2']. split; [reflexivity|]. intros _. apply H2'. lia.
          -- intros Hs. destruct (H3 Hs) as [H3' _]. split; [assumption|]. intros _. discriminate.
      + destruct (Nat.leb (List.length temp) 1) eqn:El.
        * injection H as <- <- <-. apply Nat.leb_le in El. exists [a], r.
          cbn [filter]. rewrite Hbb. cbn [app map aids rm_all fold_left]. rewrite app_nil_r.
          repeat split; try (constructor; [assumption|constructor]); try lia; try discriminate.
        * apply Nat.leb_gt in El. apply IH in H as (done & rest & -> & Hf & -> & -> & H1 & H2 & H3).
          exists (a :: done), rest. cbn [filter]. rewrite Hbb. cbn [app].
          split; [reflexivity|]. split; [now constructor|]. split; [reflexivity|].
          split; [reflexivity|]. split; [assumption|]. split; assumption.
  Qed.

  (** the list left by a walk is the given one minus the eliminated alternatives, order preserved *)
  Corollary walk_left_filter t c idx todo temp elim temp' elim' stop :
    NoDup (aids temp) ->
    aspect_walk todo temp t c idx elim = Ok (temp', elim', stop) ->
    exists removed, elim' = elim ++ map (mk_elim t c idx) removed /\ incl removed todo /\
      Forall (fun a => is_below a t c = Ok true) removed /\
      temp' = filter (fun x => negb (mem_str (a_id x) (aids removed))) temp /\
      (stop = true -> List.length temp' <= 1).
  Proof.
    intros ND H. apply walk_spec in H as (done & rest & -> & _ & -> & -> & _ & _ & Hst).
    exists (filter (belowb t c) done). split; [reflexivity|]. split.
    - intros a Ha. apply filter_In in Ha as [Ha _]. apply in_or_app. now left.
    - split; [apply Forall_forall; intros a Ha; apply filter_In in Ha as [_ Hb]; now apply belowb_true|].
      split; [now apply rm_all_filter|]. intros Hs. now destruct (Hst Hs).
  Qed.
End Below.

(** ** The criteria of one level, and the levels *)
Section Run.
  Context {N : Num}.
  Variable cs : list wcrit.
  Hypothesis cs_nodup : NoDup (map (fun c : wcrit => c_id (fst c)) cs).

  Definition m_idx (x : mres) : Z := match snd x with EAspect _ i => i | _ => (-1)%Z end.
  Definition m_ths (x : mres) : smap num := match snd x with EAspect t _ => t | _ => [] end.
  (* the check an elimination record reports: (level index, position of the criterion in walk order) *)
  Definition mkey (x : mres) : option (Z * nat) :=
    match m_ths x with
    | [(cid, _)] => match position cid cs 0 with Some p => Some (m_idx x, p) | None => None end
    | _ => None
    end.
  Definition R (x y : mres) : Prop :=
    exists kx ky, mkey x = Some kx /\ mkey y = Some ky /\ check_leb kx ky = true.

  Lemma position_nth : forall (l : list wcrit) i p c,
    NoDup (map (fun c : wcrit => c_id (fst c)) l) -> nth_error l p = Some c ->
    position (c_id (fst c)) l i = Some (i + p).
  Proof.
    induction l as [|c0 l IH]; intros i p c ND H; [destruct p; discriminate|].
    inversion ND as [|? ? Hnin ND']; subst. destruct p as [|p]; cbn [nth_error position] in *.
    - injection H as ->. rewrite String.eqb_refl. f_equal. lia.
    - assert (E : String.eqb (c_id (fst c0)) (c_id (fst c)) = false).
      { apply String.eqb_neq. intros E. apply Hnin. rewrite E.
        apply (in_map (fun c : wcrit => c_id (fst c))). eapply nth_error_In; eassumption. }
      rewrite E. rewrite (IH (S i) p c ND' H). f_equal. lia.
  Qed.

  Lemma find_nth : forall (l : list wcrit) p c,
    NoDup (map (fun c : wcrit => c_id (fst c)) l) -> nth_error l p = Some c ->
    find (fun c' : wcrit => String.eqb (c_id (fst c')) (c_id (fst c))) l = Some c.
  Proof.
    induction l as [|c0 l IH]; intros p c ND H; [destruct p; discriminate|].
    inversion ND as [|? ? Hnin ND']; subst. destruct p as [|p]; cbn [nth_error find] in *.
    - injection H as ->. now rewrite String.eqb_refl.
    - assert (E : String.eqb (c_id (fst c0)) (c_id (fst c)) = false).
      { apply String.eqb_neq. intros E. apply Hnin. rewrite E.
        apply (in_map (fun c : wcrit => c_id (fst c))). eapply nth_error_In; eassumption. }
      rewrite E. eapply IH; eassumption.
  Qed.

  (** what is known about a record added while working on the level [t] with index [idx]:
      [left] is the list at the beginning of the level, [lo] a lower bound of the criterion position *)
  Definition celem (t : smap num) (idx : Z) (left : list alt) (lo : nat) (x : mres) : Prop :=
    exists p c, lo <= p /\ nth_error cs p = Some c /\
      snd x = EAspect [(c_id (fst c), thr t (fst c))] idx /\ In (fst x) left /\
      is_below (fst x) t (fst c) = Ok true /\
      (forall c', In c' (firstn p cs) -> is_below (fst x) t (fst c') = Ok false).

  Lemma celem_key t idx left lo x : celem t idx left lo x ->
    exists p, lo <= p /\ mkey x = Some (idx, p).
  Proof.
    intros (p & c & Hlo & Hn & He & _). exists p. split; [assumption|].
    unfold mkey, m_ths, m_idx. rewrite He. now rewrite (position_nth cs 0 p c cs_nodup Hn).
  Qed.

  Lemma celem_weaken t idx left left2 lo lo2 x :
    incl left left2 -> lo2 <= lo -> celem t idx left lo x -> celem t idx left2 lo2 x.
  Proof.
    intros Hi Hl (p & c & H1 & H2 & H3 & H4 & H5 & H6). exists p, c.
    repeat split; try assumption; [lia|now apply Hi].
  Qed.

  Lemma check_leb_same_level idx p q : p <= q -> check_leb (idx, p) (idx, q) = true.
  Proof.
    intros H. unfold check_leb. cbn [fst snd]. rewrite Z.eqb_refl.
    apply Nat.leb_le in H. rewrite H. apply orb_true_r.
  Qed.

  Lemma check_leb_lower_level i j p q : (i < j)%Z -> check_leb (i, p) (j, q) = true.
  Proof. intros H. unfold check_leb. cbn [fst snd]. apply Z.ltb_lt in H. now rewrite H. Qed.

  Lemma crit_spec t idx : forall r pre left elim left' elim' stop,
    cs = pre ++ r ->
    aspect_criteria r left t idx elim = Ok (left', elim', stop) ->
    NoDup (aids left) -> 2 <= List.length left ->
    (forall a c', In a left -> In c' pre -> is_below a t (fst c') = Ok false) ->
    exists new,
      elim' = elim ++ new /\ incl left' left /\ NoDup (aids left') /\ 1 <= List.length left' /\
      Forall (celem t idx left (List.length pre)) new /\
      StronglySorted R new /\
      (stop = false -> 2 <= List.length left' /\
         forall a c', In a left' -> In c' cs -> is_below a t (fst c') = Ok false) /\
      (stop = true -> List.length left' <= 1 /\ new <> []).
  Proof.
    induction r as [|c r IH]; intros pre left elim left' elim' stop Hcs H ND Hlen Hpre.
    - cbn [aspect_criteria] in H. injection H as <- <- <-. exists []. rewrite !app_nil_r in *.
      subst pre. repeat split; try constructor; try lia; try apply incl_refl; try assumption; try discriminate.
    - cbn [aspect_criteria] in H.
      destruct (aspect_walk left left t (fst c) idx elim) as [[[l1 e1] st1]|] eqn:W; cbn [bind] in H;
        [|discriminate].
      apply walk_spec in W as (done & rest & Hdone & Hev & Hl1 & He1 & Hge1 & Hns & Hst).
      assert (Hnth : nth_error cs (List.length pre) = Some c).
      { rewrite Hcs, nth_error_app2 by lia. now rewrite Nat.sub_diag. }
      assert (Hfirst : firstn (List.length pre) cs = pre).
      { rewrite Hcs, firstn_app, Nat.sub_diag, firstn_all. cbn [firstn]. apply app_nil_r. }
      assert (Hinc1 : incl l1 left) by (rewrite Hl1; apply rm_all_incl).
      assert (ND1 : NoDup (aids l1)) by (rewrite Hl1; now apply rm_all_nodup).
      (* the records of this walk *)
      assert (Hnew : Forall (celem t idx left (List.length pre))
                       (map (mk_elim t (fst c) idx) (filter (belowb t (fst c)) done))).
      { apply Forall_forall. intros x Hx. apply in_map_iff in Hx as (a & <- & Ha).
        apply filter_In in Ha as [Ha Hb]. exists (List.length pre), c. cbn [mk_elim fst snd].
        assert (Hal : In a left) by (rewrite Hdone; apply in_or_app; now left).
        repeat split; try assumption; try lia; [now apply belowb_true|].
        rewrite Hfirst. intros c' Hc'. now apply Hpre. }
      assert (Hkey : forall x, In x (map (mk_elim t (fst c) idx) (filter (belowb t (fst c)) done)) ->
                               mkey x = Some (idx, List.length pre)).
      { intros x Hx. apply in_map_iff in Hx as (a & <- & _). unfold mkey, mk_elim, m_ths, m_idx. cbn [snd].
        now rewrite (position_nth cs 0 _ c cs_nodup Hnth). }
      assert (Hss : StronglySorted R (map (mk_elim t (fst c) idx) (filter (belowb t (fst c)) done))).
      { apply SS_const. intros x y Hx Hy. exists (idx, List.length pre), (idx, List.length pre).
        split; [now apply Hkey|]. split; [now apply Hkey|]. now apply check_leb_same_level. }
      destruct st1.
      + injection H as <- <- <-. exists (map (mk_elim t (fst c) idx) (filter (belowb t (fst c)) done)).
        destruct (Hst eq_refl) as [Hle Hne].
        repeat split; try assumption; try discriminate; [now apply Hge1|].
        intros E. apply (Hne Hlen). destruct (filter _ done); [reflexivity|discriminate].
      + destruct (Hns eq_refl) as [-> Hge2]. rewrite app_nil_r in Hdone. subst done.
        assert (Hpass : forall a, In a l1 -> is_below a t (fst c) = Ok false).
        { intros a Ha. rewrite Hl1 in Ha. destruct (rm_all_in a _ _ ND Ha) as [Hal Hnin].
          apply belowb_false; [rewrite Forall_forall in Hev; now apply Hev|].
          destruct (belowb t (fst c) a) eqn:Eb; [|reflexivity]. exfalso. apply Hnin.
          apply (in_map a_id). apply filter_In. now split. }
        specialize (IH (pre ++ [c]) l1 e1 left' elim' stop).
        destruct IH as (new & He & Hinc & ND' & Hge & Hfa & Hs & Hn & Hs').
        { rewrite <- app_assoc. exact Hcs. }
        { exact H. }
        { exact ND1. }
        { apply Hge2. exact Hlen. }
        { intros a c' Ha Hc'. apply in_app_or in Hc' as [Hc'|[<-|[]]]; [apply Hpre; [now apply Hinc1|assumption]|].
          now apply Hpass. }
        exists (map (mk_elim t (fst c) idx) (filter (belowb t (fst c)) left) ++ new).
        split; [rewrite He, He1; now rewrite app_assoc|].
        split; [eapply incl_tran; eassumption|]. split; [assumption|]. split; [assumption|].
        split.
        { apply Forall_app. split; [assumption|]. eapply Forall_impl; [|exact Hfa].
          intros x Hx. eapply celem_weaken; [exact Hinc1| |exact Hx]. rewrite app_length. lia. }
        split.
        { apply SS_app; [assumption|assumption|]. intros x y Hx Hy.
          rewrite Forall_forall in Hfa. destruct (celem_key _ _ _ _ _ (Hfa y Hy)) as (q & Hq & Ky).
          exists (idx, List.length pre), (idx, q). split; [now apply Hkey|]. split; [assumption|].
          apply check_leb_same_level. rewrite app_length in Hq. lia. }
        split; [assumption|]. intros Hst2. destruct (Hs' Hst2) as [Hle Hne]. split; [assumption|].
        intros E. apply app_eq_nil in E as [_ E]. now apply Hne.
  Qed.

  (** a record added by the level loop: [lvls] the levels consumed, [base] the index of the first of them *)
  Definition lelem (lvls : list (smap num)) (base : Z) (left : list alt) (x : mres) : Prop :=
    exists j t, nth_opt j lvls = Some t /\ celem t (base + Z.of_nat j) left 0 x /\
      (forall t' c', In t' (firstn j lvls) -> In c' cs -> is_below (fst x) t' (fst c') = Ok false).

  Lemma lelem_key lvls base left x : lelem lvls base left x ->
    exists j p, j < List.length lvls /\ mkey x = Some ((base + Z.of_nat j)%Z, p).
  Proof.
    intros (j & t & Hn & Hc & _). destruct (celem_key _ _ _ _ _ Hc) as (p & _ & K).
    exists j, p. split; [eapply nth_opt_lt; eassumption|assumption].
  Qed.

  Lemma mkey_idx x k p : mkey x = Some (k, p) -> m_idx x = k.
  Proof.
    unfold mkey. destruct (m_ths x) as [|[cid th] [|? ?]]; try discriminate.
    destruct (position cid cs 0); [|discriminate]. intros H. now injection H.
  Qed.

  Lemma levels_spec : forall fuel src left idx elim left' elim' idx',
    aspect_levels fuel src cs left idx elim = Ok (left', elim', idx') ->
    NoDup (aids left) -> 2 <= List.length left ->
    exists n new (stop : bool),
      idx' = (idx + Z.of_nat n)%Z /\ elim' = elim ++ new /\
      List.length (lv_prefix n src) = n /\ incl left' left /\ 1 <= List.length left' /\
      Forall (lelem (lv_prefix n src) (idx + 1) left) new /\
      StronglySorted R new /\
      (stop = false -> 2 <= List.length left' /\ List.length (lv_prefix (S n) src) = n /\
         forall a t c, In a left' -> In t (lv_prefix n src) -> In c cs -> is_below a t (fst c) = Ok false) /\
      (stop = true -> List.length left' <= 1 /\ 1 <= n /\
         (forall a t c, In a left' -> In t (firstn (n - 1) (lv_prefix n src)) -> In c cs ->
                        is_below a t (fst c) = Ok false) /\
         exists x, In x new /\ m_idx x = idx').
  Proof.
    induction fuel as [|f IH]; intros src left idx elim left' elim' idx' H ND Hlen;
      cbn [aspect_levels] in H; [discriminate|].
    destruct (lv_next src) as [[t src']|] eqn:Enext.
    2:{ injection H as <- <- <-. exists 0, [], false. cbn [lv_prefix]. rewrite Enext, app_nil_r.
        cbn [List.length]. repeat split; try constructor; try lia; try apply incl_refl; try discriminate.
        intros a t c _ []. }
    destruct (aspect_criteria cs left t (idx + 1) elim) as [[[l1 e1] st1]|] eqn:C; cbn [bind] in H;
      [|discriminate].
    apply (crit_spec t (idx + 1)%Z cs [] left elim l1 e1 st1 eq_refl) in C; [|assumption|assumption|intros ? ? ? []].
    destruct C as (new1 & He1 & Hinc1 & ND1 & Hge1 & Hfa1 & Hss1 & Hns1 & Hst1).
    assert (Hl1 : forall lvls, Forall (lelem (t :: lvls) (idx + 1) left) new1).
    { intros lvls. eapply Forall_impl; [|exact Hfa1]. intros x Hx. exists 0, t. cbn [nth_opt firstn].
      split; [reflexivity|]. split; [now rewrite Z.add_0_r|]. intros ? ? []. }
    destruct st1.
    - injection H as <- <- <-. destruct (Hst1 eq_refl) as [Hle Hne].
      exists 1, new1, true. cbn [lv_prefix]. rewrite Enext. cbn [List.length firstn Nat.sub].
      split; [lia|]. split; [assumption|]. split; [reflexivity|]. split; [assumption|]. split; [assumption|].
      split; [apply Hl1|]. split; [assumption|]. split; [discriminate|]. intros _.
      split; [assumption|]. split; [lia|]. split; [intros ? ? ? _ []|].
      destruct new1 as [|x new1]; [congruence|]. exists x. split; [now left|].
      inversion Hfa1 as [|? ? Hx _]; subst. destruct (celem_key _ _ _ _ _ Hx) as (p & _ & K).
      eapply mkey_idx; eassumption.
    - destruct (Hns1 eq_refl) as [Hge2 Hpass1].
      apply IH in H; [|assumption|assumption].
      destruct H as (n & new & stop & Hidx & He & Hpl & Hinc & Hge & Hfa & Hss & Hns & Hst).
      exists (S n), (new1 ++ new), stop.
      assert (Hpre : forall m, lv_prefix (S m) src = t :: lv_prefix m src').
      { intros m. cbn [lv_prefix]. now rewrite Enext. }
      rewrite !Hpre. cbn [List.length].
      split; [lia|]. split; [rewrite He, He1; now rewrite app_assoc|]. split; [now rewrite Hpl|].
      split; [eapply incl_tran; eassumption|]. split; [assumption|].
      assert (Hfa' : Forall (lelem (t :: lv_prefix n src') (idx + 1) left) new).
      { eapply Forall_impl; [|exact Hfa]. intros x (j & t0 & Hn & Hc & Hearlier).
        assert (Hx : In (fst x) l1) by (destruct Hc as (? & ? & _ & _ & _ & Hx & _); exact Hx).
        exists (S j), t0. cbn [nth_opt firstn]. split; [assumption|]. split.
        - eapply celem_weaken; [exact Hinc1|apply Nat.le_refl|].
          replace (idx + 1 + Z.of_nat (S j))%Z with (idx + 1 + 1 + Z.of_nat j)%Z by lia. exact Hc.
        - intros t' c' [<-|Ht'] Hc'; [now apply Hpass1|now apply Hearlier]. }
      split; [apply Forall_app; split; [apply Hl1|exact Hfa']|].
      split.
      { apply SS_app; [assumption|assumption|]. intros x y Hx Hy.
        rewrite Forall_forall in Hfa1, Hfa.
        destruct (celem_key _ _ _ _ _ (Hfa1 x Hx)) as (p & _ & Kx).
        destruct (lelem_key _ _ _ _ (Hfa y Hy)) as (j & q & _ & Ky).
        eexists; eexists. split; [exact Kx|]. split; [exact Ky|]. apply check_leb_lower_level. lia. }
      split.
      + intros Hs. destruct (Hns Hs) as (Hg & Hp & Hpass). split; [assumption|].
        split; [now rewrite Hp|].
        intros a t0 c Ha [<-|Ht0] Hc; [apply Hpass1; [now apply Hinc|assumption]|now apply Hpass].
      + intros Hs. destruct (Hst Hs) as (Hle & Hn1 & Hpass & x & Hx & Hxi). split; [assumption|].
        split; [lia|]. split.
        * destruct n as [|n]; [lia|]. cbn [Nat.sub firstn].
          replace (S n - 1) with n in Hpass by lia.
          intros a t0 c Ha [<-|Ht0] Hc; [apply Hpass1; [now apply Hinc|assumption]|now apply Hpass].
        * exists x. split; [apply in_or_app; now right|assumption].
  Qed.
End Run.

(** ** The outcome of a whole run *)
Section RunSpec.
  Context {N : Num}.

  Definition passes (cs : list wcrit) (lvls : list (smap num)) (a : alt) : Prop :=
    forall t c, In t lvls -> In c cs -> is_below a t (fst c) = Ok false.

  (** [n] levels were used; the survivors [lft] get the index [n], the records [elim] are in
      order of elimination *)
  Record run_spec (cs : list wcrit) (src : lsource) (lft : list alt) (elim : list mres) (n : nat) : Prop := {
    rs_len : List.length (lv_prefix n src) = n;
    rs_elim : Forall (fun x => exists left, lelem cs (lv_prefix n src) 0 left x) elim;
    rs_sorted : StronglySorted (R cs) elim;
    rs_nonempty : lft = [] -> elim = [];
    rs_end :
      (List.length lft <= 1 /\
       (elim = [] \/ exists x, In x elim /\ m_idx x = (Z.of_nat n - 1)%Z) /\
       forall a, In a lft -> passes cs (firstn (n - 1) (lv_prefix n src)) a)
      \/
      (2 <= List.length lft /\ List.length (lv_prefix (S n) src) = n /\
       forall a, In a lft -> passes cs (lv_prefix n src) a)
  }.

  Lemma levels_run_spec cs src alts lft elim idx :
    NoDup (map (fun c : wcrit => c_id (fst c)) cs) -> NoDup (aids alts) ->
    (if Nat.leb (List.length alts) 1 then Ok (alts, [], (-1)%Z)
     else aspect_levels level_fuel src cs alts (-1)%Z []) = Ok (lft, elim, idx) ->
    exists n, (idx + 1)%Z = Z.of_nat n /\ run_spec cs src lft elim n.
  Proof.
    intros NDc NDa H. destruct (Nat.leb (List.length alts) 1) eqn:El.
    - injection H as <- <- <-. apply Nat.leb_le in El. exists 0. split; [reflexivity|].
      constructor; cbn [lv_prefix List.length firstn].
      + reflexivity.
      + constructor.
      + constructor.
      + reflexivity.
      + left. split; [assumption|]. split; [now left|]. intros a _ t c [].
    - apply Nat.leb_gt in El.
      apply (levels_spec cs NDc) in H; [|assumption|lia].
      destruct H as (n & new & stop & Hidx & He & Hpl & Hinc & Hge & Hfa & Hss & Hns & Hst).
      cbn [app] in He. subst elim. change (-1 + 1)%Z with 0%Z in Hfa.
      exists n. split; [lia|]. constructor; try assumption.
      + eapply Forall_impl; [|exact Hfa]. intros x Hx. now exists alts.
      + intros ->. cbn [List.length] in Hge. lia.
      + destruct stop.
        * destruct (Hst eq_refl) as (Hle & Hn1 & Hpass & x & Hx & Hxi). left. split; [assumption|].
          split; [right; exists x; split; [assumption|lia]|]. intros a Ha t c Ht Hc. now apply Hpass.
        * destruct (Hns eq_refl) as (Hg & Hp & Hpass). right. split; [assumption|]. split; [assumption|].
          intros a Ha t c Ht Hc. now apply Hpass.
  Qed.
End RunSpec.

(** ** The clauses of the checker *)
Section Checker.
  Context {N : Num} {L : OrdLaws N}.

  Definition pr (e : entry) : mres := (e_alt e, e_eval e).
  Definition m_surv (x : mres) : bool := match m_ths x with [] => true | _ => false end.

  Lemma sequential_ranking_pr : forall l, map pr (sequential_ranking l) = l.
  Proof.
    induction l as [|[a ev] r IH]; cbn [sequential_ranking map]; [reflexivity|].
    unfold pr at 1. cbn [e_alt e_eval]. now rewrite IH.
  Qed.

  Lemma map_pr_nil (l : list entry) : map pr l = [] -> l = [].
  Proof. destruct l; [reflexivity|discriminate]. Qed.

  Lemma list_eqb_eid : forall l1 l2 : list entry, map pr l1 = map pr l2 ->
    list_eqb (fun a b => String.eqb (eid a) (eid b)) l1 l2 = true.
  Proof.
    induction l1 as [|x r IH]; intros [|y s] H; try discriminate; [reflexivity|].
    cbn [map] in H. unfold pr at 1 3 in H. injection H as Ha _ Hrs. cbn [list_eqb]. rewrite (IH _ Hrs).
    unfold eid. rewrite Ha. now rewrite String.eqb_refl.
  Qed.

  (** survivors first: the observed list splits into survivors and eliminated entries *)
  Lemma C12_survivors_first obs S E :
    map pr obs = S ++ E ->
    (forall x, In x S -> m_surv x = true) -> (forall x, In x E -> m_surv x = false) ->
    map pr (filter is_survivor obs) = S /\
    map pr (filter (fun e => negb (is_survivor e)) obs) = E /\
    list_eqb (fun a b => String.eqb (eid a) (eid b)) obs
             (filter is_survivor obs ++ filter (fun e => negb (is_survivor e)) obs) = true.
  Proof.
    intros Hobs HS HE.
    assert (H1 : map pr (filter is_survivor obs) = S).
    { change (@is_survivor N) with (fun e => m_surv (pr e)). rewrite <- filter_map_comm, Hobs, filter_app.
      rewrite (filter_all_true _ S HS), (filter_none _ E HE). apply app_nil_r. }
    assert (H2 : map pr (filter (fun e => negb (is_survivor e)) obs) = E).
    { change (fun e => negb (is_survivor e)) with (fun e => (fun x => negb (m_surv x)) (pr e)).
      rewrite <- (filter_map_comm pr (fun x => negb (m_surv x))), Hobs, filter_app.
      rewrite (filter_none _ S), (filter_all_true _ E); [reflexivity| |].
      - intros x Hx. now rewrite (HE x Hx).
      - intros x Hx. now rewrite (HS x Hx). }
    split; [assumption|]. split; [assumption|]. apply list_eqb_eid. now rewrite map_app, H1, H2.
  Qed.

  Lemma passes_all_of cs lvls a : passes cs lvls a -> passes_all cs lvls a = true.
  Proof.
    intros H. unfold passes_all. apply forallb_forall. intros t Ht. apply forallb_forall. intros c Hc.
    now rewrite (is_below_false_fails _ _ _ (H t c Ht Hc)).
  Qed.

  (** every eliminated entry reports the check it really failed, having passed the earlier ones *)
  Lemma C12_eliminated_ok cs levels distinct e :
    NoDup (map (fun c : wcrit => c_id (fst c)) cs) ->
    (forall t c, In t levels -> In c cs -> mhas (c_id (fst c)) t = true) ->
    (exists left, lelem cs levels 0 left (pr e)) ->
    eliminated_ok cs levels distinct e = true.
  Proof.
    intros ND Hcov (left & j & t & Hn & (p & c & _ & Hp & He & _ & Hb & Hcr) & Hlv).
    cbn [pr fst snd] in He, Hb, Hcr, Hlv. rewrite Z.add_0_l in He.
    pose proof (Hcov t c (nth_opt_in _ _ _ Hn) (nth_error_In _ _ Hp)) as Hm.
    assert (Hth : exists lth, mget (c_id (fst c)) t = Some lth).
    { unfold mhas in Hm. destruct (mget (c_id (fst c)) t) as [lth|]; [now exists lth|discriminate]. }
    destruct Hth as [lth Hth].
    assert (Hthr : thr t (fst c) = lth) by (unfold thr; now rewrite Hth). rewrite Hthr in He.
    unfold eliminated_ok, a_ths, a_idx. rewrite He. cbv beta iota. rewrite Nat2Z.id, Hn.
    match goal with |- context [find ?f cs] =>
      change (find f cs) with (find (fun c' : wcrit => String.eqb (c_id (fst c')) (c_id (fst c))) cs) end.
    rewrite (find_nth cs p c ND Hp), Hth. rewrite (position_nth cs 0 p c ND Hp). cbn [Nat.add].
    repeat (apply andb_true_iff; split).
    - apply Z.leb_le. lia.
    - apply same_refl.
    - now apply is_below_fails.
    - apply forallb_forall. intros t' Ht'. apply forallb_forall. intros c' Hc'.
      now rewrite (is_below_false_fails _ _ _ (Hlv t' c' Ht' Hc')).
    - apply orb_true_iff. right. apply forallb_forall. intros c' Hc'.
      now rewrite (is_below_false_fails _ _ _ (Hcr c' Hc')).
  Qed.

  (** reverse order of elimination *)
  Lemma C12_rev_order cs : forall el : list entry,
    StronglySorted (R cs) (rev (map pr el)) -> rev_order_ok cs el = true.
  Proof.
    induction el as [|x r IH]; intros S; [reflexivity|].
    cbn [map rev] in S. apply SS_app_inv in S as (S1 & _ & H).
    destruct r as [|y r']; [reflexivity|].
    destruct (H (pr y) (pr x)) as (ky & kx & Ky & Kx & Hle).
    { apply -> in_rev. now left. }
    { now left. }
    change (rev_order_ok cs (x :: y :: r')) with
      (match check_of cs x, check_of cs y with
       | Some cx, Some cy => check_leb cy cx && rev_order_ok cs (y :: r')
       | _, _ => false
       end).
    change (check_of cs x) with (mkey cs (pr x)). change (check_of cs y) with (mkey cs (pr y)).
    rewrite Kx, Ky, Hle. cbn [andb]. now apply IH.
  Qed.
End Checker.

(** ** Putting the clauses together *)
Section Main.
  Context {N : Num} {L : OrdLaws N}.

  Lemma nodup_cs (cw : list wcrit) crits :
    map fst cw = crits -> NoDup (map c_id crits) ->
    NoDup (map (fun c : wcrit => c_id (fst c)) (isort wc_gt cw)).
  Proof.
    intros Hfst ND. eapply Permutation_NoDup; [apply Permutation_map, Permutation_sym, isort_perm|].
    replace (map (fun c : wcrit => c_id (fst c)) cw) with (map c_id (map fst cw)) by apply map_map.
    now rewrite Hfst.
  Qed.

  (** stop as soon as one is left; several survivors only when the levels ran out *)
  Lemma C12_stop_at_one cs src lft elim n (sv el : list entry) s0 sr :
    run_spec cs src lft elim n ->
    sv = s0 :: sr ->
    map pr sv = map (fun a => (a, EAspect [] (Z.of_nat n))) lft ->
    map pr el = rev elim ->
    (forall e, In e el -> (a_idx e < Z.of_nat n)%Z) ->
    (if Nat.leb (List.length sv) 1
     then (match el with
           | [] => true
           | _ => Z.eqb (fold_left Z.max (map a_idx el) (-1)%Z + 1) (Z.of_nat n)
           end)
          && passes_all cs (firstn (n - 1) (lv_prefix n src)) (e_alt s0)
     else Nat.eqb (List.length (lv_prefix (S n) src)) n
          && forallb (fun s => passes_all cs (lv_prefix n src) (e_alt s)) sv) = true.
  Proof.
    intros RS Hsv0 Hsv Hel Hlt.
    assert (Hlen : List.length sv = List.length lft).
    { rewrite <- (map_length pr sv), Hsv. apply map_length. }
    assert (Hin : forall s, In s sv -> In (e_alt s) lft).
    { intros s Hs. apply (in_map pr) in Hs. rewrite Hsv in Hs. apply in_map_iff in Hs as (a & Ha & Hal).
      unfold pr in Ha. injection Ha as -> _. exact Hal. }
    destruct (rs_end _ _ _ _ _ RS) as [(Hle & Hmax & Hpass)|(Hge & Hend & Hpass)].
    - assert (El : Nat.leb (List.length sv) 1 = true) by (apply Nat.leb_le; lia). rewrite El.
      apply andb_true_iff. split.
      + destruct Hmax as [->|(x & Hx & Hxi)].
        * cbn [rev] in Hel. apply map_pr_nil in Hel. now subst el.
        * destruct el as [|e1 el']; [reflexivity|]. apply Z.eqb_eq.
          assert (Hub : (fold_left Z.max (map a_idx (e1 :: el')) (-1) <= Z.of_nat n - 1)%Z).
          { apply fold_max_ub; [lia|]. intros k Hk. apply in_map_iff in Hk as (e & <- & He).
            specialize (Hlt e He). lia. }
          assert (Hlb : (Z.of_nat n - 1 <= fold_left Z.max (map a_idx (e1 :: el')) (-1))%Z).
          { apply fold_max_lb. apply in_rev in Hx. rewrite <- Hel in Hx.
            apply in_map_iff in Hx as (e & He & Hin'). apply in_map_iff. exists e. split; [|assumption].
            change (a_idx e) with (m_idx (pr e)). now rewrite He. }
          lia.
      + apply passes_all_of. apply Hpass. apply Hin. rewrite Hsv0. now left.
    - assert (El : Nat.leb (List.length sv) 1 = false) by (apply Nat.leb_gt; lia). rewrite El.
      apply andb_true_iff. split; [rewrite Hend; apply Nat.eqb_refl|].
      apply forallb_forall. intros s Hs. apply passes_all_of. apply Hpass. now apply Hin.
  Qed.

  Lemma C12_of_run_spec st fn lp seed w rnd src cw obs lft elim n :
    st_params st = PAspect fn lp seed w rnd ->
    lv_init Increasing fn lp st = Ok src ->
    zip_with_weights (st_crits st) w = Ok cw ->
    NoDup (map c_id (st_crits st)) ->
    run_spec (isort wc_gt cw) src lft elim n ->
    map pr obs = map (fun a => (a, EAspect [] (Z.of_nat n))) lft ++ rev elim ->
    C12_ok st obs = true.
  Proof.
    intros Hp Hi Hz NDc RS Hobs.
    pose proof (zip_with_weights_fst _ _ _ Hz) as Hfst.
    unfold C12_ok. rewrite Hp, Hi, Hz. cbv zeta.
    set (cs := isort wc_gt cw) in *.
    assert (NDcs : NoDup (map (fun c : wcrit => c_id (fst c)) cs)).
    { eapply nodup_cs; eassumption. }
    assert (Hcov : forall t c, In t (lv_prefix n src) -> In c cs -> mhas (c_id (fst c)) t = true).
    { intros t c Ht Hc. eapply lv_init_levels_cover; [exact Hi|exact Ht|].
      rewrite <- Hfst. apply in_map. apply (isort_in wc_gt). exact Hc. }
    pose proof (rs_len _ _ _ _ _ RS) as Hlen. pose proof (rs_elim _ _ _ _ _ RS) as Helim.
    pose proof (rs_sorted _ _ _ _ _ RS) as Hsorted.
    rewrite Forall_forall in Helim.
    destruct (C12_survivors_first obs _ _ Hobs) as (Hsv & Hel & Heq).
    { intros x Hx. apply in_map_iff in Hx as (a & <- & _). reflexivity. }
    { intros x Hx. apply in_rev in Hx. destruct (Helim x Hx) as (left & j & t & _ & (p & c & _ & _ & He & _) & _).
      unfold m_surv, m_ths. now rewrite He. }
    remember (filter is_survivor obs) as sv eqn:Esv.
    remember (filter (fun e => negb (is_survivor e)) obs) as el eqn:Eel.
    destruct sv as [|s0 sr].
    { (* no survivor: nothing was considered *)
      destruct lft as [|a0 lr]; [|discriminate]. rewrite (rs_nonempty _ _ _ _ _ RS eq_refl) in Hobs.
      cbn [map rev app] in Hobs. apply map_pr_nil in Hobs. now subst obs. }
    assert (Hs0 : a_idx s0 = Z.of_nat n).
    { destruct lft as [|a0 lr]; [discriminate|]. cbn [map] in Hsv. unfold pr at 1 in Hsv.
      injection Hsv as _ Hev _. unfold a_idx. now rewrite Hev. }
    rewrite Hs0, Nat2Z.id.
    assert (Hlt : forall e, In e el -> (a_idx e < Z.of_nat n)%Z).
    { intros e He. apply (in_map pr) in He. rewrite Hel in He. apply in_rev in He.
      destruct (Helim _ He) as (left & Hle). destruct (lelem_key cs NDcs _ _ _ _ Hle) as (j & p & Hj & K).
      apply mkey_idx in K. change (a_idx e) with (m_idx (pr e)). rewrite K. lia. }
    rewrite !andb_true_iff. repeat match goal with |- _ /\ _ => split end.
    - apply Z.leb_le. lia.
    - exact Heq.
    - apply forallb_forall. intros s Hs. apply Z.eqb_eq. apply (in_map pr) in Hs. rewrite Hsv in Hs.
      apply in_map_iff in Hs as (a & Ha & _). unfold pr in Ha. injection Ha as _ Hev.
      unfold a_idx. now rewrite <- Hev.
    - apply forallb_forall. intros e He. apply Z.ltb_lt. now apply Hlt.
    - rewrite Hlen. apply Nat.eqb_refl.
    - apply forallb_forall. intros e He. apply C12_eliminated_ok; [assumption|assumption|].
      apply Helim. apply in_rev. rewrite <- Hel. now apply in_map.
    - apply orb_true_iff. right. apply C12_rev_order. rewrite Hel, rev_involutive. exact Hsorted.
    - eapply C12_stop_at_one; [exact RS|reflexivity|exact Hsv|exact Hel|exact Hlt].
  Qed.

  (** ** Structure of the ranking returned by the model: the survivors (with the index after the last
      level used) followed by the elimination records in reverse order of elimination *)
  Theorem aspect_evaluate_structure : forall e s r,
    NoDup (map a_id (st_cons s)) -> NoDup (map c_id (st_crits s)) ->
    aspect_evaluate e s = Ok r ->
    exists fn lp seed w rnd src cw lft elim n,
      st_params s = PAspect fn lp seed w rnd /\
      lv_init Increasing fn lp s = Ok src /\
      zip_with_weights (st_crits s) w = Ok cw /\
      run_spec (isort wc_gt cw) src lft elim n /\
      map pr r = map (fun a => (a, EAspect [] (Z.of_nat n))) lft ++ rev elim.
  Proof.
    intros e s r NDa NDc H. unfold aspect_evaluate in H.
    destruct (st_params s) as [| | | | |fn lp seed w rnd|] eqn:Hp; try discriminate.
    destruct (lv_init Increasing fn lp s) as [src|] eqn:Hi; cbn [bind] in H; [|discriminate].
    destruct (order_alternatives rnd (st_cons s) (new_rng e seed)) as [[alts g']|] eqn:Ho;
      cbn [bind fst] in H; [|discriminate].
    destruct (zip_with_weights (st_crits s) w) as [cw|] eqn:Hz; cbn [bind] in H; [|discriminate].
    match type of H with bind ?x _ = _ => destruct x as [[[lft elim] idx]|] eqn:Hr end;
      cbn [bind] in H; [|discriminate].
    injection H as <-.
    pose proof (zip_with_weights_fst _ _ _ Hz) as Hfst.
    assert (NDcs : NoDup (map (fun c : wcrit => c_id (fst c)) (isort wc_gt cw))).
    { eapply nodup_cs; eassumption. }
    assert (NDalts : NoDup (aids alts)).
    { eapply Permutation_NoDup; [apply Permutation_map, Permutation_sym|exact NDa].
      eapply order_alternatives_perm. exact Ho. }
    destruct (levels_run_spec _ _ _ _ _ _ NDcs NDalts Hr) as (n & Hn & RS).
    exists fn, lp, seed, w, rnd, src, cw, lft, elim, n.
    repeat match goal with |- _ /\ _ => split end; try assumption; try reflexivity.
    rewrite sequential_ranking_pr, Hn. reflexivity.
  Qed.

  (** ** Main theorem.  [Hcrits] (pairwise distinct criterion ids) is not in the requested statement but
      is necessary: see [Cex.cex_duplicate_criteria] below. *)
  Theorem aspect_passes_checker : forall e s r,
    NoDup (map a_id (st_cons s)) ->
    forall Hcrits : NoDup (map c_id (st_crits s)),
    aspect_evaluate e s = Ok r -> C12_ok s r = true.
  Proof.
    intros e s r NDa NDc H.
    destruct (aspect_evaluate_structure e s r NDa NDc H)
      as (fn & lp & seed & w & rnd & src & cw & lft & elim & n & Hp & Hi & Hz & RS & Hobs).
    eapply C12_of_run_spec; eassumption.
  Qed.
End Main.

(** ** The instance on exact rationals, and the counterexample for duplicated criterion ids *)
From Coq Require QArith Qcanon.
From RDM Require Import Base.NumQc.

Corollary aspect_passes_checker_Qc : forall (e : @env NumQc) (s : @state NumQc) r,
  NoDup (map a_id (st_cons s)) -> NoDup (map c_id (st_crits s)) ->
  aspect_evaluate e s = Ok r -> C12_ok s r = true.
Proof. intros e s r. apply (@aspect_passes_checker NumQc OrdQc). Qed.

Module Cex.
  Import QArith Qcanon.
  Local Open Scope string_scope.
  Local Open Scope list_scope.

  Definition q (z : Z) : Qc := Q2Qc (inject_Z z).
  (* two criteria with the same id "x": the first a gain, the second a cost *)
  Definition c1 : @crit NumQc := {| c_id := "x"; c_type := TGain; c_range := None |}.
  Definition c2 : @crit NumQc := {| c_id := "x"; c_type := TCost; c_range := None |}.
  Definition mkalt (id : string) (v : Z) : @alt NumQc := {| a_id := id; a_vals := [("x", q v)] |}.
  Definition cex_lp : @lparams NumQc :=
    {| lp_coef := q 0; lp_max := q 0; lp_min := q 0; lp_ths := [[("x", q 5)]] |}.
  Definition cex_state : @state NumQc :=
    {| st_notcons := []; st_cons := [mkalt "a" 7; mkalt "b" 3; mkalt "c" 7]; st_crits := [c1; c2];
       st_params := PAspect "thresholds" cex_lp 0%Z [("x", q 1)] false |}.
  Definition cex_env : @env NumQc := {| env_streams := []; env_exp := [] |}.
  Definition cex_result : list (@entry NumQc) :=
    match aspect_evaluate cex_env cex_state with Ok r => r | Err _ => [] end.

  (** One level x >= 5.  Walk of c1 (gain): "b" (3 < 5) is eliminated.  Walk of c2 (cost): "a" (-7 < -5) is
      eliminated and "c" is left alone, stop.  The ranking is c (index 1), a (x/5, level 0), b (x/5, level 0).
      The checker looks the criterion of a record up by id, finds c1, and "a" does not fail c1: rejected. *)
  Example cex_duplicate_criteria :
    NoDup (map a_id (st_cons cex_state)) /\
    aspect_evaluate cex_env cex_state = Ok cex_result /\
    map (fun e => (a_id (e_alt e), a_idx e, map fst (a_ths e))) cex_result
      = [("c", 1%Z, []); ("a", 0%Z, ["x"]); ("b", 0%Z, ["x"])] /\
    C12_ok cex_state cex_result = false.
  Proof.
    split.
    - cbn. repeat constructor; cbn [In]; intuition discriminate.
    - split; [vm_compute; reflexivity|]. split; vm_compute; reflexivity.
  Qed.
End Cex.

Print Assumptions lv_init_levels_cover.
Print Assumptions walk_spec.
Print Assumptions crit_spec.
Print Assumptions levels_spec.
Print Assumptions levels_run_spec.
Print Assumptions C12_survivors_first.
Print Assumptions C12_eliminated_ok.
Print Assumptions C12_rev_order.
Print Assumptions C12_stop_at_one.
Print Assumptions C12_of_run_spec.
Print Assumptions aspect_evaluate_structure.
Print Assumptions aspect_passes_checker.
Print Assumptions aspect_passes_checker_Qc.
Print Assumptions Cex.cex_duplicate_criteria.
