(** * C15, second half: after a criteria omission the working state is the state [prepare] builds
    for the request with the omitted criteria deleted ("reduced request"), and so is the decision.
    Everything is generic in the carrier [{N : Num}] unless stated otherwise. *)
From Coq Require Import ZArith QArith Qcanon Bool List String Ascii Lia Permutation Sorted.
From RDM Require Import Base.Num Base.NumQc Base.Util Model.Data Model.Rank Model.Utility Model.Levels Model.Heuristics
     Model.Electre Model.Listeners Model.Biases Model.Anchoring Model.Pipeline Check.Stage
     Proofs.SortFacts Proofs.RankFacts Proofs.LevelFacts Proofs.WfFacts Proofs.AggregateFacts Proofs.OmissionFacts.
Import ListNotations.
Local Open Scope string_scope.
Local Open Scope list_scope.

(** ** 0. Generic facts on results *)
Lemma rd_mapM_ext_in {A B} (f g : A -> res B) l :
  (forall x, In x l -> f x = g x) -> mapM f l = mapM g l.
Proof.
  induction l as [|a r IH]; intros H; [reflexivity|].
  cbn [mapM]. rewrite (H a) by now left. rewrite IH; [reflexivity|].
  intros x Hx. apply H. now right.
Qed.

Lemma rd_mapM_ok_in {A B} (f : A -> res B) l ys x :
  mapM f l = Ok ys -> In x l -> exists y, f x = Ok y.
Proof.
  revert ys. induction l as [|a r IH]; intros ys H Hin; [destruct Hin|].
  cbn [mapM] in H. apply bind_ok in H as (y & Hy & H). apply bind_ok in H as (ys' & Hys & H).
  destruct Hin as [<-|Hin]; [eauto|]. exact (IH _ Hys Hin).
Qed.

Lemma rd_mapM_all_ok {A B} (f : A -> res B) l :
  (forall x, In x l -> exists y, f x = Ok y) -> exists ys, mapM f l = Ok ys.
Proof.
  induction l as [|a r IH]; intros H; [exists []; reflexivity|].
  destruct (H a (or_introl eq_refl)) as (y & Hy).
  destruct IH as (ys & Hys); [intros x Hx; apply H; now right|].
  exists (y :: ys). cbn [mapM]. rewrite Hy, Hys. reflexivity.
Qed.

Lemma rd_mapM_map {A B} (f : A -> res B) (g : A -> B) l :
  (forall x, In x l -> f x = Ok (g x)) -> mapM f l = Ok (map g l).
Proof.
  induction l as [|a r IH]; intros H; [reflexivity|].
  cbn [mapM map]. rewrite (H a) by now left. rewrite IH by (intros x Hx; apply H; now right). reflexivity.
Qed.

Lemma rd_mapM_is_map {A B} (f : A -> res B) (g : A -> B) :
  (forall x y, f x = Ok y -> y = g x) -> forall l l', mapM f l = Ok l' -> l' = map g l.
Proof.
  intros Hfg. induction l as [|a r IH]; intros l' H; cbn [mapM] in H.
  - injection H as <-. reflexivity.
  - apply bind_ok in H as (y & Hy & H). apply bind_ok in H as (ys & Hys & H). injection H as <-.
    cbn [map]. f_equal; [now apply Hfg|now apply IH].
Qed.

Lemma rd_filter_map {A B} (f : A -> B) (p : B -> bool) (l : list A) :
  filter p (map f l) = map f (filter (fun x => p (f x)) l).
Proof.
  induction l as [|a r IH]; [reflexivity|]. cbn [map filter].
  destruct (p (f a)); cbn [map]; now rewrite IH.
Qed.

Lemma rd_fold_left_ext_in {A B} (f g : A -> B -> A) : forall (l : list B) (a : A),
  (forall x b, In b l -> f x b = g x b) -> fold_left f l a = fold_left g l a.
Proof.
  induction l as [|b r IH]; intros a H; [reflexivity|].
  cbn [fold_left]. rewrite (H a b) by now left. apply IH. intros x b' Hb. apply H. now right.
Qed.

(** ** 1. Restriction of a canonical map to the ids of a list of criteria, built exactly as the
       listeners build it: one [mset] per kept criterion, in the order of the list *)
Section Restrict.
  Context {N : Num}.

  Section RM.
    Context {A : Type}.
    Definition rm_step (w : smap A) (m : smap A) (c : crit) : smap A :=
      match mget (c_id c) w with Some v => mset (c_id c) v m | None => m end.
    Definition restrict_map (kept : list crit) (w : smap A) : smap A := fold_left (rm_step w) kept [].

    Lemma rm_fold_get (w : smap A) k : forall kept acc,
      mget k (fold_left (rm_step w) kept acc) =
      if mem_str k (map c_id kept)
      then match mget k w with Some v => Some v | None => mget k acc end
      else mget k acc.
    Proof.
      induction kept as [|c r IH]; intros acc; cbn [fold_left map mem_str]; [reflexivity|].
      rewrite IH. unfold rm_step.
      destruct (String.eqb k (c_id c)) eqn:E; cbn [orb].
      - apply String.eqb_eq in E. subst k.
        destruct (mget (c_id c) w) as [v|] eqn:G.
        + rewrite mget_mset_same. now destruct (mem_str (c_id c) (map c_id r)).
        + now destruct (mem_str (c_id c) (map c_id r)).
      - apply String.eqb_neq in E.
        destruct (mget (c_id c) w) as [v|] eqn:G; [|reflexivity].
        now rewrite mget_mset_other by exact E.
    Qed.

    Theorem restrict_map_get kept (w : smap A) k :
      mget k (restrict_map kept w) = if mem_str k (map c_id kept) then mget k w else None.
    Proof.
      unfold restrict_map. rewrite rm_fold_get. cbn [mget].
      destruct (mem_str k (map c_id kept)); [|reflexivity]. now destruct (mget k w).
    Qed.

    Lemma restrict_map_get_in kept (w : smap A) c :
      In c kept -> mget (c_id c) (restrict_map kept w) = mget (c_id c) w.
    Proof.
      intros I. rewrite restrict_map_get.
      replace (mem_str (c_id c) (map c_id kept)) with true; [reflexivity|].
      symmetry. apply mem_str_In. now apply in_map.
    Qed.

    (** only kept ids are mentioned *)
    Theorem restrict_map_keys kept (w : smap A) k :
      In k (mkeys (restrict_map kept w)) <-> In k (map c_id kept) /\ In k (mkeys w).
    Proof.
      rewrite !mkeys_in_iff. rewrite restrict_map_get.
      destruct (mem_str k (map c_id kept)) eqn:E.
      - apply mem_str_In in E. tauto.
      - apply mem_str_false in E. split; [intros [v H]; discriminate|tauto].
    Qed.

    Lemma restrict_map_nil kept : restrict_map kept ([] : smap A) = [].
    Proof.
      unfold restrict_map. generalize ([] : smap A) at 2 3 as acc.
      induction kept as [|c r IH]; intros acc; cbn [fold_left]; [reflexivity|]. apply IH.
    Qed.

    Lemma restrict_map_idem kept (w : smap A) : restrict_map kept (restrict_map kept w) = restrict_map kept w.
    Proof.
      unfold restrict_map at 1 3. apply rd_fold_left_ext_in. intros m c I. unfold rm_step.
      now rewrite restrict_map_get_in.
    Qed.

    (** the listeners' fold ([preserve_only], ELECTRE, [with_criteria_only]) *)
    Definition keep_step (w : smap A) (m : smap A) (c : crit) : res (smap A) :=
      do v <- of_option (mget (c_id c) w) EMissing; Ok (mset (c_id c) v m).

    Lemma keep_fold_ok (w : smap A) : forall left acc m,
      fold_left (fun acc c => do m <- acc; keep_step w m c) left (Ok acc) = Ok m ->
      m = fold_left (rm_step w) left acc.
    Proof.
      induction left as [|c r IH]; intros acc m H; cbn [fold_left bind] in H |- *.
      - now injection H as <-.
      - unfold keep_step at 2 in H. unfold rm_step at 2.
        destruct (mget (c_id c) w) as [v|]; cbn [of_option bind] in H.
        + now apply IH.
        + rewrite fold_res_err in H. discriminate.
    Qed.

    Lemma keep_fold_complete (w : smap A) : forall left acc,
      (forall c, In c left -> mhas (c_id c) w = true) ->
      fold_left (fun acc c => do m <- acc; keep_step w m c) left (Ok acc) = Ok (fold_left (rm_step w) left acc).
    Proof.
      induction left as [|c r IH]; intros acc H; cbn [fold_left bind]; [reflexivity|].
      unfold keep_step at 2. unfold rm_step at 2.
      assert (Hc := H c (or_introl eq_refl)). unfold mhas in Hc.
      destruct (mget (c_id c) w) as [v|]; [|discriminate]. cbn [of_option bind].
      apply IH. intros c' I. apply H. now right.
    Qed.
  End RM.

  Lemma preserve_only_restrict (w : smap num) left m : preserve_only w left = Ok m -> m = restrict_map left w.
  Proof. unfold preserve_only. intros H. now apply (keep_fold_ok w) in H. Qed.

  (** ** 2. The reduced request *)
  Definition restrict_vals (kept : list crit) (a : alt) : alt :=
    {| a_id := a_id a; a_vals := restrict_map kept (a_vals a) |}.

  Lemma with_criteria_only_restrict a kept a' : with_criteria_only a kept = Ok a' -> a' = restrict_vals kept a.
  Proof.
    unfold with_criteria_only, raw_value. intros H. apply bind_ok in H as (vals & Hv & H). injection H as <-.
    unfold restrict_vals. f_equal. now apply (keep_fold_ok (a_vals a)) in Hv.
  Qed.

  Lemma with_criteria_only_complete a kept :
    (forall c, In c kept -> mhas (c_id c) (a_vals a) = true) -> with_criteria_only a kept = Ok (restrict_vals kept a).
  Proof.
    intros H. unfold with_criteria_only, raw_value.
    change (fold_left _ kept (Ok [])) with
      (fold_left (fun acc c => do m <- acc; keep_step (a_vals a) m c) kept (Ok ([] : smap num))).
    rewrite (keep_fold_complete (a_vals a) kept [] H). reflexivity.
  Qed.

  (* a Choquet capacity key survives iff it names a set (no repetition) of kept criteria *)
  Definition choquet_key_kept (kept : list crit) (k : string) : bool :=
    nodup_str (contained_criteria k) && forallb (fun p => mem_str p (map c_id kept)) (contained_criteria k).
  Definition restrict_weights (m : string) (kept : list crit) (w : smap num) : smap num :=
    if String.eqb m m_choquet then filter (fun kv => choquet_key_kept kept (fst kv)) w else restrict_map kept w.
  Definition restrict_lparams (kept : list crit) (lp : lparams) : lparams :=
    {| lp_coef := lp_coef lp; lp_max := lp_max lp; lp_min := lp_min lp; lp_ths := map (restrict_map kept) (lp_ths lp) |}.
  Definition restrict_raw (m : string) (kept : list crit) (rp : rawparams) : rawparams :=
    {| rp_weights := option_map (restrict_weights m kept) (rp_weights rp);
       rp_electre := option_map (restrict_map kept) (rp_electre rp);
       rp_dist := rp_dist rp; rp_current := rp_current rp; rp_seed := rp_seed rp;
       rp_random_order := rp_random_order rp; rp_draw := rp_draw rp; rp_function := rp_function rp;
       rp_lparams := restrict_lparams kept (rp_lparams rp) |}.

  (* the biases that follow the first enabled one *)
  Fixpoint after_first_enabled (bs : list biasreq) : list biasreq :=
    match bs with [] => [] | b :: r => if b_disabled b then after_first_enabled r else r end.

  Definition reduce (req : request) (kept : list crit) : request :=
    {| r_method := r_method req; r_biases := after_first_enabled (r_biases req); r_seed := r_seed req;
       r_known := map (restrict_vals kept) (r_known req); r_chose := r_chose req; r_crits := kept;
       r_mp := restrict_raw (r_method req) kept (r_mp req) |}.

  Lemma enabled_after bs : filter (fun b => negb (b_disabled b)) (after_first_enabled bs)
                           = tl (filter (fun b => negb (b_disabled b)) bs).
  Proof.
    induction bs as [|b r IH]; [reflexivity|]. cbn [after_first_enabled filter].
    destruct (b_disabled b); cbn [negb tl]; [exact IH|reflexivity].
  Qed.

  Lemma enabled_reduce req kept : enabled_biases (reduce req kept) = tl (enabled_biases req).
  Proof. unfold enabled_biases, reduce. cbn [r_biases]. apply enabled_after. Qed.

  (** ** 3. [prepare] on the reduced request, up to the parameters *)
  Definition range_okb (c : crit) : bool :=
    match c_range c with Some (mn, mx) => negb (nleb mx mn) | None => true end.

  Lemma validate_criteria_cons c r seen :
    validate_criteria (c :: r) seen =
    if mem_str (c_id c) seen then Err EInvalid
    else if range_okb c then validate_criteria r (c_id c :: seen) else Err EInvalid.
  Proof.
    cbn [validate_criteria]. unfold range_okb. destruct (mem_str (c_id c) seen); [reflexivity|].
    destruct (c_range c) as [[mn mx]|]; [|reflexivity]. now destruct (nleb mx mn).
  Qed.

  Lemma validate_criteria_iff : forall cs seen,
    validate_criteria cs seen = Ok tt <->
    NoDup (map c_id cs) /\ (forall c, In c cs -> ~ In (c_id c) seen) /\ (forall c, In c cs -> range_okb c = true).
  Proof.
    induction cs as [|c r IH]; intros seen.
    - cbn [validate_criteria map]. split; [intros _|reflexivity]. split; [constructor|]. split; intros c [].
    - rewrite validate_criteria_cons. cbn [map].
      destruct (mem_str (c_id c) seen) eqn:M.
      { apply mem_str_In in M. split; [discriminate|]. intros (_ & Hs & _). exfalso.
        apply (Hs c); [now left|exact M]. }
      apply mem_str_false in M.
      destruct (range_okb c) eqn:R.
      2:{ split; [discriminate|]. intros (_ & _ & Hr). rewrite (Hr c) in R; [discriminate|now left]. }
      rewrite IH. split.
      + intros (ND & Hs & Hr). split; [|split].
        * constructor; [|exact ND]. intros I. apply in_map_iff in I as (c' & E & I').
          apply (Hs c' I'). left. now symmetry.
        * intros c0 [<-|I0]; [exact M|]. intros B. apply (Hs c0 I0). now right.
        * intros c0 [<-|I0]; [exact R|now apply Hr].
      + intros (ND & Hs & Hr). inversion ND as [|? ? Hn ND']; subst. split; [exact ND'|]. split.
        * intros c' I' [B|B]; [|apply (Hs c'); [now right|exact B]]. apply Hn. rewrite B. now apply in_map.
        * intros c' I'. apply Hr. now right.
  Qed.

  Lemma validate_criteria_unit cs seen u : validate_criteria cs seen = Ok u -> validate_criteria cs seen = Ok tt.
  Proof. now destruct u. Qed.

  Lemma validate_criteria_sub cs kept :
    validate_criteria cs [] = Ok tt -> NoDup (map c_id kept) -> incl kept cs -> validate_criteria kept [] = Ok tt.
  Proof.
    rewrite !validate_criteria_iff. intros (_ & _ & Hr) ND Hin. split; [exact ND|]. split.
    - intros c _ [].
    - intros c I. apply Hr. now apply Hin.
  Qed.

  Lemma validate_alternatives_iff known cs :
    validate_alternatives known cs = Ok tt <->
    forall a, In a known -> forall c, In c cs -> mhas (c_id c) (a_vals a) = true.
  Proof.
    unfold validate_alternatives.
    destruct (forallb (fun a => forallb (fun c => mhas (c_id c) (a_vals a)) cs) known) eqn:E.
    - split; [intros _|reflexivity]. rewrite forallb_forall in E. intros a Ia c Ic.
      specialize (E a Ia). rewrite forallb_forall in E. now apply E.
    - split; [discriminate|]. intros H. exfalso.
      assert (T : forallb (fun a => forallb (fun c => mhas (c_id c) (a_vals a)) cs) known = true).
      { apply forallb_forall. intros a Ia. apply forallb_forall. intros c Ic. now apply H. }
      congruence.
  Qed.

  Lemma mhas_restrict kept (m : smap num) c : In c kept -> mhas (c_id c) (restrict_map kept m) = mhas (c_id c) m.
  Proof. intros I. unfold mhas. now rewrite restrict_map_get_in. Qed.

  Lemma validate_alternatives_reduce known cs kept :
    validate_alternatives known cs = Ok tt -> incl kept cs ->
    validate_alternatives (map (restrict_vals kept) known) kept = Ok tt.
  Proof.
    rewrite !validate_alternatives_iff. intros H Hin a' Ia c Ic.
    apply in_map_iff in Ia as (a & <- & Ia). cbn [restrict_vals a_vals].
    rewrite mhas_restrict by exact Ic. apply (H a Ia). now apply Hin.
  Qed.

  Lemma fetch_alt_map (f : alt -> alt) : (forall a, a_id (f a) = a_id a) -> forall l id,
    fetch_alt (map f l) id = match fetch_alt l id with Ok a => Ok (f a) | Err e => Err e end.
  Proof.
    intros Hf. induction l as [|a r IH]; intros id; cbn [map fetch_alt]; [reflexivity|].
    rewrite Hf. destruct (String.eqb (a_id a) id); [reflexivity|apply IH].
  Qed.

  Lemma considered_map (f : alt -> alt) : (forall a, a_id (f a) = a_id a) -> forall l ids consd,
    mapM (fetch_alt l) ids = Ok consd -> mapM (fetch_alt (map f l)) ids = Ok (map f consd).
  Proof.
    intros Hf l. induction ids as [|id r IH]; intros consd H; cbn [mapM] in H |- *.
    - injection H as <-. reflexivity.
    - apply bind_ok in H as (a & Ha & H). apply bind_ok in H as (ys & Hys & H). injection H as <-.
      rewrite (fetch_alt_map f Hf), Ha. cbn [bind]. rewrite (IH _ Hys). reflexivity.
  Qed.

  Lemma considered_reduce req kept consd :
    considered req = Ok consd -> considered (reduce req kept) = Ok (map (restrict_vals kept) consd).
  Proof. unfold considered, reduce. cbn [r_known r_chose]. apply considered_map. reflexivity. Qed.

  Lemma not_considered_reduce req kept :
    not_considered (reduce req kept) = map (restrict_vals kept) (not_considered req).
  Proof. unfold not_considered, reduce. cbn [r_known r_chose]. now rewrite rd_filter_map. Qed.

  Lemma woc_mapM kept l l' :
    mapM (fun a => with_criteria_only a kept) l = Ok l' -> l' = map (restrict_vals kept) l.
  Proof. apply rd_mapM_is_map. intros a a'. apply with_criteria_only_restrict. Qed.

  Lemma prepare_parts req st :
    prepare req = Ok st ->
    is_blank (r_method req) = false /\ validate_criteria (r_crits req) [] = Ok tt
    /\ validate_alternatives (r_known req) (r_crits req) = Ok tt
    /\ mem_str (r_method req) method_names = true
    /\ considered req = Ok (st_cons st) /\ parse_params req = Ok (st_params st)
    /\ st_notcons st = not_considered req /\ st_crits st = r_crits req.
  Proof.
    unfold prepare. intros H.
    destruct (is_blank (r_method req)); [discriminate|].
    destruct (validate_criteria (r_crits req) []) as [[]|]; cbn [bind] in H; [|discriminate].
    destruct (validate_alternatives (r_known req) (r_crits req)) as [[]|]; cbn [bind] in H; [|discriminate].
    destruct (mem_str (r_method req) method_names); cbn [negb] in H; [|discriminate].
    destruct (considered req) as [consd|]; cbn [bind] in H; [|discriminate].
    destruct (parse_params req) as [p|]; cbn [bind] in H; [|discriminate].
    injection H as <-. cbn [st_cons st_params st_notcons st_crits]. repeat split; reflexivity.
  Qed.

  (** the state of the reduced request, up to its parameters *)
  Theorem prepare_reduce_common req st0 kept :
    prepare req = Ok st0 -> NoDup (map c_id kept) -> incl kept (r_crits req) ->
    prepare (reduce req kept) =
    (do p <- parse_params (reduce req kept);
     Ok {| st_notcons := map (restrict_vals kept) (st_notcons st0);
           st_cons := map (restrict_vals kept) (st_cons st0);
           st_crits := kept; st_params := p |}).
  Proof.
    intros H ND Hin. apply prepare_parts in H as (B & VC & VA & M & C & _ & NC & _).
    unfold prepare. change (r_method (reduce req kept)) with (r_method req).
    change (r_crits (reduce req kept)) with kept.
    change (r_known (reduce req kept)) with (map (restrict_vals kept) (r_known req)).
    rewrite B, (validate_criteria_sub _ _ VC ND Hin), (validate_alternatives_reduce _ _ _ VA Hin), M.
    cbn [bind negb]. rewrite (considered_reduce _ _ _ C). cbn [bind].
    rewrite not_considered_reduce, NC. reflexivity.
  Qed.

  (** what one application of the omission bias does *)
  Lemma apply_omission_inv e cur p st1 rep :
    apply_omission e cur p = Ok (st1, rep) ->
    exists lft, rep = ROmission lft /\ Permutation (lft ++ st_crits st1) (st_crits cur)
      /\ on_criteria_removed (st_crits st1) (st_params cur) = Ok (st_params st1)
      /\ st_cons st1 = map (restrict_vals (st_crits st1)) (st_cons cur)
      /\ st_notcons st1 = map (restrict_vals (st_crits st1)) (st_notcons cur).
  Proof.
    intros H. unfold apply_omission in H.
    destruct (negb (is_probability (bp_ratio p)) || (bp_max p <? bp_min p)%Z); [discriminate|].
    apply bind_ok in H as (sorted & Hord & H). apply bind_ok in H as ([lft rgt] & Hsplit & H).
    apply bind_ok in H as (params & Hpar & H). apply bind_ok in H as (consd & Hc & H).
    apply bind_ok in H as (nconsd & Hn & H). injection H as <- <-.
    cbn [st_crits st_params st_cons st_notcons]. exists lft. split; [reflexivity|].
    split.
    { apply split_criteria_spec in Hsplit. cbv zeta in Hsplit. destruct Hsplit as (_ & _ & -> & _).
      exact (order_criteria_perm _ _ _ _ Hord). }
    split; [exact Hpar|]. split; [now apply woc_mapM|now apply woc_mapM].
  Qed.

  Lemma kept_facts (lft kept cs : list crit) :
    Permutation (lft ++ kept) cs -> NoDup (map c_id cs) -> NoDup (map c_id kept) /\ incl kept cs.
  Proof.
    intros P ND. split.
    - apply (NoDup_app_r (map c_id lft)). rewrite <- map_app.
      apply (Permutation_NoDup (l := map c_id cs)); [|exact ND]. apply Permutation_map. now symmetry.
    - intros c I. apply (Permutation_in _ P). apply in_or_app. now right.
  Qed.

  (** master statement: the omission state is the state of the reduced request as soon as the
      parameters agree *)
  Theorem omission_state_reduced_params e req st0 p st1 rep P :
    prepare req = Ok st0 -> apply_omission e st0 p = Ok (st1, rep) ->
    parse_params (reduce req (st_crits st1)) = Ok P ->
    prepare (reduce req (st_crits st1)) =
    Ok {| st_notcons := st_notcons st1; st_cons := st_cons st1; st_crits := st_crits st1; st_params := P |}.
  Proof.
    intros Hp Ho HP. pose proof (prepare_parts _ _ Hp) as (_ & VC & _ & _ & _ & _ & _ & Hcr).
    apply apply_omission_inv in Ho as (lft & _ & Perm & _ & Hc & Hn).
    apply validate_criteria_iff in VC as (ND & _ & _).
    rewrite Hcr in Perm. destruct (kept_facts _ _ _ Perm ND) as (NDk & Hin).
    rewrite (prepare_reduce_common _ _ _ Hp NDk Hin), HP. cbn [bind]. now rewrite Hc, Hn.
  Qed.
End Restrict.

(** ** 4. The parameters of the reduced request, method by method *)
Section Methods.
  Context {N : Num}.

  Lemma of_option_ok {A} (o : option A) e v : of_option o e = Ok v -> o = Some v.
  Proof. destruct o; cbn [of_option]; congruence. Qed.

  Lemma parse_ws req : r_method req = m_ws -> parse_params req = ws_parse (r_crits req) (r_mp req).
  Proof. unfold parse_params. intros ->. reflexivity. Qed.
  Lemma parse_owa req : r_method req = m_owa -> parse_params req = owa_parse (r_crits req) (r_mp req).
  Proof. unfold parse_params. intros ->. reflexivity. Qed.
  Lemma parse_choquet req : r_method req = m_choquet -> parse_params req = choquet_parse (r_crits req) (r_mp req).
  Proof. unfold parse_params. intros ->. reflexivity. Qed.
  Lemma parse_electre req : r_method req = m_electre -> parse_params req = electre_parse (r_crits req) (r_mp req).
  Proof. unfold parse_params. intros ->. reflexivity. Qed.
  Lemma parse_majority req : r_method req = m_majority -> parse_params req = majority_parse (r_mp req).
  Proof. unfold parse_params. intros ->. reflexivity. Qed.
  Lemma parse_aspect req : r_method req = m_aspect -> parse_params req = aspect_parse (r_mp req).
  Proof. unfold parse_params. intros ->. reflexivity. Qed.
  Lemma parse_satisfaction req : r_method req = m_satisfaction -> parse_params req = satisfaction_parse (r_mp req).
  Proof. unfold parse_params. intros ->. reflexivity. Qed.

  Lemma restrict_weights_plain m kept w : String.eqb m m_choquet = false -> restrict_weights m kept w = restrict_map kept w.
  Proof. unfold restrict_weights. now intros ->. Qed.

  (** *** weighted sum and OWA: the pairs (criterion, weight) of the kept criteria *)
  Lemma zip_in cs (w : smap num) wc c : zip_with_weights cs w = Ok wc -> In c cs ->
    exists v, mget (c_id c) w = Some v /\ In (c, v) wc.
  Proof.
    unfold zip_with_weights. revert wc. induction cs as [|x r IH]; intros wc H I; [destruct I|].
    cbn [mapM] in H. apply bind_ok in H as (y & Hy & H). apply bind_ok in H as (ys & Hys & H). injection H as <-.
    apply bind_ok in Hy as (v & Hv & Hy). injection Hy as <-. apply of_option_ok in Hv.
    destruct I as [<-|I].
    - exists v. split; [exact Hv|now left].
    - destruct (IH _ Hys I) as (v' & A1 & A2). exists v'. split; [exact A1|now right].
  Qed.

  Definition wid' (x : wcrit) : string := c_id (fst x).

  Lemma find_wc_in (l : list wcrit) x : NoDup (map wid' l) -> In x l -> find_wc (wid' x) l = Ok x.
  Proof.
    induction l as [|y r IH]; intros ND I; [destruct I|].
    cbn [map] in ND. inversion ND as [|? ? Ny Nr]; subst. cbn [find_wc].
    destruct I as [->|I].
    - unfold wid'. now rewrite String.eqb_refl.
    - destruct (String.eqb (c_id (fst y)) (wid' x)) eqn:E; [|now apply IH].
      apply String.eqb_eq in E. exfalso. apply Ny. change (c_id (fst y)) with (wid' y) in E. rewrite E.
      now apply in_map.
  Qed.

  Lemma zip_ids cs (w : smap num) wc : zip_with_weights cs w = Ok wc -> map wid' wc = map c_id cs.
  Proof. intros H. apply zip_with_weights_fst in H. rewrite <- H, map_map. reflexivity. Qed.

  Lemma find_wc_kept cs (w : smap num) wc WC kept :
    zip_with_weights cs w = Ok wc -> NoDup (map c_id cs) -> Permutation WC wc -> incl kept cs ->
    mapM (fun c => find_wc (c_id c) WC) kept = zip_with_weights kept (restrict_map kept w).
  Proof.
    intros Hz ND P Hin. unfold zip_with_weights at 1. apply rd_mapM_ext_in. intros c I.
    rewrite restrict_map_get_in by exact I.
    destruct (zip_in _ _ _ c Hz (Hin c I)) as (v & Hv & Iv). rewrite Hv. cbn [of_option bind].
    change (c_id c) with (wid' (c, v)). apply find_wc_in.
    - apply (Permutation_NoDup (l := map wid' wc)); [apply Permutation_map; now symmetry|].
      rewrite (zip_ids _ _ _ Hz). exact ND.
    - apply (Permutation_in _ (Permutation_sym P)). exact Iv.
  Qed.

  Definition parse_reduced_ok (req : request) : Prop :=
    forall kept P0 P1, NoDup (map c_id (r_crits req)) -> NoDup (map c_id kept) -> incl kept (r_crits req) ->
      parse_params req = Ok P0 -> on_criteria_removed kept P0 = Ok P1 ->
      parse_params (reduce req kept) = Ok P1.

  Lemma parse_reduce_ws req : r_method req = m_ws -> parse_reduced_ok req.
  Proof.
    intros Hm kept P0 P1 ND _ Hin H0 H1. rewrite parse_ws in H0 by exact Hm.
    rewrite (parse_ws (reduce req kept)) by exact Hm.
    unfold ws_parse, extract_weights in *. cbn [reduce r_crits r_mp restrict_raw rp_weights].
    destruct (rp_weights (r_mp req)) as [w|]; cbn [of_option bind option_map] in *; [|discriminate].
    apply bind_ok in H0 as (wc & Hz & H0). injection H0 as <-.
    cbn [on_criteria_removed] in H1. apply bind_ok in H1 as (r & Hr & H1). injection H1 as <-.
    rewrite restrict_weights_plain by (rewrite Hm; reflexivity).
    rewrite <- (find_wc_kept _ _ _ wc _ Hz ND (Permutation_refl _) Hin), Hr. reflexivity.
  Qed.

  (** *** majority: the weights map *)
  Definition weights_or_empty (o : option (smap num)) : smap num := match o with Some w => w | None => [] end.

  Lemma weights_or_empty_restrict m kept o : String.eqb m m_choquet = false ->
    weights_or_empty (option_map (restrict_weights m kept) o) = restrict_map kept (weights_or_empty o).
  Proof.
    intros Hm. destruct o as [w|]; cbn [option_map weights_or_empty].
    - now apply restrict_weights_plain.
    - now rewrite restrict_map_nil.
  Qed.

  Lemma parse_reduce_majority req : r_method req = m_majority -> parse_reduced_ok req.
  Proof.
    intros Hm kept P0 P1 _ _ _ H0 H1. rewrite parse_majority in H0 by exact Hm.
    rewrite (parse_majority (reduce req kept)) by exact Hm.
    unfold majority_parse in *. injection H0 as <-. cbn [on_criteria_removed] in H1.
    apply bind_ok in H1 as (w' & Hw & H1). injection H1 as <-.
    apply preserve_only_restrict in Hw. subst w'.
    cbn [reduce r_mp restrict_raw rp_weights rp_current rp_seed rp_random_order rp_draw].
    fold (weights_or_empty (rp_weights (r_mp req))).
    fold (weights_or_empty (option_map (restrict_weights (r_method req) kept) (rp_weights (r_mp req)))).
    rewrite weights_or_empty_restrict by (rewrite Hm; reflexivity). reflexivity.
  Qed.

  (** *** ELECTRE III: the per-criterion thresholds *)
  Lemma parse_reduce_electre req : r_method req = m_electre -> parse_reduced_ok req.
  Proof.
    intros Hm kept P0 P1 _ _ Hin H0 H1. rewrite parse_electre in H0 by exact Hm.
    rewrite (parse_electre (reduce req kept)) by exact Hm.
    unfold electre_parse in *. cbn [reduce r_crits r_mp restrict_raw rp_electre rp_dist].
    destruct (rp_electre (r_mp req)) as [ecs|]; cbn [of_option bind option_map] in *; [|discriminate].
    apply bind_ok in H0 as (us & Hv & H0).
    assert (exists us', mapM (fun c => do ec <- of_option (mget (c_id c) (restrict_map kept ecs)) EMissing; validate_ecrit ec)
                             kept = Ok us') as (us' & ->).
    { apply rd_mapM_all_ok. intros c I. rewrite restrict_map_get_in by exact I.
      exact (rd_mapM_ok_in _ _ _ c Hv (Hin c I)). }
    cbn [bind].
    assert (HP : forall d, on_criteria_removed kept (PElectre ecs d) = Ok P1 -> P1 = PElectre (restrict_map kept ecs) d).
    { intros d H. cbn [on_criteria_removed] in H. apply bind_ok in H as (r & Hr & H). injection H as <-.
      f_equal. exact (keep_fold_ok ecs kept [] r Hr). }
    destruct (rp_dist (r_mp req)) as [d|].
    - destruct (nltb (lf_b d) nzero || nltb (nadd (lf_a d) (lf_b d)) nzero); [discriminate|].
      injection H0 as <-. now rewrite (HP _ H1).
    - injection H0 as <-. now rewrite (HP _ H1).
  Qed.

  (** *** satisfaction and aspect elimination: level parameters (and weights) *)
  Lemma ths_restrict kept ths ths' :
    mapM (fun t => preserve_only t kept) ths = Ok ths' -> ths' = map (restrict_map kept) ths.
  Proof. apply rd_mapM_is_map. intros t t'. apply preserve_only_restrict. Qed.

  (* the level parameters after the listener, compared with the restricted ones: equal for the
     explicit thresholds; for the generated level functions the listener leaves the (unused)
     thresholds untouched *)
  Lemma levels_removed_thresholds d lp kept lp' :
    levels_removed d lv_thresholds lp kept = Ok lp' -> lp' = restrict_lparams kept lp.
  Proof.
    unfold levels_removed. destruct (negb (known_level_source d lv_thresholds)); [discriminate|].
    rewrite String.eqb_refl. intros H. apply bind_ok in H as (ths & Ht & H). injection H as <-.
    unfold restrict_lparams. f_equal. now apply ths_restrict.
  Qed.

  Lemma levels_removed_generated d fn lp kept lp' :
    String.eqb fn lv_thresholds = false -> levels_removed d fn lp kept = Ok lp' -> lp' = lp.
  Proof.
    unfold levels_removed. intros ->. destruct (negb (known_level_source d fn)); [discriminate|].
    now intros [= <-].
  Qed.

  Lemma restrict_lparams_no_ths kept lp : lp_ths lp = [] -> restrict_lparams kept lp = lp.
  Proof. destruct lp as [c mx mn ths]. cbn [lp_ths]. intros ->. reflexivity. Qed.

  Lemma restrict_lparams_idem kept lp : restrict_lparams kept (restrict_lparams kept lp) = restrict_lparams kept lp.
  Proof.
    unfold restrict_lparams. cbn [lp_coef lp_max lp_min lp_ths]. f_equal. rewrite map_map.
    apply map_ext. intros t. apply restrict_map_idem.
  Qed.

  (* the thresholds of a parameter set restricted to the kept criteria (identity on the other methods) *)
  Definition restrict_ths (kept : list crit) (p : mparams) : mparams :=
    match p with
    | PAspect fn lp seed w rnd => PAspect fn (restrict_lparams kept lp) seed w rnd
    | PSatisf fn lp seed cur rnd => PSatisf fn (restrict_lparams kept lp) seed cur rnd
    | _ => p
    end.

  Lemma levels_removed_restrict d fn lp kept lp' :
    levels_removed d fn lp kept = Ok lp' -> restrict_lparams kept lp' = restrict_lparams kept lp.
  Proof.
    intros H. destruct (String.eqb fn lv_thresholds) eqn:E.
    - apply String.eqb_eq in E. subst fn. apply levels_removed_thresholds in H. subst lp'.
      apply restrict_lparams_idem.
    - apply (levels_removed_generated _ _ _ _ _ E) in H. now subst lp'.
  Qed.

  (** general form: the reduced request has the listener's parameters with the thresholds restricted *)
  Lemma parse_reduce_satisfaction_gen req kept P0 P1 : r_method req = m_satisfaction ->
    parse_params req = Ok P0 -> on_criteria_removed kept P0 = Ok P1 ->
    parse_params (reduce req kept) = Ok (restrict_ths kept P1).
  Proof.
    intros Hm H0 H1. rewrite parse_satisfaction in H0 by exact Hm.
    rewrite (parse_satisfaction (reduce req kept)) by exact Hm.
    unfold satisfaction_parse in *. injection H0 as <-. cbn [on_criteria_removed] in H1.
    apply bind_ok in H1 as (lp' & Hl & H1). injection H1 as <-.
    cbn [reduce r_mp restrict_raw rp_function rp_lparams rp_current rp_seed rp_random_order restrict_ths].
    now rewrite (levels_removed_restrict _ _ _ _ _ Hl).
  Qed.

  Lemma parse_reduce_aspect_gen req kept P0 P1 : r_method req = m_aspect ->
    parse_params req = Ok P0 -> on_criteria_removed kept P0 = Ok P1 ->
    parse_params (reduce req kept) = Ok (restrict_ths kept P1).
  Proof.
    intros Hm H0 H1. rewrite parse_aspect in H0 by exact Hm.
    rewrite (parse_aspect (reduce req kept)) by exact Hm.
    unfold aspect_parse in *. injection H0 as <-. cbn [on_criteria_removed] in H1.
    apply bind_ok in H1 as (lp' & Hl & H1). apply bind_ok in H1 as (w' & Hw & H1). injection H1 as <-.
    apply preserve_only_restrict in Hw. subst w'.
    cbn [reduce r_mp restrict_raw rp_function rp_lparams rp_weights rp_seed rp_random_order restrict_ths].
    fold (weights_or_empty (rp_weights (r_mp req))).
    fold (weights_or_empty (option_map (restrict_weights (r_method req) kept) (rp_weights (r_mp req)))).
    rewrite weights_or_empty_restrict by (rewrite Hm; reflexivity).
    now rewrite (levels_removed_restrict _ _ _ _ _ Hl).
  Qed.

  (* when the restriction of the thresholds is the identity on the listener's result *)
  Definition ths_plain (req : request) : Prop :=
    rp_function (r_mp req) = lv_thresholds \/ lp_ths (rp_lparams (r_mp req)) = [].

  Lemma restrict_ths_plain_satisf req kept P0 P1 : r_method req = m_satisfaction -> ths_plain req ->
    parse_params req = Ok P0 -> on_criteria_removed kept P0 = Ok P1 -> restrict_ths kept P1 = P1.
  Proof.
    intros Hm Hp H0 H1. rewrite parse_satisfaction in H0 by exact Hm.
    unfold satisfaction_parse in H0. injection H0 as <-. cbn [on_criteria_removed] in H1.
    apply bind_ok in H1 as (lp' & Hl & H1). injection H1 as <-. cbn [restrict_ths]. f_equal.
    destruct Hp as [Hf|Hn].
    - rewrite Hf in Hl. apply levels_removed_thresholds in Hl. subst lp'. apply restrict_lparams_idem.
    - destruct (String.eqb (rp_function (r_mp req)) lv_thresholds) eqn:E.
      + apply String.eqb_eq in E. rewrite E in Hl. apply levels_removed_thresholds in Hl. subst lp'.
        apply restrict_lparams_idem.
      + apply (levels_removed_generated _ _ _ _ _ E) in Hl. subst lp'. now apply restrict_lparams_no_ths.
  Qed.

  Lemma restrict_ths_plain_aspect req kept P0 P1 : r_method req = m_aspect -> ths_plain req ->
    parse_params req = Ok P0 -> on_criteria_removed kept P0 = Ok P1 -> restrict_ths kept P1 = P1.
  Proof.
    intros Hm Hp H0 H1. rewrite parse_aspect in H0 by exact Hm.
    unfold aspect_parse in H0. injection H0 as <-. cbn [on_criteria_removed] in H1.
    apply bind_ok in H1 as (lp' & Hl & H1). apply bind_ok in H1 as (w' & Hw & H1). injection H1 as <-.
    cbn [restrict_ths]. f_equal.
    destruct Hp as [Hf|Hn].
    - rewrite Hf in Hl. apply levels_removed_thresholds in Hl. subst lp'. apply restrict_lparams_idem.
    - destruct (String.eqb (rp_function (r_mp req)) lv_thresholds) eqn:E.
      + apply String.eqb_eq in E. rewrite E in Hl. apply levels_removed_thresholds in Hl. subst lp'.
        apply restrict_lparams_idem.
      + apply (levels_removed_generated _ _ _ _ _ E) in Hl. subst lp'. now apply restrict_lparams_no_ths.
  Qed.

  Lemma parse_reduce_satisfaction req : r_method req = m_satisfaction -> ths_plain req -> parse_reduced_ok req.
  Proof.
    intros Hm Hp kept P0 P1 _ _ _ H0 H1.
    rewrite (parse_reduce_satisfaction_gen _ _ _ _ Hm H0 H1). f_equal.
    exact (restrict_ths_plain_satisf _ _ _ _ Hm Hp H0 H1).
  Qed.

  Lemma parse_reduce_aspect req : r_method req = m_aspect -> ths_plain req -> parse_reduced_ok req.
  Proof.
    intros Hm Hp kept P0 P1 _ _ _ H0 H1.
    rewrite (parse_reduce_aspect_gen _ _ _ _ Hm H0 H1). f_equal.
    exact (restrict_ths_plain_aspect _ _ _ _ Hm Hp H0 H1).
  Qed.

  (** ** 5. The state theorems *)
  Lemma omission_facts e req st0 p st1 rep :
    prepare req = Ok st0 -> apply_omission e st0 p = Ok (st1, rep) ->
    NoDup (map c_id (r_crits req)) /\ NoDup (map c_id (st_crits st1)) /\ incl (st_crits st1) (r_crits req)
    /\ parse_params req = Ok (st_params st0)
    /\ on_criteria_removed (st_crits st1) (st_params st0) = Ok (st_params st1).
  Proof.
    intros Hp Ho. pose proof (prepare_parts _ _ Hp) as (_ & VC & _ & _ & _ & PP & _ & Hcr).
    apply apply_omission_inv in Ho as (lft & _ & Perm & Hpar & _ & _).
    apply validate_criteria_iff in VC as (ND & _ & _).
    rewrite Hcr in Perm. destruct (kept_facts _ _ _ Perm ND) as (NDk & Hin). tauto.
  Qed.

  Lemma omission_state_reduced_of_parse e req st0 p st1 rep :
    parse_reduced_ok req ->
    prepare req = Ok st0 -> apply_omission e st0 p = Ok (st1, rep) ->
    prepare (reduce req (st_crits st1)) = Ok st1.
  Proof.
    intros HP Hp Ho. destruct (omission_facts _ _ _ _ _ _ Hp Ho) as (ND & NDk & Hin & P0 & P1).
    rewrite (omission_state_reduced_params _ _ _ _ _ _ _ Hp Ho (HP _ _ _ ND NDk Hin P0 P1)).
    now destruct st1.
  Qed.

  Theorem omission_state_reduced_ws e req st0 p st1 rep :
    r_method req = m_ws ->
    prepare req = Ok st0 -> apply_omission e st0 p = Ok (st1, rep) ->
    prepare (reduce req (st_crits st1)) = Ok st1.
  Proof. intros Hm. apply omission_state_reduced_of_parse. now apply parse_reduce_ws. Qed.

  Theorem omission_state_reduced_majority e req st0 p st1 rep :
    r_method req = m_majority ->
    prepare req = Ok st0 -> apply_omission e st0 p = Ok (st1, rep) ->
    prepare (reduce req (st_crits st1)) = Ok st1.
  Proof. intros Hm. apply omission_state_reduced_of_parse. now apply parse_reduce_majority. Qed.

  Theorem omission_state_reduced_electre e req st0 p st1 rep :
    r_method req = m_electre ->
    prepare req = Ok st0 -> apply_omission e st0 p = Ok (st1, rep) ->
    prepare (reduce req (st_crits st1)) = Ok st1.
  Proof. intros Hm. apply omission_state_reduced_of_parse. now apply parse_reduce_electre. Qed.

  (** satisfaction / aspect elimination with explicit thresholds, or with a generated level function
      and no thresholds in the request *)
  Theorem omission_state_reduced_satisfaction e req st0 p st1 rep :
    r_method req = m_satisfaction -> ths_plain req ->
    prepare req = Ok st0 -> apply_omission e st0 p = Ok (st1, rep) ->
    prepare (reduce req (st_crits st1)) = Ok st1.
  Proof. intros Hm Hp. apply omission_state_reduced_of_parse. now apply parse_reduce_satisfaction. Qed.

  Theorem omission_state_reduced_aspect e req st0 p st1 rep :
    r_method req = m_aspect -> ths_plain req ->
    prepare req = Ok st0 -> apply_omission e st0 p = Ok (st1, rep) ->
    prepare (reduce req (st_crits st1)) = Ok st1.
  Proof. intros Hm Hp. apply omission_state_reduced_of_parse. now apply parse_reduce_aspect. Qed.

  (** in general (a generated level function and thresholds in the request, which no level source
      reads): equal up to the restriction of those thresholds *)
  Definition with_params (s : state) (p : mparams) : state :=
    {| st_notcons := st_notcons s; st_cons := st_cons s; st_crits := st_crits s; st_params := p |}.

  Theorem omission_state_reduced_satisfaction_gen e req st0 p st1 rep :
    r_method req = m_satisfaction ->
    prepare req = Ok st0 -> apply_omission e st0 p = Ok (st1, rep) ->
    prepare (reduce req (st_crits st1)) = Ok (with_params st1 (restrict_ths (st_crits st1) (st_params st1))).
  Proof.
    intros Hm Hp Ho. destruct (omission_facts _ _ _ _ _ _ Hp Ho) as (ND & NDk & Hin & P0 & P1).
    exact (omission_state_reduced_params _ _ _ _ _ _ _ Hp Ho (parse_reduce_satisfaction_gen _ _ _ _ Hm P0 P1)).
  Qed.

  Theorem omission_state_reduced_aspect_gen e req st0 p st1 rep :
    r_method req = m_aspect ->
    prepare req = Ok st0 -> apply_omission e st0 p = Ok (st1, rep) ->
    prepare (reduce req (st_crits st1)) = Ok (with_params st1 (restrict_ths (st_crits st1) (st_params st1))).
  Proof.
    intros Hm Hp Ho. destruct (omission_facts _ _ _ _ _ _ Hp Ho) as (ND & NDk & Hin & P0 & P1).
    exact (omission_state_reduced_params _ _ _ _ _ _ _ Hp Ho (parse_reduce_aspect_gen _ _ _ _ Hm P0 P1)).
  Qed.
End Methods.

(** ** 6. OWA: the reduced request sorts the kept weights again *)
Section MapLength.
  Context {A : Type}.
  Lemma mset_length_new k (v : A) m : ~ In k (mkeys m) -> List.length (mset k v m) = S (List.length m).
  Proof.
    induction m as [|[k' v'] r IH]; intros H; cbn [mset]; [reflexivity|].
    cbn [mkeys map fst In] in H.
    destruct (String.eqb k k') eqn:E.
    - apply String.eqb_eq in E. exfalso. apply H. now left.
    - destruct (String.ltb k k'); [reflexivity|]. cbn [List.length]. f_equal. apply IH.
      intros B. apply H. now right.
  Qed.
End MapLength.

Section Owa.
  Context {N : Num}.

  Lemma rm_fold_length {A} (w : smap A) : forall kept acc, NoDup (map c_id kept) ->
    (forall c, In c kept -> mhas (c_id c) w = true) -> (forall c, In c kept -> ~ In (c_id c) (mkeys acc)) ->
    List.length (fold_left (rm_step w) kept acc) = (List.length acc + List.length kept)%nat.
  Proof.
    induction kept as [|c r IH]; intros acc ND Hw Ha; cbn [fold_left List.length]; [lia|].
    cbn [map] in ND. inversion ND as [|? ? Nc Nr]; subst.
    assert (Hc := Hw c (or_introl eq_refl)). unfold mhas in Hc. unfold rm_step at 2.
    destruct (mget (c_id c) w) as [v|]; [|discriminate].
    rewrite IH.
    - rewrite mset_length_new by (apply Ha; now left). lia.
    - exact Nr.
    - intros c' I. apply Hw. now right.
    - intros c' I B. apply mkeys_mset in B as [B|B].
      + apply Nc. rewrite <- B. now apply in_map.
      + apply (Ha c'); [now right|exact B].
  Qed.

  Lemma restrict_map_length {A} kept (w : smap A) : NoDup (map c_id kept) ->
    (forall c, In c kept -> mhas (c_id c) w = true) -> List.length (restrict_map kept w) = List.length kept.
  Proof.
    intros ND Hw. unfold restrict_map. rewrite rm_fold_length; [reflexivity|exact ND|exact Hw|].
    intros c _ [].
  Qed.

  Lemma parse_reduce_owa req kept P0 P1 : r_method req = m_owa ->
    NoDup (map c_id (r_crits req)) -> NoDup (map c_id kept) -> incl kept (r_crits req) ->
    parse_params req = Ok P0 -> on_criteria_removed kept P0 = Ok P1 ->
    exists wc, P1 = POwa wc /\ parse_params (reduce req kept) = Ok (POwa (isort wc_lt wc)).
  Proof.
    intros Hm ND NDk Hin H0 H1. rewrite parse_owa in H0 by exact Hm.
    rewrite (parse_owa (reduce req kept)) by exact Hm.
    unfold owa_parse, extract_weights in *. cbn [reduce r_crits r_mp restrict_raw rp_weights].
    destruct (rp_weights (r_mp req)) as [w|]; cbn [of_option bind option_map] in *; [|discriminate].
    destruct (negb (Nat.eqb (List.length w) (List.length (r_crits req)))); [discriminate|].
    apply bind_ok in H0 as (wc & Hz & H0). injection H0 as <-.
    cbn [on_criteria_removed] in H1. apply bind_ok in H1 as (r & Hr & H1). injection H1 as <-.
    exists r. split; [reflexivity|].
    rewrite restrict_weights_plain by (rewrite Hm; reflexivity).
    rewrite restrict_map_length.
    - rewrite Nat.eqb_refl. cbn [negb].
      rewrite <- (find_wc_kept _ _ wc (isort wc_lt wc) _ Hz ND (isort_perm wc_lt wc) Hin), Hr. reflexivity.
    - exact NDk.
    - intros c I. destruct (zip_in _ _ _ c Hz (Hin c I)) as (v & Hv & _). unfold mhas. now rewrite Hv.
  Qed.

  (** the state of the reduced request carries the kept weights sorted again (a permutation of
      the list the listener leaves in the order of the kept criteria) *)
  Theorem omission_state_reduced_owa e req st0 p st1 rep :
    r_method req = m_owa ->
    prepare req = Ok st0 -> apply_omission e st0 p = Ok (st1, rep) ->
    exists wc, st_params st1 = POwa wc
               /\ prepare (reduce req (st_crits st1)) = Ok (with_params st1 (POwa (isort wc_lt wc))).
  Proof.
    intros Hm Hp Ho. destruct (omission_facts _ _ _ _ _ _ Hp Ho) as (ND & NDk & Hin & P0 & P1).
    destruct (parse_reduce_owa _ _ _ _ Hm ND NDk Hin P0 P1) as (wc & E & HP).
    exists wc. split; [exact E|].
    exact (omission_state_reduced_params _ _ _ _ _ _ _ Hp Ho HP).
  Qed.

  Corollary omission_state_reduced_owa_perm e req st0 p st1 rep :
    r_method req = m_owa ->
    prepare req = Ok st0 -> apply_omission e st0 p = Ok (st1, rep) ->
    exists wc wc', st_params st1 = POwa wc /\ Permutation wc' wc
                   /\ prepare (reduce req (st_crits st1)) = Ok (with_params st1 (POwa wc')).
  Proof.
    intros Hm Hp Ho. destruct (omission_state_reduced_owa _ _ _ _ _ _ Hm Hp Ho) as (wc & E & H).
    exists wc, (isort wc_lt wc). split; [exact E|]. split; [apply isort_perm|exact H].
  Qed.

  (** sorting a sorted list changes nothing, hence [owa_value] (which sorts its weights) agrees *)
  Lemma isort_sorted_id {A} (lt : A -> A -> bool) : forall l,
    StronglySorted (SortFacts.le lt) l -> isort lt l = l.
  Proof.
    induction 1 as [|x r S IH Hx]; cbn [isort]; [reflexivity|]. rewrite IH.
    destruct r as [|y r']; cbn [insert]; [reflexivity|].
    inversion Hx as [|? ? Hy _]; subst. unfold SortFacts.le in Hy. now rewrite Hy.
  Qed.
End Owa.

Lemma isort_wc_idem (wc : list (@wcrit NumQc)) : isort wc_lt (isort wc_lt wc) = isort wc_lt wc.
Proof.
  apply isort_sorted_id.
  apply (StronglySorted_weaken (fun a b : @wcrit NumQc => (snd a <= snd b)%Qc)).
  - intros a b _ _. apply wc_le_iff.
  - apply isort_wc_sorted.
Qed.

Lemma owa_value_sorted (wc : list (@wcrit NumQc)) a : owa_value (isort wc_lt wc) a = owa_value wc a.
Proof. unfold owa_value. now rewrite isort_wc_idem. Qed.

Theorem owa_evaluate_sorted (s : @state NumQc) wc :
  st_params s = POwa wc -> utility_evaluate (with_params s (POwa (isort wc_lt wc))) = utility_evaluate s.
Proof.
  intros E. unfold utility_evaluate. rewrite E. cbn [with_params st_params st_cons].
  unfold rank_with.
  rewrite (rd_mapM_ext_in _ (fun a => do v <- owa_value wc a; Ok (a, v))); [reflexivity|].
  intros a _. now rewrite owa_value_sorted.
Qed.

(** ** 7. The decision *)
Section Decide.
  Context {N : Num}.

  (* the ranking of a response, or the class of the failure *)
  Definition result_of (r : res response) : res (list entry) :=
    match r with Ok x => Ok (resp_result x) | Err c => Err c end.

  Lemma apply_bias_omission e name cur p : name = b_omission -> apply_bias e name cur p = apply_omission e cur p.
  Proof. intros ->. reflexivity. Qed.

  Lemma names_ok_cons (b : biasreq) rest : b_name b = b_omission ->
    forallb (fun b => mem_str (b_name b) bias_names) (b :: rest) = forallb (fun b => mem_str (b_name b) bias_names) rest.
  Proof. intros H. cbn [forallb]. rewrite H. reflexivity. Qed.

  (** the run on the original request: the omission consumes the first draw of the bias-apply
      stream, the remaining biases continue on the omission state with the tail of the stream *)
  Lemma biased_state_omission_first e req b rest st0 st1 rep x g' :
    enabled_biases req = b :: rest -> b_name b = b_omission ->
    prepare req = Ok st0 ->
    new_rng e (r_seed req) = x :: g' -> nltb x (b_prob b) = true ->
    apply_omission e st0 (b_props b) = Ok (st1, rep) ->
    biased_state e req =
    if negb (forallb (fun b => mem_str (b_name b) bias_names) rest) then Err EInvalid else
    do r <- process_biases e rest st1 g';
    Ok (fst r, {| ec_name := b_name b; ec_prob := b_prob b;
                  ec_fired := match rep with RNone => false | _ => true end; ec_report := rep |} :: snd r).
  Proof.
    intros He Hn Hp Hg Hx Ho. unfold biased_state. rewrite Hp. cbn [bind]. rewrite He.
    rewrite (names_ok_cons _ _ Hn).
    destruct (negb (forallb (fun b0 => mem_str (b_name b0) bias_names) rest)); [reflexivity|].
    rewrite Hg. cbn [process_biases draw bind fst snd]. rewrite Hx.
    rewrite (apply_bias_omission _ _ _ _ Hn), Ho. cbn [bind fst snd]. reflexivity.
  Qed.

  (** the run on the reduced request *)
  Lemma biased_state_reduced e' req b rest st1 g' :
    enabled_biases req = b :: rest ->
    prepare (reduce req (st_crits st1)) = Ok st1 ->
    new_rng e' (r_seed req) = g' ->
    biased_state e' (reduce req (st_crits st1)) =
    if negb (forallb (fun b => mem_str (b_name b) bias_names) rest) then Err EInvalid else
    process_biases e' rest st1 g'.
  Proof.
    intros He Hp Hg. unfold biased_state. rewrite Hp. cbn [bind]. rewrite enabled_reduce, He. cbn [tl].
    destruct (negb (forallb (fun b0 => mem_str (b_name b0) bias_names) rest)); [reflexivity|].
    destruct rest as [|b1 r]; [reflexivity|]. change (r_seed (reduce req (st_crits st1))) with (r_seed req).
    now rewrite Hg.
  Qed.

  (** *** general form.  [e'] is the environment of the reduced run: its bias-apply stream is the
      tail of [e]'s (one position was consumed by the omission); the last two hypotheses say that
      [e'] gives the remaining biases and the method the draws [e] gives them *)
  Theorem omit_equals_reduced_env e e' req b rest st0 st1 rep x g' :
    enabled_biases req = b :: rest -> b_name b = b_omission ->
    prepare req = Ok st0 ->
    new_rng e (r_seed req) = x :: g' -> nltb x (b_prob b) = true ->
    apply_omission e st0 (b_props b) = Ok (st1, rep) ->
    prepare (reduce req (st_crits st1)) = Ok st1 ->
    new_rng e' (r_seed req) = tl (new_rng e (r_seed req)) ->
    process_biases e' rest st1 g' = process_biases e rest st1 g' ->
    (forall sfin echoes, process_biases e rest st1 g' = Ok (sfin, echoes) ->
                         evaluate (r_method req) e' sfin = evaluate (r_method req) e sfin) ->
    result_of (decide e req) = result_of (decide e' (reduce req (st_crits st1))).
  Proof.
    intros He Hn Hp Hg Hx Ho Hr Hg' Hpb Hev. unfold decide.
    rewrite Hg in Hg'. cbn [tl] in Hg'.
    rewrite (biased_state_omission_first _ _ _ _ _ _ _ _ _ He Hn Hp Hg Hx Ho).
    rewrite (biased_state_reduced _ _ _ _ _ _ He Hr Hg').
    destruct (negb (forallb (fun b0 => mem_str (b_name b0) bias_names) rest)); [reflexivity|].
    rewrite Hpb. destruct (process_biases e rest st1 g') as [[sfin echoes]|c] eqn:E; [|reflexivity].
    cbn [bind fst snd]. change (r_method (reduce req (st_crits st1))) with (r_method req).
    rewrite (Hev _ _ eq_refl). now destruct (evaluate (r_method req) e sfin).
  Qed.

  (** *** the omission is the only enabled bias: the same environment serves both runs (the
      reduced request has no enabled bias, so no generator is created for it) *)
  Theorem omit_equals_reduced_state e req b st0 st1 rep x g' :
    enabled_biases req = [b] -> b_name b = b_omission ->
    prepare req = Ok st0 ->
    new_rng e (r_seed req) = x :: g' -> nltb x (b_prob b) = true ->
    apply_omission e st0 (b_props b) = Ok (st1, rep) ->
    prepare (reduce req (st_crits st1)) = Ok st1 ->
    result_of (decide e req) = result_of (decide e (reduce req (st_crits st1))).
  Proof.
    intros He Hn Hp Hg Hx Ho Hr. unfold decide.
    rewrite (biased_state_omission_first _ _ _ _ _ _ _ _ _ He Hn Hp Hg Hx Ho).
    unfold biased_state. rewrite Hr. cbn [bind]. rewrite enabled_reduce, He.
    cbn [tl forallb negb process_biases bind fst snd].
    change (r_method (reduce req (st_crits st1))) with (r_method req).
    now destruct (evaluate (r_method req) e st1).
  Qed.

  (* the methods for which the omission state is literally the state of the reduced request *)
  Definition plain_restriction (req : request) : Prop :=
    r_method req = m_ws \/ r_method req = m_majority \/ r_method req = m_electre
    \/ (r_method req = m_satisfaction /\ ths_plain req) \/ (r_method req = m_aspect /\ ths_plain req).

  Lemma plain_restriction_ok req : plain_restriction req -> parse_reduced_ok req.
  Proof.
    intros [H|[H|[H|[[H T]|[H T]]]]].
    - now apply parse_reduce_ws.
    - now apply parse_reduce_majority.
    - now apply parse_reduce_electre.
    - now apply parse_reduce_satisfaction.
    - now apply parse_reduce_aspect.
  Qed.

  Theorem omission_state_reduced e req st0 p st1 rep :
    plain_restriction req ->
    prepare req = Ok st0 -> apply_omission e st0 p = Ok (st1, rep) ->
    prepare (reduce req (st_crits st1)) = Ok st1.
  Proof. intros H. apply omission_state_reduced_of_parse. now apply plain_restriction_ok. Qed.

  Theorem omit_equals_reduced e req b st0 st1 rep x g' :
    plain_restriction req ->
    enabled_biases req = [b] -> b_name b = b_omission ->
    prepare req = Ok st0 ->
    new_rng e (r_seed req) = x :: g' -> nltb x (b_prob b) = true ->
    apply_omission e st0 (b_props b) = Ok (st1, rep) ->
    result_of (decide e req) = result_of (decide e (reduce req (st_crits st1))).
  Proof.
    intros Hpl He Hn Hp Hg Hx Ho.
    exact (omit_equals_reduced_state _ _ _ _ _ _ _ _ He Hn Hp Hg Hx Ho (omission_state_reduced _ _ _ _ _ _ Hpl Hp Ho)).
  Qed.

  (** with further enabled biases after the omission *)
  Theorem omit_equals_reduced_more e e' req b rest st0 st1 rep x g' :
    plain_restriction req ->
    enabled_biases req = b :: rest -> b_name b = b_omission ->
    prepare req = Ok st0 ->
    new_rng e (r_seed req) = x :: g' -> nltb x (b_prob b) = true ->
    apply_omission e st0 (b_props b) = Ok (st1, rep) ->
    new_rng e' (r_seed req) = tl (new_rng e (r_seed req)) ->
    process_biases e' rest st1 g' = process_biases e rest st1 g' ->
    (forall sfin echoes, process_biases e rest st1 g' = Ok (sfin, echoes) ->
                         evaluate (r_method req) e' sfin = evaluate (r_method req) e sfin) ->
    result_of (decide e req) = result_of (decide e' (reduce req (st_crits st1))).
  Proof.
    intros Hpl He Hn Hp Hg Hx Ho. apply (omit_equals_reduced_env _ _ _ _ _ _ _ _ _ _ He Hn Hp Hg Hx Ho).
    exact (omission_state_reduced _ _ _ _ _ _ Hpl Hp Ho).
  Qed.
End Decide.

(** ** 8. Evaluation does not read what the restriction changes beyond the listener:
       thresholds next to a generated level function, and the order of the OWA weights *)
Section LevelsIgnoreThs.
  Context {N : Num}.

  Definition drop_ths (lp : lparams) : lparams :=
    {| lp_coef := lp_coef lp; lp_max := lp_max lp; lp_min := lp_min lp; lp_ths := [] |}.
  Definition forget_ths (src : lsource) : lsource :=
    match src with
    | LIdeal d s lp crs cur => LIdeal d s (drop_ths lp) crs cur
    | LThs r => LThs r
    end.
  Definition res_map {A B} (f : A -> B) (r : res A) : res B := match r with Ok a => Ok (f a) | Err c => Err c end.

  Lemma lv_next_forget src :
    lv_next (forget_ths src) = match lv_next src with Some (t, s') => Some (t, forget_ths s') | None => None end.
  Proof.
    destruct src as [d s lp crs cur|[|t r]]; cbn [forget_ths lv_next]; try reflexivity.
    replace (has_next d (drop_ths lp) cur) with (has_next d lp cur) by (now destruct d).
    destruct (has_next d lp cur); reflexivity.
  Qed.

  Lemma aspect_levels_forget cs : forall fuel src left idx elim,
    aspect_levels fuel (forget_ths src) cs left idx elim = aspect_levels fuel src cs left idx elim.
  Proof.
    induction fuel as [|f IH]; intros src left idx elim; cbn [aspect_levels]; [reflexivity|].
    rewrite lv_next_forget. destruct (lv_next src) as [[t s']|]; [|reflexivity].
    destruct (aspect_criteria cs left t (idx + 1) elim) as [[[l' e'] stop]|]; cbn [bind]; [|reflexivity].
    destruct stop; [reflexivity|apply IH].
  Qed.

  Lemma satisf_levels_forget cs : forall fuel src left idx acc,
    satisf_levels fuel (forget_ths src) cs left idx acc = satisf_levels fuel src cs left idx acc.
  Proof.
    induction fuel as [|f IH]; intros src left idx acc; cbn [satisf_levels]; [reflexivity|].
    rewrite lv_next_forget. destruct (lv_next src) as [[t s']|]; [|reflexivity].
    destruct (zip_with_weights cs t) as [ths|]; cbn [bind]; [|reflexivity].
    destruct (satisf_walk left left ths t (idx + 1) acc) as [w|]; cbn [bind]; [|reflexivity].
    destruct (fst w); [reflexivity|apply IH].
  Qed.

  Lemma lv_init_forget d fn lp kept s : String.eqb fn lv_thresholds = false ->
    res_map forget_ths (lv_init d fn (restrict_lparams kept lp) s) = res_map forget_ths (lv_init d fn lp s).
  Proof.
    intros E. unfold lv_init. rewrite E.
    destruct (String.eqb fn ""); [reflexivity|].
    assert (V : validate_coef d (restrict_lparams kept lp) = validate_coef d lp) by reflexivity.
    rewrite V.
    destruct (String.eqb fn lv_mul).
    { destruct (negb (validate_coef d lp)); [reflexivity|].
      destruct (mapM _ (st_crits s)) as [crs|]; reflexivity. }
    destruct (String.eqb fn (match d with Increasing => lv_additive | Decreasing => lv_subtractive end)); [|reflexivity].
    destruct (negb (validate_coef d lp)); [reflexivity|].
    destruct (mapM _ (st_crits s)) as [crs|]; reflexivity.
  Qed.

  Lemma bind_res_map {A B C} (f : A -> B) (r r' : res A) (k : B -> res C) :
    res_map f r = res_map f r' -> (do x <- r; k (f x)) = (do x <- r'; k (f x)).
  Proof. destruct r, r'; cbn [res_map bind]; congruence. Qed.

  Theorem aspect_evaluate_ignores_ths e (s : state) kept fn lp seed w rnd :
    st_params s = PAspect fn lp seed w rnd -> String.eqb fn lv_thresholds = false ->
    aspect_evaluate e (with_params s (PAspect fn (restrict_lparams kept lp) seed w rnd)) = aspect_evaluate e s.
  Proof.
    intros EP E. unfold aspect_evaluate. rewrite EP. cbn [with_params st_params st_cons st_crits].
    change (lv_init Increasing fn (restrict_lparams kept lp)
                    {| st_notcons := st_notcons s; st_cons := st_cons s; st_crits := st_crits s;
                       st_params := PAspect fn (restrict_lparams kept lp) seed w rnd |})
      with (lv_init Increasing fn (restrict_lparams kept lp) s).
    pose (K := fun src : lsource =>
      do og <- order_alternatives rnd (st_cons s) (new_rng e seed);
      do cw <- zip_with_weights (st_crits s) w;
      let cs := isort wc_gt cw in
      let alts := fst og in
      do r <- (if Nat.leb (List.length alts) 1 then Ok (alts, [], (-1)%Z)
               else aspect_levels level_fuel src cs alts (-1)%Z []);
      let '(lft, elim, idx) := r in
      let survivors := map (fun a => (a, EAspect [] (idx + 1)%Z)) lft in
      Ok (sequential_ranking (survivors ++ rev elim))).
    assert (HK : forall src, K src = K (forget_ths src)).
    { intros src. unfold K.
      destruct (order_alternatives rnd (st_cons s) (new_rng e seed)) as [og|]; cbn [bind]; [|reflexivity].
      destruct (zip_with_weights (st_crits s) w) as [cw|]; cbn [bind]; [|reflexivity].
      cbv zeta. now rewrite aspect_levels_forget. }
    change (bind (lv_init Increasing fn (restrict_lparams kept lp) s) K = bind (lv_init Increasing fn lp s) K).
    pose proof (lv_init_forget Increasing fn lp kept s E) as HI.
    destruct (lv_init Increasing fn (restrict_lparams kept lp) s) as [a|c],
             (lv_init Increasing fn lp s) as [b|c']; cbn [res_map bind] in HI |- *;
      [injection HI as HI; now rewrite (HK a), (HK b), HI|discriminate|discriminate|congruence].
  Qed.

  Theorem satisfaction_evaluate_ignores_ths e (s : state) kept fn lp seed cur rnd :
    st_params s = PSatisf fn lp seed cur rnd -> String.eqb fn lv_thresholds = false ->
    satisfaction_evaluate e (with_params s (PSatisf fn (restrict_lparams kept lp) seed cur rnd)) = satisfaction_evaluate e s.
  Proof.
    intros EP E. unfold satisfaction_evaluate. rewrite EP. cbn [with_params st_params st_cons st_crits].
    set (s' := with_params s (PSatisf fn (restrict_lparams kept lp) seed cur rnd)).
    change (lv_init Decreasing fn (restrict_lparams kept lp) s') with (lv_init Decreasing fn (restrict_lparams kept lp) s).
    change (search_order s' cur rnd (new_rng e seed)) with (search_order s cur rnd (new_rng e seed)).
    change (lowest_thresholds s') with (lowest_thresholds s).
    pose (K := fun src : lsource =>
      do so <- search_order s cur rnd (new_rng e seed);
      let '(current, considered, _) := so in
      do r <- satisf_levels level_fuel src (st_crits s) (current :: considered) (-1)%Z [];
      let '(lft, acc, idx) := r in
      match lft with
      | [] => Ok (sequential_ranking acc)
      | _ => do low <- lowest_thresholds s;
             Ok (sequential_ranking (acc ++ map (fun a => (a, ESatisf low (idx + 1)%Z)) lft))
      end).
    assert (HK : forall src, K src = K (forget_ths src)).
    { intros src. unfold K. destruct (search_order s cur rnd (new_rng e seed)) as [[[c0 co] g]|]; cbn [bind]; [|reflexivity].
      now rewrite satisf_levels_forget. }
    change (bind (lv_init Decreasing fn (restrict_lparams kept lp) s) K = bind (lv_init Decreasing fn lp s) K).
    pose proof (lv_init_forget Decreasing fn lp kept s E) as HI.
    destruct (lv_init Decreasing fn (restrict_lparams kept lp) s) as [a|c],
             (lv_init Decreasing fn lp s) as [b|c']; cbn [res_map bind] in HI |- *;
      [injection HI as HI; now rewrite (HK a), (HK b), HI|discriminate|discriminate|congruence].
  Qed.
End LevelsIgnoreThs.

(** ** 9. The decision, for the methods where the reduced state differs in parts evaluation does not read *)
Section DecideMore.
  Context {N : Num}.

  Theorem omit_equals_reduced_state_eval e req b st0 st1 st1' rep x g' :
    enabled_biases req = [b] -> b_name b = b_omission ->
    prepare req = Ok st0 ->
    new_rng e (r_seed req) = x :: g' -> nltb x (b_prob b) = true ->
    apply_omission e st0 (b_props b) = Ok (st1, rep) ->
    prepare (reduce req (st_crits st1)) = Ok st1' ->
    evaluate (r_method req) e st1' = evaluate (r_method req) e st1 ->
    result_of (decide e req) = result_of (decide e (reduce req (st_crits st1))).
  Proof.
    intros He Hn Hp Hg Hx Ho Hr Hev. unfold decide.
    rewrite (biased_state_omission_first _ _ _ _ _ _ _ _ _ He Hn Hp Hg Hx Ho).
    unfold biased_state. rewrite Hr. cbn [bind]. rewrite enabled_reduce, He.
    cbn [tl forallb negb process_biases bind fst snd].
    change (r_method (reduce req (st_crits st1))) with (r_method req). rewrite Hev.
    now destruct (evaluate (r_method req) e st1).
  Qed.

  Lemma with_params_self (s : state) : with_params s (st_params s) = s.
  Proof. now destruct s. Qed.

  Lemma eval_restrict_ths_aspect e req kept (st : state) P0 : r_method req = m_aspect ->
    parse_params req = Ok P0 -> on_criteria_removed kept P0 = Ok (st_params st) ->
    evaluate (r_method req) e (with_params st (restrict_ths kept (st_params st))) = evaluate (r_method req) e st.
  Proof.
    intros Hm H0 H1. rewrite parse_aspect in H0 by exact Hm. unfold aspect_parse in H0. injection H0 as <-.
    cbn [on_criteria_removed] in H1.
    apply bind_ok in H1 as (lp' & Hl & H1). apply bind_ok in H1 as (w' & Hw & H1). injection H1 as H1.
    rewrite <- H1. cbn [restrict_ths].
    destruct (String.eqb (rp_function (r_mp req)) lv_thresholds) eqn:E.
    - apply String.eqb_eq in E. rewrite E in Hl. apply levels_removed_thresholds in Hl. subst lp'.
      rewrite restrict_lparams_idem, H1. now rewrite with_params_self.
    - rewrite Hm. change (evaluate m_aspect e) with (aspect_evaluate e).
      apply aspect_evaluate_ignores_ths; [now symmetry|exact E].
  Qed.

  Lemma eval_restrict_ths_satisfaction e req kept (st : state) P0 : r_method req = m_satisfaction ->
    parse_params req = Ok P0 -> on_criteria_removed kept P0 = Ok (st_params st) ->
    evaluate (r_method req) e (with_params st (restrict_ths kept (st_params st))) = evaluate (r_method req) e st.
  Proof.
    intros Hm H0 H1. rewrite parse_satisfaction in H0 by exact Hm. unfold satisfaction_parse in H0. injection H0 as <-.
    cbn [on_criteria_removed] in H1.
    apply bind_ok in H1 as (lp' & Hl & H1). injection H1 as H1.
    rewrite <- H1. cbn [restrict_ths].
    destruct (String.eqb (rp_function (r_mp req)) lv_thresholds) eqn:E.
    - apply String.eqb_eq in E. rewrite E in Hl. apply levels_removed_thresholds in Hl. subst lp'.
      rewrite restrict_lparams_idem, H1. now rewrite with_params_self.
    - rewrite Hm. change (evaluate m_satisfaction e) with (satisfaction_evaluate e).
      apply satisfaction_evaluate_ignores_ths; [now symmetry|exact E].
  Qed.

  (** aspect elimination and satisfaction, whatever thresholds the request carries *)
  Theorem omit_equals_reduced_levels e req b st0 st1 rep x g' :
    r_method req = m_aspect \/ r_method req = m_satisfaction ->
    enabled_biases req = [b] -> b_name b = b_omission ->
    prepare req = Ok st0 ->
    new_rng e (r_seed req) = x :: g' -> nltb x (b_prob b) = true ->
    apply_omission e st0 (b_props b) = Ok (st1, rep) ->
    result_of (decide e req) = result_of (decide e (reduce req (st_crits st1))).
  Proof.
    intros Hm He Hn Hp Hg Hx Ho.
    destruct (omission_facts _ _ _ _ _ _ Hp Ho) as (ND & NDk & Hin & P0 & P1).
    destruct Hm as [Hm|Hm].
    - apply (omit_equals_reduced_state_eval _ _ _ _ _ _ _ _ _ He Hn Hp Hg Hx Ho
               (omission_state_reduced_aspect_gen _ _ _ _ _ _ Hm Hp Ho)).
      exact (eval_restrict_ths_aspect _ _ _ _ _ Hm P0 P1).
    - apply (omit_equals_reduced_state_eval _ _ _ _ _ _ _ _ _ He Hn Hp Hg Hx Ho
               (omission_state_reduced_satisfaction_gen _ _ _ _ _ _ Hm Hp Ho)).
      exact (eval_restrict_ths_satisfaction _ _ _ _ _ Hm P0 P1).
  Qed.
End DecideMore.

(** OWA, on the exact rationals (the order laws are needed: sorting twice is sorting once) *)
Theorem omit_equals_reduced_owa (e : @env NumQc) req b st0 st1 rep x g' :
  r_method req = m_owa ->
  enabled_biases req = [b] -> b_name b = b_omission ->
  prepare req = Ok st0 ->
  new_rng e (r_seed req) = x :: g' -> nltb x (b_prob b) = true ->
  apply_omission e st0 (b_props b) = Ok (st1, rep) ->
  result_of (decide e req) = result_of (decide e (reduce req (st_crits st1))).
Proof.
  intros Hm He Hn Hp Hg Hx Ho.
  destruct (omission_state_reduced_owa _ _ _ _ _ _ Hm Hp Ho) as (wc & E & Hr).
  apply (omit_equals_reduced_state_eval _ _ _ _ _ _ _ _ _ He Hn Hp Hg Hx Ho Hr).
  rewrite Hm. change (evaluate m_owa e) with (@utility_evaluate NumQc).
  now apply owa_evaluate_sorted.
Qed.

(** ** 10. Choquet integral: the capacities of the subsets of the kept criteria *)
Section CanonicalMaps.
  Context {A : Type}.

  Definition all_gt (k : string) (r : smap A) : Prop := forall k', In k' (mkeys r) -> String.ltb k k' = true.

  Lemma msorted_tail_gt : forall (r : smap A) k v, msorted ((k, v) :: r) = true -> msorted r = true /\ all_gt k r.
  Proof.
    induction r as [|[k1 v1] r1 IH]; intros k v H.
    - split; [reflexivity|intros k' []].
    - rewrite msorted_cons in H. apply andb_true_iff in H as [H1 H2]. cbn [hd_lt] in H1.
      split; [exact H2|]. destruct (IH _ _ H2) as [_ G].
      intros k' [<-|I]; [exact H1|]. apply (sltb_trans _ k1); [exact H1|now apply G].
  Qed.

  Lemma all_gt_none k (r : smap A) : all_gt k r -> mget k r = None.
  Proof. intros G. apply mget_none_iff. intros I. apply G in I. rewrite sltb_irrefl in I. discriminate. Qed.

  Lemma head_missing k1 k2 (v2 : A) r2 : String.ltb k1 k2 = true -> all_gt k2 r2 -> mget k1 ((k2, v2) :: r2) = None.
  Proof.
    intros L G. cbn [mget]. destruct (String.eqb k1 k2) eqn:E.
    - apply String.eqb_eq in E. subst. rewrite sltb_irrefl in L. discriminate.
    - apply mget_none_iff. intros I. apply G in I. apply sltb_asym in I. congruence.
  Qed.

  (** two canonical maps with the same lookups are equal *)
  Theorem msorted_ext : forall m1 m2 : smap A,
    msorted m1 = true -> msorted m2 = true -> (forall k, mget k m1 = mget k m2) -> m1 = m2.
  Proof.
    induction m1 as [|[k1 v1] r1 IH]; intros [|[k2 v2] r2] S1 S2 E.
    - reflexivity.
    - specialize (E k2). cbn [mget] in E. rewrite String.eqb_refl in E. discriminate.
    - specialize (E k1). cbn [mget] in E. rewrite String.eqb_refl in E. discriminate.
    - destruct (msorted_tail_gt _ _ _ S1) as [S1' G1]. destruct (msorted_tail_gt _ _ _ S2) as [S2' G2].
      destruct (sltb_tricho k1 k2) as [L|[->|L]].
      + pose proof (E k1) as E1. rewrite (head_missing _ _ _ _ L G2) in E1.
        cbn [mget] in E1. rewrite String.eqb_refl in E1. discriminate.
      + pose proof (E k2) as E1. cbn [mget] in E1. rewrite String.eqb_refl in E1. injection E1 as ->.
        f_equal. apply IH; [exact S1'|exact S2'|]. intros k. destruct (String.eqb k k2) eqn:Ek.
        * apply String.eqb_eq in Ek. subst. now rewrite !all_gt_none.
        * specialize (E k). cbn [mget] in E. now rewrite Ek in E.
      + pose proof (E k2) as E1. rewrite (head_missing _ _ _ _ L G1) in E1.
        cbn [mget] in E1. rewrite String.eqb_refl in E1. discriminate.
  Qed.

  (** plain folds of [mset] *)
  Section Fold.
    Context {X : Type} (f : X -> string) (g : X -> A).
    Definition fstep (m : smap A) (x : X) : smap A := mset (f x) (g x) m.

    Lemma fold_mset_get K : forall l acc,
      mget K (fold_left fstep l acc) =
      match find (fun x => String.eqb (f x) K) (rev l) with Some x => Some (g x) | None => mget K acc end.
    Proof.
      induction l as [|a l' IH] using rev_ind; intros acc; [reflexivity|].
      rewrite fold_left_app, rev_app_distr. cbn [fold_left rev app find]. unfold fstep at 1.
      rewrite mget_mset, String.eqb_sym. destruct (String.eqb (f a) K); [reflexivity|apply IH].
    Qed.

    Lemma fold_mset_some K l acc v : mget K (fold_left fstep l acc) = Some v ->
      (exists x, In x l /\ f x = K /\ g x = v) \/ mget K acc = Some v.
    Proof.
      rewrite fold_mset_get. destruct (find _ (rev l)) as [x|] eqn:F; [|now right].
      apply find_some in F as [I E]. apply String.eqb_eq in E. apply in_rev in I.
      intros [= <-]. left. now exists x.
    Qed.

    Lemma fold_mset_in K l acc x : In x l -> f x = K ->
      exists x', In x' l /\ f x' = K /\ mget K (fold_left fstep l acc) = Some (g x').
    Proof.
      intros I E. rewrite fold_mset_get. destruct (find _ (rev l)) as [x'|] eqn:F.
      - apply find_some in F as [I' E']. apply String.eqb_eq in E'. apply in_rev in I'. now exists x'.
      - exfalso. apply in_rev in I. pose proof (find_none _ _ F x I) as H. cbv beta in H.
        rewrite E, String.eqb_refl in H. discriminate.
    Qed.

    Lemma fold_mset_entries K v : forall l acc, In (K, v) (fold_left fstep l acc) ->
      (exists x, In x l /\ f x = K /\ g x = v) \/ In (K, v) acc.
    Proof.
      induction l as [|a r IH]; intros acc H; cbn [fold_left] in H; [now right|].
      apply IH in H as [(x & I & E1 & E2)|H].
      - left. exists x. split; [now right|now split].
      - unfold fstep in H. apply mset_in in H as [[-> ->]|H]; [|now right].
        left. exists a. split; [now left|now split].
    Qed.

    Lemma fold_mset_msorted : forall l acc, msorted acc = true -> msorted (fold_left fstep l acc) = true.
    Proof.
      induction l as [|a r IH]; intros acc H; cbn [fold_left]; [exact H|]. apply IH. now apply mset_msorted.
    Qed.
  End Fold.
End CanonicalMaps.

Lemma option_ext {A} (o1 o2 : option A) : (forall v, o1 = Some v <-> o2 = Some v) -> o1 = o2.
Proof.
  intros H. destruct o1 as [a|], o2 as [b|]; try reflexivity.
  - symmetry. now apply H.
  - symmetry. now apply H.
  - now apply H.
Qed.

(** *** keys and subsets *)
Lemma key_perm (a b : list string) : Permutation a b -> criterion_key a = criterion_key b.
Proof.
  intros P. unfold criterion_key, str_sort. f_equal. apply isort_perm_invariant.
  - intros x y z. unfold SortFacts.le. apply snlt_trans.
  - intros x y. unfold SortFacts.le. apply sltb_asym.
  - intros x y _ _. unfold SortFacts.le. intros A B.
    destruct (sltb_tricho x y) as [T|[T|T]]; [congruence|exact T|congruence].
  - exact P.
Qed.

Lemma str_sort_nonempty (l : list string) : l <> [] -> str_sort l <> [].
Proof.
  intros H C. apply (f_equal (@List.length string)) in C. unfold str_sort in C.
  rewrite isort_length in C. destruct l; [congruence|discriminate].
Qed.

Lemma str_sort_nocomma (l : list string) : Forall nocomma l -> Forall nocomma (str_sort l).
Proof. unfold str_sort. rewrite !Forall_forall. intros H x Hx. apply H. now apply isort_in in Hx. Qed.

Lemma contained_key (l : list string) : l <> [] -> Forall nocomma l ->
  contained_criteria (criterion_key l) = str_sort l.
Proof.
  intros Hne Hall. unfold criterion_key, contained_criteria.
  apply split_join; [now apply str_sort_nonempty|now apply str_sort_nocomma].
Qed.

Lemma key_inj (a b : list string) : a <> [] -> b <> [] -> Forall nocomma a -> Forall nocomma b ->
  criterion_key a = criterion_key b -> Permutation a b.
Proof.
  intros Ha Hb Na Nb E. apply (f_equal contained_criteria) in E.
  rewrite !contained_key in E by assumption. unfold str_sort in E.
  rewrite <- (isort_perm String.ltb a), E. apply isort_perm.
Qed.

Lemma parts_nonempty k : contained_criteria k <> [].
Proof. unfold contained_criteria, split_on. apply split_aux_nonempty. Qed.

Lemma parts_nocomma k : Forall nocomma (contained_criteria k).
Proof. unfold contained_criteria, split_on. apply split_aux_nocomma. exact I. Qed.

Lemma ps_all_sublist : forall (l s : list string), In s (power_set_all l) -> sublist s l.
Proof.
  induction l as [|x r IH]; intros s H; cbn [power_set_all] in H.
  - destruct H as [<-|[]]. constructor.
  - apply in_flat_map in H as (t & Ht & [<-|[<-|[]]]); [apply sl_skip|apply sl_keep]; now apply IH.
Qed.

Lemma ps_sublist (l s : list string) : In s (power_set l) -> s <> [] /\ sublist s l.
Proof.
  unfold power_set. intros H. apply filter_In in H as [H1 H2]. split; [|now apply ps_all_sublist].
  destruct s; [discriminate|discriminate].
Qed.

Lemma sublist_incl {A} (s l : list A) : sublist s l -> incl s l.
Proof.
  induction 1 as [|x s l _ IH|x s l _ IH]; intros y Hy.
  - exact Hy.
  - right. now apply IH.
  - destruct Hy as [<-|Hy]; [now left|right; now apply IH].
Qed.

Lemma sublist_NoDup {A} (s l : list A) : sublist s l -> NoDup l -> NoDup s.
Proof.
  induction 1 as [|x s l _ IH|x s l Hs IH]; intros ND.
  - exact ND.
  - inversion ND; subst. now apply IH.
  - inversion ND as [|? ? Hn ND']; subst. constructor; [|now apply IH].
    intros I. apply Hn. now apply (sublist_incl _ _ Hs).
Qed.

Lemma filter_sublist {A} (p : A -> bool) (l : list A) : sublist (filter p l) l.
Proof.
  induction l as [|x r IH]; cbn [filter]; [constructor|].
  destruct (p x); [now apply sl_keep|now apply sl_skip].
Qed.

(* a duplicate-free list inside [L] is, up to order, a sublist of [L] *)
Lemma perm_sub (p L : list string) : NoDup L -> NoDup p -> incl p L ->
  exists s, sublist s L /\ Permutation s p.
Proof.
  intros NL Np Hin. exists (filter (fun x => mem_str x p) L). split; [apply filter_sublist|].
  apply NoDup_Permutation; [now apply NoDup_filter|exact Np|].
  intros x. rewrite filter_In, mem_str_In. split; [tauto|]. intros I. split; [now apply Hin|exact I].
Qed.

Lemma perm_nonempty {A} (a b : list A) : Permutation a b -> b <> [] -> a <> [].
Proof. intros P Hb ->. apply Permutation_nil in P. congruence. Qed.

Lemma key_of_subset (p L : list string) : NoDup L -> NoDup p -> incl p L -> p <> [] ->
  exists s, In s (power_set L) /\ criterion_key s = criterion_key p.
Proof.
  intros NL Np Hin Hne. destruct (perm_sub p L NL Np Hin) as (s & Hs & P).
  exists s. split; [|now apply key_perm].
  apply sublist_power_set; [exact (perm_nonempty _ _ P Hne)|exact Hs].
Qed.

Section Choquet.
  Context {N : Num}.

  Definition nk (k : string) : string := criterion_key (contained_criteria k).
  Definition nkf (kv : string * num) : string := nk (fst kv).
  Definition nfold (l : list (string * num)) (acc : smap num) : smap num := fold_left (fstep nkf snd) l acc.
  Definition range01 (v : num) : bool := negb (nltb v nzero || nltb none v).

  Lemma nfold_some K l acc v : mget K (nfold l acc) = Some v ->
    (exists x, In x l /\ nkf x = K /\ snd x = v) \/ mget K acc = Some v.
  Proof. apply fold_mset_some. Qed.
  Lemma nfold_in K l acc x : In x l -> nkf x = K ->
    exists x', In x' l /\ nkf x' = K /\ mget K (nfold l acc) = Some (snd x').
  Proof. apply fold_mset_in. Qed.
  Lemma nfold_entries K v l acc : In (K, v) (nfold l acc) ->
    (exists x, In x l /\ nkf x = K /\ snd x = v) \/ In (K, v) acc.
  Proof. apply fold_mset_entries. Qed.

  Lemma nk_idem k : nk (nk k) = nk k.
  Proof. exact (normalised_is_normal k). Qed.

  Lemma mhas_mset (k2 k : string) (v : num) m : mhas k2 (mset k v m) = String.eqb k2 k || mhas k2 m.
  Proof. unfold mhas. rewrite mget_mset. destruct (String.eqb k2 k); reflexivity. Qed.

  Lemma remap_spec : forall w acc nw, remap_weights w acc = Ok nw ->
    nw = nfold w acc /\ NoDup (map nkf w) /\ forall kv, In kv w -> mhas (nkf kv) acc = false.
  Proof.
    induction w as [|[k v] r IH]; intros acc nw H; cbn [remap_weights] in H.
    - injection H as <-. split; [reflexivity|]. split; [constructor|intros kv []].
    - cbv zeta in H. change (criterion_key (contained_criteria k)) with (nk k) in H.
      destruct (mhas (nk k) acc) eqn:M; [discriminate|].
      apply IH in H as (E & ND & Hm). split; [exact E|].
      assert (Hk : ~ In (nk k) (map nkf r)).
      { intros I. apply in_map_iff in I as (kv & E' & I). specialize (Hm kv I). rewrite mhas_mset in Hm.
        rewrite E', String.eqb_refl in Hm. discriminate. }
      split; [cbn [map]; constructor; assumption|].
      intros kv [<-|I]; [exact M|]. specialize (Hm kv I). rewrite mhas_mset in Hm.
      apply orb_false_elim in Hm. tauto.
  Qed.

  Lemma remap_complete : forall w acc, NoDup (map nkf w) -> (forall kv, In kv w -> mhas (nkf kv) acc = false) ->
    remap_weights w acc = Ok (nfold w acc).
  Proof.
    induction w as [|[k v] r IH]; intros acc ND Hm; cbn [remap_weights]; [reflexivity|].
    cbv zeta. change (criterion_key (contained_criteria k)) with (nk k).
    cbn [map] in ND. inversion ND as [|? ? Hk ND']; subst.
    assert (M : mhas (nk k) acc = false) by exact (Hm (k, v) (or_introl eq_refl)).
    rewrite M. apply IH; [exact ND'|].
    intros kv I. rewrite mhas_mset. rewrite (Hm kv (or_intror I)), orb_false_r.
    apply String.eqb_neq. intros E. apply Hk. change (nk k) with (nkf (k, v)). unfold nkf at 1. cbn [fst].
    rewrite <- E. now apply in_map.
  Qed.

  Definition entry_ok (names : list string) (kv : string * num) : Prop :=
    forallb (fun p => mem_str p names) (contained_criteria (fst kv)) = true /\ range01 (snd kv) = true.

  Lemma prep_spec names : forall l acc pw, prepare_weights l names acc = Ok pw ->
    pw = nfold l acc /\ forall kv, In kv l -> entry_ok names kv.
  Proof.
    induction l as [|[k v] r IH]; intros acc pw H; cbn [prepare_weights] in H.
    - injection H as <-. split; [reflexivity|intros kv []].
    - cbv zeta in H.
      destruct (forallb (fun p => mem_str p names) (contained_criteria k)) eqn:F; cbn [negb] in H; [|discriminate].
      destruct (nltb v nzero || nltb none v) eqn:R; [discriminate|].
      apply IH in H as (E & Hr). split; [exact E|].
      intros kv [<-|I]; [|now apply Hr]. split; [exact F|]. unfold range01. cbn [snd]. now rewrite R.
  Qed.

  Lemma prep_complete names : forall l acc, (forall kv, In kv l -> entry_ok names kv) ->
    prepare_weights l names acc = Ok (nfold l acc).
  Proof.
    induction l as [|[k v] r IH]; intros acc H; cbn [prepare_weights]; [reflexivity|].
    cbv zeta. destruct (H (k, v) (or_introl eq_refl)) as [F R]. cbn [fst snd] in F, R.
    rewrite F. cbn [negb]. unfold range01 in R. apply negb_true_iff in R. rewrite R.
    apply IH. intros kv I. apply H. now right.
  Qed.

  Section Main.
    Variables (cs kept : list crit) (w pw A : smap num).
    Let names := map c_id cs.
    Let knames := map c_id kept.
    Hypothesis NDc : NoDup names.
    Hypothesis NCc : Forall nocomma names.
    Hypothesis NDk : NoDup knames.
    Hypothesis Hin : incl kept cs.
    Hypothesis H0 : choquet_parse_weights cs w = Ok pw.
    Hypothesis H1 : fold_left (fun acc s => do m <- acc; do v <- union_weight s pw; Ok (mset (criterion_key s) v m))
                              (power_set knames) (Ok []) = Ok A.

    Let pass (kv : string * num) : bool := choquet_key_kept kept (fst kv).
    Let w' := filter pass w.

    Lemma kin : incl knames names.
    Proof. intros x I. apply in_map_iff in I as (c & <- & I). apply in_map. now apply Hin. Qed.

    Lemma H0_parts : all_gain cs = true /\ NoDup (map nkf w)
      /\ (forall t, In t (power_set names) -> exists v, mget (criterion_key t) (nfold w []) = Some v)
      /\ pw = nfold (nfold w []) [] /\ (forall kv, In kv (nfold w []) -> entry_ok names kv).
    Proof.
      pose proof H0 as H. unfold choquet_parse_weights in H.
      destruct (all_gain cs); cbn [negb] in H; [|discriminate]. split; [reflexivity|].
      apply bind_ok in H as (nw & Hnw & H). apply bind_ok in H as (ys & Hys & H).
      apply remap_spec in Hnw as (-> & ND & _). split; [exact ND|].
      apply prep_spec in H as (E & Hr). split; [|split; [exact E|exact Hr]].
      intros t It. destruct (rd_mapM_ok_in _ _ _ t Hys It) as (y & Hy). unfold union_weight in Hy.
      apply of_option_ok in Hy. eauto.
    Qed.

    Local Notation nw := (nfold w []).

    Lemma w_uniq k v k' v' : In (k, v) w -> In (k', v') w -> nk k = nk k' -> v = v'.
    Proof.
      intros I I' E. destruct H0_parts as (_ & ND & _).
      assert (X : (k, v) = (k', v')) by (apply (NoDup_map_inj nkf w); assumption). now injection X.
    Qed.

    Lemma nw_entries K v : In (K, v) nw -> exists k, In (k, v) w /\ nk k = K.
    Proof.
      intros H. apply nfold_entries in H as [((k & v') & I & E1 & E2)|[]].
      cbn [snd] in E2. subst v'. exists k. split; [exact I|exact E1].
    Qed.

    Lemma nw_get K v : mget K nw = Some v <-> exists k, In (k, v) w /\ nk k = K.
    Proof.
      split.
      - intros H. apply nfold_some in H as [((k & v') & I & E1 & E2)|H]; [|discriminate].
        cbn [snd] in E2. subst v'. exists k. split; [exact I|exact E1].
      - intros (k & I & E).
        destruct (nfold_in K w [] (k, v) I E) as ((k' & v') & I' & E' & G).
        rewrite G. cbn [snd]. f_equal. symmetry. apply (w_uniq k v k' v' I I').
        unfold nkf in E'. cbn [fst] in E'. congruence.
    Qed.

    Lemma pw_get K v : mget K pw = Some v <-> exists k, In (k, v) w /\ nk k = K.
    Proof.
      destruct H0_parts as (_ & _ & _ & Epw & _). rewrite Epw, <- nw_get. split.
      - intros H. apply nfold_some in H as [((K' & v') & I & E1 & E2)|H]; [|discriminate].
        cbn [snd] in E2. subst v'. unfold nkf in E1. cbn [fst] in E1.
        destruct (nw_entries _ _ I) as (k & Ik & Ek). apply nw_get. exists k. split; [exact Ik|].
        rewrite <- E1, <- Ek. symmetry. apply nk_idem.
      - intros H. pose proof (mget_in _ _ _ H) as I.
        destruct (nw_entries _ _ I) as (k & Ik & Ek).
        assert (EK : nkf (K, v) = K) by (unfold nkf; cbn [fst]; rewrite <- Ek; apply nk_idem).
        destruct (nfold_in K nw [] (K, v) I EK) as ((K' & v') & I' & E' & G).
        rewrite G. cbn [snd]. f_equal.
        destruct (nw_entries _ _ I') as (k' & Ik' & Ek'). unfold nkf in E'. cbn [fst] in E'.
        symmetry. apply (w_uniq k v k' v' Ik Ik'). rewrite Ek, Ek', <- E', <- Ek'. apply nk_idem.
    Qed.

    (** a key passes the filter iff it is the key of a non-empty subset of the kept criteria *)
    Lemma pass_subset k : choquet_key_kept kept k = true ->
      exists s, In s (power_set knames) /\ criterion_key s = nk k.
    Proof.
      unfold choquet_key_kept. intros H. apply andb_true_iff in H as [Hn Hf].
      apply nodup_str_NoDup in Hn. apply forallb_mem_incl in Hf.
      exact (key_of_subset _ _ NDk Hn Hf (parts_nonempty k)).
    Qed.

    Lemma knames_nocomma s : incl s knames -> Forall nocomma s.
    Proof. intros Hs. apply Forall_forall. intros x Ix. rewrite Forall_forall in NCc. apply NCc, kin, Hs, Ix. Qed.

    Lemma subset_pass s k : In s (power_set knames) -> criterion_key s = nk k -> choquet_key_kept kept k = true.
    Proof.
      intros Is E. apply ps_sublist in Is as [Hne Hs].
      pose proof (sublist_incl _ _ Hs) as Hi. pose proof (sublist_NoDup _ _ Hs NDk) as Hnd.
      assert (P : Permutation s (contained_criteria k)).
      { apply key_inj; [exact Hne|apply parts_nonempty|now apply knames_nocomma|apply parts_nocomma|exact E]. }
      unfold choquet_key_kept. apply andb_true_iff. split.
      - apply nodup_str_NoDup. exact (Permutation_NoDup P Hnd).
      - apply forallb_mem_incl. intros x Ix. apply Hi. exact (Permutation_in _ (Permutation_sym P) Ix).
    Qed.

    Definition cspec (K : string) (v : num) : Prop := exists k, In (k, v) w /\ nk k = K /\ choquet_key_kept kept k = true.

    Lemma cspec_uniq K v v' : cspec K v -> cspec K v' -> v = v'.
    Proof. intros (k & I & E & _) (k' & I' & E' & _). apply (w_uniq k v k' v' I I'). congruence. Qed.

    (** the listener's map *)
    Definition lis_inv (m : smap num) (done : list (list string)) : Prop :=
      msorted m = true
      /\ (forall K v, mget K m = Some v -> exists s, In s done /\ criterion_key s = K /\ mget K pw = Some v)
      /\ (forall s, In s done -> exists v, mget (criterion_key s) m = Some v /\ mget (criterion_key s) pw = Some v).

    Lemma lis_spec : lis_inv A (power_set knames).
    Proof.
      apply (fold_res_ind (fun m s => do v <- union_weight s pw; Ok (mset (criterion_key s) v m)) lis_inv)
        with (s0 := []) (done := []) (l := power_set knames) (fin := A).
      - intros m s0 m' done (S & I1 & I2) Hs. apply bind_ok in Hs as (v0 & Hv & Hs). injection Hs as <-.
        unfold union_weight in Hv. apply of_option_ok in Hv. split; [now apply mset_msorted|]. split.
        + intros K v. rewrite mget_mset. destruct (String.eqb K (criterion_key s0)) eqn:E.
          * apply String.eqb_eq in E. subst K. intros [= <-]. exists s0. split; [apply in_or_app; right; now left|].
            split; [reflexivity|exact Hv].
          * intros G. destruct (I1 _ _ G) as (s & Is & Es & Gs). exists s. split; [apply in_or_app; now left|].
            split; assumption.
        + intros s Is. rewrite mget_mset. apply in_app_or in Is as [Is|[<-|[]]].
          * destruct (I2 s Is) as (v & G1 & G2).
            destruct (String.eqb (criterion_key s) (criterion_key s0)) eqn:E.
            -- apply String.eqb_eq in E. exists v0. split; [reflexivity|]. now rewrite E.
            -- exists v. split; assumption.
          * rewrite String.eqb_refl. exists v0. split; [reflexivity|exact Hv].
      - split; [reflexivity|]. split; [intros K v; discriminate|intros s []].
      - exact H1.
    Qed.

    Lemma A_get K v : mget K A = Some v <-> cspec K v.
    Proof.
      destruct lis_spec as (_ & I1 & I2). split.
      - intros G. destruct (I1 _ _ G) as (s & Is & Es & Gp). apply pw_get in Gp as (k & Ik & Ek).
        exists k. split; [exact Ik|]. split; [exact Ek|]. apply (subset_pass s); [exact Is|congruence].
      - intros (k & Ik & Ek & Hp). destruct (pass_subset k Hp) as (s & Is & Es).
        destruct (I2 s Is) as (v' & G1 & G2). rewrite Es, Ek in G1, G2. rewrite G1. f_equal.
        apply pw_get in G2 as (k' & Ik' & Ek'). symmetry. apply (w_uniq k v k' v' Ik Ik'). congruence.
    Qed.

    (** the reduced side *)
    Local Notation nw' := (nfold w' []).

    Lemma w'_in k v : In (k, v) w' <-> In (k, v) w /\ choquet_key_kept kept k = true.
    Proof. unfold w'. rewrite filter_In. reflexivity. Qed.

    Lemma nw'_entries K v : In (K, v) nw' -> cspec K v.
    Proof.
      intros H. apply nfold_entries in H as [((k & v') & I & E1 & E2)|[]].
      cbn [snd] in E2. subst v'. apply w'_in in I as [I Hp]. exists k. split; [exact I|]. split; [exact E1|exact Hp].
    Qed.

    Lemma nw'_get K v : cspec K v -> mget K nw' = Some v.
    Proof.
      intros (k & I & E & Hp). assert (I' : In (k, v) w') by (apply w'_in; now split).
      destruct (nfold_in K w' [] (k, v) I' E) as ((k2 & v2) & I2 & E2 & G).
      rewrite G. cbn [snd]. f_equal. apply w'_in in I2 as [I2 _].
      symmetry. apply (w_uniq k v k2 v2 I I2). unfold nkf in E2. cbn [fst] in E2. congruence.
    Qed.

    Lemma cspec_key_normal K v : cspec K v -> nk K = K.
    Proof. intros (k & _ & <- & _). apply nk_idem. Qed.

    Lemma B_get K v : mget K (nfold nw' []) = Some v <-> cspec K v.
    Proof.
      split.
      - intros H. apply nfold_some in H as [((K' & v') & I & E1 & E2)|H]; [|discriminate].
        cbn [snd] in E2. subst v'. unfold nkf in E1. cbn [fst] in E1.
        apply nw'_entries in I. now rewrite <- E1, (cspec_key_normal _ _ I).
      - intros C. pose proof (mget_in _ _ _ (nw'_get _ _ C)) as I.
        assert (EK : nkf (K, v) = K) by (unfold nkf; cbn [fst]; exact (cspec_key_normal _ _ C)).
        destruct (nfold_in K nw' [] (K, v) I EK) as ((K2 & v2) & I2 & E2 & G).
        rewrite G. cbn [snd]. f_equal. apply nw'_entries in I2.
        unfold nkf in E2. cbn [fst] in E2. rewrite (cspec_key_normal _ _ I2) in E2. subst K2.
        exact (cspec_uniq _ _ _ I2 C).
    Qed.

    Lemma all_gain_kept : all_gain kept = true.
    Proof.
      destruct H0_parts as (G & _). unfold all_gain in *. rewrite forallb_forall in *.
      intros c I. apply G. now apply Hin.
    Qed.

    Lemma subsets_present s : In s (power_set knames) -> exists v, mget (criterion_key s) nw' = Some v.
    Proof.
      intros Is. pose proof Is as Is'. apply ps_sublist in Is' as [Hne Hs].
      pose proof (sublist_incl _ _ Hs) as Hi. pose proof (sublist_NoDup _ _ Hs NDk) as Hnd.
      destruct (key_of_subset s names NDc Hnd (fun x Ix => kin x (Hi x Ix)) Hne) as (t & It & Et).
      destruct H0_parts as (_ & _ & Hps & _). destruct (Hps t It) as (v & G).
      rewrite Et in G. apply nw_get in G as (k & Ik & Ek).
      exists v. apply nw'_get. exists k. split; [exact Ik|]. split; [exact Ek|].
      apply (subset_pass s); [exact Is|congruence].
    Qed.

    Lemma nw'_entry_ok kv : In kv nw' -> entry_ok knames kv.
    Proof.
      destruct kv as [K v]. intros I. apply nw'_entries in I as (k & Ik & Ek & Hp). split.
      - cbn [fst]. apply forallb_mem_incl. rewrite <- Ek. unfold nk.
        rewrite contained_key by (apply parts_nonempty || apply parts_nocomma).
        unfold choquet_key_kept in Hp. apply andb_true_iff in Hp as [_ Hf]. apply forallb_mem_incl in Hf.
        intros x Ix. apply Hf. unfold str_sort in Ix. now apply isort_in in Ix.
      - cbn [snd]. destruct H0_parts as (_ & _ & _ & _ & Hr).
        assert (G : mget K nw = Some v) by (apply nw_get; now exists k).
        apply mget_in in G. exact (proj2 (Hr _ G)).
    Qed.

    Theorem choquet_weights_reduced : choquet_parse_weights kept w' = Ok A.
    Proof.
      unfold choquet_parse_weights. rewrite all_gain_kept. cbn [negb].
      rewrite remap_complete.
      2:{ unfold w'. apply NoDup_map_filter. now destruct H0_parts as (_ & ND & _). }
      2:{ intros kv _. reflexivity. }
      cbn [bind].
      destruct (rd_mapM_all_ok (fun s => union_weight s nw') (power_set (map c_id kept))) as (ys & ->).
      { intros s Is. destruct (subsets_present s Is) as (v & G). exists v. unfold union_weight. now rewrite G. }
      cbn [bind]. rewrite (prep_complete _ _ _ nw'_entry_ok). f_equal.
      apply msorted_ext.
      - unfold nfold. now apply fold_mset_msorted.
      - now destruct lis_spec.
      - intros K. apply option_ext. intros v. now rewrite B_get, A_get.
    Qed.
  End Main.
End Choquet.

Section ChoquetState.
  Context {N : Num}.

  (* criterion ids are comma-free (the capacity keys are comma-separated lists of ids) *)
  Definition comma_free (req : request) : Prop := Forall nocomma (map c_id (r_crits req)).

  Lemma parse_reduce_choquet req : r_method req = m_choquet -> comma_free req -> parse_reduced_ok req.
  Proof.
    intros Hm NC kept P0 P1 ND NDk Hin H0 H1. rewrite parse_choquet in H0 by exact Hm.
    rewrite (parse_choquet (reduce req kept)) by exact Hm.
    unfold choquet_parse, extract_weights in *. cbn [reduce r_crits r_mp restrict_raw rp_weights].
    destruct (rp_weights (r_mp req)) as [w|]; cbn [of_option bind option_map] in *; [|discriminate].
    apply bind_ok in H0 as (pw & Hpw & H0). injection H0 as <-.
    cbn [on_criteria_removed] in H1. apply bind_ok in H1 as (A & HA & H1). injection H1 as <-.
    unfold restrict_weights. rewrite Hm. change (String.eqb m_choquet m_choquet) with true. cbv iota.
    rewrite (choquet_weights_reduced _ kept w pw A ND NC NDk Hin Hpw HA). reflexivity.
  Qed.

  (** the capacities after the omission are exactly those [prepare] computes from the raw capacities
      of the subsets of the kept criteria *)
  Theorem omission_state_reduced_choquet e req st0 p st1 rep :
    r_method req = m_choquet -> comma_free req ->
    prepare req = Ok st0 -> apply_omission e st0 p = Ok (st1, rep) ->
    prepare (reduce req (st_crits st1)) = Ok st1.
  Proof. intros Hm NC. apply omission_state_reduced_of_parse. now apply parse_reduce_choquet. Qed.

  Theorem omit_equals_reduced_choquet e req b st0 st1 rep x g' :
    r_method req = m_choquet -> comma_free req ->
    enabled_biases req = [b] -> b_name b = b_omission ->
    prepare req = Ok st0 ->
    new_rng e (r_seed req) = x :: g' -> nltb x (b_prob b) = true ->
    apply_omission e st0 (b_props b) = Ok (st1, rep) ->
    result_of (decide e req) = result_of (decide e (reduce req (st_crits st1))).
  Proof.
    intros Hm NC He Hn Hp Hg Hx Ho.
    exact (omit_equals_reduced_state _ _ _ _ _ _ _ _ He Hn Hp Hg Hx Ho
             (omission_state_reduced_choquet _ _ _ _ _ _ Hm NC Hp Ho)).
  Qed.

  Theorem omit_equals_reduced_choquet_more e e' req b rest st0 st1 rep x g' :
    r_method req = m_choquet -> comma_free req ->
    enabled_biases req = b :: rest -> b_name b = b_omission ->
    prepare req = Ok st0 ->
    new_rng e (r_seed req) = x :: g' -> nltb x (b_prob b) = true ->
    apply_omission e st0 (b_props b) = Ok (st1, rep) ->
    new_rng e' (r_seed req) = tl (new_rng e (r_seed req)) ->
    process_biases e' rest st1 g' = process_biases e rest st1 g' ->
    (forall sfin echoes, process_biases e rest st1 g' = Ok (sfin, echoes) ->
                         evaluate (r_method req) e' sfin = evaluate (r_method req) e sfin) ->
    result_of (decide e req) = result_of (decide e' (reduce req (st_crits st1))).
  Proof.
    intros Hm NC He Hn Hp Hg Hx Ho. apply (omit_equals_reduced_env _ _ _ _ _ _ _ _ _ _ He Hn Hp Hg Hx Ho).
    exact (omission_state_reduced_choquet _ _ _ _ _ _ Hm NC Hp Ho).
  Qed.
End ChoquetState.

(** ** 11. Further enabled biases after the omission, same environment: the reduced request gets a
       bias-apply seed whose stream is the tail of the original one (the omission consumed one draw) *)
Section DecideSeed.
  Context {N : Num}.

  Definition with_seed (r : request) (z : Z) : request :=
    {| r_method := r_method r; r_biases := r_biases r; r_seed := z; r_known := r_known r;
       r_chose := r_chose r; r_crits := r_crits r; r_mp := r_mp r |}.

  Lemma prepare_with_seed r z : prepare (with_seed r z) = prepare r.
  Proof. reflexivity. Qed.

  Lemma biased_state_with_seed e r z :
    biased_state e (with_seed r z) =
    (do st <- prepare r;
     let bs := enabled_biases r in
     if negb (forallb (fun b => mem_str (b_name b) bias_names) bs) then Err EInvalid else
     match bs with [] => Ok (st, []) | _ => process_biases e bs st (new_rng e z) end).
  Proof. reflexivity. Qed.

  Theorem omit_equals_reduced_seed_state e req b rest st0 st1 rep x g' z :
    enabled_biases req = b :: rest -> b_name b = b_omission ->
    prepare req = Ok st0 ->
    new_rng e (r_seed req) = x :: g' -> nltb x (b_prob b) = true ->
    apply_omission e st0 (b_props b) = Ok (st1, rep) ->
    prepare (reduce req (st_crits st1)) = Ok st1 ->
    new_rng e z = tl (new_rng e (r_seed req)) ->
    result_of (decide e req) = result_of (decide e (with_seed (reduce req (st_crits st1)) z)).
  Proof.
    intros He Hn Hp Hg Hx Ho Hr Hz. unfold decide.
    rewrite Hg in Hz. cbn [tl] in Hz.
    rewrite (biased_state_omission_first _ _ _ _ _ _ _ _ _ He Hn Hp Hg Hx Ho).
    rewrite biased_state_with_seed, Hr. cbn [bind]. rewrite enabled_reduce, He. cbn [tl]. cbv zeta.
    destruct (negb (forallb (fun b0 => mem_str (b_name b0) bias_names) rest)); [reflexivity|].
    rewrite Hz.
    assert (E : match rest with [] => Ok (st1, []) | _ :: _ => process_biases e rest st1 g' end
                = process_biases e rest st1 g') by (now destruct rest).
    rewrite E. destruct (process_biases e rest st1 g') as [[sfin echoes]|c]; [|reflexivity].
    cbn [bind fst snd]. change (r_method (with_seed (reduce req (st_crits st1)) z)) with (r_method req).
    now destruct (evaluate (r_method req) e sfin).
  Qed.

  (* all methods for which the omission state is the state of the reduced request *)
  Definition exact_restriction (req : request) : Prop :=
    plain_restriction req \/ (r_method req = m_choquet /\ comma_free req).

  Lemma exact_restriction_ok req : exact_restriction req -> parse_reduced_ok req.
  Proof. intros [H|[H C]]; [now apply plain_restriction_ok|now apply parse_reduce_choquet]. Qed.

  Theorem omission_state_reduced_exact e req st0 p st1 rep :
    exact_restriction req ->
    prepare req = Ok st0 -> apply_omission e st0 p = Ok (st1, rep) ->
    prepare (reduce req (st_crits st1)) = Ok st1.
  Proof. intros H. apply omission_state_reduced_of_parse. now apply exact_restriction_ok. Qed.

  Theorem omit_equals_reduced_seed e req b rest st0 st1 rep x g' z :
    exact_restriction req ->
    enabled_biases req = b :: rest -> b_name b = b_omission ->
    prepare req = Ok st0 ->
    new_rng e (r_seed req) = x :: g' -> nltb x (b_prob b) = true ->
    apply_omission e st0 (b_props b) = Ok (st1, rep) ->
    new_rng e z = tl (new_rng e (r_seed req)) ->
    result_of (decide e req) = result_of (decide e (with_seed (reduce req (st_crits st1)) z)).
  Proof.
    intros Hex He Hn Hp Hg Hx Ho.
    apply (omit_equals_reduced_seed_state _ _ _ _ _ _ _ _ _ _ He Hn Hp Hg Hx Ho).
    exact (omission_state_reduced_exact _ _ _ _ _ _ Hex Hp Ho).
  Qed.

  (** the method reads the environment only through the stream of its own seed *)
  Definition params_seed (p : mparams) : option Z :=
    match p with
    | PMajority _ _ seed _ _ | PAspect _ _ seed _ _ | PSatisf _ _ seed _ _ => Some seed
    | _ => None
    end.

  Lemma evaluate_env_agree m e e' (s : state) :
    (forall z, params_seed (st_params s) = Some z -> new_rng e' z = new_rng e z) ->
    evaluate m e' s = evaluate m e s.
  Proof.
    intros H. unfold evaluate.
    destruct (String.eqb m m_ws || String.eqb m m_owa || String.eqb m m_choquet); [reflexivity|].
    destruct (String.eqb m m_electre); [reflexivity|].
    destruct (String.eqb m m_majority).
    { unfold majority_evaluate. destruct (st_params s); try reflexivity. now rewrite (H seed eq_refl). }
    destruct (String.eqb m m_aspect).
    { unfold aspect_evaluate. destruct (st_params s); try reflexivity. now rewrite (H seed eq_refl). }
    destruct (String.eqb m m_satisfaction); [|reflexivity].
    unfold satisfaction_evaluate. destruct (st_params s); try reflexivity. now rewrite (H seed eq_refl).
  Qed.
End DecideSeed.

(** ** 12. Concrete runs on [NumQc]: the hypotheses are satisfiable, and the places where plain
       (Leibniz) equality of the states fails *)
Module ReducedExamples.
  Definition q (a : Z) (b : positive) : Qc := Q2Qc (a # b).
  Definition cr (id : string) : @crit NumQc := {| c_id := id; c_type := TGain; c_range := None |}.
  Definition al (ids : list string) (id : string) (vs : list Z) : @alt NumQc :=
    {| a_id := id; a_vals := mof_list (zip ids (map (fun v => q v 1) vs)) |}.
  Definition lp_of (ths : list (smap Qc)) : @lparams NumQc :=
    {| lp_coef := q 1 4; lp_max := q 3 4; lp_min := q 1 4; lp_ths := ths |}.
  Definition fp0 : @fparams NumQc := {| fp_name := ""; fp_a := q 0 1; fp_b := q 0 1; fp_alpha := q 0 1; fp_mult := q 0 1 |}.
  (* omit the weakest third of the criteria *)
  Definition props : @bprops NumQc :=
    {| bp_ordering := "weakest"; bp_ratio := q 1 3; bp_min := 0; bp_max := 3; bp_seed := 0;
       bp_scaling := q 1 1; bp_nonneg := false; bp_ref_type := ""; bp_ref_importance := q 0 1; bp_ref_seed := 0;
       bp_new_scaling := q 1 1; bp_mix_ratio := q 1 2; bp_fat_function := ""; bp_fat_value := q 0 1;
       bp_fat_alpha := q 0 1; bp_fat_mult := q 0 1; bp_fat_query := 0; bp_anch_alts := [];
       bp_anch_loss := fp0; bp_anch_gain := fp0; bp_anch_ref := ""; bp_anch_applier := ""; bp_anch_not_considered := false |}.
  Definition om : @biasreq NumQc := {| b_name := b_omission; b_disabled := false; b_prob := q 1 1; b_props := props |}.
  Definition rp (fn : string) (ths : list (smap Qc)) (w : smap Qc) : @rawparams NumQc :=
    {| rp_weights := Some w; rp_electre := None; rp_dist := None; rp_current := ""; rp_seed := 0;
       rp_random_order := false; rp_draw := ""; rp_function := fn; rp_lparams := lp_of ths |}.
  Definition rq (ids : list string) (m fn : string) ths w : @request NumQc :=
    {| r_method := m; r_biases := [om]; r_seed := 7;
       r_known := [al ids "x" [1; 5; 3]; al ids "y" [2; 1; 4]; al ids "z" [3; 2; 1]]%Z; r_chose := ["x"; "y"; "z"];
       r_crits := map cr ids; r_mp := rp fn ths w |}.
  Definition env0 : @env NumQc := {| env_streams := [(7%Z, [q 1 2; q 1 3])]; env_exp := [] |}.
  Definition abc := ["a"; "b"; "c"].

  (* kept ids; do the states agree; do the rankings agree *)
  Definition run (req : @request NumQc) : option (list string * bool * bool) :=
    match prepare req with
    | Ok st0 =>
        match apply_omission env0 st0 props with
        | Ok (st1, _) =>
            let red := reduce req (st_crits st1) in
            Some (map c_id (st_crits st1),
                  match prepare red with Ok st1' => state_same st1 st1' | Err _ => false end,
                  match decide env0 req, decide env0 red with
                  | Ok r, Ok r' => list_eqb entry_same (resp_result r) (resp_result r')
                  | _, _ => false
                  end)
        | Err _ => None
        end
    | Err _ => None
    end.

  Definition wts : smap Qc := [("a", q 1 2); ("b", q 1 5); ("c", q 3 10)].
  Example run_ws : run (rq abc m_ws "" [] wts) = Some (["c"; "a"], true, true).
  Proof. vm_compute. reflexivity. Qed.
  Example run_majority : run (rq abc m_majority "" [] wts) = Some (["c"; "a"], true, true).
  Proof. vm_compute. reflexivity. Qed.

  (** OWA: the listener keeps (b, 1/5), (c, 1/10) in the order of the kept criteria, the reduced
      request sorts them: the states differ (only) there, the rankings agree *)
  Definition owts : smap Qc := [("a", q 1 2); ("b", q 1 5); ("c", q 1 10)].
  Example owa_states_differ : run (rq abc m_owa "" [] owts) = Some (["b"; "c"], false, true).
  Proof. vm_compute. reflexivity. Qed.

  (** a generated level function next to thresholds nobody reads: the listener leaves them, the
      reduced request restricts them *)
  Definition junk : list (smap Qc) := [[("a", q 1 1); ("b", q 1 1); ("c", q 1 1)]].
  Example aspect_generated_states_differ : run (rq abc m_aspect lv_mul junk wts) = Some (["c"; "a"], false, true).
  Proof. vm_compute. reflexivity. Qed.
  Example aspect_thresholds_equal : run (rq abc m_aspect lv_thresholds junk wts) = Some (["c"; "a"], true, true).
  Proof. vm_compute. reflexivity. Qed.

  (** Choquet: raw keys in any order of their parts, a superfluous key with a repeated part *)
  Definition cwts : smap Qc :=
    [("a", q 1 10); ("b", q 2 10); ("c", q 3 10); ("b,a", q 4 10); ("c,a", q 5 10); ("b,c", q 6 10);
     ("c,a,b", q 1 1); ("b,b", q 1 2)].
  Example run_choquet : run (rq abc m_choquet "" [] cwts) = Some (["b"; "c"], true, true).
  Proof. vm_compute. reflexivity. Qed.

  (** Choquet with a comma inside a criterion id ([comma_free] fails): the key "x,y" is both the
      criterion "x,y" and the pair {x, y}; after x is omitted the reduced request is rejected *)
  Definition xy := ["x"; "y"; "x,y"].
  Definition cwts_comma : smap Qc :=
    [("x", q 1 10); ("y", q 2 10); ("x,y", q 3 10); ("x,x,y", q 4 10); ("x,y,y", q 5 10); ("x,x,y,y", q 1 1)].
  Example choquet_comma_refuted :
    match prepare (rq xy m_choquet "" [] cwts_comma) with
    | Ok st0 =>
        match apply_omission env0 st0 props with
        | Ok (st1, _) =>
            (map c_id (st_crits st1),
             is_ok (decide env0 (rq xy m_choquet "" [] cwts_comma)),
             match prepare (reduce (rq xy m_choquet "" [] cwts_comma) (st_crits st1)) with
             | Err EMissing => true | _ => false end)
        | Err _ => ([], false, false)
        end
    | Err _ => ([], false, false)
    end = (["y"; "x,y"], true, true).
  Proof. vm_compute. reflexivity. Qed.
End ReducedExamples.
