(** * C15, soundness of the checker [C15_ok] of Check/BiasCheckers.v: what a passed check says about the data.

    Property text (C15): "Criteria omission removes k = floor(n x ratio) criteria, clamped to [min, max], taken from
    the front of the chosen ordering; the omitted criteria are reported, are always among the declared criteria, and
    every remaining structure (alternative values, method parameters) is restricted to the kept criteria so that the
    decision equals the one for the request with those criteria deleted. With ordering weakest (the default) no kept
    criterion is less important than an omitted one under the method's documented importance (...); strongest is the
    exact reverse, and the random orderings are permutations of the criteria in which weakestByProbability puts a
    less important criterion first more often than a more important one (strongestByProbability the opposite)."

    The checker is evaluated on data observed from the running program: nothing is assumed about its arguments.

    Contents
    - 1. Prop-level notions: [clamp_to], [importance] (the entry of a ranking that speaks for an id),
         [ranked_apart], the observational equalities [crit_equal] .. [params_equal] (up to [nsame]) and their
         bridges to the boolean tests ([params_same_iff], ...).
    - 2. [C15_spec] (record, one field per clause) and [C15_ok_sound] for every carrier [N : Num];
         [C15_values_present] (kept values are present on both sides);
         2b. [C15_spec_complete], [C15_ok_iff]: the specification is exactly what the checker tests.
    - 3. [C15_ok_sound_exact] (carrier with [OrdLaws]: values and parameters are equal, not only [nsame];
         [params_equal_eq]).
    - 4. What needs a hypothesis: [C15_partition] (hyp. [kept_distinct]: the ids handed on are pairwise distinct; then
         the declared ids are exactly omitted + kept, each once) and [C15_no_kept_weaker] (then the importance
         clause speaks about THE ranking entry of each criterion). The hypothesis cannot be derived from the checker:
         [Examples.duplicate_kept_accepted].
    - 5. [C15_spec_Qc], [C15_ok_sound_Qc], [C15_count_minmax], [C15_no_kept_weaker_Qc]: on exact rationals, with
         [Qfloor] and [<=].
    - 6. Examples on [NumQc] (non-vacuity, rejected tamperings, what is not tested, the counterexample).

    Not in the checker (hence not in [C15_spec]): "taken from the front of the chosen ordering" beyond the count and the
    importance clause (ties and the random / by-probability orderings are free; an unknown ordering name is accepted);
    type and range of the criteria (ids only); ids of the alternatives and the considered / not-considered split
    ([same_split], tested by [frame_ok]); distinctness of the ids handed on ([crits_as_reported]); validity of the split
    condition (ratio in [0,1], min <= max); "the decision equals the one for the request with those criteria deleted"
    (a theorem about the model, Proofs/ReducedFacts.v); the statistical by-probability clauses. *)
From Coq Require Import ZArith QArith Qcanon Qround Bool List String Lia Permutation Sorted.
From RDM Require Import Base.Num Base.NumQc Base.Util Model.Data Model.Rank Model.Utility Model.Levels Model.Heuristics
     Model.Electre Model.Listeners Model.Biases Check.Stage Check.BiasCheckers
     Proofs.SortFacts Proofs.RankFacts Proofs.LevelFacts Proofs.WfFacts Proofs.MapOrderFacts Proofs.OmissionFacts
     Proofs.ReversalFacts Proofs.ReportedFacts Proofs.FaithfulFacts.
Import ListNotations.
Local Open Scope string_scope.
Local Open Scope list_scope.

(** ** 0. Small generic facts *)
Lemma list_eqb_rel {A B} (f : A -> B -> bool) (R : A -> B -> Prop) :
  (forall x y, f x y = true <-> R x y) -> forall l1 l2, list_eqb f l1 l2 = true <-> Forall2 R l1 l2.
Proof.
  intros Hf l1 l2. rewrite ReversalFacts.list_eqb_Forall2.
  split; intros F; (eapply OmissionFacts.Forall2_weaken; [|exact F]); intros x y; apply Hf.
Qed.

Lemma Forall2_eq {A} (R : A -> A -> Prop) : (forall x y, R x y -> x = y) -> forall l1 l2, Forall2 R l1 l2 -> l1 = l2.
Proof. intros HR l1 l2 F. induction F as [|x y l1 l2 Hxy _ IH]; [reflexivity|]. f_equal; [now apply HR|exact IH]. Qed.

(* strictly increasing keys *)
Definition keys_increasing (l : list string) : Prop := StronglySorted (fun x y => String.ltb x y = true) l.

Lemma keys_increasing_NoDup l : keys_increasing l -> NoDup l.
Proof.
  induction 1 as [|x l _ IH Hx]; constructor; [|exact IH].
  intros I. rewrite Forall_forall in Hx. specialize (Hx x I). now rewrite sltb_irrefl in Hx.
Qed.

Lemma msorted_keys_increasing {A} : forall m : smap A, msorted m = true -> keys_increasing (mkeys m).
Proof.
  induction m as [|[k v] m IH]; intros S; [constructor|].
  unfold mkeys. cbn [map fst]. constructor.
  - apply IH. exact (MapOrderFacts.msorted_tail k v m S).
  - apply Forall_forall. intros k' I. exact (MapOrderFacts.msorted_head_lt k v m S k' I).
Qed.

(* the pivot: [fl] clamped to [lo, hi], as the decoded split condition does it (min is tested first) *)
Definition clamp_to (fl lo hi k : Z) : Prop :=
  ((fl < lo)%Z -> k = lo) /\ ((lo <= fl)%Z -> (hi < fl)%Z -> k = hi) /\ ((lo <= fl <= hi)%Z -> k = fl).

Lemma clamp_to_minmax fl lo hi k : clamp_to fl lo hi k -> (lo <= hi)%Z ->
  k = Z.min (Z.max fl lo) hi /\ (lo <= k <= hi)%Z.
Proof. intros (H1 & H2 & H3) H. destruct (Z_lt_le_dec fl lo), (Z_lt_le_dec hi fl); lia. Qed.

Section Generic.
  Context {N : Num}.

  Lemma split_pivot_clamp_to n p :
    clamp_to (nfloorZ (nmul (nofZ (Z.of_nat n)) (bp_ratio p))) (bp_min p) (bp_max p) (split_pivot n p).
  Proof.
    unfold split_pivot, clamp_to. cbv zeta.
    set (fl := nfloorZ (nmul (nofZ (Z.of_nat n)) (bp_ratio p))).
    destruct (Z.ltb_spec fl (bp_min p)), (Z.ltb_spec (bp_max p) fl); repeat split; intros; lia.
  Qed.

  (** ** 1a. The map of the kept ids *)
  Lemma key_fold_acc_keys (cs : list crit) : forall (acc : smap num) id,
    In id (mkeys (fold_left (fun m c => mset (c_id c) nzero m) cs acc)) <-> In id (mkeys acc) \/ In id (map c_id cs).
  Proof.
    induction cs as [|c r IH]; intros acc id; cbn [fold_left map In]; [tauto|].
    rewrite IH, mkeys_mset. split; [intros [[->|H]|H]|intros [H|[<-|H]]]; auto.
  Qed.

  Lemma key_fold_acc_sorted (cs : list crit) : forall (acc : smap num),
    msorted acc = true -> msorted (fold_left (fun m c => mset (c_id c) nzero m) cs acc) = true.
  Proof. induction cs as [|c r IH]; intros acc S; cbn [fold_left]; [exact S|]. apply IH. now apply mset_msorted. Qed.

  (** ** 1b. The ranking entry that speaks for an id: the FIRST entry carrying it *)
  Definition rid (x : wcrit) : string := c_id (fst x).

  Definition importance (ranked : list wcrit) (id : string) (v : num) : Prop :=
    exists l1 x l2, ranked = l1 ++ x :: l2 /\ rid x = id /\ snd x = v /\ ~ In id (map rid l1).

  Lemma importance_of_iff ranked id v : importance_of ranked id = Some v <-> importance ranked id v.
  Proof.
    unfold importance_of, importance. induction ranked as [|y r IH]; cbn [find].
    - split; [discriminate|]. intros (l1 & x & l2 & E & _). destruct l1; discriminate.
    - destruct (String.eqb (c_id (fst y)) id) eqn:E.
      + apply String.eqb_eq in E. split.
        * intros H. injection H as <-. exists [], y, r. repeat split; [exact E|intros []].
        * intros (l1 & x & l2 & El & Ex & Ev & Nl). destruct l1 as [|z l1]; cbn [app] in El.
          -- injection El as -> ->. now rewrite Ev.
          -- injection El as -> ->. exfalso. apply Nl. cbn [map]. left. exact E.
      + apply String.eqb_neq in E. rewrite IH. split.
        * intros (l1 & x & l2 & -> & Ex & Ev & Nl). exists (y :: l1), x, l2. repeat split; try assumption.
          cbn [map]. intros [B|B]; [now apply E|now apply Nl].
        * intros (l1 & x & l2 & El & Ex & Ev & Nl). destruct l1 as [|z l1]; cbn [app] in El.
          -- injection El as -> ->. exfalso. now apply E.
          -- injection El as -> ->. exists l1, x, l2. repeat split; try assumption.
             intros B. apply Nl. cbn [map]. now right.
  Qed.

  Lemma importance_fun ranked id v v' : importance ranked id v -> importance ranked id v' -> v = v'.
  Proof. rewrite <- !importance_of_iff. congruence. Qed.

  Lemma importance_in ranked id v : importance ranked id v -> exists x, In x ranked /\ rid x = id /\ snd x = v.
  Proof.
    intros (l1 & x & l2 & -> & Ex & Ev & _). exists x. split; [|now split]. apply in_or_app. right. now left.
  Qed.

  (* when the ids of the ranking are pairwise distinct every entry speaks for its id *)
  Lemma importance_of_entry ranked x : NoDup (map rid ranked) -> In x ranked -> importance ranked (rid x) (snd x).
  Proof.
    intros ND I. apply in_split in I as (l1 & l2 & ->). exists l1, x, l2. repeat split.
    rewrite map_app in ND. cbn [map] in ND. apply NoDup_remove_2 in ND. intros B. apply ND, in_or_app. now left.
  Qed.

  (* every criterion of [low] has an importance, under the ranking of [s], that is [le] that of every criterion of [high] *)
  Definition ranked_apart (le : num -> num -> Prop) (s : state) (low high : list crit) : Prop :=
    exists ranked, rank_criteria s = Ok ranked /\
      forall lc hc, In lc low -> In hc high ->
        exists il ih, importance ranked (c_id lc) il /\ importance ranked (c_id hc) ih /\ le il ih.

  Lemma ranked_apart_weaken (le le' : num -> num -> Prop) s low high :
    (forall x y, le x y -> le' x y) -> ranked_apart le s low high -> ranked_apart le' s low high.
  Proof.
    intros W (ranked & Hr & H). exists ranked. split; [exact Hr|]. intros lc hc Il Ih.
    destruct (H lc hc Il Ih) as (il & ih & A & B & C). exists il, ih. auto.
  Qed.

  (** ** 1c. Observational equalities (what the boolean [.._same] tests of Model/Data.v and Check/Stage.v mean) *)
  Definition num_same (x y : num) : Prop := nsame x y = true.
  Definition range_equal (a b : option (num * num)) : Prop :=
    match a, b with
    | None, None => True
    | Some x, Some y => num_same (fst x) (fst y) /\ num_same (snd x) (snd y)
    | _, _ => False
    end.
  Definition crit_equal (a b : crit) : Prop :=
    c_id a = c_id b /\ c_type a = c_type b /\ range_equal (c_range a) (c_range b).
  Definition smap_equal (a b : smap num) : Prop := Forall2 entry_equal a b.
  Definition wcrit_equal (a b : wcrit) : Prop := crit_equal (fst a) (fst b) /\ num_same (snd a) (snd b).
  Definition linfun_equal (a b : linfun) : Prop := num_same (lf_a a) (lf_a b) /\ num_same (lf_b a) (lf_b b).
  Definition ecrit_equal (a b : ecrit) : Prop :=
    num_same (ec_k a) (ec_k b) /\ linfun_equal (ec_q a) (ec_q b) /\ linfun_equal (ec_p a) (ec_p b)
    /\ linfun_equal (ec_v a) (ec_v b).
  Definition lparams_equal (a b : lparams) : Prop :=
    num_same (lp_coef a) (lp_coef b) /\ num_same (lp_max a) (lp_max b) /\ num_same (lp_min a) (lp_min b)
    /\ Forall2 smap_equal (lp_ths a) (lp_ths b).
  Definition params_equal (a b : mparams) : Prop :=
    match a, b with
    | PWs x, PWs y => Forall2 wcrit_equal x y
    | POwa x, POwa y => Forall2 wcrit_equal x y
    | PChoquet w1 c1, PChoquet w2 c2 => smap_equal w1 w2 /\ Forall2 crit_equal c1 c2
    | PElectre e1 f1, PElectre e2 f2 =>
        Forall2 (fun x y => fst x = fst y /\ ecrit_equal (snd x) (snd y)) e1 e2 /\ linfun_equal f1 f2
    | PMajority w1 c1 s1 r1 d1, PMajority w2 c2 s2 r2 d2 => smap_equal w1 w2 /\ c1 = c2 /\ s1 = s2 /\ r1 = r2 /\ d1 = d2
    | PAspect f1 l1 s1 w1 r1, PAspect f2 l2 s2 w2 r2 =>
        f1 = f2 /\ lparams_equal l1 l2 /\ s1 = s2 /\ smap_equal w1 w2 /\ r1 = r2
    | PSatisf f1 l1 s1 c1 r1, PSatisf f2 l2 s2 c2 r2 => f1 = f2 /\ lparams_equal l1 l2 /\ s1 = s2 /\ c1 = c2 /\ r1 = r2
    | _, _ => False
    end.

  Lemma ctype_eqb_iff (a b : ctype) : ctype_eqb a b = true <-> a = b.
  Proof. destruct a, b; cbn [ctype_eqb]; split; congruence. Qed.

  Lemma range_same_iff a b : range_same a b = true <-> range_equal a b.
  Proof.
    unfold range_same, range_equal, num_same. destruct a as [x|], b as [y|]; cbn [option_eqb];
      rewrite ?andb_true_iff; split; auto; try discriminate; try contradiction.
  Qed.

  Lemma crit_same_iff a b : crit_same a b = true <-> crit_equal a b.
  Proof.
    unfold crit_same, crit_equal. rewrite !andb_true_iff, String.eqb_eq, ctype_eqb_iff, range_same_iff. tauto.
  Qed.

  Lemma smap_same_iff a b : smap_same a b = true <-> smap_equal a b.
  Proof.
    unfold smap_same, smap_equal. apply list_eqb_rel. intros x y. unfold entry_equal.
    now rewrite andb_true_iff, String.eqb_eq.
  Qed.

  Lemma wcrit_same_iff a b : wcrit_same a b = true <-> wcrit_equal a b.
  Proof. unfold wcrit_same, wcrit_equal, num_same. now rewrite andb_true_iff, crit_same_iff. Qed.

  Lemma linfun_same_iff a b : linfun_same a b = true <-> linfun_equal a b.
  Proof. unfold linfun_same, linfun_equal, num_same. now rewrite andb_true_iff. Qed.

  Lemma ecrit_same_iff a b : ecrit_same a b = true <-> ecrit_equal a b.
  Proof. unfold ecrit_same, ecrit_equal, num_same. rewrite !andb_true_iff, !linfun_same_iff. tauto. Qed.

  Lemma lparams_same_iff a b : lparams_same a b = true <-> lparams_equal a b.
  Proof.
    unfold lparams_same, lparams_equal, num_same. rewrite !andb_true_iff, (list_eqb_rel _ _ smap_same_iff). tauto.
  Qed.

  Theorem params_same_iff a b : params_same a b = true <-> params_equal a b.
  Proof.
    destruct a, b; cbn [params_same params_equal]; try (split; [discriminate|contradiction]).
    - apply list_eqb_rel, wcrit_same_iff.
    - apply list_eqb_rel, wcrit_same_iff.
    - now rewrite andb_true_iff, smap_same_iff, (list_eqb_rel _ _ crit_same_iff).
    - rewrite andb_true_iff, linfun_same_iff.
      rewrite (list_eqb_rel _ (fun x y : string * ecrit => fst x = fst y /\ ecrit_equal (snd x) (snd y))); [reflexivity|].
      intros x y. now rewrite andb_true_iff, String.eqb_eq, ecrit_same_iff.
    - rewrite !andb_true_iff, smap_same_iff, !String.eqb_eq, Z.eqb_eq, Bool.eqb_true_iff. tauto.
    - rewrite !andb_true_iff, smap_same_iff, lparams_same_iff, !String.eqb_eq, Z.eqb_eq, Bool.eqb_true_iff. tauto.
    - rewrite !andb_true_iff, lparams_same_iff, !String.eqb_eq, Z.eqb_eq, Bool.eqb_true_iff. tauto.
  Qed.
End Generic.

(** ** 2. The specification and the soundness theorem, any carrier *)
Section Sound.
  Context {N : Num}.

  (** What [C15_ok p before after (ROmission omitted) = true] says; [kept] is [st_crits after].
      Field by field, against the property text:
      - [c15_count], [c15_total]: "removes k = floor(n x ratio) criteria, clamped to [min, max]"
        (n = number of criteria received; the kept and the omitted ones add up to n);
      - [c15_omitted_declared], [c15_omitted_distinct], [c15_omitted_removed], [c15_kept_declared]:
        "the omitted criteria are reported, are always among the declared criteria" (by id; reported = removed);
      - [c15_alts_sorted], [c15_alts_restricted], [c15_values_unchanged]: "every remaining structure (alternative
        values ...) is restricted to the kept criteria" - every alternative handed on holds values for exactly the
        kept ids, and, position by position, the values of the kept criteria are the ones received;
      - [c15_params_restricted]: "(... method parameters) is restricted to the kept criteria": the parameters handed on
        are the ones the method's listener [on_criteria_removed] derives for the kept criteria;
      - [c15_weakest], [c15_strongest]: "With ordering weakest (the default) no kept criterion is less important than
        an omitted one under the method's documented importance; strongest is the exact reverse"
        (importance = the weight [rank_criteria before] gives). *)
  Record C15_spec (p : bprops) (before after : state) (omitted : list crit) : Prop := {
    c15_count :
      clamp_to (nfloorZ (nmul (nofZ (Z.of_nat (List.length (st_crits before)))) (bp_ratio p))) (bp_min p) (bp_max p)
               (Z.of_nat (List.length omitted));
    c15_total : (List.length (st_crits after) + List.length omitted = List.length (st_crits before))%nat;
    c15_omitted_declared : forall c, In c omitted -> In (c_id c) (map c_id (st_crits before));
    c15_omitted_distinct : NoDup (map c_id omitted);
    c15_omitted_removed : forall c, In c omitted -> ~ In (c_id c) (map c_id (st_crits after));
    c15_kept_declared : forall c, In c (st_crits after) -> In (c_id c) (map c_id (st_crits before));
    c15_alts_sorted : forall a, In a (all_alts after) -> keys_increasing (mkeys (a_vals a));
    c15_alts_restricted :
      forall a, In a (all_alts after) -> forall id, In id (mkeys (a_vals a)) <-> In id (map c_id (st_crits after));
    c15_values_unchanged :
      Forall2 (fun x y => forall c, In c (st_crits after) ->
                                    value_received (mget (c_id c) (a_vals x)) (mget (c_id c) (a_vals y)))
              (all_alts before) (all_alts after);
    c15_params_restricted :
      exists pr, on_criteria_removed (st_crits after) (st_params before) = Ok pr /\ params_equal pr (st_params after);
    c15_weakest :
      bp_ordering p = "" \/ bp_ordering p = o_weakest ->
      ranked_apart (fun io ik => nleb io ik = true) before omitted (st_crits after);
    c15_strongest :
      bp_ordering p = o_strongest ->
      ranked_apart (fun ik io => nleb ik io = true) before (st_crits after) omitted
  }.

  (* the conjuncts of the checker, one by one *)
  Lemma C15_ok_inv p before after rep : C15_ok p before after rep = true ->
    exists omitted, rep = ROmission omitted /\
      Z.of_nat (List.length omitted) = split_pivot (List.length (st_crits before)) p /\
      (List.length (st_crits after) + List.length omitted = List.length (st_crits before))%nat /\
      forallb (fun c => has_crit (c_id c) (st_crits before)) omitted = true /\
      forallb (fun c => negb (has_crit (c_id c) (st_crits after))) omitted = true /\
      forallb (fun c => has_crit (c_id c) (st_crits before)) (st_crits after) = true /\
      nodup_str (map c_id omitted) = true /\
      forallb (fun a => list_eqb String.eqb (mkeys (a_vals a))
                          (mkeys (fold_left (fun m c => mset (c_id c) nzero m) (st_crits after) ([] : smap num))))
              (all_alts after) = true /\
      values_kept (st_crits after) before after = true /\
      match on_criteria_removed (st_crits after) (st_params before) with
      | Ok pr => params_same pr (st_params after)
      | Err _ => false
      end = true /\
      (if String.eqb (bp_ordering p) "" || String.eqb (bp_ordering p) o_weakest || String.eqb (bp_ordering p) o_strongest
       then match rank_criteria before with
            | Ok ranked =>
                forallb (fun oc => forallb (fun kc =>
                     match importance_of ranked (c_id oc), importance_of ranked (c_id kc) with
                     | Some io, Some ik => if String.eqb (bp_ordering p) o_strongest then nleb ik io else nleb io ik
                     | _, _ => false
                     end) (st_crits after)) omitted
            | Err _ => false
            end
       else true) = true.
  Proof.
    intros H. unfold C15_ok in H. destruct rep as [|omitted| | | | |]; try discriminate.
    exists omitted. split; [reflexivity|]. cbv zeta in H.
    repeat (let X := fresh "X" in apply andb_true_iff in H as [H X]).
    apply Z.eqb_eq in H. apply Nat.eqb_eq in X7.
    repeat split; assumption.
  Qed.

  (* the importance conjunct *)
  Lemma importance_conjunct_inv (o : string) (before : state) (kept omitted : list crit) :
    (if String.eqb o "" || String.eqb o o_weakest || String.eqb o o_strongest
     then match rank_criteria before with
          | Ok ranked =>
              forallb (fun oc => forallb (fun kc =>
                   match importance_of ranked (c_id oc), importance_of ranked (c_id kc) with
                   | Some io, Some ik => if String.eqb o o_strongest then nleb ik io else nleb io ik
                   | _, _ => false
                   end) kept) omitted
          | Err _ => false
          end
     else true) = true ->
    o = "" \/ o = o_weakest \/ o = o_strongest ->
    exists ranked, rank_criteria before = Ok ranked /\
      forall oc kc, In oc omitted -> In kc kept ->
        exists io ik, importance ranked (c_id oc) io /\ importance ranked (c_id kc) ik /\
                      (if String.eqb o o_strongest then nleb ik io else nleb io ik) = true.
  Proof.
    intros H Ho.
    assert (E : String.eqb o "" || String.eqb o o_weakest || String.eqb o o_strongest = true).
    { destruct Ho as [-> | [-> | ->]]; reflexivity. }
    rewrite E in H. destruct (rank_criteria before) as [ranked|err]; [|discriminate].
    exists ranked. split; [reflexivity|]. intros oc kc Io Ik.
    rewrite forallb_forall in H. specialize (H oc Io). rewrite forallb_forall in H. specialize (H kc Ik).
    destruct (importance_of ranked (c_id oc)) as [io|] eqn:Eo; [|discriminate].
    destruct (importance_of ranked (c_id kc)) as [ik|] eqn:Ek; [|discriminate].
    exists io, ik. split; [now apply importance_of_iff|]. split; [now apply importance_of_iff|exact H].
  Qed.

  (** requested: soundness of the checker. Nothing is assumed about [p], [before], [after], [rep]. *)
  Theorem C15_ok_sound p before after rep :
    C15_ok p before after rep = true ->
    exists omitted, rep = ROmission omitted /\ C15_spec p before after omitted.
  Proof.
    intros H. apply C15_ok_inv in H as (omitted & -> & Hk & Ht & Hod & Hor & Hkd & Hnd & Hkeys & Hv & Hp & Hi).
    exists omitted. split; [reflexivity|].
    assert (KEYS : forall a, In a (all_alts after) ->
              mkeys (a_vals a) = mkeys (fold_left (fun m c => mset (c_id c) nzero m) (st_crits after) ([] : smap num))).
    { intros a Ia. rewrite forallb_forall in Hkeys. apply RankFacts.list_eqb_eq. now apply Hkeys. }
    constructor.
    - rewrite Hk. apply split_pivot_clamp_to.
    - exact Ht.
    - intros c Ic. rewrite forallb_forall in Hod. apply has_crit_iff. now apply Hod.
    - now apply nodup_str_NoDup.
    - intros c Ic. rewrite forallb_forall in Hor. apply has_crit_false_iff. apply negb_true_iff. now apply Hor.
    - intros c Ic. rewrite forallb_forall in Hkd. apply has_crit_iff. now apply Hkd.
    - intros a Ia. rewrite (KEYS a Ia). apply msorted_keys_increasing. now apply key_fold_acc_sorted.
    - intros a Ia id. rewrite (KEYS a Ia), key_fold_acc_keys. cbn [mkeys map In]. tauto.
    - unfold values_kept in Hv. apply ReversalFacts.list_eqb_Forall2 in Hv.
      eapply OmissionFacts.Forall2_weaken; [|exact Hv]. intros x y Hxy c Ic. cbv beta in Hxy.
      rewrite forallb_forall in Hxy. apply option_nsame_iff. now apply Hxy.
    - destruct (on_criteria_removed (st_crits after) (st_params before)) as [pr|err]; [|discriminate].
      exists pr. split; [reflexivity|]. now apply params_same_iff.
    - intros Hw.
      assert (Es : String.eqb (bp_ordering p) o_strongest = false) by (destruct Hw as [-> | ->]; reflexivity).
      apply importance_conjunct_inv in Hi; [|tauto]. rewrite Es in Hi. exact Hi.
    - intros Hs.
      apply importance_conjunct_inv in Hi; [|tauto].
      destruct Hi as (ranked & Hr & Hi). exists ranked. split; [exact Hr|].
      intros kc oc Ik Io. destruct (Hi oc kc Io Ik) as (io & ik & A & B & C). exists ik, io.
      split; [exact B|]. split; [exact A|]. rewrite Hs in C. exact C.
  Qed.

  (** a consequence of [c15_alts_restricted] and [c15_values_unchanged]: for every kept criterion both the alternative
      received and the alternative handed on (same position) hold a value, and the two are [nsame] *)
  Corollary C15_values_present p before after omitted : C15_spec p before after omitted ->
    Forall2 (fun x y => forall c, In c (st_crits after) ->
               exists v v', mget (c_id c) (a_vals x) = Some v /\ mget (c_id c) (a_vals y) = Some v' /\ nsame v v' = true)
            (all_alts before) (all_alts after).
  Proof.
    intros S. pose proof (c15_values_unchanged _ _ _ _ S) as F. pose proof (c15_alts_restricted _ _ _ _ S) as R.
    revert F R. generalize (all_alts after). generalize (all_alts before).
    intros la lb F. induction F as [|x y l1 l2 Hxy F IH]; intros R; constructor.
    - intros c Ic. specialize (Hxy c Ic).
      assert (Iy : In (c_id c) (mkeys (a_vals y))) by (apply (R y); [now left|now apply in_map]).
      apply mkeys_in_iff in Iy as [v' Ev']. rewrite Ev' in Hxy.
      destruct (mget (c_id c) (a_vals x)) as [v|]; [|contradiction]. now exists v, v'.
    - apply IH. intros a Ia. apply R. now right.
  Qed.
End Sound.

(** ** 2b. The specification says everything the checker tests, and nothing more *)
Lemma clamp_to_fun fl lo hi k k' : clamp_to fl lo hi k -> clamp_to fl lo hi k' -> k = k'.
Proof. intros (A1 & A2 & A3) (B1 & B2 & B3). destruct (Z_lt_le_dec fl lo), (Z_lt_le_dec hi fl); lia. Qed.

Lemma keys_increasing_unique : forall l1 l2, keys_increasing l1 -> keys_increasing l2 ->
  (forall x, In x l1 <-> In x l2) -> l1 = l2.
Proof.
  induction l1 as [|x r1 IH]; intros [|y r2] S1 S2 E.
  - reflexivity.
  - exfalso. apply (E y). now left.
  - exfalso. apply (E x). now left.
  - inversion S1 as [|? ? S1' H1]; subst. inversion S2 as [|? ? S2' H2]; subst.
    rewrite Forall_forall in H1, H2.
    assert (Exy : x = y).
    { destruct (proj1 (E x) (or_introl eq_refl)) as [->|Ix]; [reflexivity|].
      destruct (proj2 (E y) (or_introl eq_refl)) as [->|Iy]; [reflexivity|].
      pose proof (sltb_trans _ _ _ (H1 y Iy) (H2 x Ix)) as T. now rewrite sltb_irrefl in T. }
    subst y. f_equal. apply IH; [exact S1'|exact S2'|].
    intros z. split; intros Iz.
    + destruct (proj1 (E z) (or_intror Iz)) as [->|I]; [|exact I].
      specialize (H1 z Iz). now rewrite sltb_irrefl in H1.
    + destruct (proj2 (E z) (or_intror Iz)) as [->|I]; [|exact I].
      specialize (H2 z Iz). now rewrite sltb_irrefl in H2.
Qed.

Section Complete.
  Context {N : Num}.

  Theorem C15_spec_complete p before after omitted :
    C15_spec p before after omitted -> C15_ok p before after (ROmission omitted) = true.
  Proof.
    intros S. unfold C15_ok. cbv zeta. apply OmissionFacts.and10.
    - apply Z.eqb_eq. exact (clamp_to_fun _ _ _ _ _ (c15_count _ _ _ _ S) (split_pivot_clamp_to _ p)).
    - apply Nat.eqb_eq. exact (c15_total _ _ _ _ S).
    - apply forallb_forall. intros c Ic. apply has_crit_iff. exact (c15_omitted_declared _ _ _ _ S c Ic).
    - apply forallb_forall. intros c Ic. apply negb_true_iff, has_crit_false_iff.
      exact (c15_omitted_removed _ _ _ _ S c Ic).
    - apply forallb_forall. intros c Ic. apply has_crit_iff. exact (c15_kept_declared _ _ _ _ S c Ic).
    - apply nodup_str_NoDup. exact (c15_omitted_distinct _ _ _ _ S).
    - apply forallb_forall. intros a Ia.
      rewrite (keys_increasing_unique (mkeys (a_vals a))
                 (mkeys (fold_left (fun m c => mset (c_id c) nzero m) (st_crits after) ([] : smap num)))).
      + apply RankFacts.list_eqb_refl.
      + exact (c15_alts_sorted _ _ _ _ S a Ia).
      + apply msorted_keys_increasing. now apply key_fold_acc_sorted.
      + intros id. rewrite (c15_alts_restricted _ _ _ _ S a Ia id), key_fold_acc_keys. cbn [mkeys map In]. tauto.
    - unfold values_kept. apply ReversalFacts.list_eqb_Forall2.
      eapply OmissionFacts.Forall2_weaken; [|exact (c15_values_unchanged _ _ _ _ S)]. intros x y Hxy. cbv beta.
      apply forallb_forall. intros c Ic. apply option_nsame_iff. now apply Hxy.
    - destruct (c15_params_restricted _ _ _ _ S) as (pr & -> & E). now apply params_same_iff.
    - destruct (String.eqb (bp_ordering p) "" || String.eqb (bp_ordering p) o_weakest) eqn:Ew; cbn [orb].
      + assert (Hw : bp_ordering p = "" \/ bp_ordering p = o_weakest).
        { apply orb_true_iff in Ew as [E|E]; apply String.eqb_eq in E; auto. }
        assert (Es : String.eqb (bp_ordering p) o_strongest = false) by (destruct Hw as [-> | ->]; reflexivity).
        destruct (c15_weakest _ _ _ _ S Hw) as (ranked & -> & H). rewrite Es.
        apply forallb_forall. intros oc Io. apply forallb_forall. intros kc Ik.
        destruct (H oc kc Io Ik) as (io & ik & A & B & C).
        apply importance_of_iff in A, B. now rewrite A, B.
      + destruct (String.eqb (bp_ordering p) o_strongest) eqn:Es; [|reflexivity].
        pose proof Es as Hs. apply String.eqb_eq in Hs.
        destruct (c15_strongest _ _ _ _ S Hs) as (ranked & -> & H).
        apply forallb_forall. intros oc Io. apply forallb_forall. intros kc Ik.
        destruct (H kc oc Ik Io) as (ik & io & B & A & C).
        apply importance_of_iff in A, B. now rewrite A, B.
  Qed.

  (** the checker, completely: it holds exactly when the report is an omission report and [C15_spec] holds *)
  Theorem C15_ok_iff p before after rep :
    C15_ok p before after rep = true <-> exists omitted, rep = ROmission omitted /\ C15_spec p before after omitted.
  Proof.
    split; [apply C15_ok_sound|]. intros (omitted & -> & S). now apply C15_spec_complete.
  Qed.
End Complete.

(** ** 3. Carriers with [OrdLaws]: [nsame] is an equality, so values and parameters are equal *)
Section Exact.
  Context {N : Num} {L : OrdLaws N}.

  Lemma num_same_eq (x y : num) : num_same x y -> x = y.
  Proof. apply same_eq. Qed.

  Lemma range_equal_eq a b : range_equal a b -> a = b.
  Proof.
    destruct a as [[a1 a2]|], b as [[b1 b2]|]; cbn [range_equal fst snd]; try contradiction; [|reflexivity].
    intros [H1 H2]. apply num_same_eq in H1, H2. now subst.
  Qed.

  Lemma crit_equal_eq (a b : crit) : crit_equal a b -> a = b.
  Proof.
    destruct a as [i1 t1 r1], b as [i2 t2 r2]. unfold crit_equal. cbn [c_id c_type c_range].
    intros (-> & -> & R). apply range_equal_eq in R. now subst.
  Qed.

  Lemma smap_equal_eq (a b : smap num) : smap_equal a b -> a = b.
  Proof.
    apply Forall2_eq. intros [k1 v1] [k2 v2] [E S]. cbn [fst snd] in E, S. apply same_eq in S. now subst.
  Qed.

  Lemma wcrit_equal_eq (a b : wcrit) : wcrit_equal a b -> a = b.
  Proof.
    destruct a as [c1 w1], b as [c2 w2]. unfold wcrit_equal. cbn [fst snd]. intros [C W].
    apply crit_equal_eq in C. apply num_same_eq in W. now subst.
  Qed.

  Lemma linfun_equal_eq (a b : linfun) : linfun_equal a b -> a = b.
  Proof.
    destruct a as [a1 b1], b as [a2 b2]. unfold linfun_equal. cbn [lf_a lf_b]. intros [A B].
    apply num_same_eq in A, B. now subst.
  Qed.

  Lemma ecrit_equal_eq (a b : ecrit) : ecrit_equal a b -> a = b.
  Proof.
    destruct a as [k1 q1 p1 v1], b as [k2 q2 p2 v2]. unfold ecrit_equal. cbn [ec_k ec_q ec_p ec_v].
    intros (K & Q & P & V). apply num_same_eq in K. apply linfun_equal_eq in Q, P, V. now subst.
  Qed.

  Lemma lparams_equal_eq (a b : lparams) : lparams_equal a b -> a = b.
  Proof.
    destruct a as [c1 x1 n1 t1], b as [c2 x2 n2 t2]. unfold lparams_equal. cbn [lp_coef lp_max lp_min lp_ths].
    intros (C & X & M & T). apply num_same_eq in C, X, M. apply (Forall2_eq _ smap_equal_eq) in T. now subst.
  Qed.

  Theorem params_equal_eq (a b : mparams) : params_equal a b -> a = b.
  Proof.
    destruct a, b; cbn [params_equal]; try contradiction.
    - intros H. apply (Forall2_eq _ wcrit_equal_eq) in H. now subst.
    - intros H. apply (Forall2_eq _ wcrit_equal_eq) in H. now subst.
    - intros [W C]. apply smap_equal_eq in W. apply (Forall2_eq _ crit_equal_eq) in C. now subst.
    - intros [E F]. apply linfun_equal_eq in F. subst. f_equal. revert E. apply Forall2_eq.
      intros [k1 e1] [k2 e2] [K E]. cbn [fst snd] in K, E. apply ecrit_equal_eq in E. now subst.
    - intros (W & -> & -> & -> & ->). apply smap_equal_eq in W. now subst.
    - intros (-> & P & -> & W & ->). apply smap_equal_eq in W. apply lparams_equal_eq in P. now subst.
    - intros (-> & P & -> & -> & ->). apply lparams_equal_eq in P. now subst.
  Qed.

  Lemma value_received_eq (o1 o2 : option num) : value_received o1 o2 -> o1 = o2.
  Proof.
    destruct o1 as [v|], o2 as [v'|]; cbn [value_received]; try contradiction; [|reflexivity].
    intros H. f_equal. now apply same_eq.
  Qed.

  (** requested form on a carrier with laws: the values of the kept criteria are present and EQUAL, position by position,
      and the parameters handed on ARE the ones the listener derives for the kept criteria *)
  Theorem C15_ok_sound_exact p before after rep :
    C15_ok p before after rep = true ->
    exists omitted, rep = ROmission omitted /\ C15_spec p before after omitted /\
      Forall2 (fun x y => forall c, In c (st_crits after) ->
                 exists v, mget (c_id c) (a_vals x) = Some v /\ mget (c_id c) (a_vals y) = Some v)
              (all_alts before) (all_alts after) /\
      on_criteria_removed (st_crits after) (st_params before) = Ok (st_params after).
  Proof.
    intros H. apply C15_ok_sound in H as (omitted & -> & S). exists omitted. split; [reflexivity|]. split; [exact S|].
    split.
    - eapply OmissionFacts.Forall2_weaken; [|exact (C15_values_present _ _ _ _ S)]. intros x y Hxy c Ic.
      destruct (Hxy c Ic) as (v & v' & A & B & C). apply same_eq in C. subst v'. now exists v.
    - destruct (c15_params_restricted _ _ _ _ S) as (pr & Hp & E). apply params_equal_eq in E. now subst pr.
  Qed.
End Exact.

(** ** 4. What needs a hypothesis about the data: the ids handed on are pairwise distinct *)
Section Partition.
  Context {N : Num}.

  (** With [kept_distinct] (tested by the C07 checker [crits_as_reported], and part of [inv after]) the declared ids are
      pairwise distinct too and split exactly into the omitted and the kept ones. Without it the checker accepts a state
      that hands one criterion on twice and drops another one silently ([Examples.duplicate_kept_accepted]). *)
  Theorem C15_partition p before after omitted :
    C15_spec p before after omitted ->
    forall kept_distinct : NoDup (map c_id (st_crits after)),
    NoDup (map c_id (st_crits before)) /\
    Permutation (map c_id omitted ++ map c_id (st_crits after)) (map c_id (st_crits before)) /\
    (forall id, In id (map c_id (st_crits before)) <->
                In id (map c_id omitted) \/ In id (map c_id (st_crits after))) /\
    (forall id, In id (map c_id omitted) -> In id (map c_id (st_crits after)) -> False).
  Proof.
    intros S KD.
    assert (DJ : forall id, In id (map c_id omitted) -> In id (map c_id (st_crits after)) -> False).
    { intros id Io Ik. apply in_map_iff in Io as (c & <- & Ic). exact (c15_omitted_removed _ _ _ _ S c Ic Ik). }
    assert (ND : NoDup (map c_id omitted ++ map c_id (st_crits after))).
    { apply nodup_app_intro; [exact (c15_omitted_distinct _ _ _ _ S)|exact KD|exact DJ]. }
    assert (IN : incl (map c_id omitted ++ map c_id (st_crits after)) (map c_id (st_crits before))).
    { intros id I. apply in_app_or in I as [I|I]; apply in_map_iff in I as (c & <- & Ic).
      - exact (c15_omitted_declared _ _ _ _ S c Ic).
      - exact (c15_kept_declared _ _ _ _ S c Ic). }
    assert (LE : (List.length (map c_id (st_crits before)) <=
                  List.length (map c_id omitted ++ map c_id (st_crits after)))%nat).
    { rewrite app_length, !map_length. pose proof (c15_total _ _ _ _ S). lia. }
    assert (NB : NoDup (map c_id (st_crits before))) by exact (NoDup_incl_NoDup ND LE IN).
    split; [exact NB|]. split; [|split; [|exact DJ]].
    - apply NoDup_Permutation; [exact ND|exact NB|]. intros id. split; [apply IN|].
      exact (NoDup_length_incl ND LE IN id).
    - intros id. rewrite <- in_app_iff. split; [exact (NoDup_length_incl ND LE IN id)|apply IN].
  Qed.

  Lemma rank_ids_nodup (s : state) ranked :
    NoDup (map c_id (st_crits s)) -> rank_criteria s = Ok ranked -> NoDup (map rid ranked).
  Proof.
    intros ND H. apply OmissionFacts.rank_criteria_perm in H.
    replace (map rid ranked) with (map c_id (map fst ranked)) by (rewrite map_map; reflexivity).
    apply (Permutation_NoDup (l := map c_id (st_crits s))); [|exact ND].
    apply Permutation_map. now symmetry.
  Qed.

  (* with distinct ids, [ranked_apart] speaks about every entry of the ranking *)
  Lemma ranked_apart_entries (le : num -> num -> Prop) (s : state) (low high : list crit) ranked :
    NoDup (map c_id (st_crits s)) -> rank_criteria s = Ok ranked -> ranked_apart le s low high ->
    forall x y, In x ranked -> In y ranked -> In (rid x) (map c_id low) -> In (rid y) (map c_id high) -> le (snd x) (snd y).
  Proof.
    intros ND Hr (ranked' & Hr' & H) x y Ix Iy Il Ih.
    rewrite Hr in Hr'. injection Hr' as <-.
    pose proof (rank_ids_nodup _ _ ND Hr) as NR.
    apply in_map_iff in Il as (lc & El & Il). apply in_map_iff in Ih as (hc & Eh & Ih).
    destruct (H lc hc Il Ih) as (il & ih & A & B & C).
    rewrite El in A. rewrite Eh in B.
    rewrite (importance_fun _ _ _ _ (importance_of_entry ranked x NR Ix) A).
    rewrite (importance_fun _ _ _ _ (importance_of_entry ranked y NR Iy) B). exact C.
  Qed.

  (** "no kept criterion is less important than an omitted one" (weakest; strongest the reverse), entry by entry of the
      ranking of the state received; every entry of that ranking is either omitted or kept ([C15_partition]) *)
  Theorem C15_no_kept_weaker p before after omitted ranked :
    C15_spec p before after omitted ->
    forall kept_distinct : NoDup (map c_id (st_crits after)),
    rank_criteria before = Ok ranked ->
    (forall x, In x ranked -> In (rid x) (map c_id omitted) \/ In (rid x) (map c_id (st_crits after))) /\
    (bp_ordering p = "" \/ bp_ordering p = o_weakest ->
     forall x y, In x ranked -> In y ranked ->
                 In (rid x) (map c_id omitted) -> In (rid y) (map c_id (st_crits after)) -> nleb (snd x) (snd y) = true) /\
    (bp_ordering p = o_strongest ->
     forall x y, In x ranked -> In y ranked ->
                 In (rid x) (map c_id omitted) -> In (rid y) (map c_id (st_crits after)) -> nleb (snd y) (snd x) = true).
  Proof.
    intros S KD Hr. destruct (C15_partition _ _ _ _ S KD) as (NB & _ & MEM & _).
    split; [|split].
    - intros x Ix. apply MEM. pose proof (OmissionFacts.rank_criteria_perm _ _ Hr) as P.
      apply (Permutation_in (l := map c_id (map fst ranked))); [now apply Permutation_map|].
      rewrite map_map. exact (in_map rid _ _ Ix).
    - intros Hw x y Ix Iy Io Ik.
      exact (ranked_apart_entries _ _ _ _ _ NB Hr (c15_weakest _ _ _ _ S Hw) x y Ix Iy Io Ik).
    - intros Hs x y Ix Iy Io Ik.
      exact (ranked_apart_entries _ _ _ _ _ NB Hr (c15_strongest _ _ _ _ S Hs) y x Iy Ix Ik Io).
  Qed.
End Partition.

(** ** 5. On exact rationals *)
Section OnQc.
  Local Open Scope Qc_scope.
  Notation crit := (@crit NumQc).
  Notation state := (@state NumQc).
  Notation bprops := (@bprops NumQc).

  Lemma floor_pivot_Qc (n : nat) (p : bprops) :
    @nfloorZ NumQc (@nmul NumQc (@nofZ NumQc (Z.of_nat n)) (bp_ratio p))
    = Qfloor (inject_Z (Z.of_nat n) * this (bp_ratio p))%Q.
  Proof. cbn [nfloorZ nmul NumQc]. unfold qc_floorZ. apply Qfloor_comp. rewrite this_mult, this_ofZ. reflexivity. Qed.

  (** [C15_spec] with the carrier's operations read on Qc: the count is [Qfloor (n * ratio)] clamped, kept values are present
      and equal, the parameters are the listener's, importances are compared with [<=] *)
  Record C15_spec_Qc (p : bprops) (before after : state) (omitted : list crit) : Prop := {
    q_count :
      clamp_to (Qfloor (inject_Z (Z.of_nat (List.length (st_crits before))) * this (bp_ratio p))%Q) (bp_min p) (bp_max p)
               (Z.of_nat (List.length omitted));
    q_total : (List.length (st_crits after) + List.length omitted = List.length (st_crits before))%nat;
    q_omitted_declared : forall c, In c omitted -> In (c_id c) (map c_id (st_crits before));
    q_omitted_distinct : NoDup (map c_id omitted);
    q_omitted_removed : forall c, In c omitted -> ~ In (c_id c) (map c_id (st_crits after));
    q_kept_declared : forall c, In c (st_crits after) -> In (c_id c) (map c_id (st_crits before));
    q_alts_sorted : forall a, In a (all_alts after) -> keys_increasing (mkeys (a_vals a));
    q_alts_restricted :
      forall a, In a (all_alts after) -> forall id, In id (mkeys (a_vals a)) <-> In id (map c_id (st_crits after));
    q_values_unchanged :
      Forall2 (fun x y => forall c, In c (st_crits after) ->
                 exists v, mget (c_id c) (a_vals x) = Some v /\ mget (c_id c) (a_vals y) = Some v)
              (all_alts before) (all_alts after);
    q_params_restricted : on_criteria_removed (st_crits after) (st_params before) = Ok (st_params after);
    q_weakest :
      bp_ordering p = "" \/ bp_ordering p = o_weakest ->
      ranked_apart (N := NumQc) (fun io ik : Qc => io <= ik) before omitted (st_crits after);
    q_strongest :
      bp_ordering p = o_strongest ->
      ranked_apart (N := NumQc) (fun ik io : Qc => ik <= io) before (st_crits after) omitted
  }.

  Theorem C15_ok_sound_Qc (p : bprops) (before after : state) rep :
    C15_ok p before after rep = true ->
    exists omitted, rep = ROmission omitted /\ C15_spec_Qc p before after omitted.
  Proof.
    intros H. apply (C15_ok_sound_exact (L := OrdQc)) in H as (omitted & -> & S & V & P).
    exists omitted. split; [reflexivity|]. constructor.
    - rewrite <- floor_pivot_Qc. exact (c15_count _ _ _ _ S).
    - exact (c15_total _ _ _ _ S).
    - exact (c15_omitted_declared _ _ _ _ S).
    - exact (c15_omitted_distinct _ _ _ _ S).
    - exact (c15_omitted_removed _ _ _ _ S).
    - exact (c15_kept_declared _ _ _ _ S).
    - exact (c15_alts_sorted _ _ _ _ S).
    - exact (c15_alts_restricted _ _ _ _ S).
    - exact V.
    - exact P.
    - intros Hw. eapply ranked_apart_weaken; [|exact (c15_weakest _ _ _ _ S Hw)].
      intros x y Hxy. now apply nleb_iff.
    - intros Hs. eapply ranked_apart_weaken; [|exact (c15_strongest _ _ _ _ S Hs)].
      intros x y Hxy. now apply nleb_iff.
  Qed.

  (* when min <= max the count is the usual clamp and lies in [min, max] *)
  Corollary C15_count_minmax (p : bprops) (before after : state) omitted :
    C15_spec_Qc p before after omitted -> (bp_min p <= bp_max p)%Z ->
    Z.of_nat (List.length omitted)
    = Z.min (Z.max (Qfloor (inject_Z (Z.of_nat (List.length (st_crits before))) * this (bp_ratio p))%Q) (bp_min p)) (bp_max p)
    /\ (bp_min p <= Z.of_nat (List.length omitted) <= bp_max p)%Z.
  Proof. intros S. exact (clamp_to_minmax _ _ _ _ (q_count _ _ _ _ S)). Qed.

  (** with pairwise distinct ids handed on: no kept criterion is less important than an omitted one (weakest), no omitted one
      less important than a kept one (strongest) *)
  Theorem C15_no_kept_weaker_Qc (p : bprops) (before after : state) omitted ranked :
    C15_ok p before after (ROmission omitted) = true ->
    forall kept_distinct : NoDup (map c_id (st_crits after)),
    rank_criteria before = Ok ranked ->
    (bp_ordering p = "" \/ bp_ordering p = o_weakest ->
     forall x y, In x ranked -> In y ranked ->
                 In (rid x) (map c_id omitted) -> In (rid y) (map c_id (st_crits after)) -> ~ snd y < snd x) /\
    (bp_ordering p = o_strongest ->
     forall x y, In x ranked -> In y ranked ->
                 In (rid x) (map c_id omitted) -> In (rid y) (map c_id (st_crits after)) -> ~ snd x < snd y).
  Proof.
    intros H KD Hr. apply C15_ok_sound in H as (om & E & S). injection E as <-.
    destruct (C15_no_kept_weaker _ _ _ _ _ S KD Hr) as (_ & W & T). split.
    - intros Hw x y Ix Iy Io Ik. apply Qcle_not_lt. apply nleb_iff. exact (W Hw x y Ix Iy Io Ik).
    - intros Hs x y Ix Iy Io Ik. apply Qcle_not_lt. apply nleb_iff. exact (T Hs x y Ix Iy Io Ik).
  Qed.
End OnQc.

(** ** 6. Examples on [NumQc] *)
Module Examples.
  Import NumQc.
  Local Open Scope string_scope.
  Local Open Scope list_scope.

  Definition q (a : Z) (b : positive) : @Num.num NumQc := Q2Qc (a # b).
  Definition fp0 : @fparams NumQc :=
    {| fp_name := "linear"; fp_a := q 1 1; fp_b := q 0 1; fp_alpha := q 0 1; fp_mult := q 0 1 |}.
  (* ratio 1/2, min 0, max 3 *)
  Definition bp0 (ordering : string) : @bprops NumQc := {|
    bp_ordering := ordering; bp_ratio := q 1 2; bp_min := 0; bp_max := 3; bp_seed := 0;
    bp_scaling := q 1 1; bp_nonneg := false; bp_ref_type := ""; bp_ref_importance := q 1 2; bp_ref_seed := 0;
    bp_new_scaling := q 1 1; bp_mix_ratio := q 1 2;
    bp_fat_function := "const"; bp_fat_value := q 1 10; bp_fat_alpha := q 0 1; bp_fat_mult := q 0 1; bp_fat_query := 0;
    bp_anch_alts := []; bp_anch_loss := fp0; bp_anch_gain := fp0;
    bp_anch_ref := "ideal"; bp_anch_applier := "inline"; bp_anch_not_considered := true |}.
  Definition env0 : @env NumQc := {| env_streams := []; env_exp := [] |}.
  Definition cr (id : string) : @crit NumQc := {| c_id := id; c_type := TGain; c_range := None |}.
  Definition al (id : string) (a b c : Z) : @alt NumQc :=
    {| a_id := id; a_vals := [("a", q a 1); ("b", q b 1); ("c", q c 1)] |}.
  (* weighted sum, three criteria; importances (weight x summed considered values): a = 1*(1+3) = 4, b = 2*(2+6) = 16,
     c = 1/2*(5+1) = 3; "z" is not considered *)
  Definition s0 : @state NumQc :=
    {| st_notcons := [al "z" 2 3 1]; st_cons := [al "x" 1 2 5; al "y" 3 6 1]; st_crits := [cr "a"; cr "b"; cr "c"];
       st_params := PWs [(cr "a", q 1 1); (cr "b", q 2 1); (cr "c", q 1 2)] |}.

  Definition omitted_ids (r : @report NumQc) : list string := match r with ROmission o => map c_id o | _ => [] end.
  Definition run (ordering : string) :=
    match apply_omission env0 s0 (bp0 ordering) with
    | Ok (st, rep) => Some (C15_ok (bp0 ordering) s0 st rep, omitted_ids rep, map c_id (st_crits st))
    | Err _ => None
    end.

  (** non-vacuity: the model's omission on [s0] passes the checker; floor (3 * 1/2) = 1 criterion goes:
      the weakest "c", resp. the strongest "b" *)
  Example checker_accepts_model :
    (run "", run "weakest", run "strongest") =
    (Some (true, ["c"], ["a"; "b"]), Some (true, ["c"], ["a"; "b"]), Some (true, ["b"], ["a"; "c"])).
  Proof. vm_compute. reflexivity. Qed.

  (* the same instance written out: the state handed on and the report *)
  Definition al2 (id : string) (a b : Z) : @alt NumQc := {| a_id := id; a_vals := [("a", q a 1); ("b", q b 1)] |}.
  Definition s1 : @state NumQc :=
    {| st_notcons := [al2 "z" 2 3]; st_cons := [al2 "x" 1 2; al2 "y" 3 6]; st_crits := [cr "a"; cr "b"];
       st_params := PWs [(cr "a", q 1 1); (cr "b", q 2 1)] |}.

  Example checker_true : C15_ok (bp0 "") s0 s1 (ROmission [cr "c"]) = true.
  Proof. vm_compute. reflexivity. Qed.

  (* hence the specification holds of these data *)
  Example spec_instance : C15_spec_Qc (bp0 "") s0 s1 [cr "c"].
  Proof.
    destruct (C15_ok_sound_Qc _ _ _ _ checker_true) as (om & E & S). injection E as <-. exact S.
  Qed.

  (** the checker accepts the state and the report of the strongest ordering under "strongest" (first component) and
      rejects: the same data presented under the ordering weakest ("b", importance 16, omitted while "c", importance 3,
      is kept); a report naming another criterion than the removed one; one criterion too many removed; a changed value
      of a kept criterion; parameters not restricted; a report that is not an omission report *)
  Definition s1_strongest : @state NumQc :=
    {| st_notcons := [{| a_id := "z"; a_vals := [("a", q 2 1); ("c", q 1 1)] |}];
       st_cons := [{| a_id := "x"; a_vals := [("a", q 1 1); ("c", q 5 1)] |};
                   {| a_id := "y"; a_vals := [("a", q 3 1); ("c", q 1 1)] |}];
       st_crits := [cr "a"; cr "c"];
       st_params := PWs [(cr "a", q 1 1); (cr "c", q 1 2)] |}.
  Definition s1_value_changed : @state NumQc :=
    {| st_notcons := [al2 "z" 2 3]; st_cons := [al2 "x" 1 2; al2 "y" 3 7]; st_crits := [cr "a"; cr "b"];
       st_params := PWs [(cr "a", q 1 1); (cr "b", q 2 1)] |}.
  Definition s1_params_kept : @state NumQc :=
    {| st_notcons := [al2 "z" 2 3]; st_cons := [al2 "x" 1 2; al2 "y" 3 6]; st_crits := [cr "a"; cr "b"];
       st_params := st_params s0 |}.
  Definition s2 : @state NumQc :=
    {| st_notcons := [{| a_id := "z"; a_vals := [("b", q 3 1)] |}];
       st_cons := [{| a_id := "x"; a_vals := [("b", q 2 1)] |}; {| a_id := "y"; a_vals := [("b", q 6 1)] |}];
       st_crits := [cr "b"]; st_params := PWs [(cr "b", q 2 1)] |}.

  Example checker_rejects :
    (C15_ok (bp0 "strongest") s0 s1_strongest (ROmission [cr "b"]),
     C15_ok (bp0 "weakest") s0 s1_strongest (ROmission [cr "b"]),
     C15_ok (bp0 "") s0 s1 (ROmission [cr "b"]),
     C15_ok (bp0 "") s0 s2 (ROmission [cr "c"; cr "a"]),
     C15_ok (bp0 "") s0 s1_value_changed (ROmission [cr "c"]),
     C15_ok (bp0 "") s0 s1_params_kept (ROmission [cr "c"]),
     C15_ok (bp0 "") s0 s1 RNone)
    = (true, false, false, false, false, false, false).
  Proof. vm_compute. reflexivity. Qed.

  (** what the checker does NOT test (each of these is accepted):
      - an ordering name the program does not know (the model answers [Err EInvalid]; the importance clause is skipped,
        as for the random orderings): here the STRONGEST criterion is omitted under the ordering "nonsense";
      - the type / range of the reported criterion (criteria are compared by id);
      - the ids of the alternatives and the split considered / not considered (tested by [same_split] in [frame_ok]). *)
  Definition s1_renamed : @state NumQc :=
    {| st_notcons := []; st_cons := [al2 "p" 1 2; al2 "q" 3 6; al2 "r" 2 3]; st_crits := [cr "a"; cr "b"];
       st_params := PWs [(cr "a", q 1 1); (cr "b", q 2 1)] |}.
  Example checker_accepts_untested :
    (C15_ok (bp0 "nonsense") s0 s1_strongest (ROmission [cr "b"]),
     C15_ok (bp0 "") s0 s1 (ROmission [{| c_id := "c"; c_type := TCost; c_range := Some (q 0 1, q 9 1) |}]),
     C15_ok (bp0 "") s0 s1_renamed (ROmission [cr "c"]))
    = (true, true, true).
  Proof. vm_compute. reflexivity. Qed.

  (** counterexample to "the criteria handed on are the declared ones minus the omitted ones" from [C15_ok] alone:
      "a" is handed on twice (with its weight twice in the parameters, as the listener derives them for [a; a]), "b" is
      neither reported as omitted nor handed on. [C15_ok] accepts; the hypothesis [kept_distinct] of [C15_partition] fails;
      the C07 checker [crits_as_reported] rejects this stage. *)
  Definition al1 (id : string) (a : Z) : @alt NumQc := {| a_id := id; a_vals := [("a", q a 1)] |}.
  Definition sdup : @state NumQc :=
    {| st_notcons := [al1 "z" 2]; st_cons := [al1 "x" 1; al1 "y" 3]; st_crits := [cr "a"; cr "a"];
       st_params := PWs [(cr "a", q 1 1); (cr "a", q 1 1)] |}.

  Example duplicate_kept_accepted :
    C15_ok (bp0 "") s0 sdup (ROmission [cr "c"]) = true
    /\ In "b" (map c_id (st_crits s0))
    /\ ~ In "b" (map c_id [cr "c"]) /\ ~ In "b" (map c_id (st_crits sdup))
    /\ crits_as_reported s0 sdup (ROmission [cr "c"]) = false.
  Proof.
    split; [vm_compute; reflexivity|]. split; [cbn; tauto|]. split; [|split; [|vm_compute; reflexivity]].
    - cbn. intros [H|[]]. discriminate.
    - cbn. intros [H|[H|[]]]; discriminate.
  Qed.
End Examples.

Print Assumptions params_same_iff.
Print Assumptions params_equal_eq.
Print Assumptions importance_of_iff.
Print Assumptions C15_ok_sound.
Print Assumptions C15_values_present.
Print Assumptions C15_spec_complete.
Print Assumptions C15_ok_iff.
Print Assumptions C15_ok_sound_exact.
Print Assumptions C15_partition.
Print Assumptions C15_no_kept_weaker.
Print Assumptions C15_ok_sound_Qc.
Print Assumptions C15_count_minmax.
Print Assumptions C15_no_kept_weaker_Qc.
Print Assumptions Examples.checker_accepts_model.
Print Assumptions Examples.spec_instance.
Print Assumptions Examples.checker_rejects.
Print Assumptions Examples.checker_accepts_untested.
Print Assumptions Examples.duplicate_kept_accepted.
