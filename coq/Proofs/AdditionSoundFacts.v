(** * C18, soundness of the checker [C18_ok] of Check/BiasCheckers.v: what a passed check says about the OBSERVED data.

    Nothing is assumed about the arguments of the checker beyond what it tests.

    - Part 1 (any carrier [N : Num] with [L : OrdLaws N]; only [same_eq] is used): "equal up to [nsame]" is
      equality ([crit_same_eq], [state_same_eq], ...).
    - Part 2 (same generality): [added_one_spec], the declarative reading of the common part [added_one] of both biases
      (one criterion appended, gain, fresh id, every alternative holds a value, earlier values untouched, parameters
      cover the new criterion, new weight a fraction of an earlier weight) and [added_one_sound]; [C18_noop_sound].
    - Part 3 (instance [NumQc], where the order and the arithmetic of the carrier are those of [Qc]):
      [concealment_spec], [mixing_spec], [C18_spec] and the requested theorem [C18_ok_sound].
    - Part 4: corollaries (readings of [close8], of the concealed interval without bounding, of the rescaled
      components) and non-vacuity examples obtained by running the model. *)
From Coq Require Import ZArith QArith Qcanon Qround Qabs Bool List String Ascii Lia Lqa Permutation.
From RDM Require Import Base.Num Base.NumQc Base.Util Model.Data Model.Rank Model.Utility Model.Levels
  Model.Heuristics Model.Electre Model.Listeners Model.Biases Check.Stage Check.BiasCheckers
  Proofs.SortFacts Proofs.RankFacts Proofs.WfFacts Proofs.AggregateFacts Proofs.LevelFacts Proofs.AdditionFacts.
Import ListNotations.
Local Open Scope string_scope.
Local Open Scope list_scope.

(** ** 0. Generic list facts *)
Lemma leqb_Forall2 {A B} (f : A -> B -> bool) : forall l1 l2,
  list_eqb f l1 l2 = true <-> Forall2 (fun x y => f x y = true) l1 l2.
Proof.
  induction l1 as [|x r IH]; intros [|y s]; cbn [list_eqb]; split; intros H;
    try discriminate; try constructor; try (now inversion H).
  - apply andb_true_iff in H. tauto.
  - apply IH. apply andb_true_iff in H. tauto.
  - inversion H; subst. apply andb_true_iff. split; [assumption|now apply IH].
Qed.

Lemma leqb_eq {A} (f : A -> A -> bool) : (forall x y, f x y = true -> x = y) ->
  forall l1 l2, list_eqb f l1 l2 = true -> l1 = l2.
Proof.
  intros Hf. induction l1 as [|x r IH]; intros [|y s] H; cbn [list_eqb] in H; try discriminate; [reflexivity|].
  apply andb_true_iff in H as [H1 H2]. f_equal; [now apply Hf | now apply IH].
Qed.

Lemma Forall2_with_map {A B C} (R : A -> B -> Prop) (f : A -> C) (g : B -> C) : forall l1 l2,
  Forall2 R l1 l2 -> map f l1 = map g l2 -> Forall2 (fun x y => f x = g y /\ R x y) l1 l2.
Proof.
  induction 1 as [|x y l1 l2 H HF IH]; cbn [map]; intros E; constructor.
  - split; [now injection E|exact H].
  - apply IH. now injection E.
Qed.

Lemma Forall2_weaken {A B} (R R' : A -> B -> Prop) : (forall x y, R x y -> R' x y) ->
  forall l l', Forall2 R l l' -> Forall2 R' l l'.
Proof. intros M. induction 1; constructor; auto. Qed.

Lemma Forall2_in_l {A B} (R : A -> B -> Prop) : forall l l', Forall2 R l l' ->
  forall x, In x l -> exists y, In y l' /\ R x y.
Proof.
  induction 1 as [|x y l l' H HF IH]; intros z Hz; [destruct Hz|].
  destruct Hz as [<-|Hz]; [exists y; split; [now left|exact H]|].
  destruct (IH z Hz) as (y0 & Hy0 & R0). exists y0. split; [now right|exact R0].
Qed.

Lemma firstn_all_but_last {A} : forall (l : list A) n x,
  List.length l = S n -> last_opt l = Some x -> l = firstn n l ++ [x].
Proof.
  induction l as [|y l IH]; intros n x Hl Hx; [discriminate|].
  destruct l as [|z l].
  - cbn in Hl. injection Hl as <-. cbn in Hx. injection Hx as ->. reflexivity.
  - destruct n as [|n]; [discriminate|]. cbn [firstn app]. f_equal.
    apply IH; [cbn [List.length] in *; lia | exact Hx].
Qed.

Lemma find_some_in {A} (f : A -> bool) l x : find f l = Some x -> In x l /\ f x = true.
Proof. apply find_some. Qed.

Lemma NoDup_map_unique {A B} (f : A -> B) : forall l, NoDup (map f l) ->
  forall x y, In x l -> In y l -> f x = f y -> x = y.
Proof.
  induction l as [|a l IH]; intros D x y Hx Hy E; [destruct Hx|].
  cbn [map] in D. inversion D as [|? ? Hn D']; subst.
  destruct Hx as [->|Hx], Hy as [->|Hy]; try reflexivity.
  - exfalso. apply Hn. rewrite E. now apply in_map.
  - exfalso. apply Hn. rewrite <- E. now apply in_map.
  - now apply IH.
Qed.

Lemma mget_in {A} k (v : A) : forall m, mget k m = Some v -> In (k, v) m.
Proof.
  induction m as [|[k' v'] m IH]; cbn [mget]; [discriminate|].
  destruct (String.eqb k k') eqn:E.
  - apply String.eqb_eq in E. subst k'. intros H. injection H as ->. now left.
  - intros H. right. now apply IH.
Qed.

Lemma NoDup_app_snoc {A} (l : list A) x : NoDup (l ++ [x]) -> NoDup l /\ ~ In x l.
Proof.
  intros D. split; [now apply NoDup_app_l in D|]. apply NoDup_remove_2 in D. now rewrite app_nil_r in D.
Qed.

(** ** 1. "Equal up to [nsame]" is equality as soon as [nsame] is an equality test ([same_eq] of [OrdLaws]) *)
Section SameEq.
  Context {N : Num} {L : OrdLaws N}.

  Lemma option_nsame_eq (o1 o2 : option num) : option_eqb nsame o1 o2 = true -> o1 = o2.
  Proof.
    destruct o1 as [a|], o2 as [b|]; cbn [option_eqb]; intros H; try discriminate; [|reflexivity].
    f_equal. now apply same_eq.
  Qed.

  Lemma smap_same_eq (a b : smap num) : smap_same a b = true -> a = b.
  Proof.
    unfold smap_same. apply leqb_eq. intros [k v] [k' v']. cbn [fst snd]. intros H.
    apply andb_true_iff in H as [H1 H2]. apply String.eqb_eq in H1. apply same_eq in H2. congruence.
  Qed.

  Lemma alt_same_eq (a b : alt) : alt_same a b = true -> a = b.
  Proof.
    unfold alt_same. intros H. apply andb_true_iff in H as [H1 H2]. apply String.eqb_eq in H1.
    apply smap_same_eq in H2. destruct a as [i1 v1], b as [i2 v2]. cbn [a_id a_vals] in *. congruence.
  Qed.

  Lemma ctype_eqb_eq (a b : ctype) : ctype_eqb a b = true -> a = b.
  Proof. destruct a, b; cbn [ctype_eqb]; intros H; try discriminate; reflexivity. Qed.

  Lemma range_same_eq (a b : option (num * num)) : range_same a b = true -> a = b.
  Proof.
    unfold range_same. destruct a as [[a1 a2]|], b as [[b1 b2]|]; cbn [option_eqb fst snd]; intros H;
      try discriminate; [|reflexivity].
    apply andb_true_iff in H as [H1 H2]. apply same_eq in H1, H2. congruence.
  Qed.

  Lemma crit_same_eq (a b : crit) : crit_same a b = true -> a = b.
  Proof.
    unfold crit_same. intros H. apply andb_true_iff in H as [H H3]. apply andb_true_iff in H as [H1 H2].
    apply String.eqb_eq in H1. apply ctype_eqb_eq in H2. apply range_same_eq in H3.
    destruct a as [i1 t1 r1], b as [i2 t2 r2]. cbn [c_id c_type c_range] in *. congruence.
  Qed.

  Lemma wcrit_same_eq (a b : wcrit) : wcrit_same a b = true -> a = b.
  Proof.
    unfold wcrit_same. intros H. apply andb_true_iff in H as [H1 H2]. apply crit_same_eq in H1. apply same_eq in H2.
    destruct a as [c1 w1], b as [c2 w2]. cbn [fst snd] in *. congruence.
  Qed.

  Lemma linfun_same_eq (a b : linfun) : linfun_same a b = true -> a = b.
  Proof.
    unfold linfun_same. intros H. apply andb_true_iff in H as [H1 H2]. apply same_eq in H1, H2.
    destruct a as [a1 b1], b as [a2 b2]. cbn [lf_a lf_b] in *. congruence.
  Qed.

  Lemma ecrit_same_eq (a b : ecrit) : ecrit_same a b = true -> a = b.
  Proof.
    unfold ecrit_same. intros H. apply andb_true_iff in H as [H H4]. apply andb_true_iff in H as [H H3].
    apply andb_true_iff in H as [H1 H2]. apply same_eq in H1. apply linfun_same_eq in H2, H3, H4.
    destruct a as [k1 q1 p1 v1], b as [k2 q2 p2 v2]. cbn [ec_k ec_q ec_p ec_v] in *. congruence.
  Qed.

  Lemma lparams_same_eq (a b : lparams) : lparams_same a b = true -> a = b.
  Proof.
    unfold lparams_same. intros H. apply andb_true_iff in H as [H H4]. apply andb_true_iff in H as [H H3].
    apply andb_true_iff in H as [H1 H2]. apply same_eq in H1, H2, H3.
    apply (leqb_eq _ smap_same_eq) in H4.
    destruct a as [x1 y1 z1 t1], b as [x2 y2 z2 t2]. cbn [lp_coef lp_max lp_min lp_ths] in *. congruence.
  Qed.

  Lemma params_same_eq (a b : mparams) : params_same a b = true -> a = b.
  Proof.
    destruct a, b; cbn [params_same]; intros H; try discriminate.
    - f_equal. now apply (leqb_eq _ wcrit_same_eq).
    - f_equal. now apply (leqb_eq _ wcrit_same_eq).
    - apply andb_true_iff in H as [H1 H2]. f_equal; [now apply smap_same_eq | now apply (leqb_eq _ crit_same_eq)].
    - apply andb_true_iff in H as [H1 H2]. f_equal; [|now apply linfun_same_eq].
      revert H1. apply leqb_eq. intros [k x] [k' x']. cbn [fst snd]. intros H.
      apply andb_true_iff in H as [Ha Hb]. apply String.eqb_eq in Ha. apply ecrit_same_eq in Hb. congruence.
    - repeat (apply andb_true_iff in H as [H ?]).
      apply smap_same_eq in H.
      repeat match goal with
             | X : String.eqb _ _ = true |- _ => apply String.eqb_eq in X
             | X : Z.eqb _ _ = true |- _ => apply Z.eqb_eq in X
             | X : Bool.eqb _ _ = true |- _ => apply Bool.eqb_prop in X
             end. congruence.
    - repeat (apply andb_true_iff in H as [H ?]).
      repeat match goal with
             | X : String.eqb _ _ = true |- _ => apply String.eqb_eq in X
             | X : Z.eqb _ _ = true |- _ => apply Z.eqb_eq in X
             | X : Bool.eqb _ _ = true |- _ => apply Bool.eqb_prop in X
             | X : lparams_same _ _ = true |- _ => apply lparams_same_eq in X
             | X : smap_same _ _ = true |- _ => apply smap_same_eq in X
             end. congruence.
    - repeat (apply andb_true_iff in H as [H ?]).
      repeat match goal with
             | X : String.eqb _ _ = true |- _ => apply String.eqb_eq in X
             | X : Z.eqb _ _ = true |- _ => apply Z.eqb_eq in X
             | X : Bool.eqb _ _ = true |- _ => apply Bool.eqb_prop in X
             | X : lparams_same _ _ = true |- _ => apply lparams_same_eq in X
             end. congruence.
  Qed.

  Lemma state_same_eq (a b : state) : state_same a b = true -> a = b.
  Proof.
    unfold state_same. intros H. apply andb_true_iff in H as [H H4]. apply andb_true_iff in H as [H H3].
    apply andb_true_iff in H as [H1 H2].
    apply (leqb_eq _ alt_same_eq) in H1, H2. apply (leqb_eq _ crit_same_eq) in H3. apply params_same_eq in H4.
    destruct a as [n1 c1 k1 p1], b as [n2 c2 k2 p2]. cbn [st_notcons st_cons st_crits st_params] in *. congruence.
  Qed.
End SameEq.

(** ** 2. The common part of both biases: [added_one] *)
Section AddedOne.
  Context {N : Num} {L : OrdLaws N}.

  Lemma mhas_some {A} k (m : smap A) : mhas k m = true <-> exists v, mget k m = Some v.
  Proof.
    unfold mhas. destruct (mget k m) as [v|]; split; intros H; try discriminate; eauto.
    destruct H as [v H]. discriminate.
  Qed.

  Lemma has_crit_in id (cs : list crit) : has_crit id cs = true <-> In id (map c_id cs).
  Proof.
    unfold has_crit. rewrite existsb_exists, in_map_iff. split.
    - intros (c & Hc & E). apply String.eqb_eq in E. now exists c.
    - intros (c & E & Hc). exists c. split; [exact Hc|now apply String.eqb_eq].
  Qed.

  Lemma has_crit_not_in id (cs : list crit) : has_crit id cs = false <-> ~ In id (map c_id cs).
  Proof. rewrite <- has_crit_in. destruct (has_crit id cs); split; congruence. Qed.

  (** *** the parameters hold an entry for every criterion: the Prop reading of [params_cover] *)
  Definition weights_cover (w : smap num) (cs : list crit) : Prop :=
    forall c, In c cs -> exists v, mget (c_id c) w = Some v.

  Definition params_extended_to (pm : mparams) (cs : list crit) : Prop :=
    match pm with
    | PWs wc | POwa wc =>
        List.length wc = List.length cs /\ forall c, In c cs -> exists x, In x wc /\ c_id (fst x) = c_id c
    | PChoquet w _ => forall s, In s (power_set (map c_id cs)) -> exists v, mget (criterion_key s) w = Some v
    | PElectre ecs _ => forall c, In c cs -> exists e, mget (c_id c) ecs = Some e
    | PMajority w _ _ _ _ => weights_cover w cs
    | PAspect _ lp _ w _ => weights_cover w cs /\ forall t, In t (lp_ths lp) -> weights_cover t cs
    | PSatisf _ lp _ _ _ => forall t, In t (lp_ths lp) -> weights_cover t cs
    end.

  Lemma covers_weights_iff w cs : covers_weights w cs = true <-> weights_cover w cs.
  Proof.
    unfold covers_weights, weights_cover. rewrite forallb_forall.
    split; intros H c Hc; apply mhas_some; now apply H.
  Qed.

  Lemma params_cover_iff pm cs : params_cover pm cs = true <-> params_extended_to pm cs.
  Proof.
    assert (W : forall wc : list wcrit,
               Nat.eqb (List.length wc) (List.length cs)
               && forallb (fun c => existsb (fun x : wcrit => String.eqb (c_id (fst x)) (c_id c)) wc) cs = true <->
               List.length wc = List.length cs /\ forall c, In c cs -> exists x, In x wc /\ c_id (fst x) = c_id c).
    { intros wc. rewrite andb_true_iff, Nat.eqb_eq, forallb_forall.
      split; intros [A B]; (split; [exact A|]); intros c Hc; specialize (B c Hc).
      - apply existsb_exists in B as (x & Hx & E). apply String.eqb_eq in E. now exists x.
      - destruct B as (x & Hx & E). apply existsb_exists. exists x. split; [exact Hx|now apply String.eqb_eq]. }
    destruct pm as [wc|wc|w cs0|ecs f|w c0 sd rnd dr|fn lp sd w rnd|fn lp sd c0 rnd];
      cbn [params_cover params_extended_to].
    - apply W.
    - apply W.
    - rewrite forallb_forall. split; intros H s Hs; apply mhas_some; now apply H.
    - rewrite forallb_forall. split; intros H s Hs; apply mhas_some; now apply H.
    - apply covers_weights_iff.
    - rewrite andb_true_iff, covers_weights_iff, forallb_forall.
      split; intros [A B]; (split; [exact A|]); intros t Ht; apply covers_weights_iff; now apply B.
    - rewrite forallb_forall. split; intros B t Ht; apply covers_weights_iff; now apply B.
  Qed.

  (** *** the invariant of the state handed on, read as propositions *)
  Lemma inv_props (s : state) : Stage.inv s = true ->
    (forall a, In a (all_alts s) -> forall c, In c (st_crits s) -> exists v, mget (c_id c) (a_vals a) = Some v) /\
    params_extended_to (st_params s) (st_crits s) /\
    NoDup (map c_id (st_crits s)).
  Proof.
    unfold Stage.inv. intros H. apply andb_true_iff in H as [H H3]. apply andb_true_iff in H as [H1 H2].
    split; [|split].
    - rewrite forallb_forall in H1. intros a Ha c Hc. specialize (H1 a Ha). rewrite forallb_forall in H1.
      apply mhas_some. now apply H1.
    - now apply params_cover_iff.
    - now apply nodup_str_NoDup.
  Qed.

  (** *** the new weight *)
  (* the order test of [new_weight_ok]: [wn] lies between 0 (included) and [wr] (excluded), on the side of [wr] *)
  Definition fraction_of (wn wr : num) : Prop :=
    (nleb nzero wn = true /\ nltb wn wr = true) \/
    (neqb wn nzero = true /\ neqb wr nzero = true) \/
    (nleb wn nzero = true /\ nltb wr wn = true).

  (* [fr wn wr]: the new weight [wn] is a fraction of the earlier weight [wr]. For the methods that keep one weight per
     criterion, and when the parameters before and after are of the same kind: the parameters after hold a weight for
     [newid], and every such weight is a fraction of the weight of SOME entry of the parameters before. *)
  Definition new_weight_spec (fr : num -> num -> Prop) (before after : state) (newid : string) : Prop :=
    match st_params before, st_params after with
    | PWs w0, PWs w1 | POwa w0, POwa w1 =>
        (exists x, In x w1 /\ c_id (fst x) = newid) /\
        forall x, In x w1 -> c_id (fst x) = newid -> exists r, In r w0 /\ fr (snd x) (snd r)
    | PMajority w0 _ _ _ _, PMajority w1 _ _ _ _ | PAspect _ _ _ w0 _, PAspect _ _ _ w1 _ =>
        exists x, mget newid w1 = Some x /\ exists r, In r w0 /\ fr x (snd r)
    | PElectre e0 _, PElectre e1 _ =>
        exists x, mget newid e1 = Some x /\ exists r, In r e0 /\ fr (ec_k x) (ec_k (snd r))
    | _, _ => True
    end.

  Lemma new_weight_spec_mono (fr fr' : num -> num -> Prop) before after newid :
    (forall a b, fr a b -> fr' a b) -> new_weight_spec fr before after newid -> new_weight_spec fr' before after newid.
  Proof.
    intros M. unfold new_weight_spec.
    destruct (st_params before), (st_params after); try exact (fun H => H).
    - intros [A B]. split; [exact A|]. intros x Hx E. destruct (B x Hx E) as (r & Hr & F). exists r. auto.
    - intros [A B]. split; [exact A|]. intros x Hx E. destruct (B x Hx E) as (r & Hr & F). exists r. auto.
    - intros (x & Hx & r & Hr & F). exists x. split; [exact Hx|]. exists r. auto.
    - intros (x & Hx & r & Hr & F). exists x. split; [exact Hx|]. exists r. auto.
    - intros (x & Hx & r & Hr & F). exists x. split; [exact Hx|]. exists r. auto.
  Qed.

  Lemma frac_test_iff (wn wr : num) :
    (nleb nzero wn && nltb wn wr) || (neqb wn nzero && neqb wr nzero) || (nleb wn nzero && nltb wr wn) = true <->
    fraction_of wn wr.
  Proof. unfold fraction_of. rewrite !orb_true_iff, !andb_true_iff. tauto. Qed.

  Lemma cover_nodup_ids (wc : list wcrit) (cs : list crit) :
    List.length wc = List.length cs ->
    (forall c, In c cs -> exists x, In x wc /\ c_id (fst x) = c_id c) ->
    NoDup (map c_id cs) -> NoDup (map (fun x : wcrit => c_id (fst x)) wc).
  Proof.
    intros Hl Hc ND. apply (NoDup_incl_NoDup ND).
    - rewrite !map_length. lia.
    - intros id Hid. apply in_map_iff in Hid as (c & <- & Hcin). destruct (Hc c Hcin) as (x & Hx & <-).
      apply (in_map (fun x : wcrit => c_id (fst x))). exact Hx.
  Qed.

  Lemma new_weight_list_sound (w0 w1 : list wcrit) (cs : list crit) newid :
    match find (fun x : wcrit => String.eqb (c_id (fst x)) newid) w1 with
    | Some x => existsb (fun r : wcrit =>
                           (nleb nzero (snd x) && nltb (snd x) (snd r)) || (neqb (snd x) nzero && neqb (snd r) nzero)
                           || (nleb (snd x) nzero && nltb (snd r) (snd x))) w0
    | None => false
    end = true ->
    List.length w1 = List.length cs /\ (forall c, In c cs -> exists x, In x w1 /\ c_id (fst x) = c_id c) ->
    NoDup (map c_id cs) ->
    (exists x, In x w1 /\ c_id (fst x) = newid) /\
    forall x, In x w1 -> c_id (fst x) = newid -> exists r, In r w0 /\ fraction_of (snd x) (snd r).
  Proof.
    intros H [Hl Hc] ND.
    destruct (find _ w1) as [x|] eqn:F; [|discriminate].
    apply find_some in F as [Hx Ex]. apply String.eqb_eq in Ex.
    apply existsb_exists in H as (r & Hr & Fr). apply frac_test_iff in Fr.
    split; [now exists x|]. intros x' Hx' Ex'.
    assert (x' = x) as ->.
    { apply (NoDup_map_unique (fun x : wcrit => c_id (fst x)) w1 (cover_nodup_ids _ _ Hl Hc ND)); congruence. }
    now exists r.
  Qed.

  Lemma new_weight_sound (before after : state) newid :
    new_weight_ok before after newid = true ->
    params_extended_to (st_params after) (st_crits after) -> NoDup (map c_id (st_crits after)) ->
    new_weight_spec fraction_of before after newid.
  Proof.
    unfold new_weight_ok, new_weight_spec. cbv zeta. intros H C ND.
    destruct (st_params before) as [w0|w0|w0 cs0|e0 f0|w0 c0 sd0 rnd0 dr0|fn0 lp0 sd0 w0 rnd0|fn0 lp0 sd0 c0 rnd0],
             (st_params after) as [w1|w1|w1 cs1|e1 f1|w1 c1 sd1 rnd1 dr1|fn1 lp1 sd1 w1 rnd1|fn1 lp1 sd1 c1 rnd1];
      try exact I; cbn [params_extended_to] in C.
    - exact (new_weight_list_sound _ _ _ _ H C ND).
    - exact (new_weight_list_sound _ _ _ _ H C ND).
    - destruct (mget newid e1) as [x|]; [|discriminate]. exists x. split; [reflexivity|].
      apply existsb_exists in H as (r & Hr & Fr). apply frac_test_iff in Fr. now exists r.
    - destruct (mget newid w1) as [x|]; [|discriminate]. exists x. split; [reflexivity|].
      apply existsb_exists in H as (r & Hr & Fr). apply frac_test_iff in Fr. now exists r.
    - destruct (mget newid w1) as [x|]; [|discriminate]. exists x. split; [reflexivity|].
      apply existsb_exists in H as (r & Hr & Fr). apply frac_test_iff in Fr. now exists r.
  Qed.

  (** *** what [added_one before after c] says *)
  Record added_one_spec (fr : num -> num -> Prop) (before after : state) (c : crit) : Prop := {
    (* exactly one new criterion, appended after the earlier ones, which are handed on unchanged and in order *)
    ao_one_criterion_appended : st_crits after = st_crits before ++ [c];
    (* it is a gain criterion *)
    ao_gain : c_type c = TGain;
    (* its id is not the id of an earlier criterion; the ids after the bias are pairwise distinct *)
    ao_id_not_used_before : ~ In (c_id c) (map c_id (st_crits before));
    ao_ids_distinct : NoDup (map c_id (st_crits after));
    (* the known alternatives are the same, considered / not considered as before, in the same order *)
    ao_same_alternatives : map a_id (st_cons after) = map a_id (st_cons before) /\
                           map a_id (st_notcons after) = map a_id (st_notcons before);
    (* every known alternative holds a value for the new criterion (and for every other criterion) *)
    ao_every_alternative_has_value : forall a, In a (all_alts after) -> exists v, mget (c_id c) (a_vals a) = Some v;
    ao_all_values_present : forall a, In a (all_alts after) -> forall c0, In c0 (st_crits after) ->
                                      exists v, mget (c_id c0) (a_vals a) = Some v;
    (* all earlier values are untouched: alternative by alternative, same id and same value for every earlier criterion *)
    ao_values_unchanged : Forall2 (fun x y => a_id y = a_id x /\
                                              forall c0, In c0 (st_crits before) ->
                                                         mget (c_id c0) (a_vals y) = mget (c_id c0) (a_vals x))
                                  (all_alts before) (all_alts after);
    (* the parameters of the method hold an entry for every criterion, the new one included *)
    ao_params_extended : params_extended_to (st_params after) (st_crits after);
    (* weight-based methods: the weight of the new criterion is a fraction of an earlier weight *)
    ao_new_weight : new_weight_spec fr before after (c_id c)
  }.

  Lemma added_one_spec_mono (fr fr' : num -> num -> Prop) before after c :
    (forall a b, fr a b -> fr' a b) -> added_one_spec fr before after c -> added_one_spec fr' before after c.
  Proof.
    intros M [H1 H2 H3 H4 H5 H6 H7 H8 H9 H10]. constructor; try assumption.
    exact (new_weight_spec_mono _ _ _ _ _ M H10).
  Qed.

  Theorem added_one_sound (before after : state) (c : crit) :
    added_one before after c = true -> added_one_spec fraction_of before after c.
  Proof.
    unfold added_one. intros H.
    apply andb_true_iff in H as [H Hw]. apply andb_true_iff in H as [H Hinv]. apply andb_true_iff in H as [H Hsplit].
    apply andb_true_iff in H as [H Hkept]. apply andb_true_iff in H as [H Hgain]. apply andb_true_iff in H as [H Hfresh].
    apply andb_true_iff in H as [H Hlast]. apply andb_true_iff in H as [Hlen Hpre].
    apply Nat.eqb_eq in Hlen. unfold is_prefix_crits in Hpre. apply (leqb_eq _ crit_same_eq) in Hpre.
    destruct (last_opt (st_crits after)) as [l|] eqn:El; [|discriminate]. apply crit_same_eq in Hlast. subst l.
    apply negb_true_iff, has_crit_not_in in Hfresh. apply ctype_eqb_eq in Hgain.
    assert (Happ : st_crits after = st_crits before ++ [c]).
    { rewrite (firstn_all_but_last _ _ _ Hlen El) at 1. now rewrite <- Hpre. }
    destruct (inv_props _ Hinv) as (Hcov & Hpar & ND).
    unfold same_split in Hsplit. apply andb_true_iff in Hsplit as [S1 S2]. apply list_eqb_eq in S1, S2.
    assert (Hc_in : In c (st_crits after)) by (rewrite Happ; apply in_or_app; right; now left).
    constructor; try assumption.
    - now split.
    - intros a Ha. now apply Hcov.
    - unfold values_kept in Hkept. apply leqb_Forall2 in Hkept.
      assert (E : map a_id (all_alts before) = map a_id (all_alts after)).
      { unfold all_alts. rewrite !map_app. congruence. }
      pose proof (Forall2_with_map _ a_id a_id _ _ Hkept E) as F.
      eapply Forall2_weaken; [|exact F]. cbv beta. intros x y [Eid K]. split; [now symmetry|].
      intros c0 Hc0. rewrite forallb_forall in K. symmetry. apply option_nsame_eq. now apply K.
    - now apply new_weight_sound.
  Qed.

  (* consequence: the state received already held a value of every alternative for every criterion *)
  Corollary added_one_before_complete fr before after c : added_one_spec fr before after c ->
    forall a, In a (all_alts before) -> forall c0, In c0 (st_crits before) ->
      exists v, mget (c_id c0) (a_vals a) = Some v.
  Proof.
    intros S a Ha c0 Hc0.
    destruct (Forall2_in_l _ _ _ (ao_values_unchanged _ _ _ _ S) a Ha) as (y & Hy & _ & K).
    rewrite <- (K c0 Hc0). apply (ao_all_values_present _ _ _ _ S y Hy).
    rewrite (ao_one_criterion_appended _ _ _ _ S). apply in_or_app. now left.
  Qed.

  Corollary added_one_before_ids_distinct fr before after c : added_one_spec fr before after c ->
    NoDup (map c_id (st_crits before)).
  Proof.
    intros S. pose proof (ao_ids_distinct _ _ _ _ S) as D. rewrite (ao_one_criterion_appended _ _ _ _ S), map_app in D.
    now apply NoDup_app_l in D.
  Qed.
End AddedOne.

(** *** mixing with fewer than two criteria (any carrier) *)
Theorem C18_noop_sound {N : Num} {L : OrdLaws N} (name : string) (p : bprops) (before after : state) :
  C18_ok name p before after RNone = true ->
  name = b_mixing /\ (List.length (st_crits before) < 2)%nat /\ after = before.
Proof.
  cbn [C18_ok]. intros H. apply andb_true_iff in H as [H Hs]. apply andb_true_iff in H as [Hn Hl].
  apply String.eqb_eq in Hn. apply Nat.ltb_lt in Hl. apply state_same_eq in Hs.
  split; [exact Hn|]. split; [exact Hl|]. now symmetry.
Qed.

(** ** 3. On exact rationals: the arithmetic clauses, [C18_spec] and [C18_ok_sound] *)
Local Open Scope Qc_scope.

Notation stateQ := (@state NumQc).
Notation critQ := (@crit NumQc).
Notation altQ := (@alt NumQc).
Notation bpropsQ := (@bprops NumQc).
Notation reportQ := (@report NumQc).
Notation componentQ := (@component NumQc).

(** *** 3a. a fraction in [0,1) of a weight *)
Definition unit_fraction (wn wr : Qc) : Prop := exists u : Qc, 0 <= u /\ u < 1 /\ wn = u * wr.

Lemma div_unit_pos (a b : Qc) : 0 <= a -> a < b -> 0 <= a / b /\ a / b < 1 /\ a = a / b * b.
Proof.
  intros A B.
  assert (P : 0 < b) by (eapply Qcle_lt_trans; eassumption).
  assert (NZ : b <> 0) by (intros ->; apply (Qclt_not_le _ _ P); apply Qcle_refl).
  split; [|split].
  - unfold Qcle in *. rewrite this_div. apply Qle_shift_div_l; [exact P|]. rewrite this_0, Qmult_0_l. exact A.
  - unfold Qclt in *. rewrite this_div. apply Qlt_shift_div_r; [exact P|]. rewrite this_1, Qmult_1_l. exact B.
  - field. exact NZ.
Qed.

Theorem fraction_of_unit (wn wr : Qc) : @fraction_of NumQc wn wr <-> unit_fraction wn wr.
Proof.
  unfold fraction_of, unit_fraction. split.
  - intros [[A B]|[[A B]|[A B]]]; bconv.
    + exists (wn / wr). now apply div_unit_pos.
    + exists 0. subst. split; [apply Qcle_refl|]. split; [reflexivity|]. change (@nzero NumQc) with 0. ring.
    + change (@nzero NumQc) with 0 in *.
      assert (A' : 0 <= - wn) by (qcq; lra). assert (B' : - wn < - wr) by (qcq; lra).
      destruct (div_unit_pos _ _ A' B') as (U0 & U1 & E). exists (- wn / - wr). split; [exact U0|]. split; [exact U1|].
      assert (NZ : wr <> 0) by (intros ->; qcq; lra).
      transitivity (- - wn); [ring|]. rewrite E at 1. field.
      intros Z. apply NZ. transitivity (- - wr); [ring|]. rewrite Z. ring.
  - intros (u & U0 & U1 & ->). pose proof (frac_unit u wr (conj U0 U1)) as F. unfold frac in F.
    apply orb_true_iff in F as [F|F]; [apply orb_true_iff in F as [F|F]|]; apply andb_true_iff in F; auto.
Qed.

(** *** 3b. equality up to the rounding of the API: [near] *)
(* |a - b| <= 1.5e-8 + 1e-9 |b| *)
Definition close8 (a b : Qc) : Prop :=
  @nabs NumQc (a - b) <= @c_tol_abs NumQc + @c_tol_rel NumQc * @nabs NumQc b.

Lemma near_iff (a b : Qc) : near a b = true <-> close8 a b.
Proof. unfold near, approx8, close8. apply nleb_iff. Qed.

(** *** 3c. a range scaled about its centre *)
Definition centre (r : Qc * Qc) : Qc := (fst r + snd r) / Q2Qc 2.
Definition half_width (r : Qc * Qc) : Qc := (snd r - fst r) / Q2Qc 2.

Lemma two_nz : Q2Qc 2 <> 0.
Proof. intros H. discriminate H. Qed.

Lemma scale_equally_centre (r : Qc * Qc) (s : Qc) :
  @scale_equally NumQc r s = (centre r - half_width r * s, centre r + half_width r * s).
Proof.
  destruct r as [a b]. unfold scale_equally, range_diff, centre, half_width. cbn [nadd nsub nmul ndiv c_two NumQc fst snd].
  assert (E2 : Q2Qc 2 = 1 + 1) by (apply Qc_is_canon; reflexivity).
  assert (T : 1 + 1 <> 0) by (rewrite <- E2; exact two_nz). rewrite E2.
  f_equal; match goal with |- @eq _ ?a ?b => change (@eq Qc a b) end; field; exact T.
Qed.

(** *** 3d. a value rescaled from the range [r] of the criterion [c0] to [0, T], cost criteria inverted *)
Definition rescaled_to (T : Qc) (c0 : critQ) (r : Qc * Qc) (v : Qc) : Qc :=
  (if is_cost c0 then snd r - v else v - fst r)
  * (if Qc_eq_dec (snd r - fst r) 0 then 0 else T / (snd r - fst r)).

Lemma rescaled_to_eq (T : Qc) (c0 : critQ) (r : Qc * Qc) (v : Qc) :
  @nmul NumQc (if is_cost c0 then @nsub NumQc (snd r) v else @nsub NumQc v (fst r))
    (if @neqb NumQc (range_diff r) nzero then @nzero NumQc else @ndiv NumQc T (range_diff r))
  = rescaled_to T c0 r v.
Proof.
  unfold rescaled_to, range_diff. cbn [nsub nmul ndiv nzero NumQc]. f_equal.
  match goal with |- (if ?b then _ else _) = _ => destruct b eqn:E end;
    destruct (Qc_eq_dec (snd r - fst r) 0) as [Z|Z]; try reflexivity.
  - apply neqb_iff in E. contradiction.
  - apply neqb_false_iff in E. contradiction.
Qed.

(** *** 3e. the specification *)
Section Spec.
  Variables (p : bpropsQ) (before after : stateQ).

  (* criteria concealment, report [RConcealment c vals _] *)
  Record concealment_spec (c : critQ) (vals : smap Qc) : Prop := {
    cs_added_one : added_one_spec unit_fraction before after c;
    (* the report lists, for every known alternative, the value it now holds for the new criterion, and nothing else *)
    cs_reported_values :
      List.length vals = List.length (all_alts after) /\
      forall a, In a (all_alts after) ->
        exists v, mget (c_id c) (a_vals a) = Some v /\ mget (a_id a) vals = Some v;
    (* the declared range of the new criterion is the value range of one of the EXISTING criteria (the reference
       criterion) scaled about its centre by [newCriterionScaling], up to the rounding of the API *)
    cs_range_is_scaled_reference_range :
      exists lo hi rc r,
        c_range c = Some (lo, hi) /\ In rc (st_crits before) /\ values_range (all_alts before) rc = Ok r /\
        close8 lo (centre r - half_width r * bp_new_scaling p) /\
        close8 hi (centre r + half_width r * bp_new_scaling p);
    (* concealed values lie in that range, then bounded as configured: reported values ... *)
    cs_reported_in_range :
      forall lo hi, c_range c = Some (lo, hi) -> forall k v, In (k, v) vals ->
        bound_value p (lo, hi) (nmin lo hi) <= v /\ v <= bound_value p (lo, hi) (nmax lo hi);
    (* ... and the values the alternatives hold *)
    cs_values_in_range :
      forall lo hi, c_range c = Some (lo, hi) -> forall a, In a (all_alts after) ->
        forall v, mget (c_id c) (a_vals a) = Some v ->
          bound_value p (lo, hi) (nmin lo hi) <= v /\ v <= bound_value p (lo, hi) (nmax lo hi)
  }.

  (* one component of a mixing: the report [cp] of the existing criterion [c0] rescaled to [0, T] *)
  Definition component_rescaled (T : Qc) (cp : componentQ) : Prop :=
    exists c0 r,
      In c0 (st_crits before) /\ c_id c0 = cp_id cp /\ values_range (all_alts before) c0 = Ok r /\
      forall a, In a (all_alts before) ->
        exists v s, mget (c_id c0) (a_vals a) = Some v /\ mget (a_id a) (cp_values cp) = Some s /\
                    close8 s (rescaled_to T c0 r v).

  (* criteria mixing, report [RMixing c1 c2 cn _]; [nc] is the last criterion of the state handed on *)
  Record mixing_spec (c1 c2 cn : componentQ) (nc : critQ) : Prop := {
    ms_added_one : added_one_spec unit_fraction before after nc;
    ms_reported_new_id : c_id nc = cp_id cn;
    (* two distinct existing criteria *)
    ms_components_distinct : cp_id c1 <> cp_id c2;
    ms_components_existing : In (cp_id c1) (map c_id (st_crits before)) /\ In (cp_id c2) (map c_id (st_crits before));
    (* every known alternative: the value it holds for the new criterion is the reported mixed value [z], which is
       mixingRatio x c1 + (1 - mixingRatio) x c2 of the reported components (up to the rounding of the API) and lies
       between them (up to [c_tol_abs]) *)
    ms_mixed_values :
      forall a, In a (all_alts after) ->
        exists x y z,
          mget (a_id a) (cp_values c1) = Some x /\ mget (a_id a) (cp_values c2) = Some y /\
          mget (a_id a) (cp_values cn) = Some z /\ mget (c_id nc) (a_vals a) = Some z /\
          close8 z (bp_mix_ratio p * x + (1 - bp_mix_ratio p) * y) /\
          nmin x y - @c_tol_abs NumQc <= z /\ z <= nmax x y + @c_tol_abs NumQc;
    (* the new criterion declares the range [0, T]; both components are the two criteria rescaled to it *)
    ms_components_rescaled :
      exists T, c_range nc = Some (0, T) /\ component_rescaled T c1 /\ component_rescaled T c2
  }.
End Spec.

Definition C18_spec (name : string) (p : bpropsQ) (before after : stateQ) (rep : reportQ) : Prop :=
  match rep with
  | RNone =>   (* mixing does nothing when fewer than two criteria exist *)
      name = b_mixing /\ (List.length (st_crits before) < 2)%nat /\ after = before
  | RConcealment c vals _ => concealment_spec p before after c vals
  | RMixing c1 c2 cn _ => exists nc, last_opt (st_crits after) = Some nc /\ mixing_spec p before after c1 c2 cn nc
  | _ => False
  end.

(** *** 3f. soundness *)
Lemma added_one_sound_Qc (before after : stateQ) (c : critQ) :
  added_one before after c = true -> added_one_spec unit_fraction before after c.
Proof.
  intros H. apply (added_one_sound (L := OrdQc)) in H.
  eapply added_one_spec_mono; [|exact H]. intros a b. apply fraction_of_unit.
Qed.

Lemma concealment_sound name (p : bpropsQ) (before after : stateQ) (c : critQ) (vals : smap Qc) ad :
  C18_ok name p before after (RConcealment c vals ad) = true -> concealment_spec p before after c vals.
Proof.
  cbn [C18_ok]. intros H.
  apply andb_true_iff in H as [H Hrange]. apply andb_true_iff in H as [H Hlen]. apply andb_true_iff in H as [Hadd Hvals].
  apply added_one_sound_Qc in Hadd. apply Nat.eqb_eq in Hlen. rewrite forallb_forall in Hvals.
  assert (Hrep : forall a, In a (all_alts after) ->
                   exists v, mget (c_id c) (a_vals a) = Some v /\ mget (a_id a) vals = Some v).
  { intros a Ha. destruct (ao_every_alternative_has_value _ _ _ _ Hadd a Ha) as [v Hv]. exists v. split; [exact Hv|].
    specialize (Hvals a Ha). apply (option_nsame_eq (L := OrdQc)) in Hvals. exact (eq_trans Hvals Hv). }
  destruct (c_range c) as [[lo hi]|] eqn:Er; [|discriminate].
  apply andb_true_iff in Hrange as [Href Hin].
  apply existsb_exists in Href as (rc & Hrc & Href).
  destruct (values_range (all_alts before) rc) as [r|] eqn:Evr; [|discriminate].
  cbv zeta in Href. rewrite scale_equally_centre in Href. cbn [fst snd] in Href.
  apply andb_true_iff in Href as [Hlo Hhi]. apply near_iff in Hlo, Hhi.
  rewrite forallb_forall in Hin.
  assert (Hin' : forall k v, In (k, v) vals ->
                   bound_value p (lo, hi) (nmin lo hi) <= v /\ v <= bound_value p (lo, hi) (nmax lo hi)).
  { intros k v Hkv. specialize (Hin (k, v) Hkv). cbv zeta in Hin. cbn [snd] in Hin. now apply within_iff in Hin. }
  constructor.
  - exact Hadd.
  - split; assumption.
  - exists lo, hi, rc, r. repeat split; assumption.
  - intros lo' hi' E k v Hkv. rewrite Er in E. injection E as <- <-. now apply (Hin' k).
  - intros lo' hi' E a Ha v Hv. rewrite Er in E. injection E as <- <-.
    destruct (Hrep a Ha) as (v' & Hv' & Hm). assert (v' = v) by congruence. subst v'.
    apply (Hin' (a_id a)). now apply mget_in.
Qed.

Lemma component_sound (before : stateQ) fr after nc (T : Qc) (cp : componentQ) :
  added_one_spec fr before after nc ->
  match find (fun x : critQ => String.eqb (c_id x) (cp_id cp)) (st_crits before) with
  | Some c0 =>
      match values_range (all_alts before) c0 with
      | Ok r =>
          let sc := if @neqb NumQc (range_diff r) nzero then @nzero NumQc else @ndiv NumQc T (range_diff r) in
          forallb (fun a : altQ =>
                     match mget (a_id a) (cp_values cp) with
                     | Some s => near s (@nmul NumQc (if is_cost c0 then @nsub NumQc (snd r) (val_of a (c_id c0))
                                                      else @nsub NumQc (val_of a (c_id c0)) (fst r)) sc)
                     | None => false
                     end) (all_alts before)
      | Err _ => false
      end
  | None => false
  end = true ->
  component_rescaled before T cp.
Proof.
  intros Hadd H.
  destruct (find _ (st_crits before)) as [c0|] eqn:F; [|discriminate].
  apply find_some in F as [Hc0 Eid]. apply String.eqb_eq in Eid.
  destruct (values_range (all_alts before) c0) as [r|] eqn:Evr; [|discriminate].
  cbv zeta in H. rewrite forallb_forall in H.
  exists c0, r. repeat split; try assumption.
  intros a Ha. specialize (H a Ha).
  destruct (added_one_before_complete _ _ _ _ Hadd a Ha c0 Hc0) as [v Hv].
  destruct (mget (a_id a) (cp_values cp)) as [s|]; [|discriminate].
  exists v, s. split; [exact Hv|]. split; [reflexivity|].
  assert (Ev : val_of a (c_id c0) = v) by (unfold val_of; now rewrite Hv).
  rewrite Ev, rescaled_to_eq in H. now apply near_iff.
Qed.

Lemma mixing_sound name (p : bpropsQ) (before after : stateQ) (c1 c2 cn : componentQ) ad :
  C18_ok name p before after (RMixing c1 c2 cn ad) = true ->
  exists nc, last_opt (st_crits after) = Some nc /\ mixing_spec p before after c1 c2 cn nc.
Proof.
  cbn [C18_ok]. intros H.
  destruct (last_opt (st_crits after)) as [nc|] eqn:El; [|discriminate]. exists nc. split; [reflexivity|].
  apply andb_true_iff in H as [H Hresc]. apply andb_true_iff in H as [H Hmix]. apply andb_true_iff in H as [H Hc2].
  apply andb_true_iff in H as [H Hc1]. apply andb_true_iff in H as [H Hdist]. apply andb_true_iff in H as [Hadd Hid].
  apply added_one_sound_Qc in Hadd. apply String.eqb_eq in Hid.
  apply negb_true_iff, String.eqb_neq in Hdist. apply has_crit_in in Hc1, Hc2.
  rewrite forallb_forall in Hmix.
  constructor; try assumption.
  - now split.
  - intros a Ha. specialize (Hmix a Ha).
    destruct (mget (a_id a) (cp_values c1)) as [x|]; [|discriminate].
    destruct (mget (a_id a) (cp_values c2)) as [y|]; [|discriminate].
    destruct (mget (a_id a) (cp_values cn)) as [z|]; [|discriminate].
    apply andb_true_iff in Hmix as [Hm Hheld]. apply andb_true_iff in Hm as [Hform Hbetw].
    apply near_iff in Hform. apply within_iff in Hbetw as [B1 B2].
    apply (option_nsame_eq (L := OrdQc)) in Hheld.
    exists x, y, z. repeat split; try reflexivity; try assumption. now symmetry.
  - destruct (c_range nc) as [[lo T]|] eqn:Er; [|discriminate].
    apply andb_true_iff in Hresc as [Hlo Hcomp]. apply neqb_iff in Hlo. subst lo.
    cbn [forallb] in Hcomp. apply andb_true_iff in Hcomp as [K1 K2]. apply andb_true_iff in K2 as [K2 _].
    exists T. split; [reflexivity|]. split; eapply component_sound; eassumption.
Qed.

(** requested: soundness of the checker *)
Theorem C18_ok_sound (name : string) (p : bpropsQ) (before after : stateQ) (rep : reportQ) :
  C18_ok name p before after rep = true -> C18_spec name p before after rep.
Proof.
  destruct rep as [|om|items|f c n|c vals ad|c1 c2 cn ad|refs sc diffs ar]; cbn [C18_spec]; try (cbn [C18_ok]; discriminate).
  - apply (C18_noop_sound (L := OrdQc)).
  - apply concealment_sound.
  - apply mixing_sound.
Qed.

(** ** 4. Readings and consequences *)

(** [close8 a b]: [a] lies in the interval of half-width 1.5e-8 + 1e-9 |b| around [b] *)
Lemma this_qc_abs (x : Qc) : (this (@nabs NumQc x) == Qabs (this x))%Q.
Proof. cbn [nabs NumQc]. unfold qc_abs, Q2Qc. cbn [this]. apply Qred_correct. Qed.

Lemma close8_bounds (a b : Qc) :
  close8 a b <->
  b - (@c_tol_abs NumQc + @c_tol_rel NumQc * @nabs NumQc b) <= a /\
  a <= b + (@c_tol_abs NumQc + @c_tol_rel NumQc * @nabs NumQc b).
Proof.
  unfold close8. set (t := @c_tol_abs NumQc + @c_tol_rel NumQc * @nabs NumQc b).
  unfold Qcle. rewrite this_qc_abs, Qabs_Qle_condition, !this_minus, !this_plus. split; intros [A B]; split; lra.
Qed.

(** an exact value passes [close8] *)
Lemma close8_refl (a : Qc) : close8 a a.
Proof. apply near_iff. unfold near. apply approx8_refl. Qed.

(** without bounding (scaling <= 0, negative values allowed) the concealed values lie in the declared range itself *)
Corollary concealed_values_in_declared_range (p : bpropsQ) before after c vals lo hi :
  concealment_spec p before after c vals -> bounding_off p = true -> c_range c = Some (lo, hi) ->
  forall a, In a (all_alts after) -> forall v, mget (c_id c) (a_vals a) = Some v -> nmin lo hi <= v /\ v <= nmax lo hi.
Proof.
  intros S B Er a Ha v Hv. pose proof (cs_values_in_range _ _ _ _ _ S lo hi Er a Ha v Hv) as H.
  now rewrite !(bound_value_off p _ _ B) in H.
Qed.

(** a value inside the range of its criterion is rescaled into [0, T] *)
Lemma rescaled_to_in_target (T : Qc) (c0 : critQ) (r : Qc * Qc) (v : Qc) :
  fst r <= v -> v <= snd r -> 0 <= T -> 0 <= rescaled_to T c0 r v /\ rescaled_to T c0 r v <= T.
Proof.
  intros A B HT. rewrite <- rescaled_to_eq.
  set (w := if is_cost c0 then @nsub NumQc (snd r) v else @nsub NumQc v (fst r)).
  assert (W : 0 <= w /\ w <= range_diff r).
  { unfold w, range_diff. destruct r as [lo hi]. cbn [fst snd] in *. destruct (is_cost c0); split; qcq; lra. }
  destruct W as [W0 W1]. pose proof (scaled_in_target (range_diff r) w T W0 W1 HT) as S. cbv zeta in S.
  set (sc := if @neqb NumQc (@range_diff NumQc r) (@nzero NumQc) then @nzero NumQc
             else @ndiv NumQc T (@range_diff NumQc r)) in *.
  assert (E : @nadd NumQc (@nmul NumQc w sc) nzero = @nmul NumQc w sc) by qcr.
  now rewrite E in S.
Qed.

(** the two components of a mixing are the only criteria with their ids *)
Corollary mixing_component_unique (p : bpropsQ) before after c1 c2 cn nc :
  mixing_spec p before after c1 c2 cn nc ->
  forall x y, In x (st_crits before) -> In y (st_crits before) -> c_id x = c_id y -> x = y.
Proof.
  intros S. apply NoDup_map_unique. exact (added_one_before_ids_distinct _ _ _ _ (ms_added_one _ _ _ _ _ _ _ S)).
Qed.

(** ** 5. Non-vacuity: the checker accepts what the model produces on a small state (three alternatives, criteria
    "a" (gain) and "b" (cost), weighted sum), so the hypothesis of [C18_ok_sound] is satisfiable for each kind of report *)
Local Close Scope Qc_scope.
Definition ex_env : @env NumQc :=
  {| env_streams := [(0%Z, [cxq 1 4; cxq 3 4; cxq 1 2; cxq 1 3; cxq 2 3; cxq 1 5])]; env_exp := [] |}.
Definition ex_one : stateQ :=
  {| st_notcons := []; st_cons := [{| a_id := "x"; a_vals := [("a", cxq 3 1)] |}];
     st_crits := [mx_a]; st_params := PWs [(mx_a, cxq 1 1)] |}.

Definition ex_concealment_verdict : bool :=
  match apply_concealment ex_env mx_state cx_props with
  | Ok (st, RConcealment c vals ad) => C18_ok b_concealment cx_props mx_state st (RConcealment c vals ad)
  | _ => false
  end.
Definition ex_mixing_verdict : bool :=
  match apply_mixing ex_env mx_state cx_props with
  | Ok (st, RMixing c1 c2 cn ad) => C18_ok b_mixing cx_props mx_state st (RMixing c1 c2 cn ad)
  | _ => false
  end.
Definition ex_noop_verdict : bool :=
  match apply_mixing ex_env ex_one cx_props with
  | Ok (st, RNone) => C18_ok b_mixing cx_props ex_one st RNone
  | _ => false
  end.

Example C18_ok_concealment_satisfiable : ex_concealment_verdict = true.
Proof. vm_compute. reflexivity. Qed.
Example C18_ok_mixing_satisfiable : ex_mixing_verdict = true.
Proof. vm_compute. reflexivity. Qed.
Example C18_ok_noop_satisfiable : ex_noop_verdict = true.
Proof. vm_compute. reflexivity. Qed.

Example C18_spec_concealment_instance :
  exists st c vals ad,
    apply_concealment ex_env mx_state cx_props = Ok (st, RConcealment c vals ad) /\
    concealment_spec cx_props mx_state st c vals.
Proof.
  pose proof C18_ok_concealment_satisfiable as H. unfold ex_concealment_verdict in H.
  destruct (apply_concealment ex_env mx_state cx_props) as [[st rep]|]; [|discriminate].
  destruct rep as [| | | |c vals ad| |]; try discriminate.
  exists st, c, vals, ad. split; [reflexivity|]. exact (C18_ok_sound _ _ _ _ _ H).
Qed.

Example C18_spec_mixing_instance :
  exists st c1 c2 cn ad nc,
    apply_mixing ex_env mx_state cx_props = Ok (st, RMixing c1 c2 cn ad) /\
    last_opt (st_crits st) = Some nc /\ mixing_spec cx_props mx_state st c1 c2 cn nc.
Proof.
  pose proof C18_ok_mixing_satisfiable as H. unfold ex_mixing_verdict in H.
  destruct (apply_mixing ex_env mx_state cx_props) as [[st rep]|]; [|discriminate].
  destruct rep as [| | | | |c1 c2 cn ad|]; try discriminate.
  destruct (C18_ok_sound _ _ _ _ _ H) as (nc & El & S).
  exists st, c1, c2, cn, ad, nc. split; [reflexivity|]. split; assumption.
Qed.

(** ** 6. What the checker does NOT test (each accepted by [C18_ok]):
    - the earlier parameters may change: here the weight of "a" becomes 5 in the state handed on;
    - the kind of the parameters may change: here the weighted sum becomes a majority heuristic with weights for all
      criteria (for differing kinds [new_weight_ok] tests nothing). *)
Definition ex_tamper (f : @mparams NumQc -> @mparams NumQc) (st : stateQ) : stateQ :=
  {| st_notcons := st_notcons st; st_cons := st_cons st; st_crits := st_crits st; st_params := f (st_params st) |}.
Definition ex_reweigh (pm : @mparams NumQc) : @mparams NumQc :=
  match pm with
  | PWs l => PWs (map (fun x : @wcrit NumQc => if String.eqb (c_id (fst x)) "a" then (fst x, cxq 5 1) else x) l)
  | _ => pm
  end.
Definition ex_rekind (pm : @mparams NumQc) : @mparams NumQc :=
  match pm with
  | PWs l => PMajority (fold_left (fun m (x : @wcrit NumQc) => mset (c_id (fst x)) (snd x) m) l []) "" 0 false ""
  | _ => pm
  end.
Definition ex_tampered_verdict (f : @mparams NumQc -> @mparams NumQc) : bool :=
  match apply_concealment ex_env mx_state cx_props with
  | Ok (st, RConcealment c vals ad) =>
      negb (params_same (st_params st) (f (st_params st)))
      && C18_ok b_concealment cx_props mx_state (ex_tamper f st) (RConcealment c vals ad)
  | _ => false
  end.

Example earlier_weights_not_tested : ex_tampered_verdict ex_reweigh = true.
Proof. vm_compute. reflexivity. Qed.
Example parameter_kind_not_tested : ex_tampered_verdict ex_rekind = true.
Proof. vm_compute. reflexivity. Qed.

Print Assumptions state_same_eq.
Print Assumptions params_cover_iff.
Print Assumptions added_one_sound.
Print Assumptions C18_noop_sound.
Print Assumptions added_one_before_complete.
Print Assumptions fraction_of_unit.
Print Assumptions concealment_sound.
Print Assumptions mixing_sound.
Print Assumptions C18_ok_sound.
Print Assumptions close8_bounds.
Print Assumptions concealed_values_in_declared_range.
Print Assumptions rescaled_to_in_target.
Print Assumptions mixing_component_unique.
Print Assumptions C18_ok_concealment_satisfiable.
Print Assumptions C18_ok_mixing_satisfiable.
Print Assumptions C18_ok_noop_satisfiable.
Print Assumptions C18_spec_concealment_instance.
Print Assumptions C18_spec_mixing_instance.
Print Assumptions earlier_weights_not_tested.
Print Assumptions parameter_kind_not_tested.
