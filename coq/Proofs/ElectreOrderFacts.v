(** * C06: the ELECTRE III model respects dominance, equality and listing order.
    Everything is proved on the exact instance [NumQc] and is axiom-free. *)
From Coq Require Import ZArith QArith Qcanon Bool List String Lia Lqa.
From RDM Require Import Base.Num Base.NumQc Base.Util Model.Data Model.Electre Check.C04 Check.C05 Check.C06.
Import ListNotations.
Local Open Scope list_scope.
Local Open Scope Qc_scope.

(** ** Bridges between the boolean tests of [NumQc] and the order of [Qc], and from [Qc] to [Q]. *)
Lemma this_plus (x y : Qc) : (this (x + y) == this x + this y)%Q.
Proof. unfold Qcplus, Q2Qc; cbn [this]; apply Qred_correct. Qed.
Lemma this_minus (x y : Qc) : (this (x - y) == this x - this y)%Q.
Proof. unfold Qcminus, Qcplus, Qcopp, Q2Qc; cbn [this]. rewrite !Qred_correct. reflexivity. Qed.
Lemma this_mult (x y : Qc) : (this (x * y) == this x * this y)%Q.
Proof. unfold Qcmult, Q2Qc; cbn [this]; apply Qred_correct. Qed.
Lemma this_opp (x : Qc) : (this (- x) == - this x)%Q.
Proof. unfold Qcopp, Q2Qc; cbn [this]; apply Qred_correct. Qed.
Lemma this_zero : (this (Q2Qc 0) == 0)%Q. Proof. reflexivity. Qed.
Lemma this_one : (this (Q2Qc 1) == 1)%Q. Proof. reflexivity. Qed.

Ltac qc2q := unfold Qcle, Qclt in *;
  repeat (rewrite ?this_plus, ?this_minus, ?this_mult, ?this_opp, ?this_zero, ?this_one in * ).

Lemma nleb_iff (x y : Qc) : @nleb NumQc x y = true <-> x <= y.
Proof. apply qc_leb_iff. Qed.

Lemma nltb_iff (x y : Qc) : @nltb NumQc x y = true <-> x < y.
Proof.
  cbn. unfold qc_ltb. rewrite negb_true_iff. split.
  - intros H. apply Qcnot_le_lt. intro A. apply qc_leb_iff in A. unfold qc_leb in A. congruence.
  - intros H. destruct (Qle_bool y x) eqn:E; [|reflexivity].
    apply Qle_bool_iff in E. apply Qclt_not_le in H. contradiction.
Qed.

Lemma nleb_false_iff (x y : Qc) : @nleb NumQc x y = false <-> y < x.
Proof.
  rewrite <- nltb_iff. cbn. unfold qc_ltb, qc_leb. rewrite negb_true_iff. reflexivity.
Qed.

Lemma nltb_false_iff (x y : Qc) : @nltb NumQc x y = false <-> y <= x.
Proof.
  rewrite <- nleb_iff. cbn. unfold qc_ltb, qc_leb. rewrite negb_false_iff. reflexivity.
Qed.

Lemma neqb_iff (x y : Qc) : @neqb NumQc x y = true <-> x = y.
Proof.
  cbn. unfold qc_eqb. rewrite Qeq_bool_iff. split.
  - apply Qc_is_canon.
  - intros ->. reflexivity.
Qed.

Lemma neqb_false_iff (x y : Qc) : @neqb NumQc x y = false <-> x <> y.
Proof.
  rewrite <- neqb_iff. destruct (@neqb NumQc x y); split; congruence.
Qed.

(** the distillation function is affine on every carrier value (the "absent" function is 0) *)
Lemma dist_value_eq (f : linfun) (x : Qc) : dist_value f x = lf_a f * x + lf_b f.
Proof.
  unfold dist_value, lf_eval.
  destruct (neqb (lf_a f) nzero && neqb (lf_b f) nzero) eqn:E; cbn [fst].
  - apply andb_true_iff in E as [A B]. apply neqb_iff in A, B. rewrite A, B. cbn. ring.
  - reflexivity.
Qed.

(** ** 1. Monotonicity of the outranking test *)
Definition outr (f : linfun) (mc x y : Qc) : bool :=
  negb (nleb x mc) && nltb (nadd y (dist_value f x)) x && nltb nzero x.

Lemma outranks_eq (m : list (list num)) f mc i j :
  outranks m f mc i j = outr f mc (sig m i j) (sig m j i).
Proof. reflexivity. Qed.

Lemma outr_iff f mc x y :
  outr f mc x y = true <-> mc < x /\ y + (lf_a f * x + lf_b f) < x /\ 0 < x.
Proof.
  unfold outr. rewrite !andb_true_iff, negb_true_iff, nleb_false_iff, !nltb_iff, dist_value_eq.
  cbn [nadd nzero NumQc]. tauto.
Qed.

Theorem outranks_monotone f mc x x' y y' :
  lf_a f <= 0 -> x' <= x -> y <= y' -> outr f mc x' y' = true -> outr f mc x y = true.
Proof.
  intros Ha Hx Hy H. apply outr_iff in H as (H1 & H2 & H3). apply outr_iff.
  qc2q. repeat split; try lra. nra.
Qed.

(** ** 2. Quality under the covering relation *)
Definition covers (m : list (list num)) (D : list nat) (i j : nat) : Prop :=
  (forall k, In k D -> k <> i -> k <> j -> sig m j k <= sig m i k /\ sig m k i <= sig m k j)
  /\ sig m j i <= sig m i j.

Lemma covers_incl m D B i j : covers m D i j -> incl B D -> covers m B i j.
Proof. intros [H1 H2] Hi. split; [|exact H2]. intros k Hk. apply H1. now apply Hi. Qed.

Definition b2z (b : bool) : Z := if b then 1%Z else 0%Z.
Fixpoint zsum (g : nat -> Z) (D : list nat) : Z :=
  match D with [] => 0%Z | k :: r => (g k + zsum g r)%Z end.

Lemma count_zsum p D : count p D = zsum (fun k => b2z (p k)) D.
Proof.
  unfold count. induction D as [|k r IH]; [reflexivity|].
  cbn [filter zsum]. destruct (p k); cbn [b2z List.length]; lia.
Qed.

Lemma zsum_nonneg g D : (forall k, In k D -> (0 <= g k)%Z) -> (0 <= zsum g D)%Z.
Proof.
  induction D as [|k r IH]; intros H; cbn [zsum]; [lia|].
  assert (0 <= g k)%Z by (apply H; now left).
  assert (0 <= zsum g r)%Z by (apply IH; intros; apply H; now right). lia.
Qed.

Lemma zsum_lin4 g1 g2 g3 g4 D :
  (zsum g1 D - zsum g2 D - (zsum g3 D - zsum g4 D))%Z
  = zsum (fun k => (g1 k - g2 k - g3 k + g4 k)%Z) D.
Proof. induction D as [|k r IH]; cbn [zsum]; lia. Qed.

Lemma b2z_le (a b : bool) : (a = true -> b = true) -> (b2z a <= b2z b)%Z.
Proof. destruct a, b; cbn; intros H; try lia; specialize (H eq_refl); discriminate H. Qed.

Theorem quality_covers_gen m f mc D i j :
  covers m D i j -> lf_a f <= 0 -> (quality m f mc D j <= quality m f mc D i)%Z.
Proof.
  intros [Hk Hij] Ha.
  enough (0 <= quality m f mc D i - quality m f mc D j)%Z by lia.
  unfold quality. rewrite !count_zsum, zsum_lin4. apply zsum_nonneg. intros k Hin.
  assert (Hji : (b2z (outranks m f mc j i) <= b2z (outranks m f mc i j))%Z).
  { apply b2z_le. rewrite !outranks_eq. apply outranks_monotone; assumption. }
  destruct (Nat.eq_dec k i) as [->|Hki]; [lia|].
  destruct (Nat.eq_dec k j) as [->|Hkj]; [lia|].
  destruct (Hk k Hin Hki Hkj) as [A B].
  assert (H1 : (b2z (outranks m f mc j k) <= b2z (outranks m f mc i k))%Z).
  { apply b2z_le. rewrite !outranks_eq. apply outranks_monotone; assumption. }
  assert (H2 : (b2z (outranks m f mc k i) <= b2z (outranks m f mc k j))%Z).
  { apply b2z_le. rewrite !outranks_eq. apply outranks_monotone; assumption. }
  lia.
Qed.

Theorem quality_covers m f mc D i j :
  covers m D i j -> In i D -> In j D -> NoDup D -> lf_a f <= 0 ->
  (quality m f mc D j <= quality m f mc D i)%Z.
Proof. intros H _ _ _ Ha. now apply quality_covers_gen. Qed.

(** ** 3. Best sets *)
Lemma best_filter (q : nat -> Z) bv D :
  map fst (filter (fun iq : nat * Z => Z.eqb (snd iq) bv) (zip D (map q D)))
  = filter (fun i => Z.eqb (q i) bv) D.
Proof.
  induction D as [|k r IH]; [reflexivity|].
  cbn [map zip filter snd]. destruct (Z.eqb (q k) bv); cbn [map fst]; now rewrite IH.
Qed.

Lemma best_set_eq (m : list (list num)) f mc asc D :
  best_set m f mc asc D
  = filter (fun i => Z.eqb (quality m f mc D i) (best_value asc (map (quality m f mc D) D))) D.
Proof. unfold best_set. apply best_filter. Qed.

Lemma best_set_in (m : list (list num)) f mc asc D x :
  In x (best_set m f mc asc D) <->
  In x D /\ quality m f mc D x = best_value asc (map (quality m f mc D) D).
Proof. rewrite best_set_eq, filter_In, Z.eqb_eq. reflexivity. Qed.

Lemma best_set_incl (m : list (list num)) f mc asc D : incl (best_set m f mc asc D) D.
Proof. intros x H. now apply best_set_in in H. Qed.

Lemma fold_max_ge r : forall b,
  (b <= fold_left (fun b v => if (b <? v)%Z then v else b) r b)%Z /\
  forall v, In v r -> (v <= fold_left (fun b v => if (b <? v)%Z then v else b) r b)%Z.
Proof.
  induction r as [|w r IH]; intros b; cbn [fold_left].
  - split; [lia|intros v []].
  - destruct (IH (if (b <? w)%Z then w else b)) as [A B]. split.
    + destruct (Z.ltb_spec b w); lia.
    + intros v [<-|Hv]; [|now apply B]. destruct (Z.ltb_spec b w); lia.
Qed.

Lemma fold_min_le r : forall b,
  (fold_left (fun b v => if (v <? b)%Z then v else b) r b <= b)%Z /\
  forall v, In v r -> (fold_left (fun b v => if (v <? b)%Z then v else b) r b <= v)%Z.
Proof.
  induction r as [|w r IH]; intros b; cbn [fold_left].
  - split; [lia|intros v []].
  - destruct (IH (if (w <? b)%Z then w else b)) as [A B]. split.
    + destruct (Z.ltb_spec w b); lia.
    + intros v [<-|Hv]; [|now apply B]. destruct (Z.ltb_spec w b); lia.
Qed.

Lemma best_value_true_ge qs v : In v qs -> (v <= best_value true qs)%Z.
Proof.
  destruct qs as [|q r]; [intros []|]. cbn [best_value].
  destruct (fold_max_ge r q) as [A B]. intros [<-|H]; [exact A|now apply B].
Qed.

Lemma best_value_false_le qs v : In v qs -> (best_value false qs <= v)%Z.
Proof.
  destruct qs as [|q r]; [intros []|]. cbn [best_value].
  destruct (fold_min_le r q) as [A B]. intros [<-|H]; [exact A|now apply B].
Qed.

Theorem best_set_covers m f mc D i j :
  covers m D i j -> In i D -> In j D -> lf_a f <= 0 ->
  (In j (best_set m f mc true D) -> In i (best_set m f mc true D)) /\
  (In i (best_set m f mc false D) -> In j (best_set m f mc false D)).
Proof.
  intros Hc Hi Hj Ha.
  pose proof (quality_covers_gen m f mc D i j Hc Ha) as Hq.
  split; intros H; apply best_set_in in H as [_ H]; apply best_set_in; split; try assumption.
  - assert ((quality m f mc D i <= best_value true (map (quality m f mc D) D))%Z)
      by (apply best_value_true_ge, in_map, Hi). lia.
  - assert ((best_value false (map (quality m f mc D) D) <= quality m f mc D j)%Z)
      by (apply best_value_false_le, in_map, Hj). lia.
Qed.

(** ** 4. Classes and distillations.  [follows asc D0 x y]: inside every subset of [D0] holding both,
    x is in the best set whenever y is. *)
Section Follows.
  Variables (m : list (list num)) (f : linfun) (asc : bool) (D0 : list nat) (x y : nat).

  Definition follows : Prop :=
    forall B mc, incl B D0 -> In x B -> In y B ->
                 In y (best_set m f mc asc B) -> In x (best_set m f mc asc B).

  Hypothesis Hfol : follows.

  Lemma next_class_incl : forall fuel lambda D C,
    next_class fuel m f asc lambda D = Ok C -> incl C D.
  Proof.
    induction fuel as [|fu IH]; intros lambda D C H; cbn [next_class] in H; [discriminate|].
    destruct (neqb lambda nzero).
    - injection H as <-. apply incl_refl.
    - destruct (Nat.ltb 1 (List.length (best_set m f (min_cred m f lambda D) asc D))
                && nltb nzero (min_cred m f lambda D)).
      + apply IH in H. eapply incl_tran; [exact H|apply best_set_incl].
      + injection H as <-. apply best_set_incl.
  Qed.

  Lemma next_class_follows : forall fuel lambda D C,
    incl D D0 -> (In y D -> In x D) ->
    next_class fuel m f asc lambda D = Ok C -> In y C -> In x C.
  Proof.
    induction fuel as [|fu IH]; intros lambda D C Hi Hyx H; cbn [next_class] in H; [discriminate|].
    destruct (neqb lambda nzero).
    - injection H as <-. exact Hyx.
    - set (mc := min_cred m f lambda D) in *.
      assert (HB : In y (best_set m f mc asc D) -> In x (best_set m f mc asc D)).
      { intros Hy. pose proof (best_set_incl m f mc asc D y Hy) as HyD.
        apply Hfol; auto. }
      destruct (Nat.ltb 1 (List.length (best_set m f mc asc D)) && nltb nzero mc).
      + eapply IH; [|exact HB|exact H].
        eapply incl_tran; [apply best_set_incl|exact Hi].
      + injection H as <-. exact HB.
  Qed.

  Definition lookup (a : list (nat * Z)) (i : nat) : Z :=
    match find (fun p => Nat.eqb (fst p) i) a with Some p => snd p | None => 0%Z end.

  Lemma lookup_here C pos rest i :
    In i C -> lookup (map (fun k => (k, pos)) C ++ rest) i = pos.
  Proof.
    unfold lookup. induction C as [|k r IH]; [intros []|]. intros Hin.
    cbn [map app find fst]. destruct (Nat.eqb k i) eqn:E; [reflexivity|].
    apply IH. destruct Hin as [->|Hin]; [|exact Hin]. rewrite Nat.eqb_refl in E. discriminate.
  Qed.

  Lemma lookup_rest C pos rest i :
    ~ In i C -> lookup (map (fun k => (k, pos)) C ++ rest) i = lookup rest i.
  Proof.
    unfold lookup. induction C as [|k r IH]; [reflexivity|]. intros Hin.
    cbn [map app find fst]. destruct (Nat.eqb k i) eqn:E.
    - apply Nat.eqb_eq in E. subst k. exfalso. apply Hin. now left.
    - apply IH. intros H. apply Hin. now right.
  Qed.

  Lemma in_rest D C i : In i D -> ~ In i C ->
    In i (filter (fun k => negb (existsb (Nat.eqb k) C)) D).
  Proof.
    intros Hd Hc. apply filter_In. split; [exact Hd|]. apply negb_true_iff.
    destruct (existsb (Nat.eqb i) C) eqn:E; [|reflexivity].
    apply existsb_exists in E as (k & Hk & E). apply Nat.eqb_eq in E. subst k. contradiction.
  Qed.

  Lemma rest_incl D C : incl (filter (fun k => negb (existsb (Nat.eqb k) C)) D) D.
  Proof. intros k H. now apply filter_In in H. Qed.

  Lemma distill_lookup_ge : forall fuel D pos a i,
    distill fuel m f asc D pos = Ok a -> In i D -> (pos <= lookup a i)%Z.
  Proof.
    induction fuel as [|fu IH]; intros D pos a i H Hin; cbn [distill] in H; [discriminate|].
    destruct D as [|d0 D1]; [destruct Hin|]. remember (d0 :: D1) as D eqn:ED.
    destruct (next_class class_fuel m f asc (max_cred m D) D) as [C|] eqn:EC; cbn [bind] in H; [|discriminate].
    destruct (Nat.eqb _ _); [discriminate|].
    destruct (distill fu m f asc _ (pos + 1)%Z) as [rest|] eqn:ER; cbn [bind] in H; [|discriminate].
    injection H as <-.
    destruct (in_dec Nat.eq_dec i C) as [HC|HC].
    - rewrite lookup_here by assumption. lia.
    - rewrite lookup_rest by assumption.
      pose proof (IH _ _ _ i ER (in_rest D C i Hin HC)). lia.
  Qed.

  Lemma distill_follows : forall fuel D pos a,
    incl D D0 -> In x D -> In y D ->
    distill fuel m f asc D pos = Ok a -> (lookup a x <= lookup a y)%Z.
  Proof.
    induction fuel as [|fu IH]; intros D pos a Hi Hx Hy H; cbn [distill] in H; [discriminate|].
    destruct D as [|d0 D1]; [destruct Hx|]. remember (d0 :: D1) as D eqn:ED.
    destruct (next_class class_fuel m f asc (max_cred m D) D) as [C|] eqn:EC; cbn [bind] in H; [|discriminate].
    destruct (Nat.eqb _ _); [discriminate|].
    destruct (distill fu m f asc _ (pos + 1)%Z) as [rest|] eqn:ER; cbn [bind] in H; [|discriminate].
    injection H as <-.
    pose proof (next_class_follows _ _ _ _ Hi (fun _ => Hx) EC) as Hyx.
    destruct (in_dec Nat.eq_dec x C) as [HxC|HxC].
    - rewrite (lookup_here C pos rest x HxC).
      destruct (in_dec Nat.eq_dec y C) as [HyC|HyC].
      + rewrite (lookup_here C pos rest y HyC). lia.
      + rewrite (lookup_rest C pos rest y HyC).
        pose proof (distill_lookup_ge _ _ _ _ y ER (in_rest D C y Hy HyC)). lia.
    - assert (HyC : ~ In y C) by (intros Hc; apply HxC, Hyx, Hc).
      rewrite (lookup_rest C pos rest x HxC), (lookup_rest C pos rest y HyC).
      eapply IH; [| | |exact ER].
      + eapply incl_tran; [apply rest_incl|exact Hi].
      + now apply in_rest.
      + now apply in_rest.
  Qed.
End Follows.

Lemma covers_follows_asc m f D i j :
  covers m D i j -> lf_a f <= 0 -> follows m f true D i j.
Proof.
  intros Hc Ha B mc Hi Hx Hy. apply best_set_covers; auto. eapply covers_incl; eassumption.
Qed.

Lemma covers_follows_desc m f D i j :
  covers m D i j -> lf_a f <= 0 -> follows m f false D j i.
Proof.
  intros Hc Ha B mc Hi Hx Hy. apply best_set_covers; auto. eapply covers_incl; eassumption.
Qed.

Lemma positions_nth n a i : (i < n)%nat -> nth i (positions n a) 0%Z = lookup a i.
Proof.
  intros Hi. unfold positions. fold (lookup a).
  rewrite (nth_indep _ 0%Z (lookup a 0%nat)) by (now rewrite map_length, seq_length).
  rewrite map_nth, seq_nth by assumption. reflexivity.
Qed.

Lemma rank_ascending_inv (m : list (list num)) f a :
  rank_ascending m f = Ok a ->
  exists a0, distill (S (List.length m)) m f true (seq 0 (List.length m)) 1%Z = Ok a0
             /\ a = positions (List.length m) a0.
Proof.
  unfold rank_ascending. destruct (Nat.eqb _ 0); [discriminate|].
  destruct (distill _ m f true _ 1%Z) as [a0|]; cbn [bind]; [|discriminate].
  intros H. injection H as <-. now exists a0.
Qed.

Lemma rank_descending_inv (m : list (list num)) f d :
  rank_descending m f = Ok d ->
  exists a0, distill (S (List.length m)) m f false (seq 0 (List.length m)) 1%Z = Ok a0
             /\ d = map (fun p => (fold_left Z.max (positions (List.length m) a0) 0 + 1 - p)%Z)
                        (positions (List.length m) a0).
Proof.
  unfold rank_descending. destruct (Nat.eqb _ 0); [discriminate|].
  destruct (distill _ m f false _ 1%Z) as [a0|]; cbn [bind]; [|discriminate].
  intros H. injection H as <-. now exists a0.
Qed.

Lemma positions_length n a : List.length (positions n a) = n.
Proof. unfold positions. now rewrite map_length, seq_length. Qed.

Lemma map_rev_nth (mx : Z) ps i : (i < List.length ps)%nat ->
  nth i (map (fun p => (mx + 1 - p)%Z) ps) 0%Z = (mx + 1 - nth i ps 0)%Z.
Proof.
  intros Hi. rewrite (nth_indep _ 0%Z (mx + 1 - 0)%Z) by (now rewrite map_length).
  apply (map_nth (fun p => (mx + 1 - p)%Z)).
Qed.

(** the hypotheses [i < length m], [j < length m] are needed: an index outside the matrix has
    credibility 0 everywhere and position 0 by the default of [nth]. *)
Theorem dominance_positions (m : list (list num)) f i j a d :
  lf_a f <= 0 -> (i < List.length m)%nat -> (j < List.length m)%nat ->
  covers m (seq 0 (List.length m)) i j ->
  rank_ascending m f = Ok a -> rank_descending m f = Ok d ->
  (nth i a 0 <= nth j a 0 /\ nth i d 0 <= nth j d 0)%Z.
Proof.
  intros Ha Hi Hj Hc HA HD.
  apply rank_ascending_inv in HA as (a0 & HA & ->).
  apply rank_descending_inv in HD as (d0 & HD & ->).
  assert (Ii : In i (seq 0 (List.length m))) by (apply in_seq; lia).
  assert (Ij : In j (seq 0 (List.length m))) by (apply in_seq; lia).
  split.
  - rewrite !positions_nth by assumption.
    eapply distill_follows; [apply covers_follows_asc; eassumption|apply incl_refl| | |exact HA]; assumption.
  - rewrite !map_rev_nth by (now rewrite positions_length).
    rewrite !positions_nth by assumption.
    enough (lookup d0 j <= lookup d0 i)%Z by lia.
    eapply distill_follows; [apply covers_follows_desc; eassumption|apply incl_refl| | |exact HD]; assumption.
Qed.

(** ** 5. Interchangeable alternatives share their classes *)
Theorem identical_rows_same_class (m : list (list num)) f i j a d :
  lf_a f <= 0 -> (i < List.length m)%nat -> (j < List.length m)%nat ->
  covers m (seq 0 (List.length m)) i j -> covers m (seq 0 (List.length m)) j i ->
  rank_ascending m f = Ok a -> rank_descending m f = Ok d ->
  nth i a 0%Z = nth j a 0%Z /\ nth i d 0%Z = nth j d 0%Z.
Proof.
  intros Ha Hi Hj H1 H2 HA HD.
  destruct (dominance_positions m f i j a d Ha Hi Hj H1 HA HD).
  destruct (dominance_positions m f j i a d Ha Hj Hi H2 HA HD).
  split; lia.
Qed.

(** ** 6. Credibility is monotone for validated constant thresholds *)
Lemma this_inv (x : Qc) : (this (/ x) == / this x)%Q.
Proof. unfold Qcinv, Q2Qc; cbn [this]; apply Qred_correct. Qed.

Lemma qdiv_spec (a c : Qc) : c <> 0 -> (a / c) * c = a.
Proof. intros H. field. exact H. Qed.

Lemma qc_pos_neq (c : Qc) : 0 < c -> c <> 0.
Proof. intros H E. apply (Qclt_not_eq _ _ H). now symmetry. Qed.

Lemma qdiv_le_mono (a b c : Qc) : 0 < c -> a <= b -> a / c <= b / c.
Proof.
  intros Hc Hab. pose proof (qdiv_spec a c (qc_pos_neq c Hc)) as E1.
  pose proof (qdiv_spec b c (qc_pos_neq c Hc)) as E2.
  set (r := a / c) in *. set (s := b / c) in *. clearbody r s. subst a b.
  qc2q. nra.
Qed.

Lemma qdiv_nonneg (a c : Qc) : 0 < c -> 0 <= a -> 0 <= a / c.
Proof.
  intros Hc Ha. pose proof (qdiv_spec a c (qc_pos_neq c Hc)) as E1.
  set (r := a / c) in *. clearbody r. subst a. qc2q. nra.
Qed.

Lemma qdiv_le_1 (a c : Qc) : 0 < c -> a <= c -> a / c <= 1.
Proof.
  intros Hc Ha. pose proof (qdiv_spec a c (qc_pos_neq c Hc)) as E1.
  set (r := a / c) in *. clearbody r. subst a. qc2q. nra.
Qed.

Lemma qdiv_le_den (a c c' : Qc) : 0 <= a -> 0 < c' -> c' <= c -> a / c <= a / c'.
Proof.
  intros Ha Hc' Hcc.
  assert (Hc : 0 < c) by (qc2q; lra).
  pose proof (qdiv_spec a c (qc_pos_neq c Hc)) as E1.
  pose proof (qdiv_spec a c' (qc_pos_neq c' Hc')) as E2.
  pose proof (qdiv_nonneg a c Hc Ha) as N1.
  set (r := a / c) in *. set (s := a / c') in *. clearbody r s.
  assert (E : (this r * this c == this s * this c')%Q).
  { rewrite <- !this_mult. rewrite E1, E2. reflexivity. }
  qc2q. nra.
Qed.

Definition const_ths (t : ecrit) : Prop :=
  lf_a (ec_q t) = 0 /\ lf_a (ec_p t) = 0 /\ lf_a (ec_v t) = 0.

Lemma neqb_refl (x : Qc) : @neqb NumQc x x = true.
Proof. now apply neqb_iff. Qed.

Lemma lf_eval_const (f : linfun) (x : Qc) :
  lf_a f = 0 -> lf_eval f x = (lf_b f, negb (neqb (lf_b f) 0)).
Proof.
  intros Ha. unfold lf_eval. rewrite Ha. change (@nzero NumQc) with 0. rewrite neqb_refl. cbn [andb].
  destruct (neqb (lf_b f) 0) eqn:E; cbn [negb].
  - apply neqb_iff in E. now rewrite E.
  - f_equal. cbn. ring.
Qed.

(* the pair (concordance, discordance) as a function of the difference d = c2 - c1 *)
Definition epair (q p v d : Qc) : Qc * Qc :=
  if nleb d 0 then (1, 0) else
  if negb (neqb q 0) && nleb d q then (1, 0) else
  if negb (neqb p 0) && nleb d p then (1 - (d - q) / (p - q), 0) else
  if negb (neqb v 0) && nleb d v then (0, (d - p) / (v - p)) else
  if negb (neqb v 0) && nltb v d then (0, 1) else (0, 0).

Lemma nleb_sub (c1 c2 : Qc) : @nleb NumQc c2 c1 = @nleb NumQc (c2 - c1) 0.
Proof.
  destruct (@nleb NumQc c2 c1) eqn:A; symmetry.
  - apply nleb_iff in A. apply nleb_iff. qc2q. lra.
  - apply nleb_false_iff in A. apply nleb_false_iff. qc2q. lra.
Qed.

Lemma electre_pair_const c1 c2 c t :
  const_ths t ->
  electre_pair c1 c2 c t = epair (lf_b (ec_q t)) (lf_b (ec_p t)) (lf_b (ec_v t)) (c2 - c1).
Proof.
  intros (Hq & Hp & Hv). unfold electre_pair, epair.
  rewrite !lf_eval_const by assumption. rewrite (nleb_sub c1 c2). reflexivity.
Qed.

Lemma neqb_zero_cases (x : Qc) : 0 <= x ->
  (@neqb NumQc x 0 = true /\ x <= 0) \/ (@neqb NumQc x 0 = false /\ 0 < x).
Proof.
  intros H. destruct (@neqb NumQc x 0) eqn:E.
  - left. split; [reflexivity|]. apply neqb_iff in E. rewrite E. apply Qcle_refl.
  - right. split; [reflexivity|]. apply neqb_false_iff in E.
    apply Qcle_lt_or_eq in H as [H|H]; [exact H|]. congruence.
Qed.

Ltac bool2qc :=
  repeat match goal with
  | H : @nleb NumQc _ _ = true |- _ => apply nleb_iff in H
  | H : @nleb NumQc _ _ = false |- _ => apply nleb_false_iff in H
  | H : @nltb NumQc _ _ = true |- _ => apply nltb_iff in H
  | H : @nltb NumQc _ _ = false |- _ => apply nltb_false_iff in H
  end.

Ltac qcfast := unfold Qcle, Qclt in *;
  change (this (Q2Qc 0)) with 0%Q in *; change (this (Q2Qc 1)) with 1%Q in *.

Lemma epair_mono q p v d d' :
  0 <= q -> 0 <= p -> 0 <= v -> (p <= 0 \/ q < p) -> (v <= 0 \/ (q < v /\ p < v)) -> d' <= d ->
  fst (epair q p v d) <= fst (epair q p v d') /\ snd (epair q p v d') <= snd (epair q p v d).
Proof.
  intros Hq Hp Hv Hqp Hpv Hd.
  assert (R1 : q < p -> q <= d -> d <= p -> 0 <= (d - q) / (p - q) /\ (d - q) / (p - q) <= 1).
  { intros. split; [apply qdiv_nonneg|apply qdiv_le_1]; qc2q; lra. }
  assert (R2 : q < p -> q <= d' -> d' <= p -> 0 <= (d' - q) / (p - q) /\ (d' - q) / (p - q) <= 1).
  { intros. split; [apply qdiv_nonneg|apply qdiv_le_1]; qc2q; lra. }
  assert (R3 : q < p -> (d' - q) / (p - q) <= (d - q) / (p - q)).
  { intros. apply qdiv_le_mono; qc2q; lra. }
  assert (E1 : p < v -> p <= d -> d <= v -> 0 <= (d - p) / (v - p) /\ (d - p) / (v - p) <= 1).
  { intros. split; [apply qdiv_nonneg|apply qdiv_le_1]; qc2q; lra. }
  assert (E2 : p < v -> p <= d' -> d' <= v -> 0 <= (d' - p) / (v - p) /\ (d' - p) / (v - p) <= 1).
  { intros. split; [apply qdiv_nonneg|apply qdiv_le_1]; qc2q; lra. }
  assert (E3 : p < v -> (d' - p) / (v - p) <= (d - p) / (v - p)).
  { intros. apply qdiv_le_mono; qc2q; lra. }
  unfold epair.
  set (r := (d - q) / (p - q)) in *. set (r' := (d' - q) / (p - q)) in *.
  set (e := (d - p) / (v - p)) in *. set (e' := (d' - p) / (v - p)) in *.
  clearbody r r' e e'. qc2q.
  destruct (neqb_zero_cases q Hq) as [[Fq Zq]|[Fq Zq]]; rewrite Fq;
  destruct (neqb_zero_cases p Hp) as [[Fp Zp]|[Fp Zp]]; rewrite Fp;
  destruct (neqb_zero_cases v Hv) as [[Fv Zv]|[Fv Zv]]; rewrite Fv; cbn [negb andb];
  repeat match goal with
  | |- context [if ?b then _ else _] => destruct b eqn:?
  end; cbn [fst snd]; bool2qc; qcfast; rewrite ?this_minus; qcfast; lra.
Qed.

Lemma epair_bounds q p v d :
  0 <= q -> 0 <= p -> 0 <= v -> (p <= 0 \/ q < p) -> (v <= 0 \/ (q < v /\ p < v)) ->
  0 <= fst (epair q p v d) /\ fst (epair q p v d) <= 1 /\
  0 <= snd (epair q p v d) /\ snd (epair q p v d) <= 1.
Proof.
  intros Hq Hp Hv Hqp Hpv.
  assert (R1 : q < p -> q <= d -> d <= p -> 0 <= (d - q) / (p - q) /\ (d - q) / (p - q) <= 1).
  { intros. split; [apply qdiv_nonneg|apply qdiv_le_1]; qc2q; lra. }
  assert (E1 : p < v -> p <= d -> d <= v -> 0 <= (d - p) / (v - p) /\ (d - p) / (v - p) <= 1).
  { intros. split; [apply qdiv_nonneg|apply qdiv_le_1]; qc2q; lra. }
  unfold epair.
  set (r := (d - q) / (p - q)) in *. set (e := (d - p) / (v - p)) in *.
  clearbody r e. qc2q.
  destruct (neqb_zero_cases q Hq) as [[Fq Zq]|[Fq Zq]]; rewrite Fq;
  destruct (neqb_zero_cases p Hp) as [[Fp Zp]|[Fp Zp]]; rewrite Fp;
  destruct (neqb_zero_cases v Hv) as [[Fv Zv]|[Fv Zv]]; rewrite Fv; cbn [negb andb];
  repeat match goal with
  | |- context [if ?b then _ else _] => destruct b eqn:?
  end; cbn [fst snd]; bool2qc; qcfast; rewrite ?this_minus; qcfast; lra.
Qed.

(** validation of constant thresholds *)
Lemma require_const (f : linfun) (cur w : Qc) :
  lf_a f = 0 -> 0 <= cur -> require_b_at_least f cur = Ok w ->
  (lf_b f = 0 /\ w = cur) \/ (cur < lf_b f /\ w = lf_b f).
Proof.
  intros Ha Hc. unfold require_b_at_least. rewrite Ha. change (@nzero NumQc) with 0.
  rewrite neqb_refl. cbn [andb].
  destruct (neqb (lf_b f) 0) eqn:E; cbn [negb andb].
  - apply neqb_iff in E. rewrite E.
    destruct (@nltb NumQc 0 0) eqn:F; [apply nltb_iff in F; qc2q; lra|].
    intros H. injection H as <-. left. split; reflexivity.
  - destruct (nleb (lf_b f) cur) eqn:F; [discriminate|]. apply nleb_false_iff in F.
    destruct (@nltb NumQc 0 (lf_b f)) eqn:G; [|apply nltb_false_iff in G; qc2q; lra].
    intros H. injection H as <-. right. split; [exact F|reflexivity].
Qed.

Lemma validate_const (t : ecrit) :
  const_ths t -> validate_ecrit t = Ok tt ->
  0 < ec_k t /\ 0 <= lf_b (ec_q t) /\ 0 <= lf_b (ec_p t) /\ 0 <= lf_b (ec_v t) /\
  (lf_b (ec_p t) <= 0 \/ lf_b (ec_q t) < lf_b (ec_p t)) /\
  (lf_b (ec_v t) <= 0 \/ (lf_b (ec_q t) < lf_b (ec_v t) /\ lf_b (ec_p t) < lf_b (ec_v t))).
Proof.
  intros (Hq & Hp & Hv). unfold validate_ecrit.
  destruct (nleb (ec_k t) nzero) eqn:Ek; [discriminate|]. apply nleb_false_iff in Ek.
  destruct (require_b_at_least (ec_q t) nzero) as [w1|] eqn:E1; cbn [bind]; [|discriminate].
  destruct (require_b_at_least (ec_p t) w1) as [w2|] eqn:E2; cbn [bind]; [|discriminate].
  destruct (require_b_at_least (ec_v t) w2) as [w3|] eqn:E3; cbn [bind]; [|discriminate].
  intros _.
  apply (require_const _ _ _ Hq (Qcle_refl 0)) in E1.
  assert (H1 : 0 <= w1) by (destruct E1 as [[_ ->]|[A ->]]; [apply Qcle_refl|now apply Qclt_le_weak]).
  apply (require_const _ _ _ Hp H1) in E2.
  assert (H2 : 0 <= w2).
  { destruct E2 as [[_ ->]|[A ->]]; [exact H1|]. qc2q. lra. }
  apply (require_const _ _ _ Hv H2) in E3.
  change (@nzero NumQc) with 0 in *.
  set (q := lf_b (ec_q t)) in *. set (p := lf_b (ec_p t)) in *. set (v := lf_b (ec_v t)) in *.
  clearbody q p v.
  split; [exact Ek|].
  destruct E1 as [[-> ->]|[A1 ->]]; destruct E2 as [[-> ->]|[A2 ->]]; destruct E3 as [[-> _]|[A3 _]];
    qc2q; repeat split; lra.
Qed.

(** the credibility of a list of rows (weight, (concordance, discordance)) *)
Definition row := (Qc * (Qc * Qc))%type.
Definition wadd (acc : Qc) (r : row) : Qc := acc + fst r.
Definition tadd (acc : Qc) (r : row) : Qc := acc + fst r * fst (snd r).
Definition cstep (C cred : Qc) (r : row) : Qc :=
  if @nltb NumQc C (snd (snd r)) then cred * ((1 - snd (snd r)) / (1 - C)) else cred.
Definition cred_of (rs : list row) : Qc :=
  fold_left (cstep (fold_left tadd rs 0 / fold_left wadd rs 0)) rs
            (fold_left tadd rs 0 / fold_left wadd rs 0).

Definition cred_row (a1 a2 : alt) (ecs : smap ecrit) (c : crit) : res row :=
  do v1 <- crit_value a1 c;
  do v2 <- crit_value a2 c;
  do ths <- of_option (mget (c_id c) ecs) EMissing;
  Ok (ec_k ths, electre_pair v1 v2 c ths).

Lemma credibility_eq a1 a2 cs ecs :
  credibility a1 a2 cs ecs = do rs <- mapM (cred_row a1 a2 ecs) cs; Ok (cred_of rs).
Proof. reflexivity. Qed.

Definition rel (r r' : row) : Prop :=
  fst r = fst r' /\ 0 < fst r /\
  0 <= fst (snd r) /\ fst (snd r) <= fst (snd r') /\ fst (snd r') <= 1 /\
  0 <= snd (snd r') /\ snd (snd r') <= snd (snd r) /\ snd (snd r) <= 1.

Lemma wsum_eq rs rs' : Forall2 rel rs rs' -> forall acc,
  fold_left wadd rs acc = fold_left wadd rs' acc.
Proof.
  induction 1 as [|r r' rs rs' Hr _ IH]; intros acc; cbn [fold_left]; [reflexivity|].
  destruct Hr as (E & _). replace (wadd acc r') with (wadd acc r) by (unfold wadd; now rewrite E). apply IH.
Qed.

Lemma wsum_nonneg rs rs' : Forall2 rel rs rs' -> forall acc, 0 <= acc ->
  0 <= fold_left wadd rs acc.
Proof.
  induction 1 as [|r r' rs rs' Hr _ IH]; intros acc Ha; cbn [fold_left]; [exact Ha|].
  apply IH. destruct Hr as (_ & K & _). unfold wadd. qc2q. lra.
Qed.

Lemma tot_mono rs rs' : Forall2 rel rs rs' -> forall acc acc', 0 <= acc -> acc <= acc' ->
  0 <= fold_left tadd rs acc /\
  fold_left tadd rs acc
  <= fold_left tadd rs' acc'.
Proof.
  induction 1 as [|r r' rs rs' Hr _ IH]; intros acc acc' H0 H1; cbn [fold_left]; [now split|].
  destruct Hr as (E & K & C0 & C1 & _).
  apply IH; unfold tadd; rewrite <- ?E; qc2q; nra.
Qed.

Lemma step_mono (C C' D D' x x' : Qc) :
  C <= C' -> D' <= D -> 0 <= D' -> D <= 1 -> 0 <= x -> x <= x' ->
  0 <= (if nltb C D then x * ((1 - D) / (1 - C)) else x) /\
  (if nltb C D then x * ((1 - D) / (1 - C)) else x)
  <= (if nltb C' D' then x' * ((1 - D') / (1 - C')) else x').
Proof.
  intros HC HD HD0 HD1 Hx Hxx.
  destruct (@nltb NumQc C D) eqn:A; destruct (@nltb NumQc C' D') eqn:B; bool2qc.
  - assert (P1 : 0 < 1 - C) by (qc2q; lra). assert (P2 : 0 < 1 - C') by (qc2q; lra).
    assert (F1 : 0 <= (1 - D) / (1 - C)) by (apply qdiv_nonneg; qc2q; lra).
    assert (F2 : (1 - D) / (1 - C) <= (1 - D') / (1 - C)) by (apply qdiv_le_mono; qc2q; lra).
    assert (F3 : (1 - D') / (1 - C) <= (1 - D') / (1 - C')) by (apply qdiv_le_den; qc2q; lra).
    set (a := (1 - D) / (1 - C)) in *. set (b := (1 - D') / (1 - C)) in *.
    set (c := (1 - D') / (1 - C')) in *. clearbody a b c. qc2q. split; nra.
  - assert (P1 : 0 < 1 - C) by (qc2q; lra).
    assert (F1 : 0 <= (1 - D) / (1 - C)) by (apply qdiv_nonneg; qc2q; lra).
    assert (F2 : (1 - D) / (1 - C) <= 1) by (apply qdiv_le_1; qc2q; lra).
    set (a := (1 - D) / (1 - C)) in *. clearbody a. qc2q. split; nra.
  - exfalso. qc2q. lra.
  - split; assumption.
Qed.

Lemma final_mono C C' rs rs' : Forall2 rel rs rs' -> C <= C' -> forall x x', 0 <= x -> x <= x' ->
  0 <= fold_left (cstep C) rs x /\
  fold_left (cstep C) rs x
  <= fold_left (cstep C') rs' x'.
Proof.
  intros HF HC. induction HF as [|r r' rs rs' Hr _ IH]; intros x x' H0 H1; cbn [fold_left]; [now split|].
  destruct Hr as (_ & _ & _ & _ & _ & D0 & D1 & D2).
  destruct (step_mono C C' (snd (snd r)) (snd (snd r')) x x' HC D1 D0 D2 H0 H1) as [S0 S1].
  apply IH; assumption.
Qed.

Lemma qdiv_zero (x : Qc) : x / 0 = 0.
Proof. unfold Qcdiv. change (/ 0) with 0. ring. Qed.

Lemma cred_of_mono rs rs' : Forall2 rel rs rs' -> cred_of rs <= cred_of rs'.
Proof.
  intros HF. unfold cred_of.
  rewrite <- (wsum_eq rs rs' HF 0).
  pose proof (wsum_nonneg rs rs' HF 0 (Qcle_refl 0)) as HW.
  destruct (tot_mono rs rs' HF 0 0 (Qcle_refl 0) (Qcle_refl 0)) as [T0 T1].
  set (w := fold_left wadd rs 0) in *.
  set (t := fold_left tadd rs 0) in *.
  set (t' := fold_left tadd rs' 0) in *. clearbody w t t'.
  assert (HC : 0 <= t / w /\ t / w <= t' / w).
  { apply Qcle_lt_or_eq in HW as [HW|HW].
    - split; [now apply qdiv_nonneg|now apply qdiv_le_mono].
    - rewrite <- HW, !qdiv_zero. split; apply Qcle_refl. }
  destruct HC as [C0 C1].
  apply (final_mono (t / w) (t' / w) rs rs' HF C1); assumption.
Qed.

Lemma mapM_Forall2 {A B} (f g : A -> res B) (R : B -> B -> Prop) l : forall rs rs',
  (forall a r r', In a l -> f a = Ok r -> g a = Ok r' -> R r r') ->
  mapM f l = Ok rs -> mapM g l = Ok rs' -> Forall2 R rs rs'.
Proof.
  induction l as [|a l IH]; intros rs rs' H Hf Hg; cbn [mapM] in Hf, Hg.
  - injection Hf as <-. injection Hg as <-. constructor.
  - destruct (f a) as [y|] eqn:Ef; cbn [bind] in Hf; [|discriminate].
    destruct (mapM f l) as [ys|] eqn:Efs; cbn [bind] in Hf; [|discriminate].
    destruct (g a) as [z|] eqn:Eg; cbn [bind] in Hg; [|discriminate].
    destruct (mapM g l) as [zs|] eqn:Egs; cbn [bind] in Hg; [|discriminate].
    injection Hf as <-. injection Hg as <-. constructor.
    + apply (H a); [now left|assumption|assumption].
    + apply IH; [|reflexivity|reflexivity]. intros a0 r r' Hin. apply H. now right.
Qed.

(** pointwise form of [dominates] *)
Definition dom_le (cs : list crit) (a b : alt) : Prop :=
  forall c va vb, In c cs -> mget (c_id c) (a_vals a) = Some va -> mget (c_id c) (a_vals b) = Some vb ->
                  sgn c vb <= sgn c va.

Lemma dominates_dom_le cs a b : dominates cs a b = true -> dom_le cs a b.
Proof.
  intros H c va vb Hin Ea Eb. unfold dominates in H. rewrite forallb_forall in H.
  specialize (H c Hin). rewrite Ea, Eb in H. now apply nleb_iff in H.
Qed.

Lemma dom_le_refl cs a : dom_le cs a a.
Proof. intros c va vb _ Ea Eb. rewrite Ea in Eb. injection Eb as <-. apply Qcle_refl. Qed.

Definition valid_const (cs : list crit) (ecs : smap ecrit) : Prop :=
  forall c t, In c cs -> mget (c_id c) ecs = Some t -> validate_ecrit t = Ok tt /\ const_ths t.

Lemma cred_row_inv a1 a2 ecs c r :
  cred_row a1 a2 ecs c = Ok r ->
  exists v1 v2 t, mget (c_id c) (a_vals a1) = Some v1 /\ mget (c_id c) (a_vals a2) = Some v2 /\
                  mget (c_id c) ecs = Some t /\ r = (ec_k t, electre_pair (sgn c v1) (sgn c v2) c t).
Proof.
  unfold cred_row, crit_value, raw_value.
  destruct (mget (c_id c) (a_vals a1)) as [v1|]; cbn [of_option bind]; [|discriminate].
  destruct (mget (c_id c) (a_vals a2)) as [v2|]; cbn [of_option bind]; [|discriminate].
  destruct (mget (c_id c) ecs) as [t|]; cbn [of_option bind]; [|discriminate].
  intros H. injection H as <-. now exists v1, v2, t.
Qed.

Theorem electre_pair_monotone c t c1 c2 c1' c2' :
  validate_ecrit t = Ok tt -> const_ths t -> c1 <= c1' -> c2' <= c2 ->
  fst (electre_pair c1 c2 c t) <= fst (electre_pair c1' c2' c t) /\
  snd (electre_pair c1' c2' c t) <= snd (electre_pair c1 c2 c t).
Proof.
  intros Hv Hc H1 H2. rewrite !electre_pair_const by assumption.
  destruct (validate_const t Hc Hv) as (_ & Q0 & P0 & V0 & QP & PV).
  apply epair_mono; try assumption. qc2q. lra.
Qed.

Corollary electre_pair_monotone_first c t c1 c1' c2 :
  validate_ecrit t = Ok tt -> const_ths t -> c1 <= c1' ->
  fst (electre_pair c1 c2 c t) <= fst (electre_pair c1' c2 c t) /\
  snd (electre_pair c1' c2 c t) <= snd (electre_pair c1 c2 c t).
Proof. intros Hv Hc H. apply electre_pair_monotone; try assumption. apply Qcle_refl. Qed.

Corollary electre_pair_monotone_second c t c1 c2 c2' :
  validate_ecrit t = Ok tt -> const_ths t -> c2 <= c2' ->
  fst (electre_pair c1 c2' c t) <= fst (electre_pair c1 c2 c t) /\
  snd (electre_pair c1 c2 c t) <= snd (electre_pair c1 c2' c t).
Proof. intros Hv Hc H. apply electre_pair_monotone; try assumption. apply Qcle_refl. Qed.

Lemma electre_pair_bounds c t c1 c2 :
  validate_ecrit t = Ok tt -> const_ths t ->
  0 <= fst (electre_pair c1 c2 c t) /\ fst (electre_pair c1 c2 c t) <= 1 /\
  0 <= snd (electre_pair c1 c2 c t) /\ snd (electre_pair c1 c2 c t) <= 1.
Proof.
  intros Hv Hc. rewrite electre_pair_const by assumption.
  destruct (validate_const t Hc Hv) as (_ & Q0 & P0 & V0 & QP & PV).
  now apply epair_bounds.
Qed.

Theorem credibility_monotone_gen cs ecs a1 a2 a1' a2' x x' :
  valid_const cs ecs -> dom_le cs a1' a1 -> dom_le cs a2 a2' ->
  credibility a1 a2 cs ecs = Ok x -> credibility a1' a2' cs ecs = Ok x' -> x <= x'.
Proof.
  intros Hval H1 H2. rewrite !credibility_eq.
  destruct (mapM (cred_row a1 a2 ecs) cs) as [rs|] eqn:E; cbn [bind]; [|discriminate].
  destruct (mapM (cred_row a1' a2' ecs) cs) as [rs'|] eqn:E'; cbn [bind]; [|discriminate].
  intros H H'. injection H as <-. injection H' as <-.
  apply cred_of_mono.
  apply (mapM_Forall2 (cred_row a1 a2 ecs) (cred_row a1' a2' ecs) rel cs rs rs'); [|exact E|exact E'].
  intros c r r' Hin Hr Hr'.
  apply cred_row_inv in Hr as (v1 & v2 & t & M1 & M2 & Mt & ->).
  apply cred_row_inv in Hr' as (v1' & v2' & t' & M1' & M2' & Mt' & ->).
  rewrite Mt in Mt'. injection Mt' as <-.
  destruct (Hval c t Hin Mt) as [Hv Hc].
  pose proof (H1 c v1' v1 Hin M1' M1) as L1. pose proof (H2 c v2 v2' Hin M2 M2') as L2.
  destruct (electre_pair_monotone c t _ _ _ _ Hv Hc L1 L2) as [G1 G2].
  destruct (electre_pair_bounds c t (sgn c v1) (sgn c v2) Hv Hc) as (B1 & B2 & B3 & B4).
  destruct (electre_pair_bounds c t (sgn c v1') (sgn c v2') Hv Hc) as (B1' & B2' & B3' & B4').
  destruct (validate_const t Hc Hv) as (K & _).
  unfold rel. cbn [fst snd]. repeat split; assumption.
Qed.

Theorem credibility_monotone cs ecs a1 a2 a1' a2' x x' :
  valid_const cs ecs -> dominates cs a1' a1 = true -> dominates cs a2 a2' = true ->
  credibility a1 a2 cs ecs = Ok x -> credibility a1' a2' cs ecs = Ok x' -> x <= x'.
Proof.
  intros Hval H1 H2. apply credibility_monotone_gen; try assumption; now apply dominates_dom_le.
Qed.

(** access to the credibility matrix *)
Lemma mapM_nth {A B} (f : A -> res B) l : forall r i x,
  mapM f l = Ok r -> nth_opt i l = Some x -> exists y, f x = Ok y /\ nth_opt i r = Some y.
Proof.
  induction l as [|a l IH]; intros r i x H Hn; [destruct i; discriminate|].
  cbn [mapM] in H.
  destruct (f a) as [y|] eqn:Ef; cbn [bind] in H; [|discriminate].
  destruct (mapM f l) as [ys|] eqn:Efs; cbn [bind] in H; [|discriminate].
  injection H as <-. destruct i as [|i]; cbn [nth_opt] in *.
  - injection Hn as <-. now exists y.
  - eapply IH; [reflexivity|exact Hn].
Qed.

Lemma mapM_length {A B} (f : A -> res B) l : forall r, mapM f l = Ok r -> List.length r = List.length l.
Proof.
  induction l as [|a l IH]; intros r H; cbn [mapM] in H.
  - now injection H as <-.
  - destruct (f a) as [y|]; cbn [bind] in H; [|discriminate].
    destruct (mapM f l) as [ys|]; cbn [bind] in H; [|discriminate].
    injection H as <-. cbn [List.length]. f_equal. now apply IH.
Qed.

Lemma zip_seq_nth {A} (l : list A) : forall s i a,
  nth_opt i l = Some a -> nth_opt i (zip (seq s (List.length l)) l) = Some ((s + i)%nat, a).
Proof.
  induction l as [|x l IH]; intros s i a H; [destruct i; discriminate|].
  cbn [List.length seq zip]. destruct i as [|i]; cbn [nth_opt] in *.
  - injection H as <-. now rewrite Nat.add_0_r.
  - rewrite (IH (S s) i a H). do 2 f_equal. lia.
Qed.

Lemma nth_opt_some_lt {A} (l : list A) : forall i a, nth_opt i l = Some a -> (i < List.length l)%nat.
Proof.
  induction l as [|x l IH]; intros i a H; [destruct i; discriminate|].
  destruct i as [|i]; cbn [nth_opt List.length] in *; [lia|]. apply IH in H. lia.
Qed.

Lemma nth_opt_lt_some {A} (l : list A) : forall i, (i < List.length l)%nat -> exists a, nth_opt i l = Some a.
Proof.
  induction l as [|x l IH]; intros i H; cbn [List.length] in H; [lia|].
  destruct i as [|i]; cbn [nth_opt]; [now exists x|]. apply IH. lia.
Qed.

Lemma cred_matrix_length alts cs ecs (m : list (list num)) :
  cred_matrix alts cs ecs = Ok m -> List.length m = List.length alts.
Proof.
  intros H. apply mapM_length in H. rewrite H.
  clear. generalize 0%nat. induction alts as [|a l IH]; intros s; [reflexivity|].
  cbn [List.length seq zip]. f_equal. apply IH.
Qed.

Lemma sig_cred alts cs ecs (m : list (list num)) i k a b :
  cred_matrix alts cs ecs = Ok m -> nth_opt i alts = Some a -> nth_opt k alts = Some b ->
  (i = k -> sig m i k = 0) /\ (i <> k -> credibility a b cs ecs = Ok (sig m i k)).
Proof.
  intros H Hi Hk. unfold cred_matrix in H.
  pose proof (zip_seq_nth alts 0 i a Hi) as Zi. pose proof (zip_seq_nth alts 0 k b Hk) as Zk.
  cbn [Nat.add] in Zi, Zk.
  destruct (mapM_nth _ _ _ _ _ H Zi) as (row & Hrow & Nrow).
  destruct (mapM_nth _ _ _ _ _ Hrow Zk) as (y & Hy & Ny).
  cbn [fst snd] in Hy.
  assert (S : sig m i k = y) by (unfold sig; now rewrite Nrow, Ny).
  rewrite S. split; intros E.
  - apply Nat.eqb_eq in E. rewrite E in Hy. now injection Hy as <-.
  - apply Nat.eqb_neq in E. rewrite E in Hy. exact Hy.
Qed.

Theorem dominates_covers alts cs ecs (m : list (list num)) i j a b :
  valid_const cs ecs -> cred_matrix alts cs ecs = Ok m ->
  nth_opt i alts = Some a -> nth_opt j alts = Some b -> dominates cs a b = true ->
  covers m (seq 0 (List.length alts)) i j.
Proof.
  intros Hval Hm Hi Hj Hd. apply dominates_dom_le in Hd. split.
  - intros k Hk Hki Hkj. apply in_seq in Hk.
    destruct (nth_opt_lt_some alts k) as [ak Hak]; [lia|].
    destruct (sig_cred alts cs ecs m i k a ak Hm Hi Hak) as [_ Cik].
    destruct (sig_cred alts cs ecs m j k b ak Hm Hj Hak) as [_ Cjk].
    destruct (sig_cred alts cs ecs m k i ak a Hm Hak Hi) as [_ Cki].
    destruct (sig_cred alts cs ecs m k j ak b Hm Hak Hj) as [_ Ckj].
    split.
    + eapply (credibility_monotone_gen cs ecs b ak a ak); [exact Hval|exact Hd|apply dom_le_refl| |]; auto.
    + eapply (credibility_monotone_gen cs ecs ak a ak b); [exact Hval|apply dom_le_refl|exact Hd| |]; auto.
  - destruct (Nat.eq_dec i j) as [->|Hij]; [apply Qcle_refl|].
    destruct (sig_cred alts cs ecs m i j a b Hm Hi Hj) as [_ Cij].
    destruct (sig_cred alts cs ecs m j i b a Hm Hj Hi) as [_ Cji].
    eapply (credibility_monotone_gen cs ecs b a a b); [exact Hval|exact Hd|exact Hd| |]; auto.
Qed.

(** ** 8. The checker C06 accepts every result of the model (validated constant thresholds) *)
Definition mk_entry (rows : list (nat * (alt * (Z * Z)))) (r : nat * (alt * (Z * Z))) : entry :=
  let '(ia, (a, (a1, d1))) := r in
  {| e_alt := a; e_eval := EElectre a1 d1;
     e_links := map (fun r2 : nat * (alt * (Z * Z)) => a_id (fst (snd r2)))
                    (filter (fun r2 : nat * (alt * (Z * Z)) =>
                               let '(ib, (_, (a2, d2))) := r2 in
                               negb (Nat.eqb ia ib) && (a1 <=? a2)%Z && (d1 <=? d2)%Z) rows) |}.

Lemma evaluate_ranking_eq asc desc (alts : list alt) :
  evaluate_ranking asc desc alts
  = map (mk_entry (zip (seq 0 (List.length alts)) (zip alts (zip asc desc))))
        (zip (seq 0 (List.length alts)) (zip alts (zip asc desc))).
Proof. reflexivity. Qed.

Lemma in_zip_seq {A} (l : list A) : forall s n i v,
  In (i, v) (zip (seq s n) l) -> exists k, i = (s + k)%nat /\ nth_opt k l = Some v.
Proof.
  induction l as [|x l IH]; intros s n i v H; [destruct (seq s n); destruct H|].
  destruct n as [|n]; cbn [seq zip] in H; [destruct H|].
  destruct H as [H|H].
  - injection H as <- <-. exists 0%nat. split; [lia|reflexivity].
  - apply IH in H as (k & -> & Hk). exists (S k). split; [lia|exact Hk].
Qed.

Lemma nth_opt_zip {A B} (l1 : list A) : forall (l2 : list B) k p q,
  nth_opt k (zip l1 l2) = Some (p, q) -> nth_opt k l1 = Some p /\ nth_opt k l2 = Some q.
Proof.
  induction l1 as [|x l1 IH]; intros l2 k p q H; [destruct k; discriminate|].
  destruct l2 as [|y l2]; [destruct k; discriminate|].
  destruct k as [|k]; cbn [zip nth_opt] in *.
  - injection H as <- <-. now split.
  - now apply IH.
Qed.

Lemma nth_opt_nth {A} (l : list A) d : forall k x, nth_opt k l = Some x -> nth k l d = x.
Proof.
  induction l as [|y l IH]; intros k x H; [destruct k; discriminate|].
  destruct k as [|k]; cbn [nth_opt nth] in *; [now injection H|now apply IH].
Qed.

Lemma mem_str_in x l : In x l -> mem_str x l = true.
Proof.
  induction l as [|y l IH]; [intros []|]. intros [->|H]; cbn [mem_str].
  - now rewrite String.eqb_refl.
  - rewrite (IH H). apply orb_true_r.
Qed.

Lemma row_inv (alts : list alt) (asc desc : list Z) i a x y :
  In (i, (a, (x, y))) (zip (seq 0 (List.length alts)) (zip alts (zip asc desc))) ->
  nth_opt i alts = Some a /\ nth i asc 0%Z = x /\ nth i desc 0%Z = y.
Proof.
  intros H. apply in_zip_seq in H as (k & -> & H). cbn [Nat.add].
  apply nth_opt_zip in H as [H1 H]. apply nth_opt_zip in H as [H2 H3].
  split; [exact H1|]. split; now apply nth_opt_nth.
Qed.

Theorem electre_dominance (s : state) (r : list entry) ecs f :
  st_params s = PElectre ecs f -> valid_const (st_crits s) ecs -> lf_a f <= 0 ->
  electre_evaluate s = Ok r -> C06_ok s r = true.
Proof.
  intros Hp Hval Ha. unfold electre_evaluate. rewrite Hp.
  destruct (cred_matrix (st_cons s) (st_crits s) ecs) as [m|] eqn:Em; cbn [bind]; [|discriminate].
  destruct (rank_ascending m f) as [asc|] eqn:EA; cbn [bind]; [|discriminate].
  destruct (rank_descending m f) as [desc|] eqn:ED; cbn [bind]; [|discriminate].
  intros H. injection H as <-. rewrite evaluate_ranking_eq.
  set (rows := zip (seq 0 (List.length (st_cons s))) (zip (st_cons s) (zip asc desc))).
  unfold C06_ok. apply forallb_forall. intros ea Hea. apply forallb_forall. intros eb Heb.
  apply in_map_iff in Hea as ([ia [a [xa ya]]] & <- & Hra).
  apply in_map_iff in Heb as ([ib [b [xb yb]]] & <- & Hrb).
  pose proof (row_inv _ _ _ _ _ _ _ Hra) as (Na & Xa & Ya).
  pose proof (row_inv _ _ _ _ _ _ _ Hrb) as (Nb & Xb & Yb).
  unfold pair_ok, eid, asc_of, desc_of. cbn [mk_entry e_alt e_eval e_links].
  destruct (String.eqb (a_id a) (a_id b)) eqn:Eid; [reflexivity|].
  destruct (dominates (st_crits s) a b) eqn:Edom; [|reflexivity].
  assert (Hab : ia <> ib).
  { intros ->. rewrite Na in Nb. injection Nb as <-. rewrite String.eqb_refl in Eid. discriminate. }
  pose proof (cred_matrix_length _ _ _ _ Em) as Lm.
  pose proof (dominates_covers _ _ _ _ _ _ _ _ Hval Em Na Nb Edom) as Hcov.
  rewrite <- Lm in Hcov.
  apply nth_opt_some_lt in Na as La. apply nth_opt_some_lt in Nb as Lb. rewrite <- Lm in La, Lb.
  destruct (dominance_positions m f ia ib asc desc Ha La Lb Hcov EA ED) as [P1 P2].
  rewrite Xa, Xb in P1. rewrite Ya, Yb in P2.
  apply Z.leb_le in P1, P2. rewrite P1, P2. cbn [andb].
  apply mem_str_in.
  apply (in_map (fun r2 : nat * (alt * (Z * Z)) => a_id (fst (snd r2))) _ (ib, (b, (xb, yb)))).
  apply filter_In. split; [exact Hrb|].
  apply Nat.eqb_neq in Hab. rewrite Hab, P1, P2. reflexivity.
Qed.

(** ** 7. Multiplying every weight by the same non-zero constant does not change the credibility *)
Definition scale_k (c : Qc) (t : ecrit) : ecrit :=
  {| ec_k := c * ec_k t; ec_q := ec_q t; ec_p := ec_p t; ec_v := ec_v t |}.
Definition scale_ecs (c : Qc) (ecs : smap ecrit) : smap ecrit :=
  map (fun kv => (fst kv, scale_k c (snd kv))) ecs.
Definition scale_row (c : Qc) (r : row) : row := (c * fst r, snd r).

Lemma mget_scale c id ecs :
  mget id (scale_ecs c ecs) = match mget id ecs with Some t => Some (scale_k c t) | None => None end.
Proof.
  induction ecs as [|[k t] ecs IH]; [reflexivity|].
  cbn [scale_ecs map mget fst snd]. destruct (String.eqb id k); [reflexivity|exact IH].
Qed.

Lemma cred_row_scale c a1 a2 ecs cr :
  cred_row a1 a2 (scale_ecs c ecs) cr
  = match cred_row a1 a2 ecs cr with Ok r => Ok (scale_row c r) | Err e => Err e end.
Proof.
  unfold cred_row. rewrite mget_scale.
  destruct (crit_value a1 cr); cbn [bind]; [|reflexivity].
  destruct (crit_value a2 cr); cbn [bind]; [|reflexivity].
  destruct (mget (c_id cr) ecs); cbn [of_option bind]; reflexivity.
Qed.

Lemma mapM_scale c a1 a2 ecs cs :
  mapM (cred_row a1 a2 (scale_ecs c ecs)) cs
  = match mapM (cred_row a1 a2 ecs) cs with Ok rs => Ok (map (scale_row c) rs) | Err e => Err e end.
Proof.
  induction cs as [|cr cs IH]; [reflexivity|].
  cbn [mapM]. rewrite cred_row_scale, IH.
  destruct (cred_row a1 a2 ecs cr); cbn [bind]; [|reflexivity].
  destruct (mapM (cred_row a1 a2 ecs) cs); reflexivity.
Qed.

Lemma wsum_scale c rs : forall acc,
  fold_left wadd (map (scale_row c) rs) (c * acc) = c * fold_left wadd rs acc.
Proof.
  induction rs as [|r rs IH]; intros acc; cbn [map fold_left]; [reflexivity|].
  rewrite <- IH. f_equal. unfold wadd, scale_row. cbn [fst]. ring.
Qed.

Lemma tot_scale c rs : forall acc,
  fold_left tadd (map (scale_row c) rs) (c * acc) = c * fold_left tadd rs acc.
Proof.
  induction rs as [|r rs IH]; intros acc; cbn [map fold_left]; [reflexivity|].
  rewrite <- IH. f_equal. unfold tadd, scale_row. cbn [fst snd]. ring.
Qed.

Lemma cstep_scale c C rs : forall x,
  fold_left (cstep C) (map (scale_row c) rs) x = fold_left (cstep C) rs x.
Proof. induction rs as [|r rs IH]; intros x; cbn [map fold_left]; [reflexivity|]. apply IH. Qed.

Lemma cred_of_scale c rs : c <> 0 -> cred_of (map (scale_row c) rs) = cred_of rs.
Proof.
  intros Hc. unfold cred_of.
  replace (fold_left tadd (map (scale_row c) rs) 0) with (c * fold_left tadd rs 0)
    by (rewrite <- tot_scale; f_equal; ring).
  replace (fold_left wadd (map (scale_row c) rs) 0) with (c * fold_left wadd rs 0)
    by (rewrite <- wsum_scale; f_equal; ring).
  set (t := fold_left tadd rs 0). set (w := fold_left wadd rs 0).
  assert (E : c * t / (c * w) = t / w).
  { destruct (Qc_eq_dec w 0) as [->|Hw].
    - replace (c * 0) with 0 by ring. now rewrite !qdiv_zero.
    - field. split; assumption. }
  rewrite E. apply cstep_scale.
Qed.

Theorem weights_scaling c a1 a2 cs ecs :
  0 < c -> credibility a1 a2 cs (scale_ecs c ecs) = credibility a1 a2 cs ecs.
Proof.
  intros Hc. rewrite !credibility_eq, mapM_scale.
  destruct (mapM (cred_row a1 a2 ecs) cs) as [rs|]; cbn [bind]; [|reflexivity].
  f_equal. apply cred_of_scale. now apply qc_pos_neq.
Qed.

(** ** Counterexample: the constant-threshold hypothesis cannot be dropped.
    One gain criterion, thresholds q(g) = 17 - 2g, p(g) = 21 - 2g (slope -2, accepted by
    [validate_ecrit], which checks nothing for a non-zero slope), no veto, default distillation;
    alternatives X = 10, A = 9, B = 7.  A dominates B, but credibility(A,X) = 1/2 < 1 = credibility(B,X):
    X outranks A only, so the descending distillation removes A first and A ends in a worse
    class (2) than B (1); B lists A, A does not list B. *)
Definition qz (z : Z) : Qc := Q2Qc (inject_Z z).
Definition cex_crit : crit := {| c_id := "g"%string; c_type := TGain; c_range := None |}.
Definition cex_alt (id : string) (v : Z) : alt := {| a_id := id; a_vals := [("g"%string, qz v)] |}.
Definition cex_ths : ecrit :=
  {| ec_k := qz 1;
     ec_q := {| lf_a := qz (-2); lf_b := qz 17 |};
     ec_p := {| lf_a := qz (-2); lf_b := qz 21 |};
     ec_v := {| lf_a := qz 0; lf_b := qz 0 |} |}.
Definition cex_state : state :=
  {| st_notcons := [];
     st_cons := [cex_alt "X"%string 10; cex_alt "A"%string 9; cex_alt "B"%string 7];
     st_crits := [cex_crit]; st_params := PElectre [("g"%string, cex_ths)] default_dist |}.

Example cex_validated : validate_ecrit cex_ths = Ok tt.
Proof. vm_compute. reflexivity. Qed.

Example cex_dominates : dominates [cex_crit] (cex_alt "A"%string 9) (cex_alt "B"%string 7) = true.
Proof. vm_compute. reflexivity. Qed.

Example cex_matrix :
  match cred_matrix (st_cons cex_state) (st_crits cex_state) [("g"%string, cex_ths)] with
  | Ok m => map (map (fun x : Qc => this x)) m
  | Err _ => []
  end = [[0; 1; 1]; [1 # 2; 0; 1]; [1; 1; 0]]%Q.
Proof. vm_compute. reflexivity. Qed.

Example cex_result :
  match electre_evaluate cex_state with
  | Ok r => map (fun e => (eid e, asc_of e, desc_of e, e_links e)) r
  | Err _ => []
  end = [("X", 1, 1, ["A"; "B"]); ("A", 2, 2, []); ("B", 2, 1, ["A"])]%string%Z.
Proof. vm_compute. reflexivity. Qed.

Example cex_C06_fails :
  match electre_evaluate cex_state with Ok r => C06_ok cex_state r | Err _ => true end = false.
Proof. vm_compute. reflexivity. Qed.
