(** * C07, "criteria disappear or appear only as the bias reports them": the model passes the checker
    [crits_as_reported] of Check/Stage.v at every stage, and what the checker means.

    Everything is proved for any carrier [N : Num] (no arithmetic is involved); the example at the end runs on [NumQc].

    - [same_id_set_iff]: the boolean set comparison = both lists duplicate free, same members ([ideq]);
    - [omitted_ids], [added_ids], [apply_report_ids]; [crits_as_reported_eq]: the checker in one uniform formula;
      [crits_as_reported_sound] (declarative reading), [crits_as_reported_iff] (complete characterisation);
    - [omission_reported], [reversal_reported], [fatigue_reported], [concealment_reported], [mixing_reported],
      [anchoring_reported], [apply_bias_reported], [apply_bias_nodup_crits];
    - [reported_chain] (the stages of a sequence of echoes), [process_biases_chain], [reported_chain_fold]
      (a fact about the checker alone: it also applies to the stages traced in the real program),
      [process_biases_reported], [process_biases_nodup_crits], [process_biases_appear_only_reported],
      [process_biases_disappear_only_reported];
    - [Example]s: omission of one of three criteria, then mixing. *)
From Coq Require Import ZArith Bool List String Permutation Lia.
From Coq Require QArith Qcanon.
From RDM Require Import Base.Num Base.NumQc Base.Util Model.Data Model.Rank Model.Utility Model.Levels Model.Heuristics
  Model.Electre Model.Listeners Model.Biases Model.Anchoring Model.Pipeline Check.Stage
  Proofs.SortFacts Proofs.WfFacts Proofs.BiasStructFacts Proofs.InvFacts.
Import ListNotations.
Local Open Scope string_scope.
Local Open Scope list_scope.

(** ** 1. Sets of ids *)
(* [l1] and [l2] are duplicate free and have the same members *)
Definition ideq (l1 l2 : list string) : Prop := NoDup l1 /\ NoDup l2 /\ forall x, In x l1 <-> In x l2.

Lemma same_id_set_iff l1 l2 : same_id_set l1 l2 = true <-> ideq l1 l2.
Proof.
  unfold same_id_set, ideq. rewrite !andb_true_iff, Nat.eqb_eq, !nodup_str_NoDup, forallb_mem_incl. split.
  - intros [[[L D1] D2] I]. split; [exact D1|]. split; [exact D2|]. intros x. split; [apply I|].
    apply (NoDup_length_incl D1); [lia|exact I].
  - intros (D1 & D2 & E).
    assert (P : Permutation l1 l2) by (apply NoDup_Permutation; assumption).
    split; [split; [split|]|]; try assumption.
    + now apply Permutation_length.
    + intros x. apply E.
Qed.

Lemma ideq_refl l : NoDup l -> ideq l l.
Proof. intros D. split; [exact D|]. split; [exact D|]. intros x. reflexivity. Qed.

Lemma ideq_sym l1 l2 : ideq l1 l2 -> ideq l2 l1.
Proof. intros (D1 & D2 & E). split; [exact D2|]. split; [exact D1|]. intros x. symmetry. apply E. Qed.

Lemma ideq_trans l1 l2 l3 : ideq l1 l2 -> ideq l2 l3 -> ideq l1 l3.
Proof.
  intros (D1 & D2 & E) (_ & D3 & F). split; [exact D1|]. split; [exact D3|].
  intros x. rewrite E. apply F.
Qed.

Lemma ideq_perm l1 l2 : Permutation l1 l2 -> NoDup l2 -> ideq l1 l2.
Proof.
  intros P D. split; [eapply Permutation_NoDup; [symmetry; exact P|exact D]|]. split; [exact D|].
  intros x. split; apply Permutation_in; [exact P|symmetry; exact P].
Qed.

Lemma nodup_app_disjoint {A} : forall (l1 l2 : list A), NoDup (l1 ++ l2) -> forall x, In x l1 -> In x l2 -> False.
Proof.
  induction l1 as [|a r IH]; cbn [app]; intros l2 D x H1 H2; [contradiction|].
  inversion D as [|? ? Hn Hr]; subst. destruct H1 as [->|H1].
  - apply Hn. apply in_or_app. now right.
  - now apply (IH l2 Hr x).
Qed.

Lemma nodup_app_intro {A} : forall (l1 l2 : list A), NoDup l1 -> NoDup l2 ->
  (forall x, In x l1 -> In x l2 -> False) -> NoDup (l1 ++ l2).
Proof.
  induction l1 as [|a r IH]; cbn [app]; intros l2 D1 D2 H; [exact D2|].
  inversion D1 as [|? ? Hn Hr]; subst. constructor.
  - intros Hin. apply in_app_or in Hin as [Hin|Hin]; [now apply Hn|]. apply (H a); [now left|exact Hin].
  - apply IH; [exact Hr|exact D2|]. intros x Hx. apply H. now right.
Qed.

(* [ids] without the members of [om] (the filter the checker uses) *)
Definition drop_ids (om ids : list string) : list string := filter (fun i => negb (mem_str i om)) ids.

Lemma drop_ids_In om ids x : In x (drop_ids om ids) <-> In x ids /\ ~ In x om.
Proof. unfold drop_ids. rewrite filter_In, negb_true_iff, mem_str_false. tauto. Qed.

Lemma drop_ids_nil ids : drop_ids [] ids = ids.
Proof. unfold drop_ids. induction ids as [|i r IH]; cbn [filter mem_str negb]; [reflexivity|f_equal; exact IH]. Qed.

Lemma drop_ids_nodup om ids : NoDup ids -> NoDup (drop_ids om ids).
Proof. apply NoDup_filter. Qed.

(* a duplicate free list split in two: the right part is the whole minus the left part *)
Lemma split_reported (L R ids : list string) : Permutation (L ++ R) ids -> NoDup ids ->
  incl L ids /\ ideq R (drop_ids L ids).
Proof.
  intros P D.
  assert (D' : NoDup (L ++ R)) by (eapply Permutation_NoDup; [symmetry; exact P|exact D]).
  split.
  - intros x Hx. apply (Permutation_in _ P). apply in_or_app. now left.
  - split; [now apply NoDup_app_r in D'|]. split; [now apply drop_ids_nodup|].
    intros x. rewrite drop_ids_In. split.
    + intros Hx. split.
      * apply (Permutation_in _ P). apply in_or_app. now right.
      * intros HL. exact (nodup_app_disjoint _ _ D' x HL Hx).
    + intros [Hx HL]. apply (Permutation_in _ (Permutation_sym P)) in Hx.
      apply in_app_or in Hx as [Hx|Hx]; [contradiction|exact Hx].
Qed.

Section Reported.
  Context {N : Num}.

  Local Notation ids s := (map c_id (st_crits s)).

  (** ** 2. The checker, declaratively *)
  Definition omitted_ids (r : report) : list string :=
    match r with ROmission o => map c_id o | _ => [] end.
  Definition added_ids (r : report) : list string :=
    match r with
    | RConcealment c _ _ => [c_id c]
    | RMixing _ _ cn _ => [cp_id cn]
    | RAnchoring _ _ _ (ARNew _ added) => map (fun x => c_id (fst (fst x))) added
    | _ => []
    end.
  (* the ids after a stage, computed from the ids before it and the report alone: set subtraction, then append
     (an id omitted at one stage may be taken again by a later addition: the name generator only avoids the ids
     in use at that moment) *)
  Definition apply_report_ids (l : list string) (r : report) : list string :=
    drop_ids (omitted_ids r) l ++ added_ids r.

  Lemma apply_report_ids_none l r : omitted_ids r = [] -> added_ids r = [] -> apply_report_ids l r = l.
  Proof. unfold apply_report_ids. intros -> ->. now rewrite drop_ids_nil, app_nil_r. Qed.

  Lemma apply_report_ids_RNone l : apply_report_ids l RNone = l.
  Proof. now apply apply_report_ids_none. Qed.

  Lemma apply_report_ids_In l r x :
    In x (apply_report_ids l r) <-> (In x l /\ ~ In x (omitted_ids r)) \/ In x (added_ids r).
  Proof. unfold apply_report_ids. rewrite in_app_iff, drop_ids_In. reflexivity. Qed.

  (* one formula for all the cases of the checker *)
  Lemma crits_as_reported_eq before after rep :
    crits_as_reported before after rep =
    forallb (fun i => mem_str i (ids before)) (omitted_ids rep)
    && same_id_set (ids after) (apply_report_ids (ids before) rep).
  Proof.
    unfold crits_as_reported, apply_report_ids.
    destruct rep as [|om|items|f c n|c v a|c1 c2 cn a|refs sc diffs ar]; [| | | | | |destruct ar as [d|refc added]];
      cbn [omitted_ids added_ids forallb andb]; rewrite ?drop_ids_nil, ?app_nil_r; reflexivity.
  Qed.

  Lemma crits_as_reported_ideq before after rep :
    crits_as_reported before after rep = true <->
    incl (omitted_ids rep) (ids before) /\ ideq (ids after) (apply_report_ids (ids before) rep).
  Proof. now rewrite crits_as_reported_eq, andb_true_iff, forallb_mem_incl, same_id_set_iff. Qed.

  (** requested: soundness of the checker in declarative form *)
  Theorem crits_as_reported_sound before after rep :
    crits_as_reported before after rep = true ->
    forall id, In id (map c_id (st_crits after)) <->
               (In id (map c_id (st_crits before)) /\ ~ In id (omitted_ids rep)) \/ In id (added_ids rep).
  Proof.
    intros H id. apply crits_as_reported_ideq in H as [_ (_ & _ & E)].
    rewrite E. apply apply_report_ids_In.
  Qed.

  (* the checker also says: no duplicates afterwards *)
  Lemma crits_as_reported_nodup before after rep :
    crits_as_reported before after rep = true -> NoDup (map c_id (st_crits after)).
  Proof. intros H. apply crits_as_reported_ideq in H as [_ (D & _)]. exact D. Qed.

  (** everything the checker says, and nothing more *)
  Theorem crits_as_reported_iff before after rep :
    crits_as_reported before after rep = true <->
    (incl (omitted_ids rep) (map c_id (st_crits before)) /\
     NoDup (map c_id (st_crits after)) /\
     NoDup (drop_ids (omitted_ids rep) (map c_id (st_crits before))) /\
     NoDup (added_ids rep) /\
     (forall id, In id (added_ids rep) -> In id (map c_id (st_crits before)) -> In id (omitted_ids rep)) /\
     forall id, In id (map c_id (st_crits after)) <->
                (In id (map c_id (st_crits before)) /\ ~ In id (omitted_ids rep)) \/ In id (added_ids rep)).
  Proof.
    rewrite crits_as_reported_ideq. unfold ideq, apply_report_ids. split.
    - intros (I & Da & Df & E). split; [exact I|]. split; [exact Da|].
      split; [now apply NoDup_app_l in Df|]. split; [now apply NoDup_app_r in Df|]. split.
      + intros id Ha Hb. destruct (mem_str id (omitted_ids rep)) eqn:M; [now apply mem_str_In|].
        apply mem_str_false in M. exfalso. apply (nodup_app_disjoint _ _ Df id); [|exact Ha].
        apply drop_ids_In. now split.
      + intros id. rewrite E, in_app_iff, drop_ids_In. reflexivity.
    - intros (I & Da & Dd & Dn & X & E). split; [exact I|]. split; [exact Da|]. split.
      + apply nodup_app_intro; [exact Dd|exact Dn|]. intros x Hx Ha. apply drop_ids_In in Hx as [Hb Ho].
        apply Ho. now apply X.
      + intros id. rewrite E, in_app_iff, drop_ids_In. reflexivity.
  Qed.

  (** ** 3. One bias *)
  (* a stage that keeps the criteria and reports neither omissions nor additions *)
  Lemma unchanged_reported (cur st : state) rep :
    st_crits st = st_crits cur -> omitted_ids rep = [] -> added_ids rep = [] ->
    NoDup (ids cur) -> crits_as_reported cur st rep = true.
  Proof.
    intros C O A D. apply crits_as_reported_ideq. rewrite O. split; [intros x []|].
    rewrite apply_report_ids_none by assumption. rewrite C. now apply ideq_refl.
  Qed.

  (* a stage that appends one criterion through [add_criterion] and reports its id *)
  Lemma added_one_reported (cur st : state) newc rep :
    add_criterion (st_crits cur) newc = Ok (st_crits st) -> omitted_ids rep = [] -> added_ids rep = [c_id newc] ->
    NoDup (ids cur) -> crits_as_reported cur st rep = true.
  Proof.
    intros H O A D. apply add_criterion_spec in H as [C F]. apply crits_as_reported_ideq.
    rewrite O. split; [intros x []|]. unfold apply_report_ids. rewrite O, A, drop_ids_nil, C, map_app.
    cbn [map]. apply ideq_refl. now apply NoDup_snoc.
  Qed.

  (** *** omission *)
  Lemma omission_form e cur p st rep : apply_omission e cur p = Ok (st, rep) ->
    exists sorted k, Permutation sorted (st_crits cur) /\ st_crits st = skipn k sorted /\ rep = ROmission (firstn k sorted).
  Proof.
    intros H. apply omission_shape in H as (sorted & k & O & C & R & _).
    apply order_criteria_perm in O. now exists sorted, k.
  Qed.

  Theorem omission_reported e cur p st rep :
    apply_omission e cur p = Ok (st, rep) -> NoDup (map c_id (st_crits cur)) -> crits_as_reported cur st rep = true.
  Proof.
    intros H D. apply omission_form in H as (sorted & k & P & C & ->).
    apply crits_as_reported_ideq. unfold apply_report_ids. cbn [omitted_ids added_ids]. rewrite app_nil_r, C.
    apply split_reported; [|exact D].
    rewrite <- map_app, firstn_skipn. now apply Permutation_map.
  Qed.

  (** *** preference reversal, fatigue *)
  Lemma reversal_form e cur p st rep : apply_reversal e cur p = Ok (st, rep) ->
    st_crits st = st_crits cur /\ exists items, rep = RReversal items.
  Proof.
    unfold apply_reversal. intros H.
    destruct (_ || _); [discriminate|].
    binv H. binv H. binv H. binv H. binv H. binv H. injection H as <- <-.
    cbn [st_crits]. split; [reflexivity|]. eexists. reflexivity.
  Qed.

  Theorem reversal_reported e cur p st rep :
    apply_reversal e cur p = Ok (st, rep) -> NoDup (map c_id (st_crits cur)) -> crits_as_reported cur st rep = true.
  Proof.
    intros H D. apply reversal_form in H as (C & items & ->). now apply unchanged_reported.
  Qed.

  Lemma fatigue_form e cur p st rep : apply_fatigue e cur p = Ok (st, rep) ->
    st_crits st = st_crits cur /\ exists f c n, rep = RFatigue f c n.
  Proof.
    unfold apply_fatigue. intros H. binv H.
    destruct (negb (valid_bounding p)); [discriminate|].
    binv H. binv H. destruct x1 as [[consd gv] gs]. binv H. destruct x1 as [[nconsd gv2] gs2].
    injection H as <- <-. cbn [st_crits]. split; [reflexivity|]. do 3 eexists. reflexivity.
  Qed.

  Theorem fatigue_reported e cur p st rep :
    apply_fatigue e cur p = Ok (st, rep) -> NoDup (map c_id (st_crits cur)) -> crits_as_reported cur st rep = true.
  Proof.
    intros H D. apply fatigue_form in H as (C & f & c & n & ->). now apply unchanged_reported.
  Qed.

  (** *** concealment *)
  Lemma concealment_form e cur p st rep : apply_concealment e cur p = Ok (st, rep) ->
    exists newc vals ad, add_criterion (st_crits cur) newc = Ok (st_crits st) /\ rep = RConcealment newc vals ad.
  Proof.
    unfold apply_concealment. intros H.
    destruct (neqb (bp_new_scaling p) nzero); [discriminate|].
    destruct (negb (valid_bounding p)); [discriminate|].
    cbv zeta in H. binv H. binv H. binv H. binv H. destruct x2 as [[new_all values] g2].
    binv H. binv H. binv H. binv H. binv H. injection H as <- <-.
    cbn [st_crits]. do 3 eexists. split; [eassumption|reflexivity].
  Qed.

  Theorem concealment_reported e cur p st rep :
    apply_concealment e cur p = Ok (st, rep) -> NoDup (map c_id (st_crits cur)) -> crits_as_reported cur st rep = true.
  Proof.
    intros H D. apply concealment_form in H as (newc & vals & ad & A & ->).
    now apply (added_one_reported cur st newc).
  Qed.

  (** *** mixing *)
  Lemma mixing_form e cur p st rep : apply_mixing e cur p = Ok (st, rep) ->
    (st = cur /\ rep = RNone) \/
    exists newc k1 k2 kn ad,
      add_criterion (st_crits cur) newc = Ok (st_crits st) /\ rep = RMixing k1 k2 kn ad /\ cp_id kn = c_id newc.
  Proof.
    unfold apply_mixing. intros H.
    destruct (Nat.ltb (List.length (st_crits cur)) 2).
    { injection H as <- <-. now left. }
    right.
    destruct (negb (is_probability (bp_mix_ratio p))); [discriminate|].
    cbv zeta in H. repeat binv H. injection H as <- <-.
    cbn [st_crits]. do 5 eexists. split; [eassumption|]. split; reflexivity.
  Qed.

  Theorem mixing_reported e cur p st rep :
    apply_mixing e cur p = Ok (st, rep) -> NoDup (map c_id (st_crits cur)) -> crits_as_reported cur st rep = true.
  Proof.
    intros H D. apply mixing_form in H as [[-> ->]|(newc & k1 & k2 & kn & ad & A & -> & K)].
    - now apply unchanged_reported.
    - apply (added_one_reported cur st newc); [exact A|reflexivity| |exact D]. cbn [added_ids]. now rewrite K.
  Qed.

  (** *** anchoring *)
  Lemma inline_form cur p sc diffs st ar : apply_inline cur p sc diffs = Ok (st, ar) ->
    st_crits st = st_crits cur /\ exists d, ar = ARInline d.
  Proof.
    unfold apply_inline. intros H. binv H. cbv zeta in H. binv H.
    destruct (bp_anch_not_considered p).
    - binv H. injection H as <- <-. cbn [st_crits]. split; [reflexivity|]. eexists. reflexivity.
    - cbn [bind] in H. binv H. injection H as <- <-. cbn [st_crits]. split; [reflexivity|]. eexists. reflexivity.
  Qed.

  (* the creation step of the new-criterion applier (one per reference point) *)
  Definition create_step (e : env) (p : bprops) (ref : crit)
             (st : list crit * mparams * list (crit * addition)) (ir : nat * string)
    : res (list crit * mparams * list (crit * addition)) :=
    let '(crits, params, added) := st in
    let g := new_rng e (bp_seed p + Z.of_nat (fst ir))%Z in
    let newc := {| c_id := not_used_name crits (anchoring_criterion_prefix ++ snd ir);
                   c_type := c_type ref; c_range := c_range ref |} in
    do crits' <- add_criterion crits newc;
    do ag <- on_criterion_added newc ref params g;
    do params' <- merge params (fst ag);
    Ok (crits', params', added ++ [(newc, fst ag)]).

  Definition created_ok (ids0 : list string) (st : list crit * mparams * list (crit * addition)) : Prop :=
    map c_id (fst (fst st)) = ids0 ++ map (fun x => c_id (fst x)) (snd st) /\ NoDup (map c_id (fst (fst st))).

  Lemma create_step_ok e p ref ids0 st ir st' :
    created_ok ids0 st -> create_step e p ref st ir = Ok st' -> created_ok ids0 st'.
  Proof.
    unfold created_ok, create_step. destruct st as [[crits params] added]. cbn [fst snd].
    intros [E D] H. cbv zeta in H. binv H. binv H. binv H. injection H as <-. cbn [fst snd].
    apply add_criterion_spec in E0 as [-> F]. cbn [c_id] in F. rewrite !map_app, E, app_assoc. cbn [map fst c_id].
    split; [reflexivity|]. rewrite <- E. now apply NoDup_snoc.
  Qed.

  Lemma new_criterion_form e cur p sc diffs st ar :
    apply_new_criterion e cur p sc diffs = Ok (st, ar) -> NoDup (ids cur) ->
    exists refc added, ar = ARNew refc added /\
      ids st = ids cur ++ map (fun x => c_id (fst (fst x))) added /\ NoDup (ids st).
  Proof.
    unfold apply_new_criterion. intros H D. binv H. binv H. cbv zeta in H. binv H. binv H.
    destruct x2 as [[crits params] added]. binv H. binv H. binv H. injection H as <- <-. cbn [st_crits].
    apply (fold_res_inv (create_step e p x0) (created_ok (ids cur))) in E2.
    - destruct E2 as [E2 D2]. cbn [fst snd] in E2, D2. do 2 eexists. split; [reflexivity|]. split; [|exact D2].
      rewrite E2, map_map. reflexivity.
    - intros s x' s'. apply create_step_ok.
    - split; cbn [fst snd map]; [now rewrite app_nil_r|exact D].
  Qed.

  Lemma anchoring_form e cur p st rep : apply_anchoring e cur p = Ok (st, rep) ->
    exists refs scal sc diffs ar, rep = RAnchoring refs scal diffs ar /\
      (apply_inline cur p sc diffs = Ok (st, ar) \/ apply_new_criterion e cur p sc diffs = Ok (st, ar)).
  Proof.
    unfold apply_anchoring. intros H.
    destruct (bp_anch_alts p) as [|aa0 aas]; [discriminate|].
    destruct (negb (known_fun (bp_anch_loss p)) || negb (known_fun (bp_anch_gain p))); [discriminate|].
    destruct (negb (String.eqb (bp_anch_applier p) ap_inline || String.eqb (bp_anch_applier p) ap_new)); [discriminate|].
    cbv zeta in H. binv H.
    destruct (negb (String.eqb (bp_anch_ref p) rp_ideal || String.eqb (bp_anch_ref p) rp_nadir)); [discriminate|].
    binv H. destruct (negb (valid_bounding p)); [discriminate|]. binv H. binv H.
    destruct (String.eqb (bp_anch_applier p) ap_inline) eqn:AP; binv H; destruct x3 as [st' ar]; cbn [fst snd] in H;
      injection H as <- <-; do 5 eexists; (split; [reflexivity|]); [left|right]; eassumption.
  Qed.

  Theorem anchoring_reported e cur p st rep :
    apply_anchoring e cur p = Ok (st, rep) -> NoDup (map c_id (st_crits cur)) -> crits_as_reported cur st rep = true.
  Proof.
    intros H D. apply anchoring_form in H as (refs & scal & sc & diffs & ar & -> & [H|H]).
    - apply inline_form in H as (C & d & ->). now apply unchanged_reported.
    - apply (new_criterion_form _ _ _ _ _ _ _ H) in D as (refc & added & -> & E & D').
      apply crits_as_reported_ideq. cbn [omitted_ids]. split; [intros x []|].
      unfold apply_report_ids. cbn [omitted_ids added_ids]. rewrite drop_ids_nil, <- E. now apply ideq_refl.
  Qed.

  (** *** any bias *)
  Theorem apply_bias_reported e name cur p st rep :
    apply_bias e name cur p = Ok (st, rep) -> NoDup (map c_id (st_crits cur)) -> crits_as_reported cur st rep = true.
  Proof.
    unfold apply_bias. intros H D.
    destruct (String.eqb name b_omission); [eapply omission_reported; eassumption|].
    destruct (String.eqb name b_reversal); [eapply reversal_reported; eassumption|].
    destruct (String.eqb name b_fatigue); [eapply fatigue_reported; eassumption|].
    destruct (String.eqb name b_concealment); [eapply concealment_reported; eassumption|].
    destruct (String.eqb name b_mixing); [eapply mixing_reported; eassumption|].
    destruct (String.eqb name b_anchoring); [eapply anchoring_reported; eassumption|].
    discriminate.
  Qed.

  (* the hypothesis is handed on *)
  Theorem apply_bias_nodup_crits e name cur p st rep :
    apply_bias e name cur p = Ok (st, rep) -> NoDup (map c_id (st_crits cur)) -> NoDup (map c_id (st_crits st)).
  Proof. intros H D. eapply crits_as_reported_nodup. eapply apply_bias_reported; eassumption. Qed.

  (** ** 4. Sequences *)
  (* the stages of a run: consecutive states related by the checker through the echoed reports *)
  Inductive reported_chain : state -> list echo -> state -> Prop :=
  | rc_nil s : reported_chain s [] s
  | rc_cons s s1 st ec rest :
      crits_as_reported s s1 (ec_report ec) = true -> reported_chain s1 rest st -> reported_chain s (ec :: rest) st.

  Theorem process_biases_chain e : forall bs cur g st echoes,
    process_biases e bs cur g = Ok (st, echoes) -> NoDup (map c_id (st_crits cur)) -> reported_chain cur echoes st.
  Proof.
    induction bs as [|b rest IH]; intros cur g st echoes H D; cbn [process_biases] in H.
    - injection H as <- <-. constructor.
    - binv H. destruct (nltb (fst x) (b_prob b)).
      + binv H. binv H. injection H as <- <-. destruct x0 as [st1 rep1]. destruct x1 as [st2 ech2]. cbn [fst snd] in *.
        apply (rc_cons cur st1); cbn [ec_report].
        * eapply apply_bias_reported; eassumption.
        * eapply IH; [eassumption|]. eapply apply_bias_nodup_crits; eassumption.
      + binv H. injection H as <- <-. destruct x0 as [st2 ech2]. cbn [fst snd] in *.
        apply (rc_cons cur cur); cbn [ec_report].
        * now apply unchanged_reported.
        * eapply IH; eassumption.
  Qed.

  (* [apply_report_ids] respects equality of id sets *)
  Lemma apply_report_ids_congr l1 l2 r :
    ideq l1 l2 -> NoDup (apply_report_ids l1 r) -> ideq (apply_report_ids l1 r) (apply_report_ids l2 r).
  Proof.
    intros (D1 & D2 & E) Df. split; [exact Df|].
    assert (M : forall x, In x (drop_ids (omitted_ids r) l2) -> In x (drop_ids (omitted_ids r) l1)).
    { intros x. rewrite !drop_ids_In, E. tauto. }
    split.
    - unfold apply_report_ids in *. apply nodup_app_intro.
      + now apply drop_ids_nodup.
      + now apply NoDup_app_r in Df.
      + intros x Hx Ha. apply (nodup_app_disjoint _ _ Df x); [now apply M|exact Ha].
    - intros x. rewrite !apply_report_ids_In, E. reflexivity.
  Qed.

  Lemma report_step l0 before after rep :
    ideq (ids before) l0 -> crits_as_reported before after rep = true -> ideq (ids after) (apply_report_ids l0 rep).
  Proof.
    intros E H. apply crits_as_reported_ideq in H as [_ H]. eapply ideq_trans; [exact H|].
    apply apply_report_ids_congr; [exact E|]. apply H.
  Qed.

  (* a fact about the checker alone: if it accepts every stage, the final ids are the fold of the reports *)
  Theorem reported_chain_fold cur echoes st : reported_chain cur echoes st ->
    forall l0, ideq (map c_id (st_crits cur)) l0 ->
    ideq (map c_id (st_crits st)) (fold_left apply_report_ids (map ec_report echoes) l0).
  Proof.
    induction 1 as [s|s s1 st ec rest H _ IH]; intros l0 E; cbn [map fold_left]; [exact E|].
    apply IH. eapply report_step; eassumption.
  Qed.

  (** requested: along a run, the criteria are the initial ones minus all reported omissions plus all reported additions *)
  Theorem process_biases_reported e bs cur g st echoes :
    process_biases e bs cur g = Ok (st, echoes) -> NoDup (map c_id (st_crits cur)) ->
    same_id_set (map c_id (st_crits st))
                (fold_left apply_report_ids (map ec_report echoes) (map c_id (st_crits cur))) = true.
  Proof.
    intros H D. apply same_id_set_iff. eapply reported_chain_fold.
    - eapply process_biases_chain; eassumption.
    - now apply ideq_refl.
  Qed.

  Corollary process_biases_nodup_crits e bs cur g st echoes :
    process_biases e bs cur g = Ok (st, echoes) -> NoDup (map c_id (st_crits cur)) -> NoDup (map c_id (st_crits st)).
  Proof.
    intros H D. pose proof (process_biases_reported _ _ _ _ _ _ H D) as S. apply same_id_set_iff in S. apply S.
  Qed.

  (* reading of the fold *)
  Lemma fold_ids_origin : forall reps l0 x, In x (fold_left apply_report_ids reps l0) ->
    In x l0 \/ exists r, In r reps /\ In x (added_ids r).
  Proof.
    induction reps as [|r rest IH]; intros l0 x H; cbn [fold_left] in H; [now left|].
    apply IH in H as [H|(r' & Hr & Hx)].
    - apply apply_report_ids_In in H as [[H _]|H]; [now left|]. right. exists r. split; [now left|exact H].
    - right. exists r'. split; [now right|exact Hx].
  Qed.

  Lemma fold_ids_lost : forall reps l0 x, In x l0 -> ~ In x (fold_left apply_report_ids reps l0) ->
    exists r, In r reps /\ In x (omitted_ids r).
  Proof.
    induction reps as [|r rest IH]; intros l0 x H0 H; cbn [fold_left] in H; [contradiction|].
    destruct (mem_str x (omitted_ids r)) eqn:M.
    - apply mem_str_In in M. exists r. split; [now left|exact M].
    - apply mem_str_false in M.
      destruct (IH (apply_report_ids l0 r) x) as (r' & Hr & Hx); [|exact H|].
      + apply apply_report_ids_In. left. now split.
      + exists r'. split; [now right|exact Hx].
  Qed.

  (** the clause itself: a criterion of the final state that was not there at the start was reported as added by
      some echo; a criterion of the start that is gone at the end was reported as omitted by some echo *)
  Theorem process_biases_appear_only_reported e bs cur g st echoes :
    process_biases e bs cur g = Ok (st, echoes) -> NoDup (map c_id (st_crits cur)) ->
    forall id, In id (map c_id (st_crits st)) -> ~ In id (map c_id (st_crits cur)) ->
    exists ec, In ec echoes /\ In id (added_ids (ec_report ec)).
  Proof.
    intros H D id Ha Hb. pose proof (process_biases_reported _ _ _ _ _ _ H D) as S.
    apply same_id_set_iff in S. destruct S as (_ & _ & S). apply S in Ha.
    apply fold_ids_origin in Ha as [Ha|(r & Hr & Hx)]; [contradiction|].
    apply in_map_iff in Hr as (ec & <- & Hec). now exists ec.
  Qed.

  Theorem process_biases_disappear_only_reported e bs cur g st echoes :
    process_biases e bs cur g = Ok (st, echoes) -> NoDup (map c_id (st_crits cur)) ->
    forall id, In id (map c_id (st_crits cur)) -> ~ In id (map c_id (st_crits st)) ->
    exists ec, In ec echoes /\ In id (omitted_ids (ec_report ec)).
  Proof.
    intros H D id Hb Ha. pose proof (process_biases_reported _ _ _ _ _ _ H D) as S.
    apply same_id_set_iff in S. destruct S as (_ & _ & S).
    destruct (fold_ids_lost (map ec_report echoes) (ids cur) id Hb) as (r & Hr & Hx).
    - intros F. apply Ha. now apply S.
    - apply in_map_iff in Hr as (ec & <- & Hec). now exists ec.
  Qed.
End Reported.

(** ** 5. Examples on [NumQc] *)
Module Examples.
  Import QArith Qcanon NumQc.
  Local Open Scope string_scope.
  Local Open Scope list_scope.

  Definition q (a : Z) (b : positive) : @Num.num NumQc := Q2Qc (a # b).
  Definition fp0 : @fparams NumQc :=
    {| fp_name := "linear"; fp_a := q 1 1; fp_b := q 0 1; fp_alpha := q 0 1; fp_mult := q 0 1 |}.
  (* split: exactly one criterion is omitted; ordering "weakest"; mixing ratio 1/2 *)
  Definition bp0 : @bprops NumQc := {|
    bp_ordering := ""; bp_ratio := q 1 2; bp_min := 1; bp_max := 1; bp_seed := 0;
    bp_scaling := q 1 1; bp_nonneg := false; bp_ref_type := ""; bp_ref_importance := q 1 2; bp_ref_seed := 0;
    bp_new_scaling := q 1 1; bp_mix_ratio := q 1 2;
    bp_fat_function := "const"; bp_fat_value := q 1 10; bp_fat_alpha := q 0 1; bp_fat_mult := q 0 1; bp_fat_query := 0;
    bp_anch_alts := []; bp_anch_loss := fp0; bp_anch_gain := fp0; bp_anch_ref := "ideal"; bp_anch_applier := "inline";
    bp_anch_not_considered := false |}.
  Definition env0 : @env NumQc :=
    {| env_streams := [(0%Z, [q 1 2; q 1 3; q 1 4; q 1 5; q 1 6; q 1 7; q 1 8]); (7%Z, [q 0 1; q 0 1; q 0 1])];
       env_exp := [] |}.
  Definition cr (id : string) : @crit NumQc := {| c_id := id; c_type := TGain; c_range := None |}.
  Definition A1 : @alt NumQc := {| a_id := "x"; a_vals := [("a", q 1 1); ("b", q 2 1); ("c", q 5 1)] |}.
  Definition A2 : @alt NumQc := {| a_id := "y"; a_vals := [("a", q 3 1); ("b", q 1 1); ("c", q 4 1)] |}.
  (* three criteria *)
  Definition s0 : @state NumQc :=
    {| st_notcons := [A2]; st_cons := [A1]; st_crits := [cr "a"; cr "b"; cr "c"];
       st_params := PWs [(cr "a", q 1 1); (cr "b", q 2 1); (cr "c", q 3 1)] |}.

  (** requested: omission of one criterion, then mixing; the checker holds at both stages, and fails at the second
      one when the report is replaced by [RNone] (a criterion appeared that nobody reported) *)
  Definition run :=
    do r1 <- apply_bias env0 b_omission s0 bp0;
    do r2 <- apply_bias env0 b_mixing (fst r1) bp0;
    Ok (crits_as_reported s0 (fst r1) (snd r1), crits_as_reported (fst r1) (fst r2) (snd r2),
        crits_as_reported (fst r1) (fst r2) RNone,
        map c_id (st_crits (fst r1)), omitted_ids (snd r1), map c_id (st_crits (fst r2)), added_ids (snd r2)).

  Example omission_then_mixing :
    run = Ok (true, true, false, ["b"; "c"], ["a"], ["b"; "c"; "__c+b__"], ["__c+b__"]).
  Proof. vm_compute. reflexivity. Qed.

  (* likewise the first stage fails when its report is withheld, or names a criterion that was not omitted *)
  Example omission_unreported :
    match apply_bias env0 b_omission s0 bp0 with
    | Ok (st, _) => Some (crits_as_reported s0 st RNone, crits_as_reported s0 st (ROmission [cr "b"]),
                          crits_as_reported s0 st (ROmission [cr "a"]))
    | Err _ => None
    end = Some (false, false, true).
  Proof. vm_compute. reflexivity. Qed.

  Definition breq (name : string) : @biasreq NumQc :=
    {| b_name := name; b_disabled := false; b_prob := q 1 1; b_props := bp0 |}.
  Definition trace (bs : list (@biasreq NumQc)) (s : @state NumQc) :=
    do r <- process_biases env0 bs s (new_rng env0 7);
    Ok (map c_id (st_crits (fst r)),
        map (fun ec => (ec_fired ec, omitted_ids (ec_report ec), added_ids (ec_report ec))) (snd r),
        fold_left apply_report_ids (map ec_report (snd r)) (map c_id (st_crits s))).

  (* the same two stages through [process_biases], and the fold of [process_biases_reported] *)
  Example omission_then_mixing_run :
    trace [breq b_omission; breq b_mixing] s0 =
    Ok (["b"; "c"; "__c+b__"], [(true, ["a"], []); (true, [], ["__c+b__"])], ["b"; "c"; "__c+b__"]).
  Proof. vm_compute. reflexivity. Qed.

  (** an id comes back after it was omitted (why [apply_report_ids] is subtraction, then append, stage by stage):
      concealment adds "__concealedCriterion__", the omission drops exactly that criterion (it is the weakest one),
      the second concealment takes the name again *)
  Definition B1 : @alt NumQc := {| a_id := "x"; a_vals := [("a", q 10 1); ("b", q 2 1); ("c", q 5 1)] |}.
  Definition s1 : @state NumQc :=
    {| st_notcons := [A2]; st_cons := [B1]; st_crits := [cr "a"; cr "b"; cr "c"];
       st_params := PWs [(cr "a", q 1 1); (cr "b", q 2 1); (cr "c", q 3 1)] |}.
  Example id_reused_after_omission :
    trace [breq b_concealment; breq b_omission; breq b_concealment] s1 =
    Ok (["b"; "a"; "c"; "__concealedCriterion__"],
        [(true, [], ["__concealedCriterion__"]); (true, ["__concealedCriterion__"], []);
         (true, [], ["__concealedCriterion__"])],
        ["a"; "b"; "c"; "__concealedCriterion__"]).
  Proof. vm_compute. reflexivity. Qed.
End Examples.

Print Assumptions same_id_set_iff.
Print Assumptions crits_as_reported_eq.
Print Assumptions crits_as_reported_sound.
Print Assumptions crits_as_reported_iff.
Print Assumptions omission_reported.
Print Assumptions reversal_reported.
Print Assumptions fatigue_reported.
Print Assumptions concealment_reported.
Print Assumptions mixing_reported.
Print Assumptions anchoring_reported.
Print Assumptions apply_bias_reported.
Print Assumptions apply_bias_nodup_crits.
Print Assumptions process_biases_chain.
Print Assumptions reported_chain_fold.
Print Assumptions process_biases_reported.
Print Assumptions process_biases_nodup_crits.
Print Assumptions process_biases_appear_only_reported.
Print Assumptions process_biases_disappear_only_reported.
Print Assumptions Examples.omission_then_mixing.
Print Assumptions Examples.omission_unreported.
Print Assumptions Examples.omission_then_mixing_run.
Print Assumptions Examples.id_reused_after_omission.
