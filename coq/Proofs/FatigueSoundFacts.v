(** * C17, soundness of the checker [C17_ok] of Check/BiasCheckers.v: what the checker means.

    [C17_ok e p before after rep] is evaluated on data observed from the running program, so nothing is assumed
    about its arguments. [C17_ok_sound] (any carrier with [OrdLaws], where [nsame] is equality) says that whenever
    the checker answers [true] the report is a fatigue report [RFatigue f cons_r ncons_r] and [C17_spec] holds:

    - [c17_report_values]    the report carries exactly the considered / not considered alternatives handed on;
    - [c17_report_ratio]     the reported [f] is the configured ratio: the constant, or
                             multiplier * exp(alpha * queryNumber) - multiplier with exp read from the oracle of [e];
    - [c17_criteria_untouched], [c17_params_untouched]   criteria and method parameters are handed on unchanged;
    - [c17_same_alternatives] the same alternative ids, in the same order, in both halves;
    - [c17_values_moved]     alternative by alternative (same id), every criterion of [before] has a value [v] before
                             and a value [v'] after, the range of the criterion is defined, the new value map has as
                             many entries as there are criteria, and [value_moved] holds of [v], [v']:
         without bounding ([vm_before_bounding]) |v' - v| <= |f v| + slack, and ([vm_zero_unchanged]) f = 0 -> v' = v;
         with bounding    ([vm_after_bounding])  bound (v - |f v|) - slack <= v' <= bound (v + |f v|) + slack, and
                          ([vm_zero_bounded]) f = 0 -> v' = bound v,
         where slack = 1e-9 * (|v| + |f v|) ([c_tol_rel]) and bound = the model's [bound_value] for the criterion's range
         (declaratively: [FatigueFacts.bounding_spec]: raise to 0 if negatives are disallowed, then clip into the range
         scaled about its centre).

    On [NumQc] the order is that of [Qc] ([C17_ok_sound_Qc], [value_moved_Qc]), the oracle entry is a member of the
    table ([oracle_maps_Qc_In]) and the bounded value lies in the clipped range up to the slack
    ([moved_in_clipped_range], [moved_nonneg]). [tolerance_is_tested]: the checker does accept a value moved by more than
    |f v| (within the slack), so the clause of the text holds only up to the relative tolerance 1e-9.
    [Examples]: the checker answers [true] on the outputs of the model (constant and exponential ratio, with and
    without bounding), so the hypothesis of the theorems is satisfiable. *)
From Coq Require Import ZArith QArith Qcanon Qabs Bool List String Lia Lqa.
From RDM Require Import Base.Num Base.NumQc Base.Util Model.Data Model.Rank Model.Utility Model.Levels
     Model.Heuristics Model.Electre Model.Listeners Model.Biases Check.Stage Check.BiasCheckers
     Proofs.LevelFacts Proofs.AggregateFacts Proofs.ReversalFacts Proofs.FatigueFacts.
Import ListNotations.
Local Open Scope string_scope.
Local Open Scope list_scope.

(** ** 0. Generic list facts *)
Lemma list_eqb_eq {A} (f : A -> A -> bool) : (forall x y, f x y = true -> x = y) ->
  forall l l', list_eqb f l l' = true -> l = l'.
Proof.
  intros Hf. induction l as [|x r IH]; intros [|y s] H; cbn [list_eqb] in H; try discriminate; [reflexivity|].
  apply andb_true_iff in H as [H1 H2]. f_equal; [now apply Hf|now apply IH].
Qed.

Lemma Forall2_app_split {A B} (R : A -> B -> Prop) : forall (l1 : list A) (l1' : list B) l2 l2',
  List.length l1 = List.length l1' -> Forall2 R (l1 ++ l2) (l1' ++ l2') -> Forall2 R l1 l1' /\ Forall2 R l2 l2'.
Proof.
  induction l1 as [|x r IH]; intros [|y s] l2 l2' Hl H; cbn [List.length] in Hl; try discriminate.
  - split; [constructor|exact H].
  - cbn [app] in H. inversion H as [|? ? ? ? Hxy Hr]; subst. injection Hl as Hl.
    destruct (IH s l2 l2' Hl Hr) as [A1 A2]. split; [constructor|]; assumption.
Qed.

Lemma Forall2_weaken {A B} (R S : A -> B -> Prop) : (forall x y, R x y -> S x y) ->
  forall l l', Forall2 R l l' -> Forall2 S l l'.
Proof. intros HI l l' H. induction H; constructor; auto. Qed.

Lemma map_eq_length {A B C} (f : A -> C) (g : B -> C) l l' : map f l = map g l' -> List.length l = List.length l'.
Proof. intros E. rewrite <- (map_length f l), <- (map_length g l'). now rewrite E. Qed.

(** ** 1. On a carrier with [OrdLaws] the comparisons of observed data ([nsame], [alt_same], [crit_same],
       [params_same]) are equalities *)
Section Equalities.
  Context {N : Num} {L : OrdLaws N}.

  Lemma smap_same_eq (a b : smap num) : smap_same a b = true -> a = b.
  Proof.
    unfold smap_same. apply list_eqb_eq. intros [k v] [k' v'] H. cbn [fst snd] in H.
    apply andb_true_iff in H as [H1 H2]. apply String.eqb_eq in H1. apply same_eq in H2. now subst.
  Qed.

  Lemma alt_same_eq (a b : alt) : alt_same a b = true -> a = b.
  Proof.
    destruct a as [i v], b as [i' v']. unfold alt_same. cbn [a_id a_vals]. intros H.
    apply andb_true_iff in H as [H1 H2]. apply String.eqb_eq in H1. apply smap_same_eq in H2. now subst.
  Qed.

  Lemma alts_same_eq (l l' : list alt) : list_eqb alt_same l l' = true -> l = l'.
  Proof. apply list_eqb_eq. exact alt_same_eq. Qed.

  Lemma pair_nsame_eq (x y : num * num) : nsame (fst x) (fst y) && nsame (snd x) (snd y) = true -> x = y.
  Proof.
    destruct x, y. cbn [fst snd]. intros H. apply andb_true_iff in H as [H1 H2].
    apply same_eq in H1, H2. now subst.
  Qed.

  Lemma ctype_eqb_eq (a b : ctype) : ctype_eqb a b = true -> a = b.
  Proof. destruct a, b; cbn [ctype_eqb]; intros H; try discriminate; reflexivity. Qed.

  Lemma range_same_eq (a b : option (num * num)) : range_same a b = true -> a = b.
  Proof.
    unfold range_same. destruct a as [x|], b as [y|]; cbn [option_eqb]; intros H; try discriminate; [|reflexivity].
    f_equal. now apply pair_nsame_eq.
  Qed.

  Lemma crit_same_eq (a b : crit) : crit_same a b = true -> a = b.
  Proof.
    destruct a as [i t r], b as [i' t' r']. unfold crit_same. cbn [c_id c_type c_range]. intros H.
    apply andb_true_iff in H as [H H3]. apply andb_true_iff in H as [H1 H2].
    apply String.eqb_eq in H1. apply ctype_eqb_eq in H2. apply range_same_eq in H3. now subst.
  Qed.

  Lemma crits_same_eq (l l' : list crit) : list_eqb crit_same l l' = true -> l = l'.
  Proof. apply list_eqb_eq. exact crit_same_eq. Qed.

  Lemma wcrit_same_eq (a b : wcrit) : wcrit_same a b = true -> a = b.
  Proof.
    destruct a as [c w], b as [c' w']. unfold wcrit_same. cbn [fst snd]. intros H.
    apply andb_true_iff in H as [H1 H2]. apply crit_same_eq in H1. apply same_eq in H2. now subst.
  Qed.

  Lemma linfun_same_eq (a b : linfun) : linfun_same a b = true -> a = b.
  Proof.
    destruct a as [x y], b as [x' y']. unfold linfun_same. cbn [lf_a lf_b]. intros H.
    apply andb_true_iff in H as [H1 H2]. apply same_eq in H1, H2. now subst.
  Qed.

  Lemma ecrit_same_eq (a b : ecrit) : ecrit_same a b = true -> a = b.
  Proof.
    destruct a as [k q p v], b as [k' q' p' v']. unfold ecrit_same. cbn [ec_k ec_q ec_p ec_v]. intros H.
    apply andb_true_iff in H as [H H4]. apply andb_true_iff in H as [H H3]. apply andb_true_iff in H as [H1 H2].
    apply same_eq in H1. apply linfun_same_eq in H2, H3, H4. now subst.
  Qed.

  Lemma lparams_same_eq (a b : lparams) : lparams_same a b = true -> a = b.
  Proof.
    destruct a as [c mx mn t], b as [c' mx' mn' t']. unfold lparams_same. cbn [lp_coef lp_max lp_min lp_ths]. intros H.
    apply andb_true_iff in H as [H H4]. apply andb_true_iff in H as [H H3]. apply andb_true_iff in H as [H1 H2].
    apply same_eq in H1, H2, H3. apply (list_eqb_eq _ smap_same_eq) in H4. now subst.
  Qed.

  Lemma ecrits_same_eq (l l' : list (string * ecrit)) :
    list_eqb (fun x y => String.eqb (fst x) (fst y) && ecrit_same (snd x) (snd y)) l l' = true -> l = l'.
  Proof.
    apply list_eqb_eq. intros [k x] [k' x'] H. cbn [fst snd] in H. apply andb_true_iff in H as [H1 H2].
    apply String.eqb_eq in H1. apply ecrit_same_eq in H2. now subst.
  Qed.

  Ltac conv :=
    repeat match goal with
           | H : andb _ _ = true |- _ => apply andb_true_iff in H; destruct H
           | H : String.eqb _ _ = true |- _ => apply String.eqb_eq in H
           | H : Z.eqb _ _ = true |- _ => apply Z.eqb_eq in H
           | H : Bool.eqb _ _ = true |- _ => apply Bool.eqb_prop in H
           | H : smap_same _ _ = true |- _ => apply smap_same_eq in H
           | H : linfun_same _ _ = true |- _ => apply linfun_same_eq in H
           | H : lparams_same _ _ = true |- _ => apply lparams_same_eq in H
           | H : list_eqb wcrit_same _ _ = true |- _ => apply (list_eqb_eq _ wcrit_same_eq) in H
           | H : list_eqb crit_same _ _ = true |- _ => apply crits_same_eq in H
           | H : list_eqb _ _ _ = true |- _ => apply ecrits_same_eq in H
           end.

  (** the method parameters compared by the checker are equal *)
  Lemma params_same_eq (a b : mparams) : params_same a b = true -> a = b.
  Proof.
    destruct a, b; cbn [params_same]; intros H; try discriminate; conv; subst; reflexivity.
  Qed.

  Lemma str_list_eqb_eq (l l' : list string) : list_eqb String.eqb l l' = true -> l = l'.
  Proof. apply list_eqb_eq. intros x y. apply String.eqb_eq. Qed.

  Lemma same_split_eq (a b : state) : same_split a b = true ->
    map a_id (st_cons b) = map a_id (st_cons a) /\ map a_id (st_notcons b) = map a_id (st_notcons a).
  Proof.
    unfold same_split. intros H. apply andb_true_iff in H as [H1 H2].
    apply str_list_eqb_eq in H1, H2. split; congruence.
  Qed.
End Equalities.

(** ** 2. The declarative statement of C17 (any carrier) *)
Section Spec.
  Context {N : Num}.

  (** *** the exponential read from the oracle shipped with the case: the first entry whose key is [==] the argument *)
  Inductive oracle_maps : list (num * num) -> num -> num -> Prop :=
  | oracle_here k y l x : neqb x k = true -> oracle_maps ((k, y) :: l) x y
  | oracle_later k y' l x y : neqb x k = false -> oracle_maps l x y -> oracle_maps ((k, y') :: l) x y.

  Lemma lookup_num_oracle l x y : lookup_num x l = Some y <-> oracle_maps l x y.
  Proof.
    induction l as [|[k y'] l IH]; cbn [lookup_num].
    - split; [discriminate|]. intros H. inversion H.
    - destruct (neqb x k) eqn:E.
      + split.
        * intros H. injection H as ->. now constructor.
        * intros H. inversion H; subst; [reflexivity|congruence].
      + split.
        * intros H. apply oracle_later; [exact E|]. now apply IH.
        * intros H. inversion H; subst; [congruence|]. now apply IH.
  Qed.

  Lemma oracle_maps_In l x y : oracle_maps l x y -> exists k, In (k, y) l /\ neqb x k = true.
  Proof.
    induction 1 as [k y l x E|k y' l x y E _ (k0 & I & E0)].
    - exists k. split; [now left|exact E].
    - exists k0. split; [now right|exact E0].
  Qed.

  (** *** the configured ratio: the constant `value`, or multiplier * e^(alpha * queryNumber) - multiplier *)
  Definition ratio_configured (e : env) (p : bprops) (f : num) : Prop :=
    (bp_fat_function p = f_const /\ f = bp_fat_value p) \/
    (bp_fat_function p = f_exp /\
     exists ex, oracle_maps (env_exp e) (nmul (bp_fat_alpha p) (nofZ (bp_fat_query p))) ex /\
                f = nsub (nmul (bp_fat_mult p) ex) (bp_fat_mult p)).

  Lemma fatigue_ratio_configured e p f : fatigue_ratio e p = Ok f <-> ratio_configured e p f.
  Proof.
    unfold fatigue_ratio, ratio_configured, exp_from_zero, exp_oracle. split.
    - destruct (String.eqb (bp_fat_function p) f_const) eqn:E1.
      { intros H. injection H as <-. left. split; [now apply String.eqb_eq|reflexivity]. }
      destruct (String.eqb (bp_fat_function p) f_exp) eqn:E2; [|discriminate].
      destruct (lookup_num _ (env_exp e)) as [ex|] eqn:El; cbn [of_option bind]; [|discriminate].
      intros H. injection H as <-. right. split; [now apply String.eqb_eq|].
      exists ex. split; [now apply lookup_num_oracle|reflexivity].
    - intros [[E ->]|(E & ex & Ho & ->)]; rewrite E.
      + reflexivity.
      + change (String.eqb f_exp f_const) with false. rewrite String.eqb_refl.
        apply lookup_num_oracle in Ho. rewrite Ho. reflexivity.
  Qed.

  (** *** one value *)
  Definition blur_reach (f v : num) : num := nabs (nmul f v).                                    (* |f v| *)
  Definition blur_slack (f v : num) : num := nmul c_tol_rel (nadd (nabs v) (blur_reach f v)).   (* 1e-9 (|v| + |f v|) *)
  (* no bounding: scaling not positive and negatives allowed *)
  Definition no_bounding (p : bprops) : Prop := nltb nzero (bp_scaling p) = false /\ bp_nonneg p = false.
  Definition bounding_configured (p : bprops) : Prop := nltb nzero (bp_scaling p) = true \/ bp_nonneg p = true.

  Lemma bounding_off_true p : bounding_off p = true <-> no_bounding p.
  Proof. unfold bounding_off, no_bounding. rewrite andb_true_iff, !negb_true_iff. reflexivity. Qed.

  Lemma bounding_off_false p : bounding_off p = false <-> bounding_configured p.
  Proof.
    unfold bounding_off, bounding_configured.
    destruct (nltb nzero (bp_scaling p)), (bp_nonneg p); cbn [negb andb]; split; intros H; auto;
      try discriminate; destruct H; discriminate.
  Qed.

  Lemma bounding_cases p : no_bounding p \/ bounding_configured p.
  Proof. destruct (bounding_off p) eqn:E; [left; now apply bounding_off_true|right; now apply bounding_off_false]. Qed.

  Lemma bounding_exclusive p : no_bounding p -> bounding_configured p -> False.
  Proof. intros [A B] [C|C]; congruence. Qed.

  (** what the checker tests of a value [v] that became [v'] for a criterion of range [r] *)
  Record value_moved (p : bprops) (f : num) (r : num * num) (v v' : num) : Prop := {
    (* before bounding: |v' - v| <= |f v| (+ slack) *)
    vm_before_bounding : no_bounding p ->
      nleb (nabs (nsub v' v)) (nadd (blur_reach f v) (blur_slack f v)) = true;
    (* f = 0 leaves the value unchanged *)
    vm_zero_unchanged : no_bounding p -> neqb f nzero = true -> neqb v' v = true;
    (* with bounding: between the bounded ends of [v - |f v|, v + |f v|] (+- slack) *)
    vm_after_bounding : bounding_configured p ->
      nleb (nsub (bound_value p r (nsub v (blur_reach f v))) (blur_slack f v)) v' = true /\
      nleb v' (nadd (bound_value p r (nadd v (blur_reach f v))) (blur_slack f v)) = true;
    (* f = 0 with bounding: the value is the bounded old value *)
    vm_zero_bounded : bounding_configured p -> neqb f nzero = true -> neqb v' (bound_value p r v) = true;
  }.

  (** *** one alternative [a] that became [b]; [VM] is the relation between the old and the new value *)
  Record alt_moved (VM : bprops -> num -> num * num -> num -> num -> Prop)
         (p : bprops) (before : state) (f : num) (a b : alt) : Prop := {
    am_same_id : a_id b = a_id a;
    (* every criterion value of the alternative is moved as [VM] says; the range is the criterion's value range *)
    am_every_value : forall c, In c (st_crits before) ->
      exists v v' r, mget (c_id c) (a_vals a) = Some v /\ mget (c_id c) (a_vals b) = Some v' /\
                     values_range (all_alts before) c = Ok r /\ VM p f r v v';
    (* as many values as criteria *)
    am_as_many_values : List.length (a_vals b) = List.length (st_crits before);
  }.

  (** *** the whole stage *)
  Record C17_spec_with (VM : bprops -> num -> num * num -> num -> num -> Prop)
         (e : env) (p : bprops) (before after : state) (f : num) (cons_r ncons_r : list alt) : Prop := {
    (* "the report carries ... exactly the values handed on" *)
    c17_report_values : cons_r = st_cons after /\ ncons_r = st_notcons after;
    (* "the report carries f", f the configured ratio *)
    c17_report_ratio : ratio_configured e p f;
    (* "criteria and method parameters are untouched" *)
    c17_criteria_untouched : st_crits after = st_crits before;
    c17_params_untouched : st_params after = st_params before;
    (* the same alternatives, considered and not considered *)
    c17_same_alternatives : map a_id (st_cons after) = map a_id (st_cons before) /\
                            map a_id (st_notcons after) = map a_id (st_notcons before);
    (* "every criterion value v of every known alternative" is moved *)
    c17_values_moved : Forall2 (alt_moved VM p before f) (st_cons before) (st_cons after) /\
                       Forall2 (alt_moved VM p before f) (st_notcons before) (st_notcons after);
  }.

  Definition C17_spec := C17_spec_with value_moved.

  (** the relation on values may be weakened *)
  Lemma alt_moved_impl (VM VM' : bprops -> num -> num * num -> num -> num -> Prop) p before f a b :
    (forall r v v', VM p f r v v' -> VM' p f r v v') -> alt_moved VM p before f a b -> alt_moved VM' p before f a b.
  Proof.
    intros HI [A B C]. constructor; [exact A| |exact C]. intros c Hc.
    destruct (B c Hc) as (v & v' & r & H1 & H2 & H3 & H4). exists v, v', r. split; [exact H1|]. split; [exact H2|]. split; [exact H3|]. now apply HI.
  Qed.

  Lemma C17_spec_impl (VM VM' : bprops -> num -> num * num -> num -> num -> Prop) e p before after f cr nr :
    (forall r v v', VM p f r v v' -> VM' p f r v v') ->
    C17_spec_with VM e p before after f cr nr -> C17_spec_with VM' e p before after f cr nr.
  Proof.
    intros HI [A B C D E [F1 F2]]. constructor; auto.
    split; (eapply Forall2_weaken; [|eassumption]); intros a b; now apply alt_moved_impl.
  Qed.

  (** every known alternative, in the order considered / not considered *)
  Lemma C17_spec_all_alts VM e p before after f cr nr :
    C17_spec_with VM e p before after f cr nr ->
    Forall2 (alt_moved VM p before f) (all_alts before) (all_alts after).
  Proof. intros [_ _ _ _ _ [F1 F2]]. unfold all_alts. now apply Forall2_app. Qed.

  (** *** what the checker tests of one pair of alternatives *)
  Lemma value_tested_sound p f r v v' :
    (if bounding_off p
     then nleb (nabs (nsub v' v)) (nadd (nabs (nmul f v)) (nmul c_tol_rel (nadd (nabs v) (nabs (nmul f v)))))
          && (negb (neqb f nzero) || neqb v' v)
     else within (nsub (bound_value p r (nsub v (nabs (nmul f v)))) (nmul c_tol_rel (nadd (nabs v) (nabs (nmul f v)))))
                 (nadd (bound_value p r (nadd v (nabs (nmul f v)))) (nmul c_tol_rel (nadd (nabs v) (nabs (nmul f v))))) v'
          && (negb (neqb f nzero) || neqb v' (bound_value p r v))) = true ->
    value_moved p f r v v'.
  Proof.
    intros H. destruct (bounding_off p) eqn:Eb.
    - apply bounding_off_true in Eb. apply andb_true_iff in H as [H1 H2].
      constructor.
      + intros _. exact H1.
      + intros _ Hf. rewrite Hf in H2. exact H2.
      + intros Hc. destruct (bounding_exclusive _ Eb Hc).
      + intros Hc. destruct (bounding_exclusive _ Eb Hc).
    - apply bounding_off_false in Eb. apply andb_true_iff in H as [H1 H2].
      unfold within in H1. apply andb_true_iff in H1 as [H1a H1b].
      constructor.
      + intros Hn. destruct (bounding_exclusive _ Hn Eb).
      + intros Hn. destruct (bounding_exclusive _ Hn Eb).
      + intros _. split; [exact H1a|exact H1b].
      + intros _ Hf. rewrite Hf in H2. exact H2.
  Qed.

  Lemma pair_tested_sound p before f a b :
    forallb (fun c =>
               match mget (c_id c) (a_vals a), mget (c_id c) (a_vals b), values_range (all_alts before) c with
               | Some v, Some v', Ok r =>
                   let d := nabs (nmul f v) in
                   let slack := nmul c_tol_rel (nadd (nabs v) d) in
                   if bounding_off p then
                     nleb (nabs (nsub v' v)) (nadd d slack)
                     && (negb (neqb f nzero) || neqb v' v)
                   else
                     within (nsub (bound_value p r (nsub v d)) slack) (nadd (bound_value p r (nadd v d)) slack) v'
                     && (negb (neqb f nzero) || neqb v' (bound_value p r v))
               | _, _, _ => false
               end) (st_crits before)
    && Nat.eqb (List.length (a_vals b)) (List.length (st_crits before)) = true ->
    (forall c, In c (st_crits before) ->
       exists v v' r, mget (c_id c) (a_vals a) = Some v /\ mget (c_id c) (a_vals b) = Some v' /\
                      values_range (all_alts before) c = Ok r /\ value_moved p f r v v') /\
    List.length (a_vals b) = List.length (st_crits before).
  Proof.
    intros H. apply andb_true_iff in H as [H1 H2]. split; [|now apply Nat.eqb_eq].
    intros c Hc. rewrite forallb_forall in H1. specialize (H1 c Hc). cbv beta zeta in H1.
    destruct (mget (c_id c) (a_vals a)) as [v|]; [|discriminate].
    destruct (mget (c_id c) (a_vals b)) as [v'|]; [|discriminate].
    destruct (values_range (all_alts before) c) as [r|]; [|discriminate].
    exists v, v', r. split; [reflexivity|]. split; [reflexivity|]. split; [reflexivity|].
    apply value_tested_sound. exact H1.
  Qed.

  Lemma halves_moved (R : alt -> alt -> Prop) (before after : state) :
    map a_id (st_cons after) = map a_id (st_cons before) ->
    map a_id (st_notcons after) = map a_id (st_notcons before) ->
    Forall2 R (all_alts before) (all_alts after) ->
    Forall2 (fun a b => a_id b = a_id a /\ R a b) (st_cons before) (st_cons after) /\
    Forall2 (fun a b => a_id b = a_id a /\ R a b) (st_notcons before) (st_notcons after).
  Proof.
    intros E1 E2 H. unfold all_alts in H.
    apply Forall2_app_split in H; [|symmetry; eapply map_eq_length; exact E1].
    assert (K : forall l l', map a_id l' = map a_id l -> Forall2 R l l' ->
                             Forall2 (fun a b => a_id b = a_id a /\ R a b) l l').
    { intros l l' E F. induction F as [|x y l l' Hxy F IH]; [constructor|].
      cbn [map] in E. injection E as Ex El. constructor; [now split|now apply IH]. }
    destruct H as [H1 H2]. split; now apply K.
  Qed.
End Spec.

(** ** 3. Soundness of the checker *)
Section Sound.
  Context {N : Num} {L : OrdLaws N}.

  (** requested *)
  Theorem C17_ok_sound e p before after rep :
    C17_ok e p before after rep = true ->
    exists f cons_r ncons_r, rep = RFatigue f cons_r ncons_r /\ C17_spec e p before after f cons_r ncons_r.
  Proof.
    unfold C17_ok. destruct rep as [| | |f cr nr| | |]; try discriminate. intros H.
    exists f, cr, nr. split; [reflexivity|].
    apply andb_true_iff in H as [H Hv]. apply andb_true_iff in H as [H Hs]. apply andb_true_iff in H as [H Hp].
    apply andb_true_iff in H as [H Hc]. apply andb_true_iff in H as [H Hf]. apply andb_true_iff in H as [Hr1 Hr2].
    apply alts_same_eq in Hr1, Hr2. apply crits_same_eq in Hc. apply params_same_eq in Hp.
    apply same_split_eq in Hs as [Hs1 Hs2].
    destruct (fatigue_ratio e p) as [f'|] eqn:Ef; [|discriminate]. apply same_eq in Hf. subst f'.
    apply ReversalFacts.list_eqb_Forall2 in Hv.
    apply (halves_moved _ before after Hs1 Hs2) in Hv as [F1 F2].
    constructor.
    - now split.
    - now apply fatigue_ratio_configured.
    - now symmetry.
    - now symmetry.
    - now split.
    - split; (eapply Forall2_weaken; [|eassumption]); intros a b [Hid Hab]; cbv beta in Hab;
        apply pair_tested_sound in Hab as [A B]; constructor; assumption.
  Qed.

  (** the report is a fatigue report *)
  Corollary C17_ok_report e p before after rep :
    C17_ok e p before after rep = true -> exists f, rep = RFatigue f (st_cons after) (st_notcons after).
  Proof.
    intros H. apply C17_ok_sound in H as (f & cr & nr & -> & [[-> ->] _ _ _ _ _]). now exists f.
  Qed.
End Sound.

(** the new value map holds exactly the criteria, when criterion ids and the keys of the map are pairwise distinct
    (neither is tested by [C17_ok]; the invariant [inv] of Check/Stage.v tests the first) *)
Lemma alt_moved_keys {N : Num} VM p (before : state) f (a b : alt) :
  alt_moved VM p before f a b -> NoDup (map c_id (st_crits before)) ->
  forall k, In k (mkeys (a_vals b)) <-> In k (map c_id (st_crits before)).
Proof.
  intros [_ Hv Hl] ND k.
  assert (I : incl (map c_id (st_crits before)) (mkeys (a_vals b))).
  { intros x Hx. apply in_map_iff in Hx as (c & <- & Hc). destruct (Hv c Hc) as (v & v' & r & _ & G & _).
    apply AggregateFacts.mget_in in G. unfold mkeys. apply in_map_iff. exists (c_id c, v'). split; [reflexivity|exact G]. }
  split; [|apply I].
  apply (NoDup_length_incl ND); [|exact I]. unfold mkeys. rewrite !map_length. rewrite Hl. apply Nat.le_refl.
Qed.

(** ** 4. On exact rationals: the order of [Qc], equalities *)
Local Open Scope Qc_scope.

Definition reach (f v : Qc) : Qc := qc_abs (f * v).                                         (* |f v| *)
Definition slack (f v : Qc) : Qc := Q2Qc (1 # 1000000000) * (qc_abs v + reach f v).         (* 1e-9 (|v| + |f v|) *)
Definition bounded (p : @bprops NumQc) (r : Qc * Qc) (x : Qc) : Qc := @bound_value NumQc p r x.

Record value_moved_Qc (p : @bprops NumQc) (f : Qc) (r : Qc * Qc) (v v' : Qc) : Prop := {
  q_before_bounding : bp_scaling p <= 0 -> bp_nonneg p = false -> qc_abs (v' - v) <= reach f v + slack f v;
  q_zero_unchanged : bp_scaling p <= 0 -> bp_nonneg p = false -> f = 0 -> v' = v;
  q_after_bounding : 0 < bp_scaling p \/ bp_nonneg p = true ->
    bounded p r (v - reach f v) - slack f v <= v' /\ v' <= bounded p r (v + reach f v) + slack f v;
  q_zero_bounded : 0 < bp_scaling p \/ bp_nonneg p = true -> f = 0 -> v' = bounded p r v;
}.

Lemma no_bounding_Qc (p : @bprops NumQc) : no_bounding p <-> bp_scaling p <= 0 /\ bp_nonneg p = false.
Proof. unfold no_bounding. change (@nzero NumQc) with 0. now rewrite nltb_false_iff. Qed.

Lemma bounding_configured_Qc (p : @bprops NumQc) : bounding_configured p <-> 0 < bp_scaling p \/ bp_nonneg p = true.
Proof. unfold bounding_configured. change (@nzero NumQc) with 0. now rewrite nltb_iff. Qed.

Theorem value_moved_Qc_iff (p : @bprops NumQc) (f : Qc) (r : Qc * Qc) (v v' : Qc) :
  value_moved p f r v v' <-> value_moved_Qc p f r v v'.
Proof.
  split.
  - intros [A B C D]. constructor.
    + intros S Nn. apply nleb_iff. apply A. apply no_bounding_Qc. now split.
    + intros S Nn Hf. apply neqb_iff. apply B; [apply no_bounding_Qc; now split|]. now apply neqb_iff.
    + intros Hc. apply bounding_configured_Qc in Hc. destruct (C Hc) as [C1 C2]. split; apply nleb_iff; assumption.
    + intros Hc Hf. apply neqb_iff. apply D; [now apply bounding_configured_Qc|]. now apply neqb_iff.
  - intros [A B C D]. constructor.
    + intros Hn. apply no_bounding_Qc in Hn as [S Nn]. apply nleb_iff. exact (A S Nn).
    + intros Hn Hf. apply no_bounding_Qc in Hn as [S Nn]. apply neqb_iff. apply (B S Nn). now apply neqb_iff in Hf.
    + intros Hc. apply bounding_configured_Qc in Hc. destruct (C Hc) as [C1 C2]. split; apply nleb_iff; assumption.
    + intros Hc Hf. apply bounding_configured_Qc in Hc. apply neqb_iff. apply (D Hc). now apply neqb_iff in Hf.
Qed.

Definition C17_spec_Qc := @C17_spec_with NumQc value_moved_Qc.

(** requested, on [NumQc] *)
Theorem C17_ok_sound_Qc e p (before after : @state NumQc) rep :
  C17_ok e p before after rep = true ->
  exists f cons_r ncons_r, rep = RFatigue f cons_r ncons_r /\ C17_spec_Qc e p before after f cons_r ncons_r.
Proof.
  intros H. apply (C17_ok_sound (L := OrdQc)) in H as (f & cr & nr & E & S).
  exists f, cr, nr. split; [exact E|]. unfold C17_spec_Qc. eapply C17_spec_impl; [|exact S].
  intros r v v'. apply value_moved_Qc_iff.
Qed.

(** the oracle entry read is an entry of the table for exactly the queried argument *)
Lemma oracle_maps_Qc_In (l : list (Qc * Qc)) (x y : Qc) : @oracle_maps NumQc l x y -> In (x, y) l.
Proof. intros H. apply oracle_maps_In in H as (k & I & E). apply neqb_iff in E. now subst. Qed.

Corollary ratio_configured_Qc (e : @env NumQc) p (f : Qc) :
  ratio_configured e p f ->
  (bp_fat_function p = "const" /\ f = bp_fat_value p) \/
  (bp_fat_function p = "expFromZero" /\
   exists ex, In (bp_fat_alpha p * qc_ofZ (bp_fat_query p), ex) (env_exp e) /\ f = bp_fat_mult p * ex - bp_fat_mult p).
Proof.
  intros [H|(E & ex & Ho & ->)]; [left; exact H|right]. split; [exact E|].
  exists ex. split; [|reflexivity]. now apply oracle_maps_Qc_In in Ho.
Qed.

Lemma slack_nonneg_Qc (f v : Qc) : 0 <= slack f v.
Proof. unfold slack, reach. exact (FatigueFacts.slack_nonneg _ _ (nabs_nonneg v) (nabs_nonneg (f * v))). Qed.

(** *** consequences of the bounding clause: membership in the clipped range, up to the slack *)
Lemma clip_le_hi (lo hi x : Qc) : clip lo hi x <= hi.
Proof. unfold clip. destruct (Qcmin_cases hi (Qcmax lo x)) as [[A ->]|[A ->]]; [apply Qcle_refl|exact A]. Qed.

Lemma clip_ge_lo (lo hi x : Qc) : lo <= hi -> lo <= clip lo hi x.
Proof.
  intros H. unfold clip. destruct (Qcmin_cases hi (Qcmax lo x)) as [[A ->]|[A ->]]; [exact H|].
  destruct (Qcmax_cases lo x) as [[B ->]|[B ->]]; [apply Qcle_refl|exact B].
Qed.

(** with a positive scaling the new value lies in the criterion's range scaled about its centre
    ([FatigueFacts.scale_equally_centre]), up to the slack *)
Theorem moved_in_clipped_range (p : @bprops NumQc) (f : Qc) (r : Qc * Qc) (v v' : Qc) :
  value_moved_Qc p f r v v' -> 0 < bp_scaling p ->
  let sr := @scale_equally NumQc r (bp_scaling p) in
  v' <= snd sr + slack f v /\ (fst sr <= snd sr -> fst sr - slack f v <= v').
Proof.
  intros [_ _ C _] S sr. destruct (C (or_introl S)) as [C1 C2]. unfold bounded in C1, C2.
  rewrite bounding_spec in C1, C2. apply nltb_iff in S. rewrite S in C1, C2. fold sr in C1, C2.
  split.
  - pose proof (clip_le_hi (fst sr) (snd sr) (raise0 p (v + reach f v))) as K.
    set (y := clip (fst sr) (snd sr) (raise0 p (v + reach f v))) in *. set (s := slack f v) in *.
    qcq. lra.
  - intros Hr. pose proof (clip_ge_lo (fst sr) (snd sr) (raise0 p (v - reach f v)) Hr) as K.
    set (y := clip (fst sr) (snd sr) (raise0 p (v - reach f v))) in *. set (s := slack f v) in *.
    qcq. lra.
Qed.

(** negatives disallowed and no clipping: the new value is not negative, up to the slack *)
Theorem moved_nonneg (p : @bprops NumQc) (f : Qc) (r : Qc * Qc) (v v' : Qc) :
  value_moved_Qc p f r v v' -> bp_nonneg p = true -> bp_scaling p <= 0 -> - slack f v <= v'.
Proof.
  intros [_ _ C _] Nn S. destruct (C (or_intror Nn)) as [C1 _]. unfold bounded in C1.
  rewrite bounding_spec in C1. apply nltb_false_iff in S. rewrite S in C1. unfold raise0 in C1. rewrite Nn in C1.
  destruct (Qcmax_cases 0 (v - reach f v)) as [[B E]|[B E]]; rewrite E in C1.
  - set (s := slack f v) in *. qcq. lra.
  - set (s := slack f v) in *. set (y := v - reach f v) in *. qcq. lra.
Qed.

(** f = 0 without bounding: every criterion value of every known alternative is unchanged *)
Theorem zero_ratio_unchanged e p (before after : @state NumQc) cr nr :
  C17_spec_Qc e p before after 0 cr nr -> bp_scaling p <= 0 -> bp_nonneg p = false ->
  Forall2 (fun a b => a_id b = a_id a /\
                      forall c, In c (st_crits before) -> mget (c_id c) (a_vals b) = mget (c_id c) (a_vals a))
          (all_alts before) (all_alts after).
Proof.
  intros S Sc Nn. apply C17_spec_all_alts in S. eapply Forall2_weaken; [|exact S].
  intros a b [Hid Hv _]. split; [exact Hid|]. intros c Hc.
  destruct (Hv c Hc) as (v & v' & r & -> & -> & _ & [_ Z _ _]). f_equal. now apply Z.
Qed.

(** ** 5. The tolerance is really tested: the checker accepts a value moved by more than |f v| *)
Module Examples.
  Definition crit_g : @crit NumQc := {| c_id := "g"; c_type := TGain; c_range := None |}.
  Definition st_of (v : Qc) : @state NumQc :=
    {| st_notcons := []; st_cons := [{| a_id := "a"; a_vals := [("g", v)] |}]; st_crits := [crit_g];
       st_params := PMajority [("g", xq 1 1)] "" 0 false "" |}.
  Definition p_off := xprops "" (xq 1 2) (xq (-1) 1) false (xq 1 10).
  Definition moved : Qc := xq 1 1 + xq 1 10 + xq 1 10000000000.

  (* v = 1, f = 1/10, v' = 1 + 1/10 + 1e-10: |v' - v| > |f v|, accepted because of the slack 1.1e-9 *)
  Example tolerance_is_tested :
    C17_ok (xenv []) p_off (st_of (xq 1 1)) (st_of moved) (RFatigue (xq 1 10) (st_cons (st_of moved)) []) = true
    /\ ~ (qc_abs (moved - xq 1 1) <= reach (xq 1 10) (xq 1 1)).
  Proof. split; [vm_compute; reflexivity|]. intros H. vm_compute in H. apply H. reflexivity. Qed.

  (* just outside the slack: rejected *)
  Example outside_tolerance_rejected :
    let far := xq 1 1 + xq 1 10 + xq 1 100000000 in
    C17_ok (xenv []) p_off (st_of (xq 1 1)) (st_of far) (RFatigue (xq 1 10) (st_cons (st_of far)) []) = false.
  Proof. vm_compute. reflexivity. Qed.

  (** non-vacuity: the checker answers [true] on what the model produces *)
  Definition run17 e p s :=
    match apply_fatigue e s p with Ok (st, rep) => C17_ok e p s st rep | Err _ => false end.

  (* constant ratio 1/10, no bounding *)
  Example checker_true_unbounded : run17 (xenv xstream) (xprops "" (xq 1 2) (xq (-1) 1) false (xq 1 10)) xs1 = true.
  Proof. vm_compute. reflexivity. Qed.

  (* constant ratio 1/10, negatives disallowed, range scaled by 1/2 *)
  Example checker_true_bounded : run17 (xenv xstream) (xprops "" (xq 1 2) (xq 1 2) true (xq 1 10)) xs1 = true.
  Proof. vm_compute. reflexivity. Qed.

  (* ratio 0: nothing moves *)
  Example checker_true_zero : run17 (xenv xstream) (xprops "" (xq 1 2) (xq (-1) 1) false (xq 0 1)) xs1 = true.
  Proof. vm_compute. reflexivity. Qed.

  (* exponential ratio: alpha = 1/10, query 3, multiplier 2, oracle exp(3/10) := 27/20, so f = 2 * 27/20 - 2 = 7/10 *)
  Definition p_exp : @bprops NumQc :=
    {| bp_ordering := ""; bp_ratio := xq 1 2; bp_min := 0; bp_max := 10; bp_seed := 7;
       bp_scaling := xq 1 1; bp_nonneg := false; bp_ref_type := ""; bp_ref_importance := xq 0 1; bp_ref_seed := 0;
       bp_new_scaling := xq 1 1; bp_mix_ratio := xq 1 2;
       bp_fat_function := "expFromZero"; bp_fat_value := xq 0 1; bp_fat_alpha := xq 1 10; bp_fat_mult := xq 2 1;
       bp_fat_query := 3;
       bp_anch_alts := []; bp_anch_loss := xfp; bp_anch_gain := xfp; bp_anch_ref := ""; bp_anch_applier := "";
       bp_anch_not_considered := false |}.
  Definition e_exp : @env NumQc := {| env_streams := [(7%Z, xstream)]; env_exp := [(xq 3 10, xq 27 20)] |}.

  Example checker_true_exp :
    match apply_fatigue e_exp xs1 p_exp with
    | Ok (st, RFatigue f c n) => (C17_ok e_exp p_exp xs1 st (RFatigue f c n), this f)
    | _ => (false, 0%Q)
    end = (true, (7 # 10)%Q).
  Proof. vm_compute. reflexivity. Qed.

  (* the theorem applied to a run of the model *)
  Lemma run17_spec e p s : run17 e p s = true ->
    exists st f, apply_fatigue e s p = Ok (st, RFatigue f (st_cons st) (st_notcons st)) /\
                 C17_spec_Qc e p s st f (st_cons st) (st_notcons st).
  Proof.
    unfold run17. destruct (apply_fatigue e s p) as [[st rep]|]; [|discriminate]. intros H.
    apply C17_ok_sound_Qc in H as (f & cr & nr & -> & S). pose proof S as [[-> ->] _ _ _ _ _].
    exists st, f. split; [reflexivity|exact S].
  Qed.

  Example checker_true_exp_run : run17 e_exp p_exp xs1 = true.
  Proof. vm_compute. reflexivity. Qed.

  Example spec_holds_on_run :
    exists st f, apply_fatigue e_exp xs1 p_exp = Ok (st, RFatigue f (st_cons st) (st_notcons st)) /\
                 C17_spec_Qc e_exp p_exp xs1 st f (st_cons st) (st_notcons st).
  Proof. exact (run17_spec _ _ _ checker_true_exp_run). Qed.
End Examples.

Print Assumptions C17_ok_sound.
Print Assumptions C17_ok_report.
Print Assumptions C17_ok_sound_Qc.
Print Assumptions fatigue_ratio_configured.
Print Assumptions params_same_eq.
Print Assumptions value_moved_Qc_iff.
Print Assumptions ratio_configured_Qc.
Print Assumptions alt_moved_keys.
Print Assumptions moved_in_clipped_range.
Print Assumptions moved_nonneg.
Print Assumptions zero_ratio_unchanged.
Print Assumptions Examples.tolerance_is_tested.
Print Assumptions Examples.spec_holds_on_run.
